package astits

import (
	"bytes"
	"context"
	"testing"

	"github.com/asticode/go-astikit"
)

// A PAT whose first TS packet carries only the pointer_field (1 payload byte, the rest is adaptation field stuffing)
// and whose section follows in the next packet must still be delivered.
func TestVerifDemoPointerOnlyFirstChunk(t *testing.T) {
	// build pointer_field + PAT section with the library's writer
	pat := &PATData{TransportStreamID: 1, Programs: []*PATProgram{{ProgramMapID: 0x100, ProgramNumber: 1}}}
	sl := calcPATSectionLength(pat)
	psi := &PSIData{Sections: []*PSISection{{
		Header: &PSISectionHeader{SectionLength: calcPSISectionLength(&PSISection{Header: &PSISectionHeader{TableID: PSITableIDPAT}, Syntax: &PSISectionSyntax{Header: &PSISectionSyntaxHeader{}, Data: &PSISectionSyntaxData{PAT: pat}}}), SectionSyntaxIndicator: true, TableID: PSITableIDPAT},
		Syntax: &PSISectionSyntax{Header: &PSISectionSyntaxHeader{CurrentNextIndicator: true, TableIDExtension: 1}, Data: &PSISectionSyntaxData{PAT: pat}},
	}}}
	_ = sl
	sec := &bytes.Buffer{}
	if _, err := writePSIData(astikit.NewBitsWriter(astikit.BitsWriterOptions{Writer: sec}), psi); err != nil {
		t.Fatal(err)
	}
	unit := sec.Bytes() // pointer_field (0) + section

	out := &bytes.Buffer{}
	w := astikit.NewBitsWriter(astikit.BitsWriterOptions{Writer: out})
	// packet 1: PUSI, one payload byte (the pointer field), 182 bytes of adaptation field stuffing
	p1 := &Packet{Header: PacketHeader{PID: 0, PayloadUnitStartIndicator: true, HasPayload: true, HasAdaptationField: true, ContinuityCounter: 0},
		AdaptationField: newStuffingAdaptationField(MpegTsPacketSize - 1 - mpegTsPacketHeaderSize - 1), Payload: unit[:1]}
	if _, err := writePacket(w, p1, MpegTsPacketSize); err != nil {
		t.Fatal(err)
	}
	// packet 2: the section, padded with 0xff by writePacket
	p2 := &Packet{Header: PacketHeader{PID: 0, HasPayload: true, ContinuityCounter: 1}, Payload: unit[1:]}
	if _, err := writePacket(w, p2, MpegTsPacketSize); err != nil {
		t.Fatal(err)
	}
	if out.Len() != 2*MpegTsPacketSize {
		t.Fatalf("stream is %d bytes", out.Len())
	}
	dmx := NewDemuxer(context.Background(), bytes.NewReader(out.Bytes()), DemuxerOptPacketSize(MpegTsPacketSize))
	var pats int
	for {
		d, err := dmx.NextData()
		if err == ErrNoMorePackets {
			break
		}
		if err != nil {
			t.Fatalf("NextData: %v", err)
		}
		if d.PAT != nil {
			pats++
			if len(d.PAT.Programs) != 1 || d.PAT.Programs[0].ProgramMapID != 0x100 {
				t.Fatalf("wrong PAT %+v", d.PAT)
			}
		}
	}
	if pats != 1 {
		t.Fatalf("PAT delivered %d times, want 1", pats)
	}
}
