package astits

import (
	"testing"

	"github.com/asticode/go-astikit"
)

// ISO/IEC 13818-1 2.6.18: the ISO_639_language_descriptor body is a loop of (ISO_639_language_code 24 bits,
// audio_type 8 bits). With two entries the parser returns a 7-byte "language".
func TestVerifDemoISO639TwoEntries(t *testing.T) {
	bs := []byte{0xf0, 0x0a, 0x0a, 0x08, 'e', 'n', 'g', 0x00, 'f', 'r', 'a', 0x03}
	ds, err := parseDescriptors(astikit.NewBytesIterator(bs))
	if err != nil || len(ds) != 1 || ds[0].ISO639LanguageAndAudioType == nil {
		t.Fatalf("unexpected result: %v %v", ds, err)
	}
	if l := ds[0].ISO639LanguageAndAudioType.Language; len(l) != 3 {
		t.Fatalf("language is %q (%d bytes), expected a 3-byte ISO 639 code", l, len(l))
	}
}
