package astits

import (
	"bytes"
	"context"
	"testing"
)

// A caller-provided adaptation field that already asks for stuffing bytes (StuffingLength > 0) on a PES that ends inside
// its first packet: the unit must come back unaltered.
func TestVerifDemoCallerStuffing(t *testing.T) {
	for _, sl := range []int{0, 5} {
		out := &bytes.Buffer{}
		m := NewMuxer(context.Background(), out)
		if err := m.AddElementaryStream(PMTElementaryStream{ElementaryPID: 0x100, StreamType: StreamTypeH264Video}); err != nil {
			t.Fatal(err)
		}
		m.SetPCRPID(0x100)
		payload := bytes.Repeat([]byte{0xab}, 20)
		n, err := m.WriteData(&MuxerData{PID: 0x100, AdaptationField: &PacketAdaptationField{HasPCR: true, PCR: &ClockReference{Base: 1}, StuffingLength: sl},
			PES: &PESData{Data: payload, Header: &PESHeader{StreamID: 0xe0, OptionalHeader: &PESOptionalHeader{MarkerBits: 2, PTSDTSIndicator: PTSDTSIndicatorOnlyPTS, PTS: &ClockReference{Base: 5}}}}})
		if err != nil {
			t.Fatal(err)
		}
		if n != out.Len() || n%188 != 0 {
			t.Fatalf("sl=%d: n=%d len=%d", sl, n, out.Len())
		}
		dmx := NewDemuxer(context.Background(), bytes.NewReader(out.Bytes()), DemuxerOptPacketSize(188))
		found := false
		for {
			d, err := dmx.NextData()
			if err == ErrNoMorePackets {
				break
			}
			if err != nil {
				t.Fatalf("sl=%d: %v", sl, err)
			}
			if d.PES != nil {
				found = true
				if !bytes.Equal(d.PES.Data, payload) {
					t.Fatalf("StuffingLength=%d: PES payload came back as %d bytes (%x...), wrote %d", sl, len(d.PES.Data), d.PES.Data[len(d.PES.Data)-8:], len(payload))
				}
			}
		}
		if !found {
			t.Fatalf("sl=%d: no PES", sl)
		}
	}
}
