package astits

import (
	"bytes"
	"context"
	"testing"
)

func TestVerifDemoAFDropped(t *testing.T) {
	buf := &bytes.Buffer{}
	m := NewMuxer(context.Background(), buf)
	if err := m.AddElementaryStream(PMTElementaryStream{ElementaryPID: 256, StreamType: StreamTypeH264Video}); err != nil {
		t.Fatal(err)
	}
	m.SetPCRPID(256)
	priv := bytes.Repeat([]byte{0xAB}, 170)
	af := &PacketAdaptationField{HasPCR: true, PCR: &ClockReference{Base: 1234}, HasTransportPrivateData: true, TransportPrivateData: priv, TransportPrivateDataLength: 170}
	_, err := m.WriteData(&MuxerData{PID: 256, AdaptationField: af, PES: &PESData{Data: bytes.Repeat([]byte{1}, 300), Header: &PESHeader{OptionalHeader: &PESOptionalHeader{PTSDTSIndicator: PTSDTSIndicatorOnlyPTS, PTS: &ClockReference{Base: 5}}}}})
	if err != nil {
		t.Fatal(err)
	}
	if !bytes.Contains(buf.Bytes(), priv[:20]) {
		t.Fatalf("the adaptation field's private data is nowhere in the %d bytes written", buf.Len())
	}
}
