// Package lin implements integer linear forms c0 + Σ ci·sym_i over opaque symbols, with symbol
// bounds and a small fact-based prover (no solver: substitution of bounds and subtraction of
// known facts only).
package lin

import (
	"fmt"
	"math"
	"sort"
	"strings"
)

// Form is c + Σ T[s]·s. The zero value is the constant 0. Forms are immutable by convention.
type Form struct {
	C int64
	T map[string]int64
}

// Const returns a constant form.
func Const(c int64) Form { return Form{C: c} }

// Sym returns the form 1·s.
func Sym(s string) Form { return Form{T: map[string]int64{s: 1}} }

// IsConst reports whether f has no symbols.
func (f Form) IsConst() bool { return len(f.T) == 0 }

// Add returns f+g.
func (f Form) Add(g Form) Form { return f.addScaled(g, 1) }

// Sub returns f-g.
func (f Form) Sub(g Form) Form { return f.addScaled(g, -1) }

// AddC returns f+c.
func (f Form) AddC(c int64) Form { r := f.clone(); r.C += c; return r }

// Scale returns k·f.
func (f Form) Scale(k int64) Form {
	r := Form{C: f.C * k}
	if k != 0 && len(f.T) > 0 {
		r.T = map[string]int64{}
		for s, a := range f.T {
			r.T[s] = a * k
		}
	}
	return r
}

func (f Form) clone() Form {
	r := Form{C: f.C}
	if len(f.T) > 0 {
		r.T = make(map[string]int64, len(f.T))
		for s, a := range f.T {
			r.T[s] = a
		}
	}
	return r
}

func (f Form) addScaled(g Form, k int64) Form {
	r := f.clone()
	r.C += k * g.C
	for s, a := range g.T {
		if r.T == nil {
			r.T = map[string]int64{}
		}
		r.T[s] += k * a
		if r.T[s] == 0 {
			delete(r.T, s)
		}
	}
	if len(r.T) == 0 {
		r.T = nil
	}
	return r
}

// Syms returns the symbols of f, sorted.
func (f Form) Syms() []string {
	out := make([]string, 0, len(f.T))
	for s := range f.T {
		out = append(out, s)
	}
	sort.Strings(out)
	return out
}

// Coef returns the coefficient of s.
func (f Form) Coef(s string) int64 { return f.T[s] }

// Equal reports structural equality.
func (f Form) Equal(g Form) bool {
	if f.C != g.C || len(f.T) != len(g.T) {
		return false
	}
	for s, a := range f.T {
		if g.T[s] != a {
			return false
		}
	}
	return true
}

// String renders the canonical form.
func (f Form) String() string {
	var sb strings.Builder
	first := true
	for _, s := range f.Syms() {
		a := f.T[s]
		switch {
		case a == 1 && first:
			sb.WriteString(s)
		case a == 1:
			sb.WriteString(" + " + s)
		case a == -1 && first:
			sb.WriteString("-" + s)
		case a == -1:
			sb.WriteString(" - " + s)
		case a < 0 && !first:
			fmt.Fprintf(&sb, " - %d·%s", -a, s)
		case first:
			fmt.Fprintf(&sb, "%d·%s", a, s)
		default:
			fmt.Fprintf(&sb, " + %d·%s", a, s)
		}
		first = false
	}
	if first {
		return fmt.Sprintf("%d", f.C)
	}
	if f.C > 0 {
		fmt.Fprintf(&sb, " + %d", f.C)
	} else if f.C < 0 {
		fmt.Fprintf(&sb, " - %d", -f.C)
	}
	return sb.String()
}

// Subst replaces symbols by forms.
func (f Form) Subst(m map[string]Form) Form {
	r := Form{C: f.C}
	for s, a := range f.T {
		if g, ok := m[s]; ok {
			r = r.addScaled(g, a)
		} else {
			r = r.addScaled(Sym(s), a)
		}
	}
	return r
}

// Rename renames symbols through fn.
func (f Form) Rename(fn func(string) string) Form {
	r := Form{C: f.C}
	for s, a := range f.T {
		r = r.addScaled(Sym(fn(s)), a)
	}
	return r
}

// Inf bounds.
const (
	NegInf = math.MinInt64 / 4
	PosInf = math.MaxInt64 / 4
)

// Bounds gives lower/upper bounds of symbols.
type Bounds interface {
	Lo(sym string) int64 // NegInf if unknown
	Hi(sym string) int64 // PosInf if unknown
}

// MapBounds is a simple Bounds.
type MapBounds struct {
	L map[string]int64
	H map[string]int64
}

func (b MapBounds) Lo(s string) int64 {
	if v, ok := b.L[s]; ok {
		return v
	}
	return NegInf
}
func (b MapBounds) Hi(s string) int64 {
	if v, ok := b.H[s]; ok {
		return v
	}
	return PosInf
}

// LowerBound substitutes symbol bounds into f.
func LowerBound(f Form, b Bounds) int64 {
	lo := f.C
	for s, a := range f.T {
		var v int64
		if a > 0 {
			v = b.Lo(s)
			if v <= NegInf {
				return NegInf
			}
		} else {
			v = b.Hi(s)
			if v >= PosInf {
				return NegInf
			}
		}
		lo += a * v
		if lo <= NegInf || lo >= PosInf {
			return NegInf
		}
	}
	return lo
}

// UpperBound is the dual of LowerBound.
func UpperBound(f Form, b Bounds) int64 {
	v := LowerBound(f.Scale(-1), b)
	if v <= NegInf {
		return PosInf
	}
	return -v
}

// Fact states F >= 0.
type Fact struct{ F Form }

// GE builds the fact a >= b + k.
func GE(a, b Form, k int64) Fact { return Fact{F: a.Sub(b).AddC(-k)} }

func (f Fact) String() string { return f.F.String() + " >= 0" }

// Prove tries to establish goal >= 0 from symbol bounds and facts. It uses bound substitution and
// subtraction of up to `depth` facts (each fact G >= 0 allows replacing goal by goal - k·G for k in {1,2}).
func Prove(goal Form, b Bounds, facts []Fact, depth int) bool {
	if LowerBound(goal, b) >= 0 {
		return true
	}
	if depth <= 0 {
		return false
	}
	for i, ft := range facts {
		if !shares(goal, ft.F) {
			continue
		}
		rest := append(append([]Fact{}, facts[:i]...), facts[i+1:]...)
		ks := []int64{1, 2}
		// multiples that cancel a shared symbol exactly
		for s, a := range goal.T {
			if b, ok := ft.F.T[s]; ok && b != 0 && a%b == 0 && a/b > 2 {
				ks = append(ks, a/b)
			}
		}
		for _, k := range ks {
			g := goal.addScaled(ft.F, -k)
			if len(g.T) > len(goal.T) {
				if LowerBound(g, b) >= 0 {
					return true
				}
				continue // do not grow the goal
			}
			if Prove(g, b, rest, depth-1) {
				return true
			}
		}
	}
	return false
}

func shares(a, b Form) bool {
	for s := range a.T {
		if _, ok := b.T[s]; ok {
			return true
		}
	}
	return false
}

// Tighten strengthens F >= 0 using integrality: when every symbol coefficient is a multiple of g > 1,
// c + g·S >= 0 is equivalent to floor(c/g) + S >= 0.
func Tighten(f Form) Form {
	if len(f.T) == 0 {
		return f
	}
	g := int64(0)
	for _, a := range f.T {
		if a < 0 {
			a = -a
		}
		for b := a; b != 0; {
			g, b = b, g%b
		}
	}
	if g <= 1 {
		return f
	}
	r := Form{T: make(map[string]int64, len(f.T))}
	for s, a := range f.T {
		r.T[s] = a / g
	}
	// floor division
	c := f.C / g
	if f.C%g != 0 && f.C < 0 {
		c--
	}
	r.C = c
	return r
}
