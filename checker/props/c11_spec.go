package props

import (
	"fmt"

	"astverif/layout"
	"astverif/lin"
)

// Reference encodings of ISO/IEC 13818-1 2.4.3.2 (transport packet header, without the sync byte) and 2.4.3.4
// (adaptation field), transcribed from the standard's tables independently of the library's writer.

func tsHeaderSpec(c *layout.Checker) []*layout.Source {
	b := c.NewSpec("transport packet header")
	b.Flag("$h.TransportErrorIndicator").Flag("$h.PayloadUnitStartIndicator").Flag("$h.TransportPriority") // transport_error_indicator, payload_unit_start_indicator, transport_priority
	b.Field(13, "$h.PID").Field(2, "$h.TransportScramblingControl")                                        // PID, transport_scrambling_control
	b.Flag("$h.HasAdaptationField").Flag("$h.HasPayload")                                                  // adaptation_field_control (2 bits)
	b.Field(4, "$h.ContinuityCounter")                                                                     // continuity_counter
	return []*layout.Source{b.Source()}
}

func pcrSpec(c *layout.Checker) []*layout.Source {
	b := c.NewSpec("PCR")
	b.Field(33, "$cr.Base").Const(6, 0x3f).Field(9, "$cr.Extension") // program_clock_reference_base, reserved, program_clock_reference_extension
	return []*layout.Source{b.Source()}
}

// timestamp33: a 33-bit time stamp as '[32..30] marker [29..15] marker [14..0] marker' (2.4.3.7).
func timestamp33(b *layout.SpecBuilder, sym string) {
	b.Slice(sym, 32, 30).Const(1, 1).Slice(sym, 29, 15).Const(1, 1).Slice(sym, 14, 0).Const(1, 1)
}

func afSpec(c *layout.Checker) []*layout.Source {
	var out []*layout.Source
	// adaptation_field_length = 0: the field is its length byte only
	z := c.NewSpec("adaptation field of length 0")
	z.Const(8, 0)
	z.Fix("$af.StuffingLength", 0)
	out = append(out, z.Source())
	for flags := 0; flags < 32; flags++ {
		pcr, opcr, splice, priv, ext := flags&16 != 0, flags&8 != 0, flags&4 != 0, flags&2 != 0, flags&1 != 0
		exts := []int{0}
		if ext {
			exts = []int{0, 1, 2, 3, 4, 5, 6, 7}
		}
		for _, ef := range exts {
			ltw, pw, ss := ef&4 != 0, ef&2 != 0, ef&1 != 0
			b := c.NewSpec(fmt.Sprintf("adaptation field flags=%05b ext=%03b", flags, ef))
			b.LengthOfRest(8) // adaptation_field_length
			b.Flag("$af.DiscontinuityIndicator").Flag("$af.RandomAccessIndicator").Flag("$af.ElementaryStreamPriorityIndicator")
			b.FlagIs("$af.HasPCR", pcr).FlagIs("$af.HasOPCR", opcr).FlagIs("$af.HasSplicingCountdown", splice)
			b.FlagIs("$af.HasTransportPrivateData", priv).FlagIs("$af.HasAdaptationExtensionField", ext)
			if pcr {
				b.Field(33, "$af/PCR.Base").Const(6, 0x3f).Field(9, "$af/PCR.Extension")
			}
			if opcr {
				b.Field(33, "$af/OPCR.Base").Const(6, 0x3f).Field(9, "$af/OPCR.Extension")
			}
			if splice {
				b.Field(8, "$af.SpliceCountdown") // splice_countdown
			}
			if priv {
				b.LenField(8, "$af.TransportPrivateData").Blob("$af.TransportPrivateData") // transport_private_data_length, private_data_byte
			}
			if ext {
				e := "$af/AdaptationExtensionField"
				b.LengthOfRest(8) // adaptation_field_extension_length
				b.FlagIs(e+".HasLegalTimeWindow", ltw).FlagIs(e+".HasPiecewiseRate", pw).FlagIs(e+".HasSeamlessSplice", ss).Const(5, 0x1f)
				if ltw {
					b.Flag(e+".LegalTimeWindowIsValid").Field(15, e+".LegalTimeWindowOffset") // ltw_valid_flag, ltw_offset
				}
				if pw {
					b.Const(2, 3).Field(22, e+".PiecewiseRate") // reserved, piecewise_rate
				}
				if ss {
					b.Field(4, e+".SpliceType") // splice_type
					timestamp33(b, e+"/DTSNextAccessUnit.Base")
				}
				b.EndLength()
			}
			b.Stuffing("$af.StuffingLength") // stuffing_byte
			out = append(out, b.Source())
		}
	}
	return out
}

func c11SpecPairs(c *Ctx) []layout.RTPair {
	lenOfRest := func(src *layout.Source) *lin.Form {
		if !src.TotalOK || !layout.Div8(src.Total) {
			return nil
		}
		f := layout.ScaleDown8(src.Total).AddC(-1)
		return &f
	}
	return []layout.RTPair{
		{Name: "spec/ts-header", Parser: c.fn("parsePacketHeader"), Sources: tsHeaderSpec, It: "$i", Root: "$h", MinSources: 1},
		{Name: "spec/pcr", Parser: c.fn("parsePCR"), Sources: pcrSpec, It: "$i", Root: "$cr", RootPtr: true, MinSources: 1},
		{Name: "spec/adaptation-field", Parser: c.fn("parsePacketAdaptationField"), Sources: afSpec, It: "$i", Root: "$af", RootPtr: true, MinSources: 140,
			Consumed: afConsumed,
			Computed: map[string]func(*layout.Source) *lin.Form{
				"Length": lenOfRest,
				"TransportPrivateDataLength": func(src *layout.Source) *lin.Form {
					for _, ch := range src.Chunks {
						if ch.Kind == layout.CBlob {
							f := ch.Len
							return &f
						}
					}
					f := lin.Const(0)
					return &f
				},
				"AdaptationExtensionField.Length": exempt,
				// the library's own convention: a zero-length field is flagged as one-byte stuffing
				"IsOneByteStuffing": exempt,
			},
			Why: map[string]string{
				"AdaptationExtensionField.Length": "the parser copies adaptation_field_extension_length; that the reference encoding's value is the number of bytes that follow is built into the reference encoding",
				"IsOneByteStuffing":               "not a field of the standard: the library's marker for adaptation_field_length = 0 (decided by A3)",
			},
			NotWritten: map[string]string{
				"AdaptationExtensionField.DTSNextAccessUnit.Extension": "a DTS has no extension part",
			},
		},
	}
}
