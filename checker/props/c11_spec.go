package props

import (
	"fmt"
	"sync"

	"astverif/layout"
	"astverif/lin"
)

// Reference encodings of ISO/IEC 13818-1 2.4.3.2 (transport packet header, without the sync byte) and 2.4.3.4
// (adaptation field), transcribed from the standard's tables independently of the library's writer.

func tsHeaderSpec(c *layout.Checker) []*layout.Source {
	b := c.NewSpec("transport packet header")
	b.Flag("$h.TransportErrorIndicator").Flag("$h.PayloadUnitStartIndicator").Flag("$h.TransportPriority") // transport_error_indicator, payload_unit_start_indicator, transport_priority
	b.Field(13, "$h.PID").Field(2, "$h.TransportScramblingControl")                                        // PID, transport_scrambling_control
	b.Flag("$h.HasAdaptationField").Flag("$h.HasPayload")                                                  // adaptation_field_control (2 bits)
	b.Field(4, "$h.ContinuityCounter")                                                                     // continuity_counter
	return []*layout.Source{b.Source()}
}

func pcrSpec(c *layout.Checker) []*layout.Source {
	b := c.NewSpec("PCR")
	b.Field(33, "$cr.Base").Const(6, 0x3f).Field(9, "$cr.Extension") // program_clock_reference_base, reserved, program_clock_reference_extension
	return []*layout.Source{b.Source()}
}

// timestamp33: a 33-bit time stamp as '[32..30] marker [29..15] marker [14..0] marker' (2.4.3.7).
func timestamp33(b *layout.SpecBuilder, sym string) {
	b.Slice(sym, 32, 30).Const(1, 1).Slice(sym, 29, 15).Const(1, 1).Slice(sym, 14, 0).Const(1, 1)
}

func afSpec(c *layout.Checker) []*layout.Source {
	var out []*layout.Source
	// adaptation_field_length = 0: the field is its length byte only
	z := c.NewSpec("adaptation field of length 0")
	z.Const(8, 0)
	z.Fix("$af.StuffingLength", 0)
	out = append(out, z.Source())
	for flags := 0; flags < 32; flags++ {
		pcr, opcr, splice, priv, ext := flags&16 != 0, flags&8 != 0, flags&4 != 0, flags&2 != 0, flags&1 != 0
		exts := []int{0}
		if ext {
			exts = []int{0, 1, 2, 3, 4, 5, 6, 7}
		}
		for _, ef := range exts {
			ltw, pw, ss := ef&4 != 0, ef&2 != 0, ef&1 != 0
			b := c.NewSpec(fmt.Sprintf("adaptation field flags=%05b ext=%03b", flags, ef))
			b.LengthOfRest(8) // adaptation_field_length
			b.Flag("$af.DiscontinuityIndicator").Flag("$af.RandomAccessIndicator").Flag("$af.ElementaryStreamPriorityIndicator")
			b.FlagIs("$af.HasPCR", pcr).FlagIs("$af.HasOPCR", opcr).FlagIs("$af.HasSplicingCountdown", splice)
			b.FlagIs("$af.HasTransportPrivateData", priv).FlagIs("$af.HasAdaptationExtensionField", ext)
			if pcr {
				b.Field(33, "$af/PCR.Base").Const(6, 0x3f).Field(9, "$af/PCR.Extension")
			}
			if opcr {
				b.Field(33, "$af/OPCR.Base").Const(6, 0x3f).Field(9, "$af/OPCR.Extension")
			}
			if splice {
				b.Field(8, "$af.SpliceCountdown") // splice_countdown
			}
			if priv {
				b.LenField(8, "$af.TransportPrivateData").Blob("$af.TransportPrivateData") // transport_private_data_length, private_data_byte
			}
			if ext {
				e := "$af/AdaptationExtensionField"
				b.LengthOfRest(8) // adaptation_field_extension_length
				b.FlagIs(e+".HasLegalTimeWindow", ltw).FlagIs(e+".HasPiecewiseRate", pw).FlagIs(e+".HasSeamlessSplice", ss).Const(5, 0x1f)
				if ltw {
					b.Flag(e+".LegalTimeWindowIsValid").Field(15, e+".LegalTimeWindowOffset") // ltw_valid_flag, ltw_offset
				}
				if pw {
					b.Const(2, 3).Field(22, e+".PiecewiseRate") // reserved, piecewise_rate
				}
				if ss {
					b.Field(4, e+".SpliceType") // splice_type
					timestamp33(b, e+"/DTSNextAccessUnit.Base")
				}
				b.EndLength()
			}
			b.Stuffing("$af.StuffingLength") // stuffing_byte
			out = append(out, b.Source())
		}
	}
	return out
}

// tsPacketSpec: transport_packet() of 2.4.3.2 as a whole — sync_byte, header, adaptation field and payload for the four
// values' worth of adaptation_field_control that carry something (01 payload only, 11 both, 10 adaptation field only,
// and the one-byte adaptation field of length 0), in 188-byte form and in the library's 188+k-byte form (k extra bytes
// between the sync byte and the header, k = 4 and 16: "packets of 192 or 204 bytes yield the same packets").
type tsPacketInst struct {
	lead     int
	kind     string
	stuffing int64
}

var tsPacketInsts sync.Map // *layout.Source -> tsPacketInst

func tsPacketSpec(c *layout.Checker) []*layout.Source {
	var out []*layout.Source
	type kd struct {
		kind     string
		stuffing int64
	}
	kinds := []kd{{"payload", 0}, {"af+payload", 0}, {"af+payload", 7}, {"af+payload", 181}, {"af-only", 182}, {"one-byte-af", 0}}
	for _, lead := range []int{0, 4, 16} {
		for _, k := range kinds {
			b := c.NewSpec(fmt.Sprintf("transport packet %s stuffing=%d extra=%d", k.kind, k.stuffing, lead))
			b.Const(8, 0x47)
			if lead > 0 {
				b.Opaque(8*lead, "$extra")
			}
			hasAF, hasPayload := k.kind != "payload", k.kind != "af-only"
			b.Flag("$p.Header.TransportErrorIndicator").Flag("$p.Header.PayloadUnitStartIndicator").Flag("$p.Header.TransportPriority")
			b.Field(13, "$p.Header.PID").Field(2, "$p.Header.TransportScramblingControl")
			b.FlagIs("$p.Header.HasAdaptationField", hasAF).FlagIs("$p.Header.HasPayload", hasPayload)
			b.Field(4, "$p.Header.ContinuityCounter")
			af := "$p/AdaptationField"
			switch k.kind {
			case "payload":
				b.BlobN("$p.Payload", 184)
			case "one-byte-af":
				b.Const(8, 0)
				b.BlobN("$p.Payload", 183)
			default:
				b.LengthOfRest(8)
				b.Flag(af + ".DiscontinuityIndicator").Flag(af + ".RandomAccessIndicator").Flag(af + ".ElementaryStreamPriorityIndicator")
				b.FlagIs(af+".HasPCR", false).FlagIs(af+".HasOPCR", false).FlagIs(af+".HasSplicingCountdown", false)
				b.FlagIs(af+".HasTransportPrivateData", false).FlagIs(af+".HasAdaptationExtensionField", false)
				if k.stuffing > 0 {
					b.Stuffing(af + ".StuffingLength")
				}
				b.Fix(af+".StuffingLength", k.stuffing)
				b.EndLength()
				if hasPayload {
					b.BlobN("$p.Payload", 182-k.stuffing)
				}
			}
			src := b.Source()
			tsPacketInsts.Store(src, tsPacketInst{lead, k.kind, k.stuffing})
			out = append(out, src)
		}
	}
	return out
}

func c11PacketSpecPairs(c *Ctx) []layout.RTPair {
	return []layout.RTPair{
		{Name: "spec/ts-packet", Parser: c.fn("parsePacket"), Sources: tsPacketSpec, It: "$i", Root: "$p", RootPtr: true, MinSources: 18, ExactLen: true,
			ParserPreds: map[string]bool{"nil:$s": true}, // no packet skipper (C19 decides the skipper)
			// without payload the parser stops after the adaptation field flags (what follows is stuffing)
			ConsumedSkip: func(src *layout.Source) bool {
				in, _ := tsPacketInsts.Load(src)
				return in.(tsPacketInst).kind == "af-only"
			},
			Computed: map[string]func(*layout.Source) *lin.Form{
				"AdaptationField.Length": func(src *layout.Source) *lin.Form {
					v, _ := tsPacketInsts.Load(src)
					in := v.(tsPacketInst)
					f := lin.Const(0)
					if in.kind == "af+payload" || in.kind == "af-only" {
						f = lin.Const(1 + in.stuffing)
					}
					return &f
				},
				"AdaptationField.IsOneByteStuffing": exempt,
			},
			Why: map[string]string{
				"AdaptationField.IsOneByteStuffing": "not a field of the standard: the library's marker for adaptation_field_length = 0 (decided by A3)",
			},
			ElsewherePrefix: "AdaptationField.", ElsewhereWhy: "the optional parts of the adaptation field are decided by spec/adaptation-field",
		},
	}
}

func c11SpecPairs(c *Ctx) []layout.RTPair {
	lenOfRest := func(src *layout.Source) *lin.Form {
		if !src.TotalOK || !layout.Div8(src.Total) {
			return nil
		}
		f := layout.ScaleDown8(src.Total).AddC(-1)
		return &f
	}
	return []layout.RTPair{
		{Name: "spec/ts-header", Parser: c.fn("parsePacketHeader"), Sources: tsHeaderSpec, It: "$i", Root: "$h", MinSources: 1},
		{Name: "spec/pcr", Parser: c.fn("parsePCR"), Sources: pcrSpec, It: "$i", Root: "$cr", RootPtr: true, MinSources: 1},
		{Name: "spec/adaptation-field", Parser: c.fn("parsePacketAdaptationField"), Sources: afSpec, It: "$i", Root: "$af", RootPtr: true, MinSources: 140,
			Consumed: afConsumed,
			Computed: map[string]func(*layout.Source) *lin.Form{
				"Length": lenOfRest,
				"TransportPrivateDataLength": func(src *layout.Source) *lin.Form {
					for _, ch := range src.Chunks {
						if ch.Kind == layout.CBlob {
							f := ch.Len
							return &f
						}
					}
					f := lin.Const(0)
					return &f
				},
				"AdaptationExtensionField.Length": exempt,
				// the library's own convention: a zero-length field is flagged as one-byte stuffing
				"IsOneByteStuffing": exempt,
			},
			Why: map[string]string{
				"AdaptationExtensionField.Length": "the parser copies adaptation_field_extension_length; that the reference encoding's value is the number of bytes that follow is built into the reference encoding",
				"IsOneByteStuffing":               "not a field of the standard: the library's marker for adaptation_field_length = 0 (decided by A3)",
			},
			NotWritten: map[string]string{
				"AdaptationExtensionField.DTSNextAccessUnit.Extension": "a DTS has no extension part",
			},
		},
	}
}
