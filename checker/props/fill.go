package props

import (
	"fmt"
	"go/token"
	"go/types"
	"sort"
	"strings"

	"astverif/itersafe"
	"astverif/layout"
	"astverif/lin"
	"astverif/load"
	"astverif/pathint"
	"astverif/ssau"

	"golang.org/x/tools/go/ssa"
)

// Rule F1 — every packet WriteData hands to writePacket fills the packet exactly:
//
//	1 (sync) + 3 (header) + bytes of the adaptation field + len(payload) = m.packetSize
//
// on every path through the packetisation loop, so writePacket never pads after the payload (padding after a PES payload
// is returned by the demuxer as payload of an unbounded PES). The loop body is evaluated symbolically, path by path, over
// linear forms: P = m.packetSize, A0 = the caller's adaptation field without its stuffing bytes, S = its StuffingLength
// (a cell that the body may overwrite), H = calcPESOptionalHeaderLength, ntot = what writePESData reports as written.
// Used contracts, each an obligation of its own: writePESData writes at most bytesAvailable bytes and reports what it
// wrote (F1/writePESData/…, A1 of C04); the muxer's scratch writer writes into m.buf (F1/NewMuxer/…); the adaptation field
// occupies 1 + calcPacketAdaptationFieldLength bytes, linear in StuffingLength with coefficient 1 (A2 of C11); the maker of
// the stuffing-only field occupies exactly n bytes for n >= 1 (A2/stuffing).

type fPtrKind int

const (
	fpUnknown fPtrKind = iota
	fpNil
	fpCallerAF      // d.AdaptationField (non-nil)
	fpCallerAFMaybe // d.AdaptationField, possibly nil
	fpStuffing      // result of the stuffing maker for N bytes
)

type fval struct {
	isInt  bool
	f      lin.Form
	isBool bool
	b      int // -1 unknown, 0 false, 1 true
	cmp    *fcmp
	isPtr  bool
	pk     fPtrKind
	n      lin.Form        // fpStuffing
	isLen  bool            // a slice whose length is f
	fields map[string]fval // struct value
	nilOf  ssa.Value       // bool: "v != nil" for the pointer value v (nilNeg: "== nil")
	nilNeg bool
	tuple  []fval
	addr   string    // a pointer to a tracked local object: the key of the object's cells
	ref    ssa.Value // an undetermined boolean: the SSA value it was copied from (refined later by branches on that value)
}

type fcmp struct {
	l, r lin.Form
	op   token.Token
}

type fstate struct {
	env    map[ssa.Value]fval
	mem    map[string]fval
	facts  []lin.Fact
	desc   []string
	bufLen *lin.Form
	wrote  bool
}

func (s *fstate) clone() *fstate {
	o := &fstate{env: map[ssa.Value]fval{}, mem: map[string]fval{}, facts: append([]lin.Fact{}, s.facts...), desc: append([]string{}, s.desc...), wrote: s.wrote}
	for k, v := range s.env {
		o.env[k] = v
	}
	for k, v := range s.mem {
		o.mem[k] = v
	}
	if s.bufLen != nil {
		f := *s.bufLen
		o.bufLen = &f
	}
	return o
}

type fillRun struct {
	c        *Ctx
	ip       *pathint.Interp
	wd       *ssa.Function
	target   *ssa.Call
	targets  map[*ssa.Call]bool
	wp       *ssa.Function
	fwdCalls []*ssa.Call // calls of forwarders to writePacket in WriteData
	pktArg   ssa.Value   // the packet handed to the (dominating) target
	header   *ssa.BasicBlock
	makers   map[*ssa.Function]bool
	fresh    int
	problems map[string]bool
	results  []string // per path: "" ok or reason
	npaths   int
	bad      []string
	unk      []string
	ndrops   int
	dropBad  []string
	dropUnk  []string
}

func (fr *fillRun) sym(prefix string, lo int64) lin.Form {
	fr.fresh++
	n := fmt.Sprintf("%s#%d", prefix, fr.fresh)
	fr.ip.SetBounds(n, lo, lin.PosInf)
	return lin.Sym(n)
}

func (fr *fillRun) named(n string, lo int64) lin.Form {
	fr.ip.SetBounds(n, lo, lin.PosInf)
	return lin.Sym(n)
}

// stuffingMakers: the same-package functions whose result is stored into a packet's AdaptationField by WriteData or by a
// helper WriteData calls directly.
func stuffingMakers(c *Ctx, wd *ssa.Function) map[*ssa.Function]bool {
	out := map[*ssa.Function]bool{}
	scan := []*ssa.Function{wd}
	for _, b := range wd.Blocks {
		for _, in := range b.Instrs {
			if call, ok := in.(*ssa.Call); ok {
				if cal := call.Call.StaticCallee(); cal != nil && cal.Pkg == c.P.SSAPkg && len(cal.Blocks) > 0 {
					scan = append(scan, cal)
				}
			}
		}
	}
	for _, f := range scan {
		for _, b := range f.Blocks {
			for _, in := range b.Instrs {
				st, ok := in.(*ssa.Store)
				if !ok {
					continue
				}
				fa, ok := st.Addr.(*ssa.FieldAddr)
				if !ok {
					continue
				}
				if n, ok := ssau.FieldName(fa); !ok || n != "AdaptationField" {
					continue
				}
				if call, ok := st.Val.(*ssa.Call); ok {
					if cal := call.Call.StaticCallee(); cal != nil && cal.Pkg == c.P.SSAPkg {
						out[cal] = true
					}
				}
			}
		}
	}
	return out
}

func c04ExactFill(c *Ctx) {
	r := c.R
	const rule = "F1"
	wd, wp, pes := c.fn("Muxer.WriteData"), c.fn("writePacket"), c.fn("writePESData")
	if wd == nil || wp == nil || pes == nil {
		r.Unknown(rule, "anchors", "", "Muxer.WriteData, writePacket or writePESData not found")
		return
	}
	lk := layout.New(c.P)
	fr := &fillRun{c: c, ip: lk.IP, wd: wd, wp: wp, makers: map[*ssa.Function]bool{}, problems: map[string]bool{}}
	// the writePacket call inside a loop — or the call of a method that only passes the packet on to writePacket (it is inlined by
	// the walk, and the writePacket call inside it is what gets judged)
	fwd := ssau.Forwarders(wp)
	for _, b := range wd.Blocks {
		for _, in := range b.Instrs {
			if call, ok := in.(*ssa.Call); ok && (call.Call.StaticCallee() == wp || fwd[call.Call.StaticCallee()].Map != nil) {
				if call.Call.StaticCallee() != wp {
					fr.fwdCalls = append(fr.fwdCalls, call)
				}
				if fr.targets == nil {
					fr.targets = map[*ssa.Call]bool{}
				}
				fr.targets[call] = true
				if fr.target == nil || call.Block().Dominates(fr.target.Block()) {
					fr.target = call
				}
			}
		}
	}
	if fr.target == nil {
		r.Unknown(rule, "WriteData/one-writePacket-call", c.P.Pos(wd.Pos()), "no writePacket call in WriteData")
		return
	}
	// loop header: the innermost dominator of the call's block that is the target of a back edge
	for b := fr.target.Block(); b != nil; b = b.Idom() {
		for _, p := range b.Preds {
			if b.Dominates(p) {
				fr.header = b
			}
		}
		if fr.header != nil {
			break
		}
	}
	if fr.header == nil {
		r.Unknown(rule, "WriteData/loop", c.P.Pos(fr.target.Pos()), "writePacket is not called inside a loop: the packetisation has another shape")
		return
	}
	// the stuffing makers (same derivation as A2/stuffing)
	for m := range stuffingMakers(c, wd) {
		fr.makers[m] = true
	}
	fillContracts(c, lk, pes)
	st := &fstate{env: map[ssa.Value]fval{}, mem: map[string]fval{}}
	fr.walk(fr.header, nil, st, 0)
	pos := c.P.Pos(fr.target.Pos())
	sort.Strings(fr.bad)
	sort.Strings(fr.unk)
	switch {
	case len(fr.bad) > 0:
		r.Bad(rule, "WriteData/packet-filled-exactly", pos, fmt.Sprintf("%d of %d paths to writePacket: %s", len(fr.bad), fr.npaths, clipS(strings.Join(dedupS(fr.bad), " || "), 1800)))
	case len(fr.unk) > 0:
		r.Unknown(rule, "WriteData/packet-filled-exactly", pos, clipS(strings.Join(dedupS(fr.unk), " || "), 1500))
	case fr.npaths == 0:
		r.Unknown(rule, "WriteData/packet-filled-exactly", pos, "no path from the loop header to writePacket was found")
	default:
		r.OK(rule, "WriteData/packet-filled-exactly", pos, fmt.Sprintf("on all %d paths through the loop body to writePacket: 4 + adaptation field bytes + len(payload) = m.packetSize (symbolic: caller's adaptation field with any StuffingLength, any PES header length, any amount written by writePESData within its contract)", fr.npaths))
	}
	switch {
	case len(fr.dropBad) > 0:
		r.Bad(rule, "WriteData/first-packet-given-up-only-without-room", pos, clipS(strings.Join(dedupS(fr.dropBad), " || "), 1500))
	case len(fr.dropUnk) > 0:
		r.Unknown(rule, "WriteData/first-packet-given-up-only-without-room", pos, clipS(strings.Join(dedupS(fr.dropUnk), " || "), 1500))
	default:
		r.OK(rule, "WriteData/first-packet-given-up-only-without-room", pos, fmt.Sprintf("%d path(s) go round the loop without writePacket; on each the facts imply bytesAvailable < 6 + calcPESOptionalHeaderLength (the PES header cannot fit next to the adaptation field)", fr.ndrops))
	}
	r.Assumptions = append(r.Assumptions, "F1: the adaptation field handed to WriteData is a real one (IsOneByteStuffing false) and fits one packet (its length fits the uint8 of calcPacketAdaptationFieldLength)")
}

func clipS(s string, n int) string {
	if len(s) > n {
		return s[:n] + "…"
	}
	return s
}

func dedupS(in []string) []string {
	seen := map[string]bool{}
	var out []string
	for _, s := range in {
		if !seen[s] {
			seen[s] = true
			out = append(out, s)
		}
	}
	return out
}

// fillContracts: the contracts of writePESData and NewMuxer that F1 relies on.
func fillContracts(c *Ctx, lk *layout.Checker, pes *ssa.Function) {
	r := c.R
	const rule = "F1"
	// (1) writePESData: on every success outcome 0 <= totalBytesWritten <= bytesAvailable, given that the header fits
	pip := itersafe.New(c.P).IP // path-by-path summaries (no if-conversion): one outcome per path with its facts
	sum := pip.Summarize(pes)
	nOK, nOut := 0, 0
	var bad []string
	for i := range sum.Outcomes {
		o := &sum.Outcomes[i]
		if o.ErrNil == pathint.No || len(o.Results) < 2 || o.Results[0].K != pathint.KInt {
			continue
		}
		nOut++
		st := pip.Harness(pes)
		st.Facts = append(st.Facts, o.Facts...)
		tot := o.Results[0].F
		avail := lin.Sym("$bytesAvailable")
		if st.ProveSimplified(pip.SimplifyForm(avail.Sub(tot), st)) {
			nOK++
		} else {
			bad = append(bad, fmt.Sprintf("outcome with facts %v reports %s bytes", o.Facts, tot.String()))
		}
	}
	switch {
	case sum.Truncated || nOut == 0:
		r.Unknown(rule, "writePESData/total-within-available", c.P.Pos(pes.Pos()), "writePESData could not be summarised")
	case len(bad) > 0:
		r.Bad(rule, "writePESData/total-within-available", c.P.Pos(pes.Pos()), clipS(strings.Join(bad, "; "), 800))
	default:
		r.OK(rule, "writePESData/total-within-available", c.P.Pos(pes.Pos()), fmt.Sprintf("%d success outcomes: totalBytesWritten <= bytesAvailable (each outcome's own path facts)", nOK))
	}
	// (2) NewMuxer: m.bufWriter writes into m.buf
	muxerWriterLink(c, rule, "bufWriter", "buf", false,
		"what writePESData writes into m.bufWriter is what m.buf.Bytes() returns after m.buf.Reset()")
}

// muxerWriterLink: in NewMuxer the BitsWriter stored in field bw is astikit.NewBitsWriter(BitsWriterOptions{Writer: X}) with
// X = &m.<target> (a buffer of the muxer) or X = the value of m.<target> (the output writer).
func muxerWriterLink(c *Ctx, rule, bw, target string, byValue bool, what string) {
	r := c.R
	nm := c.fn("NewMuxer")
	key := "NewMuxer/" + bw + "-writes-into-" + target
	ok := false
	if nm != nil {
		for _, b := range nm.Blocks {
			for _, in := range b.Instrs {
				st, isSt := in.(*ssa.Store)
				if !isSt {
					continue
				}
				fa, isFa := st.Addr.(*ssa.FieldAddr)
				if !isFa {
					continue
				}
				if n, okn := ssau.FieldName(fa); !okn || n != bw {
					continue
				}
				call, isCall := st.Val.(*ssa.Call)
				if !isCall || call.Call.StaticCallee() == nil || call.Call.StaticCallee().Name() != "NewBitsWriter" {
					continue
				}
				optsLoad, isLoad := call.Call.Args[0].(*ssa.UnOp)
				if !isLoad {
					continue
				}
				for _, ref := range *optsLoad.X.Referrers() {
					wfa, isW := ref.(*ssa.FieldAddr)
					if !isW {
						continue
					}
					if wn, _ := ssau.FieldName(wfa); wn != "Writer" {
						continue
					}
					for _, r2 := range *wfa.Referrers() {
						s2, isS := r2.(*ssa.Store)
						if !isS {
							continue
						}
						v := s2.Val
						if mi, isMi := v.(*ssa.MakeInterface); isMi && !byValue {
							if bfa, isB := mi.X.(*ssa.FieldAddr); isB {
								if bn, _ := ssau.FieldName(bfa); bn == target {
									ok = true
								}
							}
						}
						if ld, isLd := v.(*ssa.UnOp); isLd && byValue {
							if bfa, isB := ld.X.(*ssa.FieldAddr); isB {
								if bn, _ := ssau.FieldName(bfa); bn == target {
									ok = true
								}
							}
						}
						// the very value that is also stored into m.<target> (both written in one composite literal)
						if byValue && v.Referrers() != nil {
							for _, r3 := range *v.Referrers() {
								if s3, isS3 := r3.(*ssa.Store); isS3 && s3.Val == v {
									if tfa, isT := s3.Addr.(*ssa.FieldAddr); isT && tfa.X == fa.X {
										if tn, _ := ssau.FieldName(tfa); tn == target {
											ok = true
										}
									}
								}
							}
						}
					}
				}
			}
		}
	}
	if ok {
		r.OK(rule, key, c.P.Pos(nm.Pos()), "m."+bw+" = astikit.NewBitsWriter(Writer: m."+target+"): "+what)
	} else {
		r.Unknown(rule, key, "", "could not establish that m."+bw+" writes into m."+target+": "+what)
	}
}

func (fr *fillRun) addrKey(st *fstate, v ssa.Value) (string, bool) {
	switch x := v.(type) {
	case *ssa.Alloc:
		return "alloc:" + x.Name(), true
	case *ssa.Parameter:
		if v, ok := st.env[x]; ok && v.addr != "" {
			return v.addr, true
		}
		return "param:" + x.Name(), true
	case *ssa.FieldAddr:
		n, ok := ssau.FieldName(x)
		if !ok {
			return "", false
		}
		// base is an address (alloc / field address / parameter pointer) or a pointer VALUE
		switch b := x.X.(type) {
		case *ssa.Alloc, *ssa.FieldAddr, *ssa.Parameter:
			k, ok := fr.addrKey(st, b)
			return k + "." + n, ok
		default:
			pv := fr.val(st, x.X)
			if pv.isPtr {
				switch pv.pk {
				case fpCallerAF, fpCallerAFMaybe:
					return "callerAF." + n, true
				case fpStuffing:
					return "stuffingAF." + n, true
				}
			}
			// pointers loaded from parameter-rooted cells: name them by their own access path
			if ap, ok := ssau.AccessPath(x.X); ok {
				return "path:" + ap + "." + n, true
			}
			return "", false
		}
	}
	return "", false
}

func (fr *fillRun) val(st *fstate, v ssa.Value) fval {
	if x, ok := st.env[v]; ok {
		return x
	}
	switch c := v.(type) {
	case *ssa.Const:
		if c.Value == nil {
			return fval{isPtr: true, pk: fpNil}
		}
		if k, ok := ssau.ConstInt(c); ok {
			return fval{isInt: true, f: lin.Const(k)}
		}
		if b, ok := ssau.ConstBool(c); ok {
			bi := 0
			if b {
				bi = 1
			}
			return fval{isBool: true, b: bi}
		}
	case *ssa.Parameter:
		return fval{}
	case *ssa.Alloc:
		return fval{isPtr: true, pk: fpUnknown, addr: "alloc:" + c.Name()}
	}
	return fval{}
}

func (fr *fillRun) load(st *fstate, key string, t types.Type) fval {
	if v, ok := st.mem[key]; ok {
		if v.isBool && v.b < 0 && v.ref != nil {
			if cur, ok := st.env[v.ref]; ok && cur.isBool && cur.b >= 0 {
				return cur
			}
		}
		return v
	}
	// struct: gather the sub-cells
	if _, isStruct := t.Underlying().(*types.Struct); isStruct {
		fs := map[string]fval{}
		for k, v := range st.mem {
			if strings.HasPrefix(k, key+".") {
				fs[k[len(key)+1:]] = v
			}
		}
		return fval{fields: fs}
	}
	if strings.HasPrefix(key, "alloc:") {
		// a cell of a local object that was never stored to holds the zero value (allocations are zeroed)
		switch u := t.Underlying().(type) {
		case *types.Pointer:
			return fval{isPtr: true, pk: fpNil}
		case *types.Slice:
			return fval{isLen: true, f: lin.Const(0)}
		case *types.Basic:
			if u.Info()&types.IsInteger != 0 {
				return fval{isInt: true, f: lin.Const(0)}
			}
			if u.Info()&types.IsBoolean != 0 {
				return fval{isBool: true, b: 0}
			}
		}
	}
	switch {
	case key == "param:m.packetSize":
		return fval{isInt: true, f: fr.named("P", 188)}
	case key == "param:d.AdaptationField":
		return fval{isPtr: true, pk: fpCallerAFMaybe}
	case key == "callerAF.StuffingLength":
		return fval{isInt: true, f: fr.named("S0", 0)}
	}
	if b, ok := t.Underlying().(*types.Basic); ok {
		if b.Info()&types.IsInteger != 0 {
			return fval{isInt: true, f: fr.named("cell:"+key, lin.NegInf)}
		}
		if b.Info()&types.IsBoolean != 0 {
			return fval{isBool: true, b: -1}
		}
	}
	return fval{}
}

func (fr *fillRun) store(st *fstate, key string, v fval) {
	if v.fields != nil {
		for k := range st.mem {
			if strings.HasPrefix(k, key+".") {
				delete(st.mem, k)
			}
		}
		for k, x := range v.fields {
			st.mem[key+"."+k] = x
		}
		return
	}
	st.mem[key] = v
}

// impliedBase: a boolean phi all of whose non-false edges are (phis of) one value X: phi true ⇒ X true.
func impliedBase(v ssa.Value, seen map[ssa.Value]bool) (ssa.Value, bool) {
	phi, ok := v.(*ssa.Phi)
	if !ok {
		return v, true
	}
	if seen[v] {
		return nil, true
	}
	seen[v] = true
	var base ssa.Value
	for _, e := range phi.Edges {
		if b, isC := ssau.ConstBool(e); isC {
			if b {
				return nil, false
			}
			continue
		}
		x, ok := impliedBase(e, seen)
		if !ok {
			return nil, false
		}
		if x == nil {
			continue
		}
		if base != nil && base != x {
			return nil, false
		}
		base = x
	}
	return base, true
}

func (fr *fillRun) assumeBool(st *fstate, v ssa.Value, truth bool) {
	bi := 0
	if truth {
		bi = 1
	}
	st.env[v] = fval{isBool: true, b: bi}
	if truth {
		if base, ok := impliedBase(v, map[ssa.Value]bool{}); ok && base != nil && base != v {
			fr.assumeBool(st, base, true)
		}
	}
	// "x != nil" on the caller's adaptation field
	if bo, ok := v.(*ssa.BinOp); ok && (bo.Op == token.NEQ || bo.Op == token.EQL) {
		if ssau.IsNilConst(bo.Y) {
			if ld, ok := bo.X.(*ssa.UnOp); ok && ld.Op == token.MUL {
				if k, ok := fr.addrKey(st, ld.X); ok && k == "param:d.AdaptationField" {
					nonNil := truth == (bo.Op == token.NEQ)
					if nonNil {
						st.mem[k] = fval{isPtr: true, pk: fpCallerAF}
					} else {
						st.mem[k] = fval{isPtr: true, pk: fpNil}
					}
				}
			}
		}
	}
}

// kont is what happens when an inlined callee returns (nil for the function under analysis itself).
type kont func(st *fstate, rets []fval)

func (fr *fillRun) walk(b *ssa.BasicBlock, pred *ssa.BasicBlock, st *fstate, depth int) {
	fr.walkK(b, pred, st, depth, nil)
}

func (fr *fillRun) walkK(b *ssa.BasicBlock, pred *ssa.BasicBlock, st *fstate, depth int, k kont) {
	if depth > 80 || len(fr.bad)+len(fr.unk) > 40 {
		return
	}
	idx := 0
	for ; idx < len(b.Instrs); idx++ {
		phi, ok := b.Instrs[idx].(*ssa.Phi)
		if !ok {
			break
		}
		if b == fr.header && pred == nil {
			// loop-carried values are arbitrary at the head of an iteration
			switch {
			case isBoolType(phi.Type()):
				st.env[phi] = fval{isBool: true, b: -1}
			case isIntType(phi.Type()):
				st.env[phi] = fval{isInt: true, f: fr.sym("iter:"+phi.Comment, lin.NegInf)}
			}
			continue
		}
		for i, p := range b.Preds {
			if p == pred {
				st.env[phi] = fr.val(st, phi.Edges[i])
			}
		}
	}
	fr.walkFrom(b, idx, st, depth, k)
}

func (fr *fillRun) walkFrom(b *ssa.BasicBlock, idx int, st *fstate, depth int, k kont) {
	for ; idx < len(b.Instrs); idx++ {
		switch in := b.Instrs[idx].(type) {
		case *ssa.DebugRef:
		case *ssa.If:
			cv := fr.val(st, in.Cond)
			follow := func(side int, s2 *fstate) {
				nb := b.Succs[side]
				if nb == fr.header && k == nil {
					fr.judgeDrop(s2) // next iteration without writePacket: the packet under construction is given up
					return
				}
				fr.walkK(nb, b, s2, depth+1, k)
			}
			if cv.isBool && cv.b >= 0 {
				follow(1-cv.b, st)
				return
			}
			for side := 0; side < 2; side++ {
				s2 := st.clone()
				truth := side == 0
				if cv.cmp != nil {
					if !fr.assumeCmp(s2, cv.cmp, truth) {
						continue
					}
				}
				if cv.nilOf != nil {
					pv := fr.val(s2, cv.nilOf)
					isNil := truth == cv.nilNeg
					if pv.isPtr {
						switch {
						case pv.pk == fpNil && !isNil, (pv.pk == fpCallerAF || pv.pk == fpStuffing) && isNil:
							continue // infeasible
						case pv.pk == fpCallerAFMaybe:
							if isNil {
								s2.env[cv.nilOf] = fval{isPtr: true, pk: fpNil}
							} else {
								s2.env[cv.nilOf] = fval{isPtr: true, pk: fpCallerAF}
							}
							// the cell it was loaded from follows
							if ld, ok := cv.nilOf.(*ssa.UnOp); ok {
								if k, ok := fr.addrKey(s2, ld.X); ok {
									s2.mem[k] = s2.env[cv.nilOf]
								}
							}
						}
					}
				}
				fr.assumeBool(s2, in.Cond, truth)
				s2.desc = append(s2.desc, fmt.Sprintf("%s=%v", in.Cond.Name(), truth))
				follow(side, s2)
			}
			return
		case *ssa.Jump:
			if b.Succs[0] == fr.header && k == nil {
				fr.judgeDrop(st)
				return
			}
			fr.walkK(b.Succs[0], b, st, depth+1, k)
			return
		case *ssa.Return:
			if k != nil {
				var rets []fval
				for _, rv := range in.Results {
					rets = append(rets, fr.val(st, rv))
				}
				k(st, rets)
			}
			return
		case *ssa.Store:
			k, ok := fr.addrKey(st, in.Addr)
			if !ok {
				continue
			}
			sv := fr.val(st, in.Val)
			if sv.isBool && sv.b < 0 && sv.ref == nil {
				sv.ref = in.Val
			}
			fr.store(st, k, sv)
		case *ssa.Call:
			if (fr.targets[in] || in.Call.StaticCallee() == fr.wp) && !fr.isFwdCall(in) {
				fr.judge(st, in)
				st.wrote = true
				st.env[in] = fval{tuple: []fval{{isInt: true, f: fr.sym("written", 0)}, {isPtr: true, pk: fpNil}}}
				continue
			}
			// a helper of the package that works on the packet under construction (or returns an adaptation field): inlined
			if cal := in.Call.StaticCallee(); cal != nil && cal.Pkg == fr.c.P.SSAPkg && len(cal.Blocks) > 0 && fr.inlinable(st, in, cal) && depth < 60 {
				for i, prm := range cal.Params {
					if i < len(in.Call.Args) {
						st.env[prm] = fr.val(st, in.Call.Args[i])
					}
				}
				callInstr, blk, next := in, b, idx+1
				fr.walkK(cal.Blocks[0], nil, st, depth+1, func(s2 *fstate, rets []fval) {
					switch len(rets) {
					case 0:
					case 1:
						s2.env[callInstr] = rets[0]
					default:
						s2.env[callInstr] = fval{tuple: rets}
					}
					fr.walkFrom(blk, next, s2, depth+1, k)
				})
				return
			}
			st.env[in] = fr.call(st, in)
		case ssa.Value:
			st.env[in] = fr.eval(st, in)
		}
	}
}

// inlinable: the callee is handed the address of a tracked local object (the packet under construction).
func (fr *fillRun) inlinable(st *fstate, in *ssa.Call, cal *ssa.Function) bool {
	if fr.makers[cal] || cal.Name() == "writePacket" || cal.Name() == "writePESData" {
		return false
	}
	for _, a := range in.Call.Args {
		if v := fr.val(st, a); v.addr != "" {
			return true
		}
	}
	return false
}

func isBoolType(t types.Type) bool {
	b, ok := t.Underlying().(*types.Basic)
	return ok && b.Info()&types.IsBoolean != 0
}

func isIntType(t types.Type) bool {
	b, ok := t.Underlying().(*types.Basic)
	return ok && b.Info()&types.IsInteger != 0
}

func (fr *fillRun) assumeCmp(st *fstate, c *fcmp, truth bool) bool {
	d := c.l.Sub(c.r) // l - r
	op := c.op
	if !truth {
		op = map[token.Token]token.Token{token.LSS: token.GEQ, token.GEQ: token.LSS, token.GTR: token.LEQ, token.LEQ: token.GTR, token.EQL: token.NEQ, token.NEQ: token.EQL}[op]
	}
	switch op {
	case token.LSS: // l - r <= -1
		st.facts = append(st.facts, lin.Fact{F: d.Scale(-1).AddC(-1)})
	case token.LEQ:
		st.facts = append(st.facts, lin.Fact{F: d.Scale(-1)})
	case token.GTR:
		st.facts = append(st.facts, lin.Fact{F: d.AddC(-1)})
	case token.GEQ:
		st.facts = append(st.facts, lin.Fact{F: d})
	case token.EQL:
		st.facts = append(st.facts, lin.Fact{F: d}, lin.Fact{F: d.Scale(-1)})
	}
	return true
}

func (fr *fillRun) eval(st *fstate, v ssa.Value) fval {
	switch x := v.(type) {
	case *ssa.Alloc:
		return fval{isPtr: true, pk: fpUnknown, addr: "alloc:" + x.Name()}
	case *ssa.FieldAddr, *ssa.IndexAddr:
		return fval{}
	case *ssa.UnOp:
		switch x.Op {
		case token.MUL:
			if k, ok := fr.addrKey(st, x.X); ok {
				return fr.load(st, k, x.Type())
			}
			if isIntType(x.Type()) {
				return fval{isInt: true, f: fr.sym("load", lin.NegInf)}
			}
			return fval{}
		case token.NOT:
			o := fr.val(st, x.X)
			if o.isBool && o.b >= 0 {
				return fval{isBool: true, b: 1 - o.b}
			}
			return fval{isBool: true, b: -1}
		}
	case *ssa.Convert:
		o := fr.val(st, x.X)
		if o.isInt {
			return o
		}
	case *ssa.ChangeType:
		return fr.val(st, x.X)
	case *ssa.Extract:
		t := fr.val(st, x.Tuple)
		if x.Index < len(t.tuple) {
			return t.tuple[x.Index]
		}
	case *ssa.Slice:
		return fval{isLen: true, f: fr.sym("slice", 0)}
	case *ssa.BinOp:
		l, r := fr.val(st, x.X), fr.val(st, x.Y)
		switch x.Op {
		case token.ADD:
			if l.isInt && r.isInt {
				return fval{isInt: true, f: l.f.Add(r.f)}
			}
		case token.SUB:
			if l.isInt && r.isInt {
				return fval{isInt: true, f: l.f.Sub(r.f)}
			}
		case token.LSS, token.LEQ, token.GTR, token.GEQ, token.EQL, token.NEQ:
			if l.isInt && r.isInt {
				return fval{isBool: true, b: -1, cmp: &fcmp{l: l.f, r: r.f, op: x.Op}}
			}
			if (x.Op == token.EQL || x.Op == token.NEQ) && ssau.IsNilConst(x.Y) {
				pv := fr.val(st, x.X)
				if pv.isPtr {
					switch pv.pk {
					case fpNil:
						return fval{isBool: true, b: b2i(x.Op == token.EQL)}
					case fpCallerAF, fpStuffing:
						return fval{isBool: true, b: b2i(x.Op == token.NEQ)}
					}
				}
				return fval{isBool: true, b: -1, nilOf: x.X, nilNeg: x.Op == token.EQL}
			}
			return fval{isBool: true, b: -1}
		}
		if isIntType(x.Type()) {
			return fval{isInt: true, f: fr.sym("arith", lin.NegInf)}
		}
	}
	if isIntType(v.Type()) {
		return fval{isInt: true, f: fr.sym("val", lin.NegInf)}
	}
	if isBoolType(v.Type()) {
		return fval{isBool: true, b: -1}
	}
	return fval{}
}

func b2i(b bool) int {
	if b {
		return 1
	}
	return 0
}

func (fr *fillRun) call(st *fstate, in *ssa.Call) fval {
	cal := in.Call.StaticCallee()
	name := ""
	if cal != nil {
		name = cal.Name()
	}
	if bi, ok := in.Call.Value.(*ssa.Builtin); ok && bi.Name() == "len" {
		a := fr.val(st, in.Call.Args[0])
		if a.isLen {
			return fval{isInt: true, f: a.f}
		}
		return fval{isInt: true, f: fr.sym("len", 0)}
	}
	switch {
	case name == "calcPacketAdaptationFieldLength":
		p := fr.val(st, in.Call.Args[0])
		if p.isPtr && (p.pk == fpCallerAF || p.pk == fpCallerAFMaybe) {
			s := fr.load(st, "callerAF.StuffingLength", types.Typ[types.Int])
			return fval{isInt: true, f: fr.named("A0", 1).Add(s.f)}
		}
		if p.isPtr && p.pk == fpStuffing {
			return fval{isInt: true, f: p.n.AddC(-1)}
		}
		return fval{isInt: true, f: fr.sym("calcAF", 0)}
	case name == "calcPESOptionalHeaderLength":
		return fval{isInt: true, f: fr.named("H", 0)}
	case cal != nil && fr.makers[cal]:
		for _, a := range in.Call.Args {
			if av := fr.val(st, a); av.isInt {
				return fval{isPtr: true, pk: fpStuffing, n: av.f}
			}
		}
		return fval{isPtr: true}
	case name == "writePESData":
		avail := fr.val(st, in.Call.Args[4])
		ntot := fr.sym("ntot", lin.NegInf)
		if avail.isInt {
			st.facts = append(st.facts, lin.Fact{F: avail.f.Sub(ntot)})
		}
		if st.bufLen != nil {
			f := st.bufLen.Add(ntot)
			st.bufLen = &f
		}
		return fval{tuple: []fval{{isInt: true, f: ntot}, {isInt: true, f: fr.sym("npayload", 0)}, {isPtr: true, pk: fpNil}}}
	case name == "Reset" && cal.Signature.Recv() != nil && strings.Contains(cal.Signature.Recv().Type().String(), "bytes.Buffer"):
		z := lin.Const(0)
		st.bufLen = &z
		return fval{}
	case name == "Bytes" && cal.Signature.Recv() != nil && strings.Contains(cal.Signature.Recv().Type().String(), "bytes.Buffer"):
		if st.bufLen != nil {
			return fval{isLen: true, f: *st.bufLen}
		}
		return fval{isLen: true, f: fr.sym("buflen", 0)}
	}
	// any other call: its integer result is unknown; a call that could write the tracked cells makes them unknown
	if cal != nil && cal.Pkg == fr.c.P.SSAPkg {
		for _, a := range in.Call.Args {
			if _, isAlloc := a.(*ssa.Alloc); isAlloc {
				fr.unk = append(fr.unk, "the packet under construction is handed to "+name+" before writePacket: its fields are no longer known")
			}
		}
	}
	if isIntType(in.Type()) {
		return fval{isInt: true, f: fr.sym("call:"+name, lin.NegInf)}
	}
	return fval{}
}

// judgeDrop: a path goes round the loop without writePacket. That is the documented case "the adaptation field and the PES
// header do not fit one packet" (an open known finding of C01 as far as the lost adaptation field is concerned); what is
// decided here is that it happens ONLY then: the path's facts must imply bytesAvailable < 6 + calcPESOptionalHeaderLength,
// bytesAvailable being what the packet had left for the PES header.
func (fr *fillRun) judgeDrop(st *fstate) {
	if st.wrote {
		return // the packet of this iteration was written
	}
	fr.ndrops++
	path := strings.Join(st.desc, ",")
	parg := fr.target.Call.Args[len(fr.target.Call.Args)-1]
	for _, a := range fr.target.Call.Args {
		if pt, isP := a.Type().Underlying().(*types.Pointer); isP {
			if n, isN := pt.Elem().(*types.Named); isN && n.Obj().Name() == "Packet" {
				parg = a
			}
		}
	}
	pk, ok := fr.addrKey(st, parg)
	if !ok {
		return
	}
	hasPayload := fr.load(st, pk+".Header.HasPayload", types.Typ[types.Bool])
	if hasPayload.isBool && hasPayload.b == 1 {
		fr.dropBad = append(fr.dropBad, "["+path+"] a packet with payload is built but the loop goes on without writing it")
		return
	}
	af := fr.load(st, pk+".AdaptationField", types.NewPointer(types.Typ[types.Int]))
	var avail lin.Form
	switch {
	case af.isPtr && af.pk == fpCallerAF:
		s := fr.load(st, "callerAF.StuffingLength", types.Typ[types.Int])
		avail = s.f.Sub(lin.Sym("S0"))
	case af.isPtr && af.pk == fpStuffing:
		avail = af.n
	default:
		fr.dropUnk = append(fr.dropUnk, "["+path+"] a packet is given up whose adaptation field is neither the caller's nor a stuffing field")
		return
	}
	h := fr.ip.Harness(fr.wd)
	h.Facts = append(h.Facts, st.facts...)
	goal := fr.ip.SimplifyForm(lin.Sym("H").AddC(6).Sub(avail).AddC(-1), h)
	if h.ProveSimplified(goal) {
		return
	}
	fr.dropBad = append(fr.dropBad, fmt.Sprintf("[%s] the first packet of the unit is given up although %s bytes are free and the PES header needs 6 + H: not known to be too small (cannot show %s >= 0)", path, avail.String(), goal.String()))
}

func (fr *fillRun) isFwdCall(c *ssa.Call) bool {
	for _, f := range fr.fwdCalls {
		if f == c {
			return true
		}
	}
	return false
}

func (fr *fillRun) judge(st *fstate, call *ssa.Call) {
	fr.npaths++
	path := strings.Join(st.desc, ",")
	args := call.Call.Args
	pk, ok := fr.addrKey(st, args[1])
	if !ok {
		fr.unk = append(fr.unk, "the packet argument of writePacket is not a local packet")
		return
	}
	target := fr.val(st, args[2])
	if !target.isInt {
		fr.unk = append(fr.unk, "the target size argument of writePacket is not an integer form")
		return
	}
	hasAF := fr.load(st, pk+".Header.HasAdaptationField", types.Typ[types.Bool])
	hasPayload := fr.load(st, pk+".Header.HasPayload", types.Typ[types.Bool])
	payload := fr.load(st, pk+".Payload", types.NewSlice(types.Typ[types.Byte]))
	af := fr.load(st, pk+".AdaptationField", types.NewPointer(types.Typ[types.Int]))
	if !hasAF.isBool || hasAF.b < 0 {
		fr.unk = append(fr.unk, "["+path+"] Header.HasAdaptationField of the packet is not determined on this path")
		return
	}
	total := lin.Const(4)
	what := "4"
	if hasAF.b == 1 {
		switch {
		case af.isPtr && af.pk == fpCallerAF:
			s := fr.load(st, "callerAF.StuffingLength", types.Typ[types.Int])
			total = total.AddC(1).Add(lin.Sym("A0")).Add(s.f)
			what += " + 1 + A0 + StuffingLength(" + s.f.String() + ")"
		case af.isPtr && af.pk == fpStuffing:
			total = total.Add(af.n)
			what += " + stuffing field for " + af.n.String()
			h := fr.ip.Harness(fr.wd)
			h.Facts = append(h.Facts, st.facts...)
			if !h.ProveSimplified(fr.ip.SimplifyForm(af.n.AddC(-1), h)) {
				fr.bad = append(fr.bad, "["+path+"] the stuffing adaptation field is made for "+af.n.String()+" bytes, not known to be >= 1")
				return
			}
		case af.isPtr && (af.pk == fpNil || af.pk == fpCallerAFMaybe):
			fr.bad = append(fr.bad, "["+path+"] HasAdaptationField is set but the packet's AdaptationField may be nil (writePacket dereferences it)")
			return
		default:
			fr.unk = append(fr.unk, "["+path+"] the packet's AdaptationField is not the caller's field nor a stuffing field")
			return
		}
	}
	if hasPayload.isBool && hasPayload.b == 1 {
		if !payload.isLen {
			fr.unk = append(fr.unk, "["+path+"] the length of the packet's payload is unknown")
			return
		}
		total = total.Add(payload.f)
		what += " + payload(" + payload.f.String() + ")"
	} else if !(hasPayload.isBool && hasPayload.b == 0) {
		fr.unk = append(fr.unk, "["+path+"] Header.HasPayload is not determined")
		return
	}
	h := fr.ip.Harness(fr.wd)
	h.Facts = append(h.Facts, st.facts...)
	d := fr.ip.SimplifyForm(total.Sub(target.f), h)
	if d.IsConst() && d.C == 0 {
		return
	}
	if h.ProveSimplified(d) && h.ProveSimplified(d.Scale(-1)) {
		return
	}
	fr.bad = append(fr.bad, fmt.Sprintf("[%s] the packet holds %s = %s bytes, writePacket's target is %s (difference %s): writePacket pads 0xFF after the payload or rejects the packet", path, what, total.String(), target.f.String(), d.String()))
}

// muxerBuffersStartEmpty (rule B1): every bytes.Buffer field of the Muxer that a BitsWriter writes into is emptied before it
// is written in a method — a Reset() of that very field dominates every use of a writer linked to it. Content left behind by
// a call that failed (the underlying writer refused it) would otherwise be emitted in front of the next call's packet: more
// bytes than reported, and not what the caller passed.
func muxerBuffersStartEmpty(c *Ctx) {
	r := c.R
	const rule = "B1"
	// writer links: NewBitsWriter(opts{Writer: &m.F}) → result (and the Muxer field it is stored into)
	type link struct {
		call *ssa.Call
		buf  string
	}
	var links []link
	fieldWriter := map[string]string{} // Muxer writer field -> buffer field
	isMuxerPtr := func(v ssa.Value) bool {
		pt, ok := v.Type().Underlying().(*types.Pointer)
		if !ok {
			return false
		}
		nm, ok := pt.Elem().(*types.Named)
		return ok && nm.Obj().Name() == "Muxer"
	}
	for _, f := range c.P.SrcFuncs() {
		for _, b := range f.Blocks {
			for _, in := range b.Instrs {
				call, ok := in.(*ssa.Call)
				if !ok || call.Call.StaticCallee() == nil || call.Call.StaticCallee().Name() != "NewBitsWriter" || len(call.Call.Args) != 1 {
					continue
				}
				optsLoad, ok := call.Call.Args[0].(*ssa.UnOp)
				if !ok || optsLoad.X.Referrers() == nil {
					continue
				}
				for _, ref := range *optsLoad.X.Referrers() {
					wfa, ok := ref.(*ssa.FieldAddr)
					if !ok {
						continue
					}
					if wn, _ := ssau.FieldName(wfa); wn != "Writer" || wfa.Referrers() == nil {
						continue
					}
					for _, r2 := range *wfa.Referrers() {
						s2, ok := r2.(*ssa.Store)
						if !ok {
							continue
						}
						mi, ok := s2.Val.(*ssa.MakeInterface)
						if !ok {
							continue
						}
						bfa, ok := mi.X.(*ssa.FieldAddr)
						if !ok || !isMuxerPtr(bfa.X) {
							continue
						}
						bn, _ := ssau.FieldName(bfa)
						links = append(links, link{call, bn})
						if call.Referrers() != nil {
							for _, r3 := range *call.Referrers() {
								if s3, ok := r3.(*ssa.Store); ok && s3.Val == ssa.Value(call) {
									if tfa, ok := s3.Addr.(*ssa.FieldAddr); ok && isMuxerPtr(tfa.X) {
										tn, _ := ssau.FieldName(tfa)
										fieldWriter[tn] = bn
									}
								}
							}
						}
					}
				}
			}
		}
	}
	if len(links) == 0 {
		r.Unknown(rule, "links", "", "no BitsWriter over a Muxer buffer field found")
		return
	}
	resetDominates := func(f *ssa.Function, buf string, use ssa.Instruction) bool {
		for _, b := range f.Blocks {
			for _, in := range b.Instrs {
				call, ok := in.(*ssa.Call)
				if !ok || call.Call.StaticCallee() == nil || call.Call.StaticCallee().Name() != "Reset" || len(call.Call.Args) != 1 {
					continue
				}
				fa, ok := call.Call.Args[0].(*ssa.FieldAddr)
				if !ok || !isMuxerPtr(fa.X) {
					continue
				}
				if n, _ := ssau.FieldName(fa); n != buf {
					continue
				}
				if (call.Block() == use.Block() && ssau.InstrBefore(call, use)) || (call.Block() != use.Block() && call.Block().Dominates(use.Block())) {
					return true
				}
			}
		}
		return false
	}
	n := 0
	for _, f := range c.P.SrcFuncs() {
		if f.Signature.Recv() == nil || !isMuxerPtr(f.Params[0]) {
			continue
		}
		for _, b := range f.Blocks {
			for _, in := range b.Instrs {
				ci, ok := in.(ssa.CallInstruction)
				if !ok {
					continue
				}
				for _, arg := range ci.Common().Args {
					buf := ""
					if ld, ok := arg.(*ssa.UnOp); ok && ld.Op == token.MUL {
						if fa, ok := ld.X.(*ssa.FieldAddr); ok && isMuxerPtr(fa.X) {
							if fn, _ := ssau.FieldName(fa); fieldWriter[fn] != "" {
								buf = fieldWriter[fn]
							}
						}
					}
					for _, l := range links {
						if arg == ssa.Value(l.call) {
							buf = l.buf
						}
					}
					if buf == "" {
						continue
					}
					n++
					key := fmt.Sprintf("%s/writes-into[%s]#%d", load.FuncName(f), buf, n)
					r.Check(resetDominates(f, buf, in), rule, key, c.P.Pos(in.Pos()),
						"m."+buf+".Reset() dominates this write into the buffer: nothing of an earlier call is in front of it",
						"m."+buf+" is written without being emptied first in "+load.FuncName(f)+": what an earlier call left there (its writer failed, or it returned early) is emitted in front of this call's bytes")
				}
			}
		}
	}
	r.Floor(rule, "writes into Muxer buffers through linked BitsWriters", n, 4)
}
