package props

import (
	"astverif/layout"
	"astverif/lin"
	"astverif/ownership"

	"golang.org/x/tools/go/ssa"
)

func init() { register("C12", "other", c12) }

func constForm(v int64) func(*layout.Source) *lin.Form {
	return func(*layout.Source) *lin.Form { f := lin.Const(v); return &f }
}

func exempt(*layout.Source) *lin.Form { return nil }

func c12Pairs(c *Ctx) []layout.RTPair {
	noExt := "a PTS/DTS has no extension part: the 5-byte layout carries the 33-bit base only"
	return []layout.RTPair{
		{Name: "pts-dts", Writer: c.fn("writePTSOrDTS"), Parser: c.fn("parsePTSOrDTS"), WriterObj: "$w", It: "$i", Root: "$cr", RootPtr: true, MinSources: 1, Guided: true,
			NotWritten: map[string]string{"Extension": noExt}},
		{Name: "escr", Writer: c.fn("writeESCR"), Parser: c.fn("parseESCR"), WriterObj: "$w", It: "$i", Root: "$cr", RootPtr: true, MinSources: 1, Guided: true},
		{Name: "pes-optional-header", Writer: c.fn("writePESOptionalHeader"), Parser: c.fn("parsePESOptionalHeader"), WriterObj: "$w", It: "$i", Root: "$h", RootPtr: true,
			MinSources: 2000, Guided: true,
			Computed: map[string]func(*layout.Source) *lin.Form{
				// '10' marker bits are written as a constant
				"MarkerBits": constForm(2),
				// PES_header_data_length is recomputed by the writer: the parsed value must be the number of bytes that follow it
				"HeaderLength": func(src *layout.Source) *lin.Form {
					if !src.TotalOK || !layout.Div8(src.Total) {
						return nil
					}
					f := layout.ScaleDown8(src.Total).AddC(-3)
					return &f
				},
				// PES_extension_field_length is taken from the data itself
				"Extension2Length": func(src *layout.Source) *lin.Form {
					for _, ch := range src.Chunks {
						if ch.Kind == layout.CBlob && ch.Blob == "$h.Extension2Data" {
							f := ch.Len
							return &f
						}
					}
					f := lin.Const(0)
					return &f
				},
			},
			Why: map[string]string{},
			NotWritten: map[string]string{
				"PTS.Extension":      noExt,
				"DTS.Extension":      noExt,
				"HasCRC":             "previous_PES_packet_CRC is not supported by the writer: the flag is written as 0",
				"CRC":                "previous_PES_packet_CRC is not supported by the writer",
				"HasPackHeaderField": "pack_header_field is not supported by the writer: the flag is written as 0",
				"PackField":          "pack_header_field is not supported by the writer",
				"HasOptionalFields":  "not part of the stream (never set by the parser either)",
			},
		},
		{Name: "pes-header", Writer: c.fn("writePESHeader"), Parser: c.fn("parsePESHeader"), WriterObj: "$w", It: "$i", Root: "$h", RootPtr: true, Start: 3,
			MinSources: 4, Guided: true,
			// the optional header has its own pair: here one representative valuation of it is enough
			WriterPreds: map[string]bool{"$h/OptionalHeader.HasESCR": false, "$h/OptionalHeader.HasESRate": true, "$h/OptionalHeader.HasDSMTrickMode": false,
				"$h/OptionalHeader.HasAdditionalCopyInfo": false, "$h/OptionalHeader.HasExtension": false},
			WriterEq:      map[string]int64{"$h/OptionalHeader.PTSDTSIndicator": 2},
			SourceRuleKey: "PES_packet_length-rule", SourceRule: pesPacketLengthRule,
			SkipParamConds:  map[string]bool{"nil:$h/OptionalHeader": true},
			SkipWhy:         "PESHeader.OptionalHeader is not nil (a nil optional header is only meaningful for stream ids that have none; the muxer does not check it)",
			ElsewherePrefix: "OptionalHeader.", ElsewhereWhy: "decided for every valuation in pair pes-optional-header",
			Computed: map[string]func(*layout.Source) *lin.Form{
				// PES_packet_length: the parser must deliver the 16 bits the writer emitted after the stream id (the
				// rule that chooses the emitted value is not decided here)
				"PacketLength": func(src *layout.Source) *lin.Form {
					for _, ch := range src.Chunks {
						if ch.Kind == layout.CBits && ch.W == 16 && ch.PosOK && ch.Pos.IsConst() && ch.Pos.C == 32 && ch.Lin != nil {
							f := *ch.Lin
							return &f
						}
					}
					return nil
				},
				"OptionalHeader.MarkerBits":       constForm(2),
				"OptionalHeader.HeaderLength":     exempt,
				"OptionalHeader.Extension2Length": exempt,
			},
			Why: map[string]string{
				"PacketLength":                    "the emitted PES_packet_length chunk could not be located",
				"OptionalHeader.HeaderLength":     "decided in pair pes-optional-header",
				"OptionalHeader.Extension2Length": "decided in pair pes-optional-header",
			},
			NotWritten: map[string]string{
				"OptionalHeader.PTS.Extension":      noExt,
				"OptionalHeader.DTS.Extension":      noExt,
				"OptionalHeader.HasCRC":             "previous_PES_packet_CRC is not supported by the writer: the flag is written as 0",
				"OptionalHeader.CRC":                "previous_PES_packet_CRC is not supported by the writer",
				"OptionalHeader.HasPackHeaderField": "pack_header_field is not supported by the writer: the flag is written as 0",
				"OptionalHeader.PackField":          "pack_header_field is not supported by the writer",
				"OptionalHeader.HasOptionalFields":  "not part of the stream (never set by the parser either)",
			},
		},
	}
}

func c12(c *Ctx) {
	r := c.R
	r.Explanation = "Engine A at bit level on the PES structures. A3: for every outcome of each PES writer (PTS/DTS classes × ESCR × ES rate × 6 DSM trick-mode classes × copy info × extension flags × extension-2 data) the emitted abstract stream (GF(2)-affine bit forms over the header fields) is given to the parser's abstract interpretation; every parsed field must come back as the written field on the emitted width (all 2^33 timestamp values at once: the 3/15/15 split with marker bits is checked bit by bit), the parser must accept the stream and consume exactly the emitted bytes, PES_header_data_length and PES_extension_field_length must equal the bytes that follow them. " +
		"A5: no shift or mask discards its whole operand (the decoding of fields the writer does not support is only covered by this rule). A2: calcPESOptionalHeader(Data)Length = bytes emitted. " +
		"A4: reference encodings transcribed from ISO 13818-1 2.4.3.6/7 (PTS, ESCR, 816 optional headers, 16 DSM trick-mode bytes, 24 whole PES packets with bounded/unbounded PES_packet_length, header stuffing and trailing bytes) are parsed by the same abstract interpretation: fields come from the bits the standard puts them in, the payload is exactly what PES_packet_length delimits; the parser's own unsigned arithmetic is unknown where it can wrap. " +
		"D1: ClockReference.Duration() = Base·10^9/90000 + Extension·10^9/27000000, multiplied before divided, no int64 overflow for Base < 2^33, Extension < 2^9 (symbolic evaluation of the SSA expression). " +
		"NOT decided: pack_header_field, behaviour on PES_packet_length larger than the available bytes beyond 'an error', ClockReference.Time()."
	r.RuleText = "one obligation per structure field (A3/<pair>/field/<path>), per pair acceptance and consumption, per length pair (A2), per dead bit operation (A5), per term of Duration() (D1)"
	r.Trusted = []string{"go/types + go/ssa (x/tools v0.29.0)", "astikit BitsWriter (Write emits the operand's bits MSB first, WriteN the low n bits, WriteBytesN exactly n bytes) and BytesIterator summaries", "package bitdom (unit-tested against concrete evaluation)"}
	ck := layout.NewBits(c.P)
	ck.A3(r, c12Pairs(c))
	// A4: the parsers against reference encodings transcribed from the standard (independent of the writer)
	ck.A3(r, c12SpecPairs(c))
	var fs []*ssa.Function
	for _, n := range []string{"parsePESHeader", "parsePESOptionalHeader", "parseDSMTrickMode", "parsePTSOrDTS", "parseESCR",
		"writePESOptionalHeader", "writeDSMTrickMode", "writePTSOrDTS", "writeESCR"} {
		fs = append(fs, c.fn(n))
	}
	ck.A5(r, fs)
	for _, d := range ck.IP.Diag {
		r.Unknown("A0", "diag/"+d, "", d)
	}
	lk := layout.New(c.P)
	lk.A2(r, packetPairs(c)[2:])
	c12Duration(c)
	// a decoded header field stays what was decoded: no retained slice (private data, extension data, payload) aliases the
	// pooled payload buffer (rule S3 of C16)
	r.Floor("S3", "borrowed/owned byte-slice source sites", ownership.BorrowTaint(c.P, r), 10)
	r.Floor("A3", "structure fields compared", countPrefix(r, "A3/", "/field/"), 60)
	// "payload is the rest of the unit when PES_packet_length is zero": every packet WriteData emits is filled exactly — padding
	// after the payload of an unbounded PES (any stream id, once the packet exceeds 65535 bytes) is read back as payload (F1 of C04)
	c04ExactFill(c)
}

// pesPacketLengthRule: the 16 bits emitted as PES_packet_length are the number of bytes that follow them (the rest of
// the header plus the payload) when that number fits 16 bits, and 0 exactly when it does not or the stream is a
// video stream (ISO 13818-1 2.4.3.7: 0 is only allowed for video elementary streams; the library also uses it for
// lengths above 65535).
func pesPacketLengthRule(c *layout.Checker, src *layout.Source) string {
	var v *lin.Form
	for _, ch := range src.Chunks {
		if ch.Kind == layout.CBits && ch.W == 16 && ch.PosOK && ch.Pos.IsConst() && ch.Pos.C == 32 && ch.Lin != nil {
			f := *ch.Lin
			v = &f
		}
	}
	if v == nil || !src.TotalOK || !layout.Div8(src.Total) {
		return "the emitted PES_packet_length could not be located"
	}
	st := src.St
	own := c.OwnState(src)
	l := layout.ScaleDown8(src.Total).AddC(-6).Add(lin.Sym("$payloadSize"))
	eq := func(a, b lin.Form) bool {
		d := c.IP.SimplifyForm(a.Sub(b), st)
		return (d.IsConst() && d.C == 0) || (st.ProveSimplified(d) && st.ProveSimplified(d.Scale(-1)))
	}
	id := lin.Sym("$h.StreamID")
	video := eq(id, lin.Const(0xe0)) || eq(id, lin.Const(0xfd))
	switch {
	case video:
		if eq(*v, lin.Const(0)) {
			return ""
		}
		return "video stream: PES_packet_length is " + v.String() + ", expected 0"
	case eq(*v, l):
		if own.ProveSimplified(lin.Const(0xffff).Sub(l)) {
			return ""
		}
		return "the emitted length " + l.String() + " is not known to fit 16 bits on this path"
	case eq(*v, lin.Const(0)):
		if own.ProveSimplified(l.AddC(-0x10000)) {
			return ""
		}
		return "PES_packet_length 0 is emitted although the length " + l.String() + " is not known to exceed 65535 on this path"
	}
	return "PES_packet_length is " + v.String() + ", neither the number of bytes that follow (" + l.String() + ") nor 0"
}
