package props

import (
	"fmt"

	"astverif/layout"
	"astverif/lin"
)

// Reference encodings (EN 300 468 v1.15.1 tables 3, 5, 7, 9) of the section bodies that follow the 5-byte section
// syntax header, for the tables the library only parses. Lists are instantiated with 0, 1 and 2 entries; descriptor
// loops are empty here (descriptor bodies are decided under C14). Fields that go through calendar/BCD arithmetic
// (UTC_time, start_time, duration) are opaque: only their width (hence the position of what follows) is specified.

// sdtSpec: table 5 — service_description_section.
func sdtSpec(c *layout.Checker) []*layout.Source {
	var out []*layout.Source
	for n := 0; n <= 2; n++ {
		b := c.NewSpec(fmt.Sprintf("SDT with %d services", n))
		b.Field(16, "$d.OriginalNetworkID").Const(8, 0xff) // original_network_id, reserved_future_use
		b.ListLen("$d.Services", n)
		for k := 0; k < n; k++ {
			e := layout.Elem("$d.Services", k)
			b.Field(16, e+".ServiceID").Const(6, 0x3f)                        // service_id, reserved_future_use
			b.Flag(e + ".HasEITSchedule").Flag(e + ".HasEITPresentFollowing") // EIT_schedule_flag, EIT_present_following_flag
			b.Field(3, e+".RunningStatus").Flag(e + ".HasFreeCSAMode")        // running_status, free_CA_mode
			b.Const(12, 0).EmptyList(e + ".Descriptors")                      // descriptors_loop_length = 0
		}
		out = append(out, b.Source())
	}
	return out
}

// nitSpec: table 3 — network_information_section.
func nitSpec(c *layout.Checker) []*layout.Source {
	var out []*layout.Source
	for n := 0; n <= 2; n++ {
		b := c.NewSpec(fmt.Sprintf("NIT with %d transport streams", n))
		b.Const(4, 0xf).Const(12, 0).EmptyList("$d.NetworkDescriptors") // reserved_future_use, network_descriptors_length = 0
		b.Const(4, 0xf).Const(12, uint64(6*n))                          // reserved_future_use, transport_stream_loop_length
		b.ListLen("$d.TransportStreams", n)
		for k := 0; k < n; k++ {
			e := layout.Elem("$d.TransportStreams", k)
			b.Field(16, e+".TransportStreamID").Field(16, e+".OriginalNetworkID") // transport_stream_id, original_network_id
			b.Const(4, 0xf).Const(12, 0).EmptyList(e + ".TransportDescriptors")   // reserved_future_use, transport_descriptors_length = 0
		}
		out = append(out, b.Source())
	}
	return out
}

// eitSpec: table 7 — event_information_section.
func eitSpec(c *layout.Checker) []*layout.Source {
	var out []*layout.Source
	for n := 0; n <= 2; n++ {
		b := c.NewSpec(fmt.Sprintf("EIT with %d events", n))
		b.Field(16, "$d.TransportStreamID").Field(16, "$d.OriginalNetworkID") // transport_stream_id, original_network_id
		b.Field(8, "$d.SegmentLastSectionNumber").Field(8, "$d.LastTableID")  // segment_last_section_number, last_table_id
		b.ListLen("$d.Events", n)
		for k := 0; k < n; k++ {
			e := layout.Elem("$d.Events", k)
			b.Field(16, e+".EventID")                                  // event_id
			b.Opaque(40, e+".StartTime").Opaque(24, e+".Duration")     // start_time (MJD + BCD), duration (BCD)
			b.Field(3, e+".RunningStatus").Flag(e + ".HasFreeCSAMode") // running_status, free_CA_mode
			b.Const(12, 0).EmptyList(e + ".Descriptors")               // descriptors_loop_length = 0
		}
		out = append(out, b.Source())
	}
	return out
}

// syntaxHeaderSpec: ISO 13818-1 table 2-30, the five bytes after section_length of a section with
// section_syntax_indicator = 1.
func syntaxHeaderSpec(c *layout.Checker) []*layout.Source {
	b := c.NewSpec("section syntax header")
	b.Field(16, "$h.TableIDExtension").Const(2, 3).Field(5, "$h.VersionNumber").Flag("$h.CurrentNextIndicator") // table_id_extension, reserved, version_number, current_next_indicator
	b.Field(8, "$h.SectionNumber").Field(8, "$h.LastSectionNumber")                                             // section_number, last_section_number
	return []*layout.Source{b.Source()}
}

// patSpec: ISO 13818-1 table 2-30 — program_association_section body (a loop of program_number / PID up to the CRC).
func patSpec(c *layout.Checker) []*layout.Source {
	var out []*layout.Source
	for n := 0; n <= 2; n++ {
		b := c.NewSpec(fmt.Sprintf("PAT with %d programs", n))
		b.ListLen("$d.Programs", n)
		for k := 0; k < n; k++ {
			e := layout.Elem("$d.Programs", k)
			b.Field(16, e+".ProgramNumber").Const(3, 7).Field(13, e+".ProgramMapID") // program_number, reserved, program_map_PID / network_PID
		}
		out = append(out, b.Source())
	}
	return out
}

// pmtSpec: ISO 13818-1 table 2-33 — TS_program_map_section body; descriptor loops are empty here (C14 decides the bodies,
// spec/descriptor-loop the framing).
func pmtSpec(c *layout.Checker) []*layout.Source {
	var out []*layout.Source
	for n := 0; n <= 2; n++ {
		b := c.NewSpec(fmt.Sprintf("PMT with %d elementary streams", n))
		b.Const(3, 7).Field(13, "$d.PCRPID")                            // reserved, PCR_PID
		b.Const(4, 0xf).Const(12, 0).EmptyList("$d.ProgramDescriptors") // reserved, program_info_length = 0
		b.ListLen("$d.ElementaryStreams", n)
		for k := 0; k < n; k++ {
			e := layout.Elem("$d.ElementaryStreams", k)
			b.Field(8, e+".StreamType").Const(3, 7).Field(13, e+".ElementaryPID")      // stream_type, reserved, elementary_PID
			b.Const(4, 0xf).Const(12, 0).EmptyList(e + ".ElementaryStreamDescriptors") // reserved, ES_info_length = 0
		}
		out = append(out, b.Source())
	}
	return out
}

// totSpec: table 9 — time_offset_section (without its CRC_32).
func totSpec(c *layout.Checker) []*layout.Source {
	b := c.NewSpec("TOT")
	b.Opaque(40, "$d.UTCTime")                               // UTC_time
	b.Const(4, 0xf).Const(12, 0).EmptyList("$d.Descriptors") // reserved, descriptors_loop_length = 0
	return []*layout.Source{b.Source()}
}

// sectionHeaderSpec: ISO 13818-1 table 2-30 (private_section header, common to all PSI/SI sections).
func sectionHeaderSpec(c *layout.Checker) []*layout.Source {
	var out []*layout.Source
	// one instance per table kind the library delivers (ids that stop the parsing return after table_id by design)
	for _, id := range []int64{0x00, 0x02, 0x40, 0x42, 0x4e, 0x6f, 0x73} {
		b := c.NewSpec(fmt.Sprintf("section header of table id 0x%02x", id))
		b.Field(8, "$h.TableID").Flag("$h.SectionSyntaxIndicator").Flag("$h.PrivateBit").Const(2, 3).Field(12, "$h.SectionLength")
		b.Fix("$h.TableID", id)
		out = append(out, b.Source())
	}
	return out
}

// unparsedSectionSpec: sections of tables the library knows but does not decode (BAT, RST, ST, TDT, DIT, SIT). They carry
// no CRC_32 for the library; what matters is that the whole section (3 + section_length bytes) is consumed so that the
// section that follows it in the same unit is found.
func unparsedSectionSpec(c *layout.Checker) []*layout.Source {
	var out []*layout.Source
	for _, id := range []int64{0x4a, 0x70, 0x71, 0x72, 0x7e, 0x7f} {
		for _, n := range []int64{0, 5} {
			b := c.NewSpec(fmt.Sprintf("section of table id 0x%02x with %d body bytes", id, n))
			b.Field(8, "$s/Header.TableID").Flag("$s/Header.SectionSyntaxIndicator").Flag("$s/Header.PrivateBit").Const(2, 3)
			b.Fix("$s/Header.TableID", id)
			b.Const(12, uint64(n)) // section_length
			if n > 0 {
				b.Opaque(int(8*n), "$body")
			}
			out = append(out, b.Source())
		}
	}
	return out
}

func tableIDExt(*layout.Source) *lin.Form { f := lin.Sym("$tableIDExtension"); return &f }

func c13SpecPairs(c *Ctx) []layout.RTPair {
	timeWhy := "MJD/BCD calendar arithmetic (decided by the rules G1–G4 of C15, which this check also runs); the field's width is specified, its value is not interpreted"
	return []layout.RTPair{
		{Name: "psi-section-header", Parser: c.fn("parsePSISectionHeader"), Sources: sectionHeaderSpec, It: "$i", Root: "$h", RootPtr: true, MinSources: 7,
			NotWritten: map[string]string{"TableType": "a name derived from table_id (truth table T1), not a field of the stream"}},
		{Name: "psi-section-unparsed", Parser: c.fn("parsePSISection"), Sources: unparsedSectionSpec, It: "$i", Root: "$s", RootPtr: true, MinSources: 12,
			Computed: map[string]func(*layout.Source) *lin.Form{"Header.SectionLength": func(src *layout.Source) *lin.Form {
				if !src.TotalOK || !layout.Div8(src.Total) {
					return nil
				}
				f := layout.ScaleDown8(src.Total).AddC(-3)
				return &f
			}},
			NotWritten: map[string]string{"Header.TableType": "a name derived from table_id (truth table T1), not a field of the stream",
				"CRC32": "these tables carry no CRC_32 the library checks"},
			ElsewherePrefix: "Syntax.", ElsewhereWhy: "the body of these tables is not decoded (the per-table pairs decide the decoded ones)"},
		{Name: "psi-syntax-header", Parser: c.fn("parsePSISectionSyntaxHeader"), Sources: syntaxHeaderSpec, It: "$i", Root: "$h", RootPtr: true, MinSources: 1},
		{Name: "pat-section", Parser: c.fn("parsePATSection"), Sources: patSpec, It: "$i", Root: "$d", RootPtr: true, MinSources: 3,
			ParserParams: map[string]func(*layout.Source) lin.Form{"offsetSectionsEnd": endOfStream},
			Computed:     map[string]func(*layout.Source) *lin.Form{"TransportStreamID": tableIDExt}},
		{Name: "pmt-section", Parser: c.fn("parsePMTSection"), Sources: pmtSpec, It: "$i", Root: "$d", RootPtr: true, MinSources: 3,
			ParserParams: map[string]func(*layout.Source) lin.Form{"offsetSectionsEnd": endOfStream},
			Computed:     map[string]func(*layout.Source) *lin.Form{"ProgramNumber": tableIDExt}},
		{Name: "sdt-section", Parser: c.fn("parseSDTSection"), Sources: sdtSpec, It: "$i", Root: "$d", RootPtr: true, MinSources: 3,
			ParserParams: map[string]func(*layout.Source) lin.Form{"offsetSectionsEnd": endOfStream},
			Computed:     map[string]func(*layout.Source) *lin.Form{"TransportStreamID": tableIDExt}},
		{Name: "nit-section", Parser: c.fn("parseNITSection"), Sources: nitSpec, It: "$i", Root: "$d", RootPtr: true, MinSources: 3,
			Computed: map[string]func(*layout.Source) *lin.Form{"NetworkID": tableIDExt}},
		{Name: "eit-section", Parser: c.fn("parseEITSection"), Sources: eitSpec, It: "$i", Root: "$d", RootPtr: true, MinSources: 3,
			ParserParams: map[string]func(*layout.Source) lin.Form{"offsetSectionsEnd": endOfStream},
			Computed:     map[string]func(*layout.Source) *lin.Form{"ServiceID": tableIDExt, "Events[].StartTime": exempt, "Events[].Duration": exempt},
			Why:          map[string]string{"Events[].StartTime": timeWhy, "Events[].Duration": timeWhy}},
		{Name: "tot-section", Parser: c.fn("parseTOTSection"), Sources: totSpec, It: "$i", Root: "$d", RootPtr: true, MinSources: 1,
			Computed: map[string]func(*layout.Source) *lin.Form{"UTCTime": exempt},
			Why:      map[string]string{"UTCTime": timeWhy}},
	}
}
