package props

import (
	"astverif/layout"
)

// descriptorSpecs builds the reference encodings (nil: none yet). It is assigned, together with the tables
// descriptorSpecComputed / descriptorSpecWhy / descriptorSpecNotWritten, in c14_spec_bodies.go.
var descriptorSpecs func(c *layout.Checker) []*layout.Source
