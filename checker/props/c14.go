package props

import (
	"astverif/ownership"
	"astverif/report"
	"go/types"
	"strings"

	"astverif/layout"
	"astverif/lin"
	"astverif/tables"
	"golang.org/x/tools/go/ssa"
)

func init() { register("C14", "other", c14) }

func c14(c *Ctx) {
	r := c.R
	r.Explanation = "T2: the three tag dispatchers agree for all 256 tags; A2: every descriptor length calculator equals the bits its writer emits, for every flag valuation and symbolic item counts; A1 for the descriptor writers."
	r.RuleText = "one obligation per tag class (T2), per calculator/writer pair (A2), per writer function (A1)"
	r.Trusted = []string{"go/types + go/ssa", "astikit BitsWriter summary", "EN 300 468 tag values"}
	tables.T2(c.P, r)
	// input side: every descriptor accounts for exactly its declared length (engine C, rule P6)
	ec := engineC(c)
	n := importRules(r, ec, "P6")
	r.Floor("P6", "declared-end loops", n, 1)
	// "a malformed descriptor body never shifts the parsing of what follows": a body decoder that asks the iterator for a
	// negative or unguarded number of bytes ends the whole table with a panic — the fetch/seek/skip sites (P1 of C03) of
	// descriptor.go
	np := 0
	for _, o := range ec.Obls {
		if o.Rule == "P1" && strings.HasPrefix(o.Pos, "descriptor.go:") {
			key := o.Key[len(o.Rule)+1:]
			switch o.Status {
			case report.Discharged:
				r.OK(o.Rule, key, o.Pos, o.Detail)
			case report.Violated:
				r.Bad(o.Rule, key, o.Pos, o.Detail)
			default:
				r.Unknown(o.Rule, key, o.Pos, o.Detail)
			}
			np++
		}
	}
	r.Floor("P1", "fetch/seek/skip sites in descriptor.go", np, 25)
	ck := layout.New(c.P)
	pairs, err := descriptorPairs(c)
	if err != nil {
		r.Unknown("A2", "dispatch", "", "descriptor dispatch tables could not be derived: "+err.Error())
	}
	r.Floor("A2", "descriptor calculator/writer pairs", len(pairs), 24)
	ck.A2(r, pairs)
	ck.A2(r, level0Pairs(c))
	ck.ReportAPI(r)
	for _, d := range ck.IP.Diag {
		r.Unknown("A0", "diag/"+d, "", d)
	}
	// descriptor loops, single descriptors abstracted to their (just proven) contract
	ck1 := layout.New(c.P)
	ck1.IP.Abstract = level1Abstract(c)
	ck1.A2(r, level1Pairs(c))
	ck1.ReportNarrow(r)
	for _, d := range ck1.IP.Diag {
		r.Unknown("A0", "diag/L1/"+d, "", d)
	}
	c14Values(c)
}

// c14Values: field-level round trip of the descriptor bodies. One descriptor of every tag class, with its inner
// lists unrolled to 0, 1 and 2 items, is written by writeDescriptorsWithLength and handed to parseDescriptors.
func c14Values(c *Ctx) {
	r := c.R
	ck := layout.NewBits(c.P)
	ck.UnrollFor = func(f *ssa.Function, elem types.Type) []int {
		if p, ok := elem.Underlying().(*types.Pointer); ok {
			if n, ok := p.Elem().(*types.Named); ok && n.Obj().Name() == "Descriptor" {
				return []int{0, 1}
			}
		}
		return []int{0, 1, 2}
	}
	ck.A3(r, []layout.RTPair{
		{Name: "descriptors", Writer: c.fn("writeDescriptorsWithLength"), Parser: c.fn("parseDescriptors"), WriterObj: "$w", It: "$i", Root: "$ds", MinSources: 300, Guided: true,
			Computed: map[string]func(*layout.Source) *lin.Form{
				// descriptor_length is recomputed by the writer: the parsed value must be the number of body bytes (the
				// stream is the 2-byte loop length, tag, length, body)
				"[].Length": func(src *layout.Source) *lin.Form {
					if !src.TotalOK || !layout.Div8(src.Total) {
						return nil
					}
					f := layout.ScaleDown8(src.Total).AddC(-4)
					return &f
				},
				// the tag of an unknown descriptor is copied from the descriptor's own tag
				"[].Unknown.Tag": func(*layout.Source) *lin.Form { f := lin.Sym("$ds/[0].Tag"); return &f },
				"[].LocalTimeOffset.Items[].LocalTimeOffset": exempt,
				"[].LocalTimeOffset.Items[].NextTimeOffset":  exempt,
				"[].LocalTimeOffset.Items[].TimeOfChange":    exempt,
				// maximum_bitrate is carried in units of 50 bytes/s: the parsed value must be 50 × the 22 bits emitted
				"[].MaximumBitrate.Bitrate": func(src *layout.Source) *lin.Form {
					for _, ch := range src.Chunks {
						if ch.Kind == layout.CBits && ch.W == 22 && ch.Lin != nil {
							f := ch.Lin.Scale(50)
							return &f
						}
					}
					f := lin.Const(0)
					return &f
				},
				"[].Teletext.Items[].Page":    exempt,
				"[].VBITeletext.Items[].Page": exempt,
			},
			Why: map[string]string{
				"[].Length": "the emitted length is not a whole number of bytes",
				"[].LocalTimeOffset.Items[].LocalTimeOffset": "BCD hours/minutes arithmetic: the value is decided by the G3 rules of C15 (run below); here only the 16 bits' position is covered",
				"[].LocalTimeOffset.Items[].NextTimeOffset":  "BCD hours/minutes arithmetic: decided by the G3 rules of C15 (run below)",
				"[].LocalTimeOffset.Items[].TimeOfChange":    "MJD/BCD calendar arithmetic: decided by the G1/G2/G4 rules of C15 (run below)",
				"[].MaximumBitrate.Bitrate":                  "the 22-bit maximum_bitrate chunk could not be located",
				"[].Teletext.Items[].Page":                   "the page number is split into a magazine number and two BCD digits (arithmetic)",
				"[].VBITeletext.Items[].Page":                "the page number is split into a magazine number and two BCD digits (arithmetic)",
			},
		},
	})
	if sp := c14SpecPairs(c); sp != nil {
		ck.A3(r, sp)
	}
	for _, d := range ck.IP.Diag {
		r.Unknown("A0", "diag/values/"+d, "", d)
	}
	// the local_time_offset descriptor carries two hh:mm BCD offsets and an MJD + hh:mm:ss time of change: their widths
	// and positions are decided above, their VALUES (both directions) by the numeric rules of C15
	decodeDate(c)
	encodeDate(c)
	bcd(c)
	// a parsed descriptor stays what was parsed: no retained slice aliases the pooled payload buffer (rule S3 of C16)
	r.Floor("S3", "borrowed/owned byte-slice source sites", ownership.BorrowTaint(c.P, r), 10)
}
