package props

import (
	"astverif/layout"
	"astverif/tables"
)

func init() { register("C14", "other", c14) }

func c14(c *Ctx) {
	r := c.R
	r.Explanation = "T2: the three tag dispatchers agree for all 256 tags; A2: every descriptor length calculator equals the bits its writer emits, for every flag valuation and symbolic item counts; A1 for the descriptor writers."
	r.RuleText = "one obligation per tag class (T2), per calculator/writer pair (A2), per writer function (A1)"
	r.Trusted = []string{"go/types + go/ssa", "astikit BitsWriter summary", "EN 300 468 tag values"}
	tables.T2(c.P, r)
	// input side: every descriptor accounts for exactly its declared length (engine C, rule P6)
	n := importRules(r, engineC(c), "P6")
	r.Floor("P6", "declared-end loops", n, 1)
	ck := layout.New(c.P)
	pairs, err := descriptorPairs(c)
	if err != nil {
		r.Unknown("A2", "dispatch", "", "descriptor dispatch tables could not be derived: "+err.Error())
	}
	r.Floor("A2", "descriptor calculator/writer pairs", len(pairs), 24)
	ck.A2(r, pairs)
	ck.A2(r, level0Pairs(c))
	ck.ReportAPI(r)
	for _, d := range ck.IP.Diag {
		r.Unknown("A0", "diag/"+d, "", d)
	}
	// descriptor loops, single descriptors abstracted to their (just proven) contract
	ck1 := layout.New(c.P)
	ck1.IP.Abstract = level1Abstract(c)
	ck1.A2(r, level1Pairs(c))
	ck1.ReportNarrow(r)
	for _, d := range ck1.IP.Diag {
		r.Unknown("A0", "diag/L1/"+d, "", d)
	}
}
