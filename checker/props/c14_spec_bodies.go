package props

import (
	"fmt"
	"strings"

	"astverif/layout"
	"astverif/lin"
)

// Reference encodings of descriptor bodies (rule A4, parser side), transcribed from the syntax tables of
//
//	ETSI EN 300 468 v1.15.1 clause 6.2 (DVB descriptors), clause 6.4.10 (supplementary audio), annex D (AC-3, E-AC-3; same tables in ETSI TS 102 366 annex A)
//	ISO/IEC 13818-1 clause 2.6 (MPEG-2 systems descriptors)
//
// independently of the library's writer and parser. Every instance is a descriptor loop as it appears in a PSI/SI
// section: 4 reserved bits, a 12-bit loop length, then descriptor_tag, descriptor_length and the body. Inner loops
// are instantiated with 0, 1 and 2 entries, optional parts with every valuation of their flags. Fields that go
// through BCD / MJD arithmetic are opaque (width only).

// descSpec: a descriptor loop holding one descriptor of the given tag.
func descSpec(c *layout.Checker, name string, tag int64, body func(b *layout.SpecBuilder, d string)) *layout.Source {
	b := c.NewSpec(name)
	b.Const(4, 0xf).LengthOfRest(12) // reserved, descriptors_loop_length
	b.ListLen("$ds", 1)
	oneDescriptor(b, 0, tag, body)
	return b.Source()
}

// oneDescriptor appends descriptor k of the loop: descriptor_tag, descriptor_length, body.
func oneDescriptor(b *layout.SpecBuilder, k int, tag int64, body func(b *layout.SpecBuilder, d string)) {
	d := layout.Elem("$ds", k)
	b.Field(8, d+".Tag").Fix(d+".Tag", tag) // descriptor_tag
	b.LengthOfRest(8)                       // descriptor_length
	body(b, d)
	b.EndLength()
}

func init() { descriptorSpecs = allDescriptorSpecs }

// emptyBody: descriptor_length = 0. For a descriptor whose body is only a loop of bytes (N = 0 bytes) the stream holds
// no element of the body at all; the library then allocates no typed structure (descriptor.go, `if d.Length > 0`),
// which loses no field of the table. The checker's "enclosing pointer is nil" test does not see that a byte string
// placed in the stream has length 0, hence the two cases are separate instances.
func emptyBody(b *layout.SpecBuilder, d string) {}

// nonEmpty adds the fact that the byte string cell has at least one byte.
func nonEmpty(src *layout.Source, cell string) *layout.Source {
	src.St.Facts = append(src.St.Facts, lin.Fact{F: lin.Sym("len(" + cell + ")").AddC(-1)})
	return src
}

func allDescriptorSpecs(c *layout.Checker) []*layout.Source {
	var out []*layout.Source
	add := func(name string, tag int64, body func(b *layout.SpecBuilder, d string)) {
		out = append(out, descSpec(c, name, tag, body))
	}

	// --- EN 300 468 annex D.3: AC-3_descriptor
	for v := 0; v < 16; v++ {
		ct, bsid, mainid, asvc := v&8 != 0, v&4 != 0, v&2 != 0, v&1 != 0
		add(fmt.Sprintf("AC-3 descriptor flags=%04b", v), 0x6a, func(b *layout.SpecBuilder, d string) {
			o := d + "/AC3"
			b.FlagIs(o+".HasComponentType", ct).FlagIs(o+".HasBSID", bsid).FlagIs(o+".HasMainID", mainid).FlagIs(o+".HasASVC", asvc)
			b.Const(4, 0xf) // reserved_flags
			if ct {
				b.Field(8, o+".ComponentType") // component_type
			}
			if bsid {
				b.Field(8, o+".BSID") // bsid
			}
			if mainid {
				b.Field(8, o+".MainID") // mainid
			}
			if asvc {
				b.Field(8, o+".ASVC") // asvc
			}
			b.Blob(o + ".AdditionalInfo") // additional_info_byte × N
		})
	}

	// --- ISO/IEC 13818-1 2.6.64: AVC_video_descriptor
	add("AVC video descriptor", 0x28, func(b *layout.SpecBuilder, d string) {
		o := d + "/AVCVideo"
		b.Field(8, o+".ProfileIDC")                                                                       // profile_idc
		b.Flag(o + ".ConstraintSet0Flag").Flag(o + ".ConstraintSet1Flag").Flag(o + ".ConstraintSet2Flag") // constraint_set0..2_flag
		b.Field(5, o+".CompatibleFlags")                                                                  // AVC_compatible_flags
		b.Field(8, o+".LevelIDC")                                                                         // level_idc
		b.Flag(o+".AVCStillPresent").Flag(o+".AVC24HourPictureFlag").Const(6, 0x3f)                       // AVC_still_present, AVC_24_hour_picture_flag, reserved
	})

	// --- EN 300 468 6.2.8: component_descriptor
	add("component descriptor", 0x50, func(b *layout.SpecBuilder, d string) {
		o := d + "/Component"
		b.Field(4, o+".StreamContentExt").Field(4, o+".StreamContent") // stream_content_ext, stream_content
		b.Field(8, o+".ComponentType").Field(8, o+".ComponentTag")     // component_type, component_tag
		b.BlobN(o+".ISO639LanguageCode", 3)                            // ISO_639_language_code
		b.Blob(o + ".Text")                                            // text_char × N
	})

	// --- EN 300 468 6.2.9: content_descriptor
	for n := 0; n <= 2; n++ {
		add(fmt.Sprintf("content descriptor with %d items", n), 0x54, func(b *layout.SpecBuilder, d string) {
			l := d + "/Content.Items"
			b.ListLen(l, n)
			for j := 0; j < n; j++ {
				e := layout.Elem(l, j)
				b.Field(4, e+".ContentNibbleLevel1").Field(4, e+".ContentNibbleLevel2").Field(8, e+".UserByte") // content_nibble_level_1, content_nibble_level_2, user_byte
			}
		})
	}

	// --- ISO/IEC 13818-1 2.6.10: data_stream_alignment_descriptor
	add("data stream alignment descriptor", 0x06, func(b *layout.SpecBuilder, d string) {
		b.Field(8, d+"/DataStreamAlignment.Type") // alignment_type
	})

	// --- EN 300 468 annex D.5: enhanced_ac-3_descriptor
	for v := 0; v < 256; v++ {
		ct, bsid, mainid, asvc := v&128 != 0, v&64 != 0, v&32 != 0, v&16 != 0
		s1, s2, s3 := v&4 != 0, v&2 != 0, v&1 != 0
		add(fmt.Sprintf("enhanced AC-3 descriptor flags=%08b", v), 0x7a, func(b *layout.SpecBuilder, d string) {
			o := d + "/EnhancedAC3"
			b.FlagIs(o+".HasComponentType", ct).FlagIs(o+".HasBSID", bsid).FlagIs(o+".HasMainID", mainid).FlagIs(o+".HasASVC", asvc)
			b.FlagIs(o+".MixInfoExists", v&8 != 0) // mixinfoexists
			b.FlagIs(o+".HasSubStream1", s1).FlagIs(o+".HasSubStream2", s2).FlagIs(o+".HasSubStream3", s3)
			if ct {
				b.Field(8, o+".ComponentType")
			}
			if bsid {
				b.Field(8, o+".BSID")
			}
			if mainid {
				b.Field(8, o+".MainID")
			}
			if asvc {
				b.Field(8, o+".ASVC")
			}
			if s1 {
				b.Field(8, o+".SubStream1")
			}
			if s2 {
				b.Field(8, o+".SubStream2")
			}
			if s3 {
				b.Field(8, o+".SubStream3")
			}
			b.Blob(o + ".AdditionalInfo")
		})
	}

	// --- EN 300 468 6.2.15: extended_event_descriptor
	for n := 0; n <= 2; n++ {
		add(fmt.Sprintf("extended event descriptor with %d items", n), 0x4e, func(b *layout.SpecBuilder, d string) {
			o := d + "/ExtendedEvent"
			b.Field(4, o+".Number").Field(4, o+".LastDescriptorNumber") // descriptor_number, last_descriptor_number
			b.BlobN(o+".ISO639LanguageCode", 3)                         // ISO_639_language_code
			b.LengthOfRest(8)                                           // length_of_items
			b.ListLen(o+".Items", n)
			for j := 0; j < n; j++ {
				e := layout.Elem(o+".Items", j)
				b.LenField(8, e+".Description").Blob(e + ".Description") // item_description_length, item_description_char
				b.LenField(8, e+".Content").Blob(e + ".Content")         // item_length, item_char
			}
			b.EndLength()
			b.LenField(8, o+".Text").Blob(o + ".Text") // text_length, text_char
		})
	}

	// --- EN 300 468 6.2.16: extension_descriptor; 6.4.10: supplementary_audio_descriptor
	for _, lang := range []bool{false, true} {
		add(fmt.Sprintf("extension descriptor: supplementary audio, language_code_present=%v", lang), 0x7f, func(b *layout.SpecBuilder, d string) {
			x := d + "/Extension"
			b.Field(8, x+".Tag").Fix(x+".Tag", 0x06) // descriptor_tag_extension
			o := x + "/SupplementaryAudio"
			b.Flag(o+".MixType").Field(5, o+".EditorialClassification").Const(1, 1) // mix_type, editorial_classification, reserved_future_use
			b.FlagIs(o+".HasLanguageCode", lang)                                    // language_code_present
			if lang {
				b.BlobN(o+".LanguageCode", 3) // ISO_639_language_code
			}
			b.Blob(o + ".PrivateData") // private_data_byte × N
		})
	}
	add("extension descriptor: tag extension 0x04 (not typed by the library)", 0x7f, func(b *layout.SpecBuilder, d string) {
		x := d + "/Extension"
		b.Field(8, x+".Tag").Fix(x+".Tag", 0x04) // descriptor_tag_extension
		b.Blob(x + "/Unknown")                   // selector_byte × N
	})

	// --- ISO/IEC 13818-1 2.6.18: ISO_639_language_descriptor, a loop of (ISO_639_language_code, audio_type). The
	// library's structure holds one entry.
	add("ISO 639 language descriptor with 1 entry", 0x0a, func(b *layout.SpecBuilder, d string) {
		o := d + "/ISO639LanguageAndAudioType"
		b.BlobN(o+".Language", 3).Field(8, o+".Type") // ISO_639_language_code, audio_type
	})
	// With two entries the structure can hold one of them at most; whichever it is, Language must be the 3-byte
	// ISO_639_language_code of that entry. The parser takes audio_type from the last entry, so the instance asks for the
	// last entry (asking for the first one fails on Language in the same way, and on Type as well); the first entry is
	// carried by no field. KNOWN DEVIATION of the parser (its source has a FIXME): Language is returned as 7 bytes.
	add("ISO 639 language descriptor with 2 entries", 0x0a, func(b *layout.SpecBuilder, d string) {
		o := d + "/ISO639LanguageAndAudioType"
		b.Opaque(24, "$first_ISO_639_language_code").Opaque(8, "$first_audio_type") // entry 0
		b.BlobN(o+".Language", 3).Field(8, o+".Type")                               // ISO_639_language_code, audio_type (entry 1)
	})

	// --- EN 300 468 6.2.20: local_time_offset_descriptor
	for n := 0; n <= 2; n++ {
		add(fmt.Sprintf("local time offset descriptor with %d items", n), 0x58, func(b *layout.SpecBuilder, d string) {
			l := d + "/LocalTimeOffset.Items"
			b.ListLen(l, n)
			for j := 0; j < n; j++ {
				e := layout.Elem(l, j)
				b.BlobN(e+".CountryCode", 3)                                                      // country_code
				b.Field(6, e+".CountryRegionID").Const(1, 1).Flag(e + ".LocalTimeOffsetPolarity") // country_region_id, reserved, local_time_offset_polarity
				b.Opaque(16, e+".LocalTimeOffset")                                                // local_time_offset (BCD)
				b.Opaque(40, e+".TimeOfChange")                                                   // time_of_change (MJD + BCD)
				b.Opaque(16, e+".NextTimeOffset")                                                 // next_time_offset (BCD)
			}
		})
	}

	// --- ISO/IEC 13818-1 2.6.26: maximum_bitrate_descriptor
	add("maximum bitrate descriptor", 0x0e, func(b *layout.SpecBuilder, d string) {
		b.Const(2, 3).Field(22, "$maximum_bitrate") // reserved, maximum_bitrate (units of 50 bytes/s)
	})

	// --- EN 300 468 6.2.27: network_name_descriptor (N >= 1 and N = 0 characters: see emptyBody)
	out = append(out, nonEmpty(descSpec(c, "network name descriptor with N >= 1 characters", 0x40, func(b *layout.SpecBuilder, d string) {
		b.Blob(d + "/NetworkName.Name") // char × N
	}), "$ds/[0]/NetworkName.Name"))
	add("network name descriptor with no character", 0x40, emptyBody)

	// --- EN 300 468 6.2.28: parental_rating_descriptor
	for n := 0; n <= 2; n++ {
		add(fmt.Sprintf("parental rating descriptor with %d items", n), 0x55, func(b *layout.SpecBuilder, d string) {
			l := d + "/ParentalRating.Items"
			b.ListLen(l, n)
			for j := 0; j < n; j++ {
				e := layout.Elem(l, j)
				b.BlobN(e+".CountryCode", 3).Field(8, e+".Rating") // country_code, rating
			}
		})
	}

	// --- ISO/IEC 13818-1 2.6.28: private_data_indicator_descriptor
	add("private data indicator descriptor", 0x0f, func(b *layout.SpecBuilder, d string) {
		b.Field(32, d+"/PrivateDataIndicator.Indicator") // private_data_indicator
	})

	// --- EN 300 468 6.2.31: private_data_specifier_descriptor
	add("private data specifier descriptor", 0x5f, func(b *layout.SpecBuilder, d string) {
		b.Field(32, d+"/PrivateDataSpecifier.Specifier") // private_data_specifier
	})

	// --- ISO/IEC 13818-1 2.6.8: registration_descriptor
	add("registration descriptor", 0x05, func(b *layout.SpecBuilder, d string) {
		o := d + "/Registration"
		b.Field(32, o+".FormatIdentifier")          // format_identifier
		b.Blob(o + ".AdditionalIdentificationInfo") // additional_identification_info × N
	})

	// --- EN 300 468 6.2.33: service_descriptor
	add("service descriptor", 0x48, func(b *layout.SpecBuilder, d string) {
		o := d + "/Service"
		b.Field(8, o+".Type")                              // service_type
		b.LenField(8, o+".Provider").Blob(o + ".Provider") // service_provider_name_length, char
		b.LenField(8, o+".Name").Blob(o + ".Name")         // service_name_length, char
	})

	// --- EN 300 468 6.2.37: short_event_descriptor
	add("short event descriptor", 0x4d, func(b *layout.SpecBuilder, d string) {
		o := d + "/ShortEvent"
		b.BlobN(o+".Language", 3)                            // ISO_639_language_code
		b.LenField(8, o+".EventName").Blob(o + ".EventName") // event_name_length, event_name_char
		b.LenField(8, o+".Text").Blob(o + ".Text")           // text_length, text_char
	})

	// --- EN 300 468 6.2.39: stream_identifier_descriptor
	add("stream identifier descriptor", 0x52, func(b *layout.SpecBuilder, d string) {
		b.Field(8, d+"/StreamIdentifier.ComponentTag") // component_tag
	})

	// --- EN 300 468 6.2.41: subtitling_descriptor
	for n := 0; n <= 2; n++ {
		add(fmt.Sprintf("subtitling descriptor with %d items", n), 0x59, func(b *layout.SpecBuilder, d string) {
			l := d + "/Subtitling.Items"
			b.ListLen(l, n)
			for j := 0; j < n; j++ {
				e := layout.Elem(l, j)
				b.BlobN(e+".Language", 3).Field(8, e+".Type")                       // ISO_639_language_code, subtitling_type
				b.Field(16, e+".CompositionPageID").Field(16, e+".AncillaryPageID") // composition_page_id, ancillary_page_id
			}
		})
	}

	// --- EN 300 468 6.2.43: teletext_descriptor; 6.2.48: VBI_teletext_descriptor (same syntax)
	for _, tt := range []struct {
		tag   int64
		field string
		name  string
	}{{0x56, "Teletext", "teletext"}, {0x46, "VBITeletext", "VBI teletext"}} {
		for n := 0; n <= 2; n++ {
			add(fmt.Sprintf("%s descriptor with %d items", tt.name, n), tt.tag, func(b *layout.SpecBuilder, d string) {
				l := d + "/" + tt.field + ".Items"
				b.ListLen(l, n)
				for j := 0; j < n; j++ {
					e := layout.Elem(l, j)
					b.BlobN(e+".Language", 3)                     // ISO_639_language_code
					b.Field(5, e+".Type").Field(3, e+".Magazine") // teletext_type, teletext_magazine_number
					b.Opaque(8, e+".Page")                        // teletext_page_number (two BCD digits)
				}
			})
		}
	}

	// --- EN 300 468 6.2.47: VBI_data_descriptor
	vbi := func(ids []int64, counts []int) {
		var ns []string
		for k := range ids {
			ns = append(ns, fmt.Sprintf("id 0x%02x × %d", ids[k], counts[k]))
		}
		add("VBI data descriptor with services ["+strings.Join(ns, ", ")+"]", 0x45, func(b *layout.SpecBuilder, d string) {
			l := d + "/VBIData.Services"
			b.ListLen(l, len(ids))
			for k, id := range ids {
				s := layout.Elem(l, k)
				b.Field(8, s+".DataServiceID").Fix(s+".DataServiceID", id) // data_service_id
				b.LengthOfRest(8)                                          // data_service_descriptor_length
				switch id {
				case 0x01, 0x02, 0x04, 0x05, 0x06, 0x07:
					b.ListLen(s+".Descriptors", counts[k])
					for j := 0; j < counts[k]; j++ {
						e := layout.Elem(s+".Descriptors", j)
						b.Const(2, 3).Flag(e+".FieldParity").Field(5, e+".LineOffset") // reserved_future_use, field_parity, line_offset
					}
				default:
					b.ListLen(s+".Descriptors", 0)
					for j := 0; j < counts[k]; j++ {
						b.Const(8, 0xff) // reserved_future_use
					}
				}
				b.EndLength()
			}
		})
	}
	vbi(nil, nil)
	for _, id := range []int64{0x01, 0x02, 0x03, 0x04, 0x05, 0x06, 0x07} {
		for m := 0; m <= 2; m++ {
			vbi([]int64{id}, []int{m})
		}
	}
	vbi([]int64{0x01, 0x04}, []int{1, 2})
	vbi([]int64{0x06, 0x03}, []int{2, 1})
	vbi([]int64{0x00, 0x05}, []int{2, 0})

	// --- ISO/IEC 13818-1 2.6.1: every descriptor is descriptor_tag, descriptor_length and descriptor_length bytes.
	// EN 300 468 6.1: tags 0x80..0xFE are user defined. The library keeps the bytes of user defined descriptors
	// and of descriptors it has no type for.
	for _, tag := range []int64{0x80, 0xfe} {
		add(fmt.Sprintf("user defined descriptor, tag 0x%02x", tag), tag, func(b *layout.SpecBuilder, d string) {
			b.Blob(d + ".UserDefined")
		})
	}
	for _, tag := range []int64{0x02, 0x7e, 0xff} {
		out = append(out, nonEmpty(descSpec(c, fmt.Sprintf("descriptor not typed by the library, tag 0x%02x, N >= 1 bytes", tag), tag, func(b *layout.SpecBuilder, d string) {
			b.Blob(d + "/Unknown.Content")
		}), "$ds/[0]/Unknown.Content"))
		add(fmt.Sprintf("descriptor not typed by the library, tag 0x%02x, no byte", tag), tag, emptyBody)
	}

	// --- the loop itself: no descriptor, two descriptors
	{
		b := c.NewSpec("empty descriptor loop")
		b.Const(4, 0xf).Const(12, 0).ListLen("$ds", 0)
		out = append(out, b.Source())
	}
	out = append(out, longLoopSpecs(c)...)
	{
		b := c.NewSpec("loop of two descriptors: stream identifier, data stream alignment")
		b.Const(4, 0xf).LengthOfRest(12).ListLen("$ds", 2)
		oneDescriptor(b, 0, 0x52, func(b *layout.SpecBuilder, d string) { b.Field(8, d+"/StreamIdentifier.ComponentTag") })
		oneDescriptor(b, 1, 0x06, func(b *layout.SpecBuilder, d string) { b.Field(8, d+"/DataStreamAlignment.Type") })
		out = append(out, b.Source())
	}
	return out
}

// longLoopSpecs: descriptor loops longer than 1023 and 2047 bytes (legal in SDT, NIT, EIT and TOT sections, whose
// descriptors_loop_length is a full 12-bit field): 4 and 9 user defined descriptors of 255 body bytes each, i.e. loop
// lengths 0x404 and 0x909 — every one of the four high bits of the length is set in one of them.
func longLoopSpecs(c *layout.Checker) []*layout.Source {
	var out []*layout.Source
	for _, n := range []int{4, 9} {
		b := c.NewSpec(fmt.Sprintf("loop of %d user defined descriptors of 255 bytes (%d bytes)", n, n*257))
		b.Const(4, 0xf).LengthOfRest(12).ListLen("$ds", n)
		for k := 0; k < n; k++ {
			oneDescriptor(b, k, 0x80, func(b *layout.SpecBuilder, d string) { b.BlobN(d+".UserDefined", 255) })
		}
		out = append(out, b.Source())
	}
	return out
}

// descriptorLengthOf: the value the reference encoding gives descriptor_length (the number of body bytes, by
// construction of LengthOfRest). In the two-descriptor instance both descriptors have the same length.
func descriptorLengthOf(src *layout.Source) *lin.Form {
	for _, ch := range src.Chunks {
		if ch.Kind == layout.CBits && ch.W == 8 && ch.Lin != nil && strings.HasSuffix(ch.What, "length of what follows") {
			f := *ch.Lin
			return &f
		}
	}
	return nil
}

func descriptorSpecComputed() map[string]func(*layout.Source) *lin.Form {
	return map[string]func(*layout.Source) *lin.Form{
		"[].Length":      descriptorLengthOf,
		"[].Unknown.Tag": func(*layout.Source) *lin.Form { f := lin.Sym("$ds/[0].Tag"); return &f },
		// maximum_bitrate is in units of 50 bytes/s; the structure's field is documented in bytes/s
		"[].MaximumBitrate.Bitrate": func(src *layout.Source) *lin.Form {
			for _, ch := range src.Chunks {
				if ch.Kind == layout.CBits && ch.W == 22 && ch.Lin != nil {
					f := ch.Lin.Scale(50)
					return &f
				}
			}
			f := lin.Const(0)
			return &f
		},
		"[].LocalTimeOffset.Items[].LocalTimeOffset": exempt,
		"[].LocalTimeOffset.Items[].NextTimeOffset":  exempt,
		"[].LocalTimeOffset.Items[].TimeOfChange":    exempt,
		"[].Teletext.Items[].Page":                   exempt,
		"[].VBITeletext.Items[].Page":                exempt,
	}
}

func descriptorSpecWhy() map[string]string {
	return map[string]string{
		"[].Length": "no descriptor_length element in this instance (empty loop)",
		"[].LocalTimeOffset.Items[].LocalTimeOffset": "BCD hours/minutes arithmetic (decided by the rules of C15, which this check also runs); the field's 16 bits are specified, its value is not interpreted",
		"[].LocalTimeOffset.Items[].NextTimeOffset":  "BCD hours/minutes arithmetic (see C15); the field's 16 bits are specified, its value is not interpreted",
		"[].LocalTimeOffset.Items[].TimeOfChange":    "MJD/BCD calendar arithmetic (see C15); the field's 40 bits are specified, its value is not interpreted",
		"[].Teletext.Items[].Page":                   "teletext_page_number is two BCD digits converted to a number (arithmetic); the field's 8 bits are specified, its value is not interpreted",
		"[].VBITeletext.Items[].Page":                "teletext_page_number is two BCD digits converted to a number (arithmetic); the field's 8 bits are specified, its value is not interpreted",
	}
}

func descriptorSpecNotWritten() map[string]string { return nil }
