package props

import (
	"astverif/extrarules"
	"astverif/layout"
	"astverif/muxstate"
	"astverif/tables"
)

func init() { register("C05", "other", c05) }

func c05(c *Ctx) {
	r := c.R
	r.Explanation = "Engine D (state/ownership/ordering on go/ssa) for the three kinds of continuity counter (esContext.cc, Muxer.patCC, Muxer.pmtCC). Decided structurally, hence for ALL operation histories: " +
		"(a) S1-es — in (*Muxer).WriteData every path from ctx.cc.inc() to the next loop iteration or to a return without error passes writePacket(m.bitsWriter, &pkt, …) for the very packet whose Header.ContinuityCounter received the value (def-use through the field store); each conditional edge on which a consumed value escapes is reported with its path. " +
		"(b) S1-tables — side-effect summaries of generatePAT/generatePMT (which counters are incremented / flags cleared before which return): no effect may precede a failing return of the generator itself, and in every caller (WriteTables) each effect of a successful generator is followed on every path by m.w.Write of the buffer that generator filled, unless the return propagates the generator's own error or the error of m.w.Write, or the effect is explicitly undone: `m.F = saved` counts only when saved is (def-use) the value loaded from the same field F of the same receiver, that load dominates the generator call, and nothing that can change F (store, call taking &m.F, generator with an effect on F) can run in between; every non-constant store to such a field outside construction is one obligation undo[F]. " +
		"(c) CC-source — every store to PacketHeader.ContinuityCounter on the mux path is uint8(<counter>.inc()) of the counter of the same PID (esContexts key and Header.PID are the same unmodified field of the same parameter; PIDPAT↔patCC; pmtStartPID↔pmtCC). " +
		"(d) width — every newWrappingCounter feeding a cc field is built with 15, every version field with 31. (e) T4 — wrappingCounter.inc is +1 modulo wrapAt+1, interpreted over all states for 15 and 31. (f) CC-sites — inc on a continuity counter has exactly one use, the header store, executed one-for-one with it. " +
		"NOT decided: the emitted sequence per PID over concrete histories (needs the emission order and RemoveElementaryStream/AddElementaryStream re-adding a PID, which restarts its counter by design); returns carrying a provably non-nil error are treated as exempt exits in (a) (a failed writePESData/writePacket leaves the consumed value unpaired — the call failed as a whole); feasibility of the failing exits in (b) is not examined (every syntactic error return counts)."
	r.RuleText = "S1-es: one obligation per inc site (or per escaping edge when violated); S1-tables: one per (generator, effect) and one per (caller, generator, effect[, failing exit]); CC-source: one per header store; width: one per constructor call; T4: 7; CC-sites: two per inc site"
	r.Trusted = []string{"go/types + go/ssa (x/tools v0.29.0): CFG, dominators, def-use", "bytes.Buffer.Bytes returns the buffered bytes; astikit.NewBitsWriter(BitsWriterOptions{Writer: w}) writes to w", "io.Writer.Write on m.w is the only emission of table packets; writePacket(m.bitsWriter, …) the only emission of PES packets"}
	muxstate.ESPairing(c.P, r)
	muxstate.TablePairing(c.P, r)
	muxstate.UndoStores(c.P, r, muxstate.RuleS1Tables, nil)
	muxstate.CCSource(c.P, r)
	muxstate.CounterWidths(c.P, r, map[string]int64{"cc": 15, "version": 31}, map[string]int{"cc": 3, "version": 2})
	tables.WrapCounter(c.P, r)
	extrarules.IncOnlyForPayloadPackets(c.P, r)
	// a PID handed out twice silently replaces a stream's context and restarts its counter
	muxstate.AutoPID(c.P, r, muxstate.RuleAutoPID)
	muxstate.IncSites(c.P, r)
	// a packet WriteData fills exactly (payload + adaptation field, including the one-byte adaptation field) is accepted by
	// writePacket: a fit check that rejects it would withhold a packet whose counter value is already consumed (the
	// whole-packet joints of C01)
	// every table emission is a freshly generated packet with a freshly consumed counter value (no stale bytes re-emitted)
	muxstate.Current(c.P, r)
	// the PES header WriteData budgets for (calcPESOptionalHeaderLength) is the header writePESHeader emits: otherwise
	// writePacket rejects the packet after its counter value was consumed
	lkh := layout.New(c.P)
	lkh.A2(r, packetPairs(c)[2:])
	ckj := layout.NewBits(c.P)
	ckj.A3(r, c01Joints(c))
	for _, d := range ckj.IP.Diag {
		r.Unknown("A0", "diag/"+d, "", d)
	}
	// a stream's counter lives as long as the stream stays added: contexts are created by AddElementaryStream for the added
	// PID and removed by RemoveElementaryStream only (rebuilding the map would restart the counters of the other streams)
	extrarules.WhoMayCall(c.P, r, "CC-ctx", "newEsContext/called-from", "newEsContext", []string{"(*Muxer).AddElementaryStream"}, 1,
		"a context created anywhere else restarts the continuity counter of a stream that stays added")
	extrarules.WhoMayMutateMapField(c.P, r, "CC-ctx", "Muxer.esContexts/mutated-by", "Muxer", "esContexts", []string{"(*Muxer).AddElementaryStream"}, []string{"(*Muxer).RemoveElementaryStream"}, 1, 1,
		"the per-PID counter contexts are inserted by AddElementaryStream and deleted by RemoveElementaryStream only")
	// "stream additions/removals and failed calls": a refused AddElementaryStream / RemoveElementaryStream must not have
	// touched the contexts (a duplicate-PID Add that first overwrote the running stream's context restarts its counter)
	extrarules.NoEffectBeforeError(c.P, r, "CC-ctx", []string{"Muxer.AddElementaryStream", "Muxer.RemoveElementaryStream"},
		"a refused call that already replaced or removed a counter context makes the stream's continuity counter jump")
	extrarules.WhoMayStoreField(c.P, r, "CC-ctx", "Muxer.esContexts/stored-by", "Muxer", "esContexts", []string{"NewMuxer"}, 1, nil, "stores",
		"replacing the context map restarts every stream's continuity counter")
	// the packets WriteData builds fill the packet exactly, so writePacket never rejects one whose counter value is consumed (F1)
	c04ExactFill(c)
}
