package props

import (
	"astverif/layout"
	"astverif/lin"
	"astverif/ownership"

	"golang.org/x/tools/go/ssa"
)

func init() { register("C11", "other", c11) }

// afConsumed: the adaptation field parser stops before the stuffing (the packet parser seeks past it using
// adaptation_field_length): it consumes everything but the stuffing bytes.
func afConsumed(src *layout.Source) lin.Form {
	total := lin.Const(0)
	for _, ch := range src.Chunks {
		if ch.Kind == layout.CRepeat {
			continue
		}
		switch ch.Kind {
		case layout.CBits:
			total = total.AddC(int64(ch.W))
		case layout.CBlob:
			total = total.Add(ch.Len.Scale(8))
		case layout.COpaque:
			total = total.Add(ch.Len)
		}
	}
	return layout.ScaleDown8(total)
}

func c11Pairs(c *Ctx) []layout.RTPair {
	bytesAfterFirst := func(src *layout.Source) *lin.Form {
		if !src.TotalOK || !layout.Div8(src.Total) {
			return nil
		}
		f := layout.ScaleDown8(src.Total).AddC(-1)
		return &f
	}
	return []layout.RTPair{
		{Name: "ts-header", Writer: c.fn("writePacketHeader"), Parser: c.fn("parsePacketHeader"), WriterObj: "$w", It: "$i", Root: "$h", MinSources: 1, Guided: true},
		{Name: "pcr", Writer: c.fn("writePCR"), Parser: c.fn("parsePCR"), WriterObj: "$w", It: "$i", Root: "$cr", RootPtr: true, MinSources: 1, Guided: true},
		{Name: "adaptation-field", Writer: c.fn("writePacketAdaptationField"), Parser: c.fn("parsePacketAdaptationField"), WriterObj: "$w", It: "$i", Root: "$af", RootPtr: true,
			MinSources: 100, Guided: true,
			Computed: map[string]func(*layout.Source) *lin.Form{
				// adaptation_field_length is recomputed by the writer: the parsed value must be the number of bytes that follow it
				"Length": bytesAfterFirst,
				// transport_private_data_length is taken from the data itself
				"TransportPrivateDataLength": func(src *layout.Source) *lin.Form {
					for _, ch := range src.Chunks {
						if ch.Kind == layout.CBlob && ch.Blob == "$af.TransportPrivateData" {
							f := ch.Len
							return &f
						}
					}
					f := lin.Const(0)
					return &f
				},
				"AdaptationExtensionField.Length": func(src *layout.Source) *lin.Form { return nil },
			},
			Why: map[string]string{
				"AdaptationExtensionField.Length": "recomputed by the writer; 'emitted value = bytes that follow' is obligation A2/adaptation_extension_length, the parser copies the emitted byte",
			},
			NotWritten: map[string]string{
				"AdaptationExtensionField.DTSNextAccessUnit.Extension": "a DTS has no extension part: the 5-byte PTS/DTS layout carries the 33-bit base only",
			},
			Consumed: afConsumed,
		},
	}
}

func c11(c *Ctx) {
	r := c.R
	r.Explanation = "Engine A at bit level. Every integer/boolean value of the packet parsers and writers is interpreted as a vector of GF(2)-affine bit forms over stream bits / struct field bits (shifts, masks, disjoint ors, conversions and single-bit tests are exact). " +
		"A3: for each writer outcome (every flag valuation: 2^5 adaptation-field flags × 2^3 extension flags × private-data/stuffing cases) the emitted stream is aligned with the independently computed parser summary; the composition gives every parsed field as a function of the written fields and must be the identity on the emitted width; the parser must accept every emitted stream and consume exactly what was emitted. " +
		"A2: adaptation_field_length and adaptation_field_extension_length equal the bytes emitted after them. A5: no shift/mask discards its whole operand. " +
		"NOT decided here: agreement with an independent table of ISO 13818-1 bit positions (a defect shared by parser and writer is invisible to A3), the byte-identical NextPacket→WritePacket path over whole packets."
	r.RuleText = "one obligation per structure field (A3/<pair>/field/<path>), per pair acceptance and consumption, per length pair (A2), per dead bit operation (A5)"
	r.Trusted = []string{"go/types + go/ssa (x/tools v0.29.0)", "astikit BitsWriter (Write emits the operand's bits MSB first, WriteN the low n bits) and BytesIterator summaries", "package bitdom (unit-tested against concrete evaluation)"}
	ck := layout.NewBits(c.P)
	pairs := c11Pairs(c)
	ck.A3(r, pairs)
	// A4: the parsers against reference encodings transcribed from the standard (independent of the writer)
	ck.A3(r, c11SpecPairs(c))
	ck.A3(r, c11PacketSpecPairs(c))
	// the one-byte adaptation field and the stuffing-only field (packet.go: IsOneByteStuffing / newStuffingAdaptationField):
	// the field made for n free bytes occupies exactly n bytes, whatever state its maker may hold (A2/stuffing of C01)
	c01Stuffing(c, layout.New(c.P))
	var fs []*ssa.Function
	for _, n := range []string{"parsePacket", "parsePacketHeader", "parsePacketAdaptationField", "parsePCR", "writePacket", "writePacketHeader", "writePacketAdaptationField", "writePacketAdaptationFieldExtension", "writePCR"} {
		fs = append(fs, c.fn(n))
	}
	ck.A5(r, fs)
	for _, d := range ck.IP.Diag {
		r.Unknown("A0", "diag/"+d, "", d)
	}
	// a packet obtained from NextPacket stays what it was when the next one is read (re-emission is byte-identical only
	// if nothing in it aliases the reused read buffer): the ownership rule S3 of C16 on every byte-slice source
	r.Floor("S3", "borrowed/owned byte-slice source sites", ownership.BorrowTaint(c.P, r), 10)
	// lengths announced = bytes emitted after them (linear engine)
	lk := layout.New(c.P)
	lk.A2(r, packetPairs(c)[:2])
	// "re-emitting a parsed packet through the muxer reproduces the original bytes": nothing of an earlier call is emitted in
	// front of the packet (B1)
	muxerBuffersStartEmpty(c)
	r.Floor("A3", "structure fields compared", countPrefix(r, "A3/", "/field/"), 30)
}

func countPrefix(r interface{ Keys() []string }, prefix, contains string) int {
	n := 0
	for _, k := range r.Keys() {
		if len(k) >= len(prefix) && k[:len(prefix)] == prefix && containsStr(k, contains) {
			n++
		}
	}
	return n
}

func containsStr(s, sub string) bool {
	for i := 0; i+len(sub) <= len(s); i++ {
		if s[i:i+len(sub)] == sub {
			return true
		}
	}
	return false
}
