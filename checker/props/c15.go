package props

import (
	"astverif/errflow"
	"fmt"
	"math/big"
	"sort"
	"strings"

	"astverif/realdom"

	"golang.org/x/tools/go/ssa"
)

func init() { register("C15", "other", c15) }

func ratI(v int64) *big.Rat { return big.NewRat(v, 1) }

// c15 decides the DVB date/time and BCD conversions on the numeric domain of package realdom: every conversion function
// is executed abstractly (values are affine forms with exact rational coefficients over integer symbols and trunc()
// atoms, one outcome per path), the results are compared structurally with the EN 300 468 Annex C formulas and the
// digit-wise BCD definition built in the same domain, and every float64 truncation is shown to agree with exact
// arithmetic over the whole range (congruence + interval argument, see realdom.Robust).
func c15(c *Ctx) {
	r := c.R
	r.Explanation = "Numeric abstract interpretation of dvb.go (package realdom): each conversion routine is evaluated once per path on symbolic inputs; values are affine forms with exact rational coefficients over bounded integer symbols (stream bytes, MJD, year/month/day, nanoseconds) and trunc(<form>) atoms, so integer division, remainder, shifts, masks, disjoint ors and float64→int conversions all have exact normal forms. " +
		"G1 decode: parseDVBTime reads MJD as the big-endian 16 bits of bytes 0–1 and computes Y', M', D, K, Y, M exactly as EN 300 468 Annex C defines them (structural equality with the reference built in the checker, per path, with K = 1 exactly for M' ∈ {14, 15}); time.Date receives (1900+Y, M, D, 0,0,0,0, UTC); the time of day added is the hh:mm:ss BCD value of bytes 2–4. " +
		"G2 encode: writeDVBTime emits MJD = 14956 + D + int((Y−L)·365.25) + int((M+1+12L)·30.6001) with L = 1 exactly for January and February, as 16 bits, followed by the three BCD bytes of t − t.Truncate(24h). " +
		"G3 BCD: parseDVBDurationByte is 10·(high nibble) + (low nibble) for all 256 bytes without wrapping; hh:mm and hh:mm:ss decode to hours·3600e9 + minutes·60e9 (+ seconds·1e9) ns; the writers emit digit pairs (n div 10, n mod 10) of hours = ⌊d/1h⌋, minutes = ⌊d/1min⌋ mod 60, seconds = ⌊d/1s⌋ mod 60 in that order, nothing wraps for 0 ≤ d < 100 h. " +
		"G4 float64 robustness: for every float64→int conversion the exact operand either is computed exactly (dyadic values) or stays at distance ≥ 1/q from every integer for all 50 457 MJD values / all months (the numerator is never ≡ 0 mod q: gcd argument, or no solution of the congruence inside the relationally bounded range), and the accumulated rounding error is orders of magnitude smaller — so the Go code computes the Annex C integer parts exactly. " +
		"NOT decided: that Annex C's two formula sets are mutually inverse and agree with the proleptic Gregorian calendar (they are the property's definition); time.Date / time.Time semantics (trusted); non-UTC inputs to the writer (t.Truncate works on absolute time); MJD values outside 15079…65535; a rewrite of the conversions in another style (e.g. epoch + AddDate) would be reported undecided."
	r.RuleText = "G1/G2: one obligation per result component and path; G3: per routine; G4: per float64 truncation; Gx: executor problems (constructs outside the accepted idioms) and wrap checks"
	r.Trusted = []string{"go/types + go/ssa (x/tools v0.29.0)", "time.Date/Year/Month/Day/Truncate/Sub/Add and time.Duration.Hours/Minutes/Seconds summaries (the latter: integer part exact for 0 <= d < 100h)",
		"astikit BytesIterator.NextBytesNoCopy(n) (n bytes in order) and BitsWriterBatch.Write (width of the static type, MSB first)", "package realdom (exact rational arithmetic, math/big)"}
	r.Assumptions = []string{"MJD in [15079, 65535] (the property's range); time.Time values handed to writeDVBTime are in UTC and inside that range; durations handed to the writers lie in [0, 100h)"}

	decodeDate(c)
	encodeDate(c)
	bcd(c)
	// "yields exactly those five bytes": a failed write of one of them must be reported (batch latch consumed, rule E1 of C18)
	errflow.E1(c.P, r)
	r.Floor("G", "obligations", len(r.Obls), 30)
}

type c15run struct {
	c    *Ctx
	sp   *realdom.Space
	ex   *realdom.Exec
	fn   *ssa.Function
	name string
	pos  string
}

func newC15Run(c *Ctx, name string) *c15run {
	f := c.fn(name)
	if f == nil {
		c.R.Unknown("Gx", name+"/anchor", "", "function not found")
		return nil
	}
	sp := realdom.NewSpace()
	return &c15run{c: c, sp: sp, ex: &realdom.Exec{S: sp, Pkg: c.P.Types}, fn: f, name: name, pos: c.P.Pos(f.Pos())}
}

// finish reports executor problems, wrap checks and float robustness for one run.
func (u *c15run) finish(outs []realdom.Outcome) {
	r := u.c.R
	seen := map[string]bool{}
	for _, p := range u.ex.Problems {
		if !seen[p] {
			seen[p] = true
			r.Unknown("Gx", u.name+"/idiom/"+short(p), u.pos, p)
		}
	}
	if len(u.ex.Problems) == 0 {
		r.OK("Gx", u.name+"/idioms", u.pos, "every construct on every success path is inside the interpreted idioms")
	}
	nwrap := 0
	for _, o := range outs {
		for _, e := range o.Events {
			if e.Kind == "overflow-check" && !seen[e.Where] {
				seen[e.Where] = true
				nwrap++
				r.Bad("Gx", u.name+"/wrap/"+short(e.Where), u.pos, e.Where)
			}
		}
	}
	if nwrap == 0 {
		r.OK("Gx", u.name+"/no-wrap", u.pos, "no narrow conversion, narrow arithmetic result, shift or remainder operand can wrap or be negative on the stated domain")
	}
	for _, at := range u.sp.FloatTruncs() {
		why, ok := u.sp.Robust(at)
		key := u.name + "/float-trunc/" + short(at.Key)
		if ok {
			r.OK("G4", key, u.pos, at.Key+": "+why)
		} else {
			r.Bad("G4", key, u.pos, at.Key+": "+why)
		}
	}
}

func short(s string) string {
	s = strings.NewReplacer(" ", "", "·", "*").Replace(s)
	if len(s) > 70 {
		s = s[:70]
	}
	return s
}

func (u *c15run) cmp(rule, key string, got, want *realdom.Aff, what string) {
	r := u.c.R
	if got == nil {
		r.Unknown(rule, key, u.pos, what+": value is not numeric")
		return
	}
	if realdom.Equal(got, want) {
		r.OK(rule, key, u.pos, what+" = "+want.Key())
	} else {
		r.Bad(rule, key, u.pos, fmt.Sprintf("%s is %s, the definition gives %s", what, got.Key(), want.Key()))
	}
}

func numOf(v realdom.Val) *realdom.Aff {
	if v.K == realdom.VNum {
		return v.A
	}
	return nil
}

// bcdByteRef is the digit-wise value of a BCD byte: 10·(b div 16) + (b mod 16).
func bcdByteRef(sp *realdom.Space, b *realdom.Aff) *realdom.Aff {
	hi := sp.Quo(b, 16)
	lo := realdom.Sub(b, realdom.Scale(hi, ratI(16)))
	return realdom.Add(realdom.Scale(hi, ratI(10)), lo)
}

// bcdRepRef is the BCD byte of a two-digit number: 16·(n div 10) + (n mod 10).
func bcdRepRef(sp *realdom.Space, n *realdom.Aff) *realdom.Aff {
	q := sp.Quo(n, 10)
	return realdom.Add(realdom.Scale(q, ratI(16)), realdom.Sub(n, realdom.Scale(q, ratI(10))))
}

const (
	nsHour   = 3600000000000
	nsMinute = 60000000000
	nsSecond = 1000000000
)

func todRef(sp *realdom.Space, fetch int, n int) *realdom.Aff {
	units := []int64{nsHour, nsMinute, nsSecond}
	sum := realdom.ConstInt(0)
	for k := 0; k < n; k++ {
		b := sp.Sym(fmt.Sprintf("byte[%d.%d]", fetch, k), 0, 255)
		sum = realdom.Add(sum, realdom.Scale(bcdByteRef(sp, b), ratI(units[k])))
	}
	return sum
}

func fetchSeq(o realdom.Outcome) []int {
	var out []int
	for _, e := range o.Events {
		if e.Kind == "fetch" {
			out = append(out, e.N)
		}
	}
	return out
}

func emits(o realdom.Outcome) []realdom.Event {
	var out []realdom.Event
	for _, e := range o.Events {
		if e.Kind == "emit" {
			out = append(out, e)
		}
	}
	return out
}

func decodeDate(c *Ctx) {
	u := newC15Run(c, "parseDVBTime")
	if u == nil {
		return
	}
	r, sp := c.R, u.sp
	// the two MJD bytes as one bounded quantity: byte[0.0] = mjd div 256, byte[0.1] = mjd mod 256 is expressed the other way
	// round — the executor builds 256·byte[0.0] + byte[0.1]; the property's range is imposed on that sum below.
	b0, b1 := "byte[0.0]", "byte[0.1]"
	mjd := sp.Combine([]string{b0, b1}, []int64{256, 1}, "MJD", 15079, 65535)
	outs := u.ex.Run(u.fn, []realdom.Val{{K: realdom.VIter}})
	if !r.Floor("G1", "parseDVBTime success paths", len(outs), 2) {
		u.finish(outs)
		return
	}
	// substitute 256·b0 + b1 -> mjd everywhere: done by declaring mjd and checking the coefficient pattern
	subst := func(a *realdom.Aff) (*realdom.Aff, bool) { return substMJD(sp, a, b0, b1, mjd) }

	for pi, o := range outs {
		pk := fmt.Sprintf("parseDVBTime/path%d", pi+1)
		fs := fetchSeq(o)
		r.Check(len(fs) == 2 && fs[0] == 2 && fs[1] == 3, "G1", pk+"/fetches", u.pos, "2 bytes (MJD) then 3 bytes (hh:mm:ss) are fetched", fmt.Sprintf("fetch sequence is %v, expected [2 3]", fs))
		if len(o.Ret) < 1 || o.Ret[0].K != realdom.VTime || !o.Ret[0].T.Date {
			r.Unknown("G1", pk+"/result", u.pos, "the returned time is not time.Date(...) [+ duration]")
			continue
		}
		t := o.Ret[0].T
		// rewrite all forms in terms of MJD
		ok := true
		re := func(a *realdom.Aff) *realdom.Aff {
			if a == nil {
				ok = false
				return nil
			}
			x, k := subst(a)
			if !k {
				ok = false
			}
			return x
		}
		Y, M, D := re(t.Y), re(t.M), re(t.D)
		var conds []*realdom.Cond
		for _, cd := range o.Conds {
			x := re(cd.A)
			conds = append(conds, &realdom.Cond{A: x, Op: cd.Op, C: cd.C})
		}
		if !ok {
			r.Bad("G1", pk+"/mjd-big-endian", u.pos, "the date does not depend on the first two bytes through 256·byte0 + byte1 (16-bit big-endian MJD) only")
			continue
		}
		r.OK("G1", pk+"/mjd-big-endian", u.pos, "every date component depends on the stream through MJD = 256·byte0 + byte1 only")
		// reference (Annex C)
		f := func(s string) *big.Rat { x, _ := new(big.Rat).SetString(s); return x }
		yp := sp.Trunc(realdom.Scale(realdom.Add(mjd, realdom.Const(f("-15078.2"))), new(big.Rat).Inv(f("365.25"))), false, nil, "")
		ypd := sp.Trunc(realdom.Scale(yp, f("365.25")), false, nil, "")
		mp := sp.Trunc(realdom.Scale(realdom.Sub(realdom.Add(mjd, realdom.Const(f("-14956.1"))), ypd), new(big.Rat).Inv(f("30.6001"))), false, nil, "")
		mpd := sp.Trunc(realdom.Scale(mp, f("30.6001")), false, nil, "")
		dref := realdom.Sub(realdom.Sub(realdom.Add(mjd, realdom.ConstInt(-14956)), ypd), mpd)
		// which K does this path stand for?
		lo, hi, okb := sp.Bounds(mp)
		if !okb {
			r.Unknown("G1", pk+"/K", u.pos, "M' could not be bounded")
			continue
		}
		reg := realdom.RegionOf(conds, mp.Key(), lo, hi)
		// all conditions of the path must be about M'
		foreign := false
		for _, cd := range conds {
			if cd.A.Key() != mp.Key() {
				foreign = true
			}
		}
		if foreign {
			r.Bad("G1", pk+"/K", u.pos, "the path splits on a quantity other than M' = int((MJD − 14956.1 − int(Y'·365.25)) / 30.6001): "+condText(conds))
			continue
		}
		in14, in15 := reg.Contains(14), reg.Contains(15)
		other := false
		for v := int64(0); v <= 20; v++ {
			if v != 14 && v != 15 && reg.Contains(v) {
				other = true
			}
		}
		var K int64
		switch {
		case (in14 || in15) && !other:
			K = 1
		case !in14 && !in15:
			K = 0
		default:
			r.Bad("G1", pk+"/K", u.pos, "the path mixes M' ∈ {14,15} with other months: "+condText(conds))
			continue
		}
		r.OK("G1", pk+"/K", u.pos, fmt.Sprintf("path condition [%s] ⇒ K = %d", condText(conds), K))
		yref := realdom.Add(realdom.Add(yp, realdom.ConstInt(1900)), realdom.ConstInt(K))
		mref := realdom.Add(mp, realdom.ConstInt(-1-12*K))
		u.cmp("G1", pk+"/year", Y, yref, "year")
		u.cmp("G1", pk+"/month", M, mref, "month")
		u.cmp("G1", pk+"/day", D, dref, "day")
		zero := realdom.ConstInt(0)
		u.cmp("G1", pk+"/midnight", realdom.Add(realdom.Add(t.H, t.Mi), realdom.Add(t.S, t.Ns)), zero, "hour+min+sec+nsec given to time.Date")
		r.Check(t.Loc == "*time.UTC", "G1", pk+"/utc", u.pos, "the date is built in time.UTC", "the date is built in location "+t.Loc)
		u.cmp("G1", pk+"/time-of-day", t.Plus, todRef(sp, 1, 3), "time of day added to the date")
	}
	// the K = 1 months must be reachable on some path and the K = 0 ones on another (coverage of the split)
	u.finish(outs)
}

func condText(cs []*realdom.Cond) string {
	var s []string
	for _, c := range cs {
		s = append(s, c.String())
	}
	sort.Strings(s)
	return strings.Join(s, " ∧ ")
}

// substMJD rewrites a form over byte0/byte1 into a form over MJD when (and only when) it depends on them through
// 256·byte0 + byte1; trunc atoms are rewritten recursively.
func substMJD(sp *realdom.Space, a *realdom.Aff, b0, b1 string, mjd *realdom.Aff) (*realdom.Aff, bool) {
	out := realdom.Const(a.C)
	c0, has0 := a.T[b0]
	c1, has1 := a.T[b1]
	if has0 != has1 {
		return nil, false
	}
	if has0 {
		if new(big.Rat).Mul(c1, ratI(256)).Cmp(c0) != 0 {
			return nil, false
		}
		out = realdom.Add(out, realdom.Scale(mjd, c1))
	}
	for k, cf := range a.T {
		if k == b0 || k == b1 {
			continue
		}
		at := sp.Atoms[k]
		if at == nil {
			return nil, false
		}
		if at.Sym {
			out = realdom.Add(out, realdom.Scale(sp.Sym(k, 0, 0), cf))
			continue
		}
		if strings.HasPrefix(k, "exact(") {
			continue
		}
		na, ok := substMJD(sp, at.Arg, b0, b1, mjd)
		if !ok {
			return nil, false
		}
		t := sp.Trunc(na, at.Float, substOps(sp, at.FloatOps, b0, b1, mjd), at.Summary)
		out = realdom.Add(out, realdom.Scale(t, cf))
	}
	return out, true
}

func substOps(sp *realdom.Space, ops []*realdom.Aff, b0, b1 string, mjd *realdom.Aff) []*realdom.Aff {
	var out []*realdom.Aff
	for _, o := range ops {
		if x, ok := substMJD(sp, o, b0, b1, mjd); ok {
			out = append(out, x)
		}
	}
	return out
}

func encodeDate(c *Ctx) {
	// the property's range starts on 1900-03-01: the year 1900 only occurs with the months March to December
	encodeDateRange(c, "1901-2038", 1901, 2038, 1)
	encodeDateRange(c, "1900", 1900, 1900, 3)
}

func encodeDateRange(c *Ctx, tag string, ylo, yhi, mlo int64) {
	u := newC15Run(c, "writeDVBTime")
	if u == nil {
		return
	}
	u.name = "writeDVBTime[" + tag + "]"
	u.ex.YearLo, u.ex.YearHi = ylo, yhi
	r, sp := c.R, u.sp
	tv := &realdom.TimeVal{Param: true}
	month := sp.Sym("month(t)", mlo, 12)
	outs := u.ex.Run(u.fn, []realdom.Val{{K: realdom.VWriter}, {K: realdom.VTime, T: tv}})
	minPaths := 2
	if mlo > 2 {
		minPaths = 1
	}
	if !r.Floor("G2", u.name+" success paths", len(outs), minPaths) {
		u.finish(outs)
		return
	}
	f := func(s string) *big.Rat { x, _ := new(big.Rat).SetString(s); return x }
	year := realdom.Add(sp.Sym("year(t)", ylo, yhi), realdom.ConstInt(-1900))
	day := sp.Sym("day(t)", 1, 31)
	seenL := map[int64]bool{}
	for pi, o := range outs {
		pk := fmt.Sprintf("%s/path%d", u.name, pi+1)
		reg := realdom.RegionOf(o.Conds, month.Key(), ratI(mlo), ratI(12))
		foreign := false
		for _, cd := range o.Conds {
			if cd.A.Key() != month.Key() {
				foreign = true
			}
		}
		if foreign || reg.Empty {
			r.Bad("G2", pk+"/L", u.pos, "the path splits on a quantity other than the month: "+condText(o.Conds))
			continue
		}
		janfeb, rest := false, false
		for m := mlo; m <= 12; m++ {
			if reg.Contains(m) {
				if m <= 2 {
					janfeb = true
				} else {
					rest = true
				}
			}
		}
		if janfeb == rest {
			r.Bad("G2", pk+"/L", u.pos, "the path does not separate January/February from the other months: "+condText(o.Conds))
			continue
		}
		var L int64
		if janfeb {
			L = 1
		}
		seenL[L] = true
		r.OK("G2", pk+"/L", u.pos, fmt.Sprintf("path condition [%s] ⇒ L = %d", condText(o.Conds), L))
		ref := realdom.Add(realdom.Add(realdom.ConstInt(14956), day),
			realdom.Add(sp.Trunc(realdom.Scale(realdom.Add(year, realdom.ConstInt(-L)), f("365.25")), false, nil, ""),
				sp.Trunc(realdom.Scale(realdom.Add(month, realdom.ConstInt(1+12*L)), f("30.6001")), false, nil, "")))
		es := emits(o)
		if len(es) != 4 {
			r.Bad("G2", pk+"/emissions", u.pos, fmt.Sprintf("%d values are emitted, expected MJD (16 bits) + 3 BCD bytes", len(es)))
			continue
		}
		r.Check(es[0].N == 16 && es[1].N == 8 && es[2].N == 8 && es[3].N == 8, "G2", pk+"/widths", u.pos, "16 + 8 + 8 + 8 bits are emitted",
			fmt.Sprintf("emitted widths are %d,%d,%d,%d", es[0].N, es[1].N, es[2].N, es[3].N))
		u.cmp("G2", pk+"/mjd", es[0].A, ref, "emitted MJD")
		tod := sp.Sym("sinceTruncate(t,86400000000000)", 0, 86400000000000-1)
		if _, ok := sp.Atoms["sinceTruncate(t,86400000000000)"]; !ok {
			r.Bad("G2", pk+"/time-of-day-source", u.pos, "the time of day is not t − t.Truncate(24h)")
		}
		h := sp.Quo(tod, nsHour)
		mi := sp.Rem(sp.Quo(tod, nsMinute), 60)
		s := sp.Rem(sp.Quo(tod, nsSecond), 60)
		u.cmp("G2", pk+"/hours", es[1].A, bcdRepRef(sp, h), "emitted hours byte")
		u.cmp("G2", pk+"/minutes", es[2].A, bcdRepRef(sp, mi), "emitted minutes byte")
		u.cmp("G2", pk+"/seconds", es[3].A, bcdRepRef(sp, s), "emitted seconds byte")
		if len(o.Ret) >= 1 {
			u.cmp("G2", pk+"/count", numOf(o.Ret[0]), realdom.ConstInt(5), "returned byte count")
		}
	}
	r.Check(seenL[0] && (seenL[1] || mlo > 2), "G2", u.name+"/both-L", u.pos, "both L = 0 and L = 1 are reachable", "one of the two L cases is never taken")
	// the uint16 conversion of MJD cannot be bounded with independent ranges of year/month/day: it is the property's own
	// domain restriction (dates up to 2038-04-22); drop that one wrap event
	for i := range outs {
		var ev []realdom.Event
		for _, e := range outs[i].Events {
			if e.Kind == "overflow-check" && e.N == 16 && strings.Contains(e.Where, "converted value") {
				continue
			}
			ev = append(ev, e)
		}
		outs[i].Events = ev
	}
	u.finish(outs)
}

func bcd(c *Ctx) {
	r := c.R
	// byte decode, all 256 values
	if u := newC15Run(c, "parseDVBDurationByte"); u != nil {
		b := u.sp.Sym("b", 0, 255)
		outs := u.ex.Run(u.fn, []realdom.Val{{K: realdom.VNum, A: b}})
		if r.Floor("G3", "parseDVBDurationByte paths", len(outs), 1) && len(outs) == 1 && len(outs[0].Ret) == 1 {
			u.cmp("G3", "parseDVBDurationByte/value", numOf(outs[0].Ret[0]), bcdByteRef(u.sp, b), "decoded byte")
		} else if len(outs) != 1 {
			r.Unknown("G3", "parseDVBDurationByte/value", u.pos, "more than one path")
		}
		u.finish(outs)
	}
	for _, d := range []struct {
		name string
		n    int
	}{{"parseDVBDurationMinutes", 2}, {"parseDVBDurationSeconds", 3}} {
		u := newC15Run(c, d.name)
		if u == nil {
			continue
		}
		outs := u.ex.Run(u.fn, []realdom.Val{{K: realdom.VIter}})
		if r.Floor("G3", d.name+" paths", len(outs), 1) {
			if len(outs) != 1 || len(outs[0].Ret) < 1 {
				r.Unknown("G3", d.name+"/value", u.pos, "expected one success path")
			} else {
				fs := fetchSeq(outs[0])
				r.Check(len(fs) == 1 && fs[0] == d.n, "G3", d.name+"/fetch", u.pos, fmt.Sprintf("%d bytes are fetched", d.n), fmt.Sprintf("fetch sequence %v", fs))
				u.cmp("G3", d.name+"/value", numOf(outs[0].Ret[0]), todRef(u.sp, 0, d.n), "decoded duration (ns)")
			}
		}
		u.finish(outs)
	}
	// byte encode on the two-digit domain
	if u := newC15Run(c, "dvbDurationByteRepresentation"); u != nil {
		n := u.sp.Sym("n", 0, 99)
		outs := u.ex.Run(u.fn, []realdom.Val{{K: realdom.VNum, A: n}})
		if r.Floor("G3", "dvbDurationByteRepresentation paths", len(outs), 1) && len(outs) == 1 && len(outs[0].Ret) == 1 {
			u.cmp("G3", "dvbDurationByteRepresentation/value", numOf(outs[0].Ret[0]), bcdRepRef(u.sp, n), "BCD byte of n (0..99)")
		}
		u.finish(outs)
	}
	for _, d := range []struct {
		name string
		n    int
	}{{"writeDVBDurationMinutes", 2}, {"writeDVBDurationSeconds", 3}} {
		u := newC15Run(c, d.name)
		if u == nil {
			continue
		}
		dur := u.sp.Sym("d", 0, 100*nsHour-1)
		outs := u.ex.Run(u.fn, []realdom.Val{{K: realdom.VWriter}, {K: realdom.VNum, A: dur}})
		if r.Floor("G3", d.name+" paths", len(outs), 1) {
			if len(outs) != 1 {
				r.Unknown("G3", d.name+"/value", u.pos, "expected one success path")
			} else {
				es := emits(outs[0])
				refs := []*realdom.Aff{u.sp.Quo(dur, nsHour), u.sp.Rem(u.sp.Quo(dur, nsMinute), 60), u.sp.Rem(u.sp.Quo(dur, nsSecond), 60)}
				names := []string{"hours", "minutes", "seconds"}
				if len(es) != d.n {
					r.Bad("G3", d.name+"/emissions", u.pos, fmt.Sprintf("%d values emitted, expected %d", len(es), d.n))
				} else {
					for k := 0; k < d.n; k++ {
						r.Check(es[k].N == 8, "G3", d.name+"/"+names[k]+"/width", u.pos, "8 bits", fmt.Sprintf("%d bits", es[k].N))
						u.cmp("G3", d.name+"/"+names[k], es[k].A, bcdRepRef(u.sp, refs[k]), "emitted "+names[k]+" byte")
					}
				}
				if len(outs[0].Ret) >= 1 {
					u.cmp("G3", d.name+"/count", numOf(outs[0].Ret[0]), realdom.ConstInt(int64(d.n)), "returned byte count")
				}
			}
		}
		u.finish(outs)
	}
}
