package props

import (
	"astverif/crcgate"
	"astverif/demuxrules"
	"astverif/extrarules"
	"astverif/ownership"
)

func init() { register("C19", "other", c19) }

func c19(c *Ctx) {
	r := c.R
	r.Explanation = "Structural necessary conditions of 'PacketSkipper = deleting packets; PacketsParser sees each unit once', decided on go/ssa for ALL streams, predicates and parsers: " +
		"(a) exactly one call site of a PacketSkipper value exists in the package, in parsePacket, outside any loop; parsePacketHeader dominates it and its result is in p.Header; the HasAdaptationField test dominates it, every path from its true edge passes parsePacketAdaptationField (result in p.AdaptationField) and that parse cannot follow the call; no payload extraction (payloadOffset, Dump, store to p.Payload) can precede it and, with a non-nil skipper, every path to them passes the call. " +
		"(b) every return reachable from the skip-true edge is (nil, errSkippedPacket); errSkippedPacket is used nowhere else except in errors.Is(err, errSkippedPacket) in (*packetBuffer).next; on that edge control reaches the next ReadFull before any return, and from the error edge no other path reaches a read (every other error leaves the loop). " +
		"(c) addUnlocked is called only from NextData with NextPacket's packet on the err == nil edge; (*packetAccumulator).add only from addUnlocked. " +
		"(d) exactly one call site of a PacketsParser value, in parseData, guarded by prs != nil, outside any loop, handed ps itself, and no other use of ps can precede it; every call site of parseData (in NextData or in a helper its drain loop lives in) takes the direct result of an addUnlocked/dumpUnlocked call of the same function, is dominated by the non-empty edge of that result and executes at most once per result; no such result feeds two sites, and both kinds of source are present. " +
		"(e) every return reachable from the skip=true edge carries exactly extract #0 of prs(ps) and no default parsing runs there. " +
		"(f) for every nil-error return reachable from the skip=false edge, and separately for every incoming branch of a shared return block, the returned ds must not derive (def-use, reaching stores of the named result) from extract #0 of prs(ps). " +
		"NOT decided: equality with the output of the pre-filtered stream as a whole (in particular the interplay of a deleted packet with the continuity check of C06: deleting a packet creates a counter gap exactly as in the filtered stream, which is what the property asks); what a user predicate/parser does with the pointers it receives; panics in callbacks."
	r.RuleText = "one obligation per ordering rule of the skipper (4), one for the skip edge, one per function using errSkippedPacket, one for the read loop, one per addUnlocked/add call site, four for the parser call and parseData's call sites, one for skip=true and one per (return, incoming branch) after skip=false"
	r.Trusted = []string{"go/types + go/ssa (x/tools v0.29.0): SSA construction, dominator tree, def-use, static callees", "errors.Is(err, s) holds for err == s and for errors wrapping s",
		"callbacks do not retain or mutate the packets they are shown (C16 covers the library side)"}
	demuxrules.New(c.P, r).C19()
	extrarules.SkipperAlwaysInstalled(c.P, r)
	extrarules.SkipperSeesEveryPacket(c.P, r)
	// the packet buffer (which holds the skipper) is built lazily by NextPacket, after every option has been applied: built
	// inside an option it would capture the skipper configured so far, i.e. depend on the order of the options
	extrarules.WhoMayCall(c.P, r, "S5", "newPacketBuffer/called-from", "newPacketBuffer", []string{"(*Demuxer).NextPacket"}, 1,
		"a packet buffer built before all options are applied may miss the skipper")
	// a unit handed to the PacketsParser stays what it was: the accumulator never keeps the array it handed out (rule (c) of C16)
	ownership.AccumulatorAlias(c.P, r)
	// a failing PacketsParser substitutes nothing: data never travel with an error (rule C09c)
	crcgate.NoDataWithoutCheck(c.P, r)
	r.Floor("C19", "obligations", len(r.Obls), 15)
	// units shown to the parser and packets shown to the skipper stay what they were (S3); every unit is shown, also the
	// last ones at the end of the stream (R1); no unit is lost with its accumulator or its pool (I8); the skipper survives
	// re-detection because there is none (P8)
	joinS3(c)
	joinDrain(c)
	joinI8(c)
	joinP8(c)
}
