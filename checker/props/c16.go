package props

import (
	"astverif/demuxrules"
	"astverif/ownership"
)

func init() { register("C16", "other", c16) }

func c16(c *Ctx) {
	r := c.R
	r.Explanation = "Ownership rules over go/ssa of the whole package, valid for ALL call histories and schedules because they are invariants of the code, not of a run. " +
		"(a) S3 borrowed-slice escape: every value that aliases a reused buffer — results of BytesIterator.NextBytesNoCopy, loads of bytesPoolItem.s and of packetBuffer.packetReadBuffer, bufio Peek views, and every []byte parameter/result that receives one (interprocedural fixpoint over static calls) — is followed through slicing, phis, locals and append; " +
		"it must never be stored into a struct field/element/map/global, boxed in an interface, captured, returned from the API, or handed to a callee outside the audited reads-only table; iterators over such buffers are tracked as borrowed containers; conversely every byte slice the demux path stores into a result field is listed with its origin (NextBytes/Dump copies). " +
		"(b) pool pairing: each bytesPool.get is released by a deferred put of the same item on every path, the item pointer is never stored/returned/captured/passed on, put only feeds sync.Pool.Put. " +
		"(c) accumulator: inductive invariant 'the array kept in packetAccumulator.q was never handed out' — on every return/store pair of add (phis of one block resolved edge by edge) the returned slice is nil, q becomes nil, or their allocations are disjoint; q is written only in add and its only other reader drops the accumulator when handing the slice out. " +
		"(d) muxer: nothing reachable from WriteData writes an element of, copies into, or appends onto a value aliasing d.PES.Data; the scratch payload stored in the local packet is m.buf.Bytes() and reaches only writePacket, which only reads it. " +
		"(e) independence: every package-level variable is assigned only by the package initialiser and its type cannot reference instance state, or it is the sync.Pool wrapper used only through Get/Put whose New allocates afresh. " +
		"NOT decided: race-freedom as observed by the race detector (follows from (a),(b),(e) modulo the trusted sync.Pool and astikit summaries); behaviour of user callbacks (PacketsParser, PacketSkipper, logger) that receive packets; aliasing between objects returned by one call (FirstPacket shares AdaptationField with the first packet — allowed by the property); that WriteData leaves d.PES.Header.StreamID and d.AdaptationField.StuffingLength alone (it documents that it writes them; they are not payload bytes)."
	r.RuleText = "one obligation per borrowed source site (function/NextBytesNoCopy#n, function/bytesPoolItem.s#n, function/packetBuffer.packetReadBuffer#n, function/param:x, function/iter:x …) discharged with the list of transient uses it reaches; one per owned fetch site and per retained result field (origin); one per pool get/put site; one per return of add; one per function touching PES.Data; one per package-level variable"
	r.Trusted = []string{
		"go/types + go/ssa (x/tools v0.29.0)",
		"astikit v0.30.0 BytesIterator summary: NextBytes and Dump return copies, NextBytesNoCopy returns a sub-slice of the buffer given to NewBytesIterator; iterator methods retain nothing else",
		"astikit BitsWriter.Write/WriteBytesN only read a []byte argument; io.Writer/io.Reader contracts (Write must not modify or retain p; Read must not retain p); binary.BigEndian.UintNN read only",
		"sync.Pool hands an item to one goroutine at a time between Get and Put",
	}
	ownership.BorrowTaint(c.P, r)
	ownership.PoolPairing(c.P, r)
	ownership.AccumulatorAlias(c.P, r)
	ownership.MuxerPayload(c.P, r)
	ownership.Globals(c.P, r, "globals")
	// "instances produce exactly the results they produce when run alone": the pooled concatenation buffer is shared by all
	// demuxers of the process, so every byte of it that the parsers read must have been written by THIS call — the
	// concatenation copies every payload of the group, in order, completely (R8 of C02); a skipped payload leaves the bytes of
	// whoever used the pool item before
	da := demuxrules.New(c.P, r)
	da.AssembledPayload()
	// "packets returned are never modified by later calls": a Packet is written only by the function that allocates it (I9)
	da.PacketsNotMutated()
}
