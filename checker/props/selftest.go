package props

import (
	"encoding/json"
	"fmt"
	"os"
	"path/filepath"
	"sort"
	"strings"
	"sync"

	"astverif/load"
	"astverif/report"
)

// Variant is a seeded edit of the current tree used to test the checker itself: the edit is applied
// in memory (go/packages overlay), the variant must type-check, and the named property's check must
// report an obligation whose key contains Expect. A variant whose Old text is not present in the
// current tree is skipped. Variants never influence the verdict on /repo.
type Variant struct {
	Name     string   `json:"name"`
	Property string   `json:"property"`
	Also     []string `json:"also,omitempty"` // further properties expected to fire
	File     string   `json:"file"`
	Old      string   `json:"old"`
	New      string   `json:"new"`
	Expect   string   `json:"expect"`           // substring of the obligation key expected to fail
	Benign   bool     `json:"benign,omitempty"` // behaviour-preserving edit: the check must stay silent
	More     []Edit   `json:"more,omitempty"`   // further edits of the same file (two cooperating sites)
	Note     string   `json:"note,omitempty"`
}

// Edit is one more replacement in a variant's file.
type Edit struct {
	Old string `json:"old"`
	New string `json:"new"`
}

// SelfTestResult summarises a self-test run.
type SelfTestResult struct {
	Applied   int      `json:"applied"`
	Detected  int      `json:"detected"`
	Missed    []string `json:"missed"`
	Skipped   []string `json:"skipped"`
	FalseFire []string `json:"false_alarms"`
}

func loadVariants() ([]Variant, error) {
	files, _ := filepath.Glob(filepath.Join(report.Home(), "selftest", "*.json"))
	sort.Strings(files)
	var out []Variant
	for _, f := range files {
		b, err := os.ReadFile(f)
		if err != nil {
			return nil, err
		}
		var vs []Variant
		if err := json.Unmarshal(b, &vs); err != nil {
			return nil, fmt.Errorf("%s: %w", f, err)
		}
		out = append(out, vs...)
	}
	return out, nil
}

// SelfTest runs the seeded variants of one property ("" = all). verbose prints one line per variant.
func SelfTest(prop string, verbose bool) SelfTestResult {
	res := SelfTestResult{Missed: []string{}, Skipped: []string{}, FalseFire: []string{}}
	vs, err := loadVariants()
	if err != nil {
		fmt.Fprintln(os.Stderr, "astverif selftest:", err)
		return res
	}
	dir := load.RepoDir()
	type job struct {
		v    Variant
		prop string
	}
	var jobs []job
	for _, v := range vs {
		ps := append([]string{v.Property}, v.Also...)
		for _, pp := range ps {
			if prop == "" || prop == pp {
				jobs = append(jobs, job{v, pp})
			}
		}
	}
	var mu sync.Mutex
	sem := make(chan struct{}, 6)
	var wg sync.WaitGroup
	for _, j := range jobs {
		wg.Add(1)
		sem <- struct{}{}
		go func(j job) {
			defer wg.Done()
			defer func() { <-sem }()
			v := j.v
			name := j.prop + ":" + v.Name
			path := filepath.Join(dir, v.File)
			src, err := os.ReadFile(path)
			line := ""
			applies := err == nil && strings.Count(string(src), v.Old) == 1
			for _, e := range v.More {
				if applies && strings.Count(string(src), e.Old) != 1 {
					applies = false
				}
			}
			if !applies {
				mu.Lock()
				res.Skipped = append(res.Skipped, name)
				mu.Unlock()
				line = "SKIP  " + name + " (edit does not apply to the current tree)"
			} else {
				mod := strings.Replace(string(src), v.Old, v.New, 1)
				for _, e := range v.More {
					mod = strings.Replace(mod, e.Old, e.New, 1)
				}
				p, err := load.Load(load.Options{Dir: dir, Overlay: map[string][]byte{path: []byte(mod)}})
				if err != nil {
					mu.Lock()
					res.Skipped = append(res.Skipped, name)
					mu.Unlock()
					line = "SKIP  " + name + " (variant does not type-check: " + firstLine(err.Error()) + ")"
				} else {
					r, err := RunOn(p, j.prop, "quick")
					fired := []string{}
					if err != nil {
						fired = append(fired, "internal-error")
					} else {
						for _, o := range r.Obls {
							if o.Status != report.Discharged && !isKnownOpen(j.prop, o.Key) {
								fired = append(fired, o.Key)
							}
						}
					}
					hit := false
					for _, k := range fired {
						if strings.Contains(k, v.Expect) {
							hit = true
						}
					}
					mu.Lock()
					res.Applied++
					switch {
					case v.Benign && len(fired) > 0:
						res.FalseFire = append(res.FalseFire, name+" -> "+strings.Join(fired, ","))
						line = "FALSE " + name + " fired " + strings.Join(fired, ",")
					case v.Benign:
						res.Detected++
						line = "QUIET " + name
					case hit:
						res.Detected++
						line = "CAUGHT " + name + " by " + strings.Join(fired, ",")
					default:
						res.Missed = append(res.Missed, name)
						line = "MISSED " + name + " (fired: " + strings.Join(fired, ",") + ")"
					}
					mu.Unlock()
				}
			}
			if verbose {
				mu.Lock()
				fmt.Println(line)
				mu.Unlock()
			}
		}(j)
	}
	wg.Wait()
	sort.Strings(res.Missed)
	sort.Strings(res.Skipped)
	sort.Strings(res.FalseFire)
	return res
}

var knownOpenCache map[string]bool

func isKnownOpen(prop, key string) bool {
	if knownOpenCache == nil {
		knownOpenCache = map[string]bool{}
		b, err := os.ReadFile(filepath.Join(report.Home(), "known_findings.json"))
		if err == nil {
			var f struct {
				Findings []report.KnownFinding `json:"findings"`
			}
			if json.Unmarshal(b, &f) == nil {
				for _, k := range f.Findings {
					if k.Status == "open" {
						knownOpenCache[k.Property+"|"+k.Key] = true
					}
				}
			}
		}
	}
	return knownOpenCache[prop+"|"+key]
}

func firstLine(s string) string {
	if i := strings.IndexByte(s, '\n'); i >= 0 {
		s = s[:i]
	}
	if len(s) > 160 {
		s = s[:160]
	}
	return s
}
