package props

import (
	"astverif/demuxrules"
	"astverif/errflow"
	"astverif/extrarules"
	"astverif/ownership"
)

func init() { register("C20", "other", c20) }

// c20Reset are the property's parameters: the property text says the program map is deliberately
// kept; ctx, logger, options and the reader are configuration given at construction.
var c20Reset = ownership.ResetOptions{
	Struct:  "Demuxer",
	Reset:   "Demuxer.Rewind",
	Roots:   []string{"Demuxer.NextPacket", "Demuxer.NextData"},
	Keep:    []string{"programMap"},
	Config:  []string{"ctx", "l", "optPacketSize", "optPacketsParser", "optPacketSkipper", "r"},
	Results: []string{"Packet", "DemuxerData", "packetAccumulator", "packetBuffer", "packetPool", "PESData", "PSIData"},
}

func c20(c *Ctx) {
	r := c.R
	r.Explanation = "Reset completeness over go/ssa, valid for every history before the Rewind because it is a statement about which memory can survive it. " +
		"(a) S4: W = every struct field written (assignment, element store, map update/delete) by a function reachable through static calls from NextPacket/NextData, for the Demuxer itself and for every package struct type reachable from its fields; each Demuxer field in W must be assigned on every path of Rewind (R) or be in the documented keep-set {programMap}; configuration fields {ctx,l,opt*,r} must not be in W; a field of an owned type (packetBuffer.*, packetPool.b, packetAccumulator.q, Packet.*, DemuxerData.* …) is covered when every Demuxer field from which that type is reachable is in R (or is the kept program map). A new Demuxer field written by the demux path and not reset is reported. " +
		"(b) freshness: each value Rewind assigns is nil, a new empty slice/map/object, or the result of a package constructor that returns a new allocation built from new containers and its arguments, whose arguments are constants or kept/configuration fields only; a re-slice of the old value (x = x[:0]) is NOT accepted as fresh (it keeps the previous backing array). " +
		"(c) Rewind calls rewind(dmx.r) on every path after all resets; rewind calls Seek(0, 0) with constant arguments on the asserted io.Seeker; Seek's error is returned (itself or wrapped with %w) by rewind and by Rewind; the offset is passed through unchanged. " +
		"(d) no per-pass state outside the Demuxer: package-level variable inventory (assigned only by the initialiser, or the sync.Pool wrapper). " +
		"(e) the packet buffer — with the auto-detected packet size and the read buffer — is rebuilt: packetBuffer is in R, NextPacket constructs it on the nil edge, with the configured size (0 ⇒ auto-detection runs again). " +
		"NOT decided: equality of the post-rewind output with a fresh demuxer's (follows only under 'reachable state determines behaviour'); state held by user callbacks, the logger, the context or the reader itself beyond its seek position; non-seekable readers (rewind returns -1, nil: outside the property's precondition)."
	r.RuleText = "one obligation per written field (reset/Type.field), per Demuxer field (partition), per reset value (fresh/Demuxer.field), per clause of the seek protocol (rewind/…), per package-level variable (globals/…), two for re-detection"
	r.Trusted = []string{
		"go/types + go/ssa (x/tools v0.29.0); static call graph of the root package (user callbacks and interface methods are not followed)",
		"io.Seeker contract: Seek(0, io.SeekStart) positions at the first byte and returns 0",
		"property text: the program map is deliberately kept across Rewind",
	}
	R := ownership.ResetCompleteness(c.P, r, c20Reset)
	ownership.RewindReader(c.P, r, c20Reset)
	ownership.Globals(c.P, r, "globals")
	ownership.Redetect(c.P, r, c20Reset, R)
	extrarules.SharedProgramMap(c.P, r)
	// the kept program map makes a rewound pass equal to a fresh one only if a PAT is delivered by the very packet that
	// completes it (before the PMTs that follow): the completeness rules R6, R9, R10 of C02
	demuxrules.New(c.P, r).PSICompleteRules()
	// "Rewind reports the new offset 0 and no error" — and a failing Seek is reported, not swallowed (E2/E3 of C18)
	sets := errflow.ComputeIOSets(c.P)
	errflow.E2E3(c.P, r, sets, errflow.E2Options{Exceptions: e2Exceptions, OnlyIO: true})
	// nothing handed out before the Rewind aliases memory the second pass writes (S3); the pool and its accumulators are
	// replaced by Rewind only (I8, P8)
	joinS3(c)
	joinI8(c)
	joinP8(c)
}
