package props

import (
	"astverif/layout"
)

// c14SpecPairs: reference encodings of descriptor bodies (EN 300 468 clause 6.2, ISO 13818-1 2.6) handed to
// parseDescriptors (rule A4). Filled in by descriptorSpecs.
// c13LoopPairs: the framing of descriptor loops inside the SI tables (12-bit descriptors_loop_length, loops of several
// descriptors, loops above 1023 and 2047 bytes); the bodies themselves are decided under C14.
func c13LoopPairs(c *Ctx) []layout.RTPair {
	return []layout.RTPair{
		{Name: "spec/descriptor-loop", Parser: c.fn("parseDescriptors"), Sources: longLoopSpecs, It: "$i", Root: "$ds", MinSources: 2,
			Computed: descriptorSpecComputed(), Why: descriptorSpecWhy(), ElsewherePrefix: "[].", ElsewhereWhy: "descriptor bodies are decided under C14"},
	}
}

func c14SpecPairs(c *Ctx) []layout.RTPair {
	srcs := descriptorSpecs
	if srcs == nil {
		return nil
	}
	return []layout.RTPair{
		{Name: "spec/descriptors", Parser: c.fn("parseDescriptors"), Sources: srcs, It: "$i", Root: "$ds", MinSources: 20,
			Computed: descriptorSpecComputed(), Why: descriptorSpecWhy(), NotWritten: descriptorSpecNotWritten()},
	}
}
