package props

import (
	"astverif/layout"
)

// c14SpecPairs: reference encodings of descriptor bodies (EN 300 468 clause 6.2, ISO 13818-1 2.6) handed to
// parseDescriptors (rule A4). Filled in by descriptorSpecs.
func c14SpecPairs(c *Ctx) []layout.RTPair {
	srcs := descriptorSpecs
	if srcs == nil {
		return nil
	}
	return []layout.RTPair{
		{Name: "spec/descriptors", Parser: c.fn("parseDescriptors"), Sources: srcs, It: "$i", Root: "$ds", MinSources: 20,
			Computed: descriptorSpecComputed(), Why: descriptorSpecWhy(), NotWritten: descriptorSpecNotWritten()},
	}
}
