package props

import (
	"astverif/crc"
	"astverif/crcgate"
	"astverif/itersafe"
	"astverif/layout"
	"astverif/ownership"
	"astverif/tables"
)

func init() {
	register("C09", "other", c09)
	crcgate.OffsetsFallback = tables.OffsetsDefined
}

func c09(c *Ctx) {
	r := c.R
	r.Explanation = "Structural decision of the CRC_32 discipline of PSI sections on go/ssa (dominators, conditional edges, def-use, static callees); no code of the library is executed. " +
		"INPUT. (a) In parsePSISection every error-free return is classified: from the s.Header.TableID.hasCRC32()=true edge it can only be reached through the `computed == stream` edge of the one comparison whose operand is a computeCRC32 result; every other exit of that region is a provably non-nil error return; after s.Syntax is set every path to an error-free return evaluates hasCRC32(). " +
		"WHAT is compared is decided by def-use: one operand is the unmodified computeCRC32(bs) where bs is the slice returned by a fetch that is immediately preceded (nearest iterator movement on every path) by Seek(start) and asks for (end − start) bytes, computeCRC32 running only on the fetch's nil-error edge; the other operand is, through the unique store into s.CRC32, the big-endian combination of the 4 bytes fetched (helper parseCRC32: its only iterator operation is NextBytesNoCopy(4)) immediately after Seek(end). " +
		"start and end are results of the single parsePSISectionHeader call; in that function start is i.Offset() taken before any iterator movement (offset of table_id) and end is i.Offset() after exactly NextByte + NextBytesNoCopy(2) (= start+3) + int(h.SectionLength), minus 4 exactly on the hasCRC32()=true edge, h.SectionLength being computed from the 2 fetched bytes; the header's early return that leaves the offsets at 0 is selected by shouldStopPSIParsing(TableID) and parsePSISection runs the CRC code only on the opposite edge of the same predicate. " +
		"(b) T1: the table-id truth tables (256 ids, interpreted predicates): hasCRC32 = spec set, every id that reaches a section parser has a CRC, computeCRC32 is reached exactly for the hasCRC32 ids, delivered = parsed per kind, stop ids disjoint from parsed/CRC ids, writable ids ⊆ CRC ∩ syntax-header ids. " +
		"(c) The data result of parsePSISection (in parsePSIData), parsePSIData (in parseData) and parseData (both sites in NextData) is used only in blocks dominated by the nil edge of the test of the error returned by the same call; NextData's error returns carry a provably nil data pointer. " +
		"OUTPUT. (d) writePSISection: one SetWriteCallback(non-nil) on the writer parameter, under hasCRC32(); no emission (Write/WriteN/WriteBytesN on the writer or a batch over it, or a repository function receiving the writer) can execute before it and every path to an emission installs it or takes the hasCRC32()=false edge; the closure's only effect is v = updateCRC32(v, bs) on one captured uint32; v is assigned once outside the closure, the constant 0xFFFFFFFF (equal to the constant computeCRC32 starts from), before installation and before any emission; the single 32-bit emission writes a load of v taken after every other emission, is the last emission, sits under hasCRC32(), and every error-free exit passes it (or the hasCRC32()=false edge, or a gate handled in (f)); a deferred SetWriteCallback(nil) is registered on every installing path with no exit in between (or every path from the installation to a return calls it directly) and every return runs the deferred calls; no other SetWriteCallback can execute before an emission, neither in writePSISection nor in its callees; no callee assigns PSISectionHeader.TableID. " +
		"(f) The single 12-bit emission writes calcPSISectionLength(s) computed before any emission, never a struct field. Body and CRC_32 are gated by s.Header.SectionLength > 0 (struct field, NOT the emitted value): the sections that can reach the writer are enumerated by following the parameter through all static call sites and composite literals (generatePAT, generatePMT; any store into the watched fields of that object graph that does not go through the allocation itself makes the enumeration undecided); in each the field is the table-specific calculator that calcPSISectionLength adds for the very data stored in section.Syntax.Data, and it is provably positive (calcPMTSectionLength starts from 4; calcPATSectionLength = 4·len(Programs) with Programs holding one entry per entry of Muxer.pm.p, a map that NewMuxer — the only allocator of Muxer — fills unconditionally and that no reachable code deletes from). " +
		"(g) joined from C10: the proof F1–F6 that updateCRC32/computeCRC32 are CRC-32/MPEG-2 and one and the same fold (also when computeCRC32 writes the fold out instead of calling updateCRC32): both directions compute the same function. " +
		"NOT decided here: value-level agreement with a reference decoder on corrupted input beyond `CRC mismatch ⇒ error` (a corrupted section_length that still frames a CRC-consistent byte range is accepted by any decoder); that section_length equals the number of bytes emitted after it, nested descriptor loops included (obligation A2, added separately); uint16 wrap-around of the length calculators above 65535 bytes."
	r.RuleText = "C09a: per error-free return of parsePSISection 2 obligations (gate, syntax-implies-test) + comparison/operand/slice-bound/position obligations + 2 offset obligations in parsePSISectionHeader; T1: one obligation per truth-table clause; C09c: one obligation per call site on the chain parsePSISection→parsePSIData→parseData→NextData + NextData's error returns; C09d: one obligation per sub-fact of the callback discipline; C09f: emitted length, gate, and per producer field-origin and positivity. Keys are rule/function/construct. Anything whose shape is not recognised is reported undecided, never passed. Vacuity floors on returns, emissions, call sites, producers, T1 clauses."
	r.Trusted = []string{
		"go/types + go/ssa (x/tools v0.29.0): SSA construction, dominator tree, referrers, static callees",
		"astikit v0.30.0 BytesIterator summary: Seek(n) sets the offset; NextByte/NextBytes(n)/NextBytesNoCopy(n) return the bytes at the offset and advance by 1/n on success, leave it on error; Offset/Len/HasBytesLeft do not move it; only method calls move it",
		"astikit v0.30.0 BitsWriter summary: the write callback receives exactly the bytes written to the underlying writer, in order; BitsWriterBatch.Write/WriteN/WriteBytesN forward to the BitsWriter it was created over; Write(uint32) emits 32 bits most significant first; SetWriteCallback(nil) removes the callback; NewBitsWriterBatch and Err emit nothing",
		"Go semantics of defer (deferred calls run on every exit of the function)",
		"ranging over a map that is not modified during the loop visits every entry exactly once",
	}
	crcgate.Run(c.P, r)
	// "valid CRC_32" means the function both directions compute is CRC-32/MPEG-2 and is the same function: the proof of C10 (F1–F6),
	// which also covers computeCRC32 written as its own fold instead of a call of updateCRC32
	crc.Prove(c.P, r)
	before := len(r.Obls)
	tables.T1(c.P, r)
	r.Floor("T1", "truth-table obligations imported into C09", len(r.Obls)-before, 20)
	r.Count("t1_obligations", len(r.Obls)-before)
	c09Lengths(c)
	// "never a silently altered table": a delivered table does not alias the pooled payload buffer (rule S3 of C16)
	r.Floor("S3", "borrowed/owned byte-slice source sites", ownership.BorrowTaint(c.P, r), 10)
	// "the unmodified table, an error, or nothing": the body of a section is parsed BEFORE its CRC_32 is checked, so a
	// corrupted section reaches every table and descriptor parser; none of them may panic or spin on it (engine C — rules
	// P1–P4, P6 of C03 — on everything reachable from parsePSIData)
	ics := itersafe.New(c.P)
	ics.Run(r, []string{"parsePSIData"})
	r.Floor("P1", "fetch/seek/skip length sites below parsePSIData", r.Counters["sites_P1"], 40)
}

// c09Lengths is rule (e): section_length = the bytes emitted after it, proven level by level (assume-guarantee:
// each level uses the contract of the level below, which is an obligation of its own): descriptor body → descriptor
// with header → descriptor loop → PAT/PMT body → section with syntax header and CRC_32.
func c09Lengths(c *Ctx) {
	r := c.R
	ck := layout.New(c.P)
	pairs, err := descriptorPairs(c)
	if err != nil {
		r.Unknown("A2", "dispatch", "", "descriptor dispatch tables could not be derived: "+err.Error())
	}
	r.Floor("A2", "descriptor calculator/writer pairs", len(pairs), 24)
	ck.A2(r, pairs)
	ck.A2(r, level0Pairs(c))
	ck1 := layout.New(c.P)
	ck1.IP.Abstract = level1Abstract(c)
	ck1.A2(r, level1Pairs(c))
	ck1.ReportNarrow(r)
	ck2 := layout.New(c.P)
	ck2.IP.Abstract = level2Abstract(c)
	ck2.A2(r, level2Pairs(c))
	ck2.ReportNarrow(r)
	ck3 := layout.New(c.P)
	ck3.IP.Abstract = level3Abstract(c)
	ck3.A2(r, level3Pairs(c))
	ck3.ReportNarrow(r)
	for _, k := range []*layout.Checker{ck, ck1, ck2, ck3} {
		for _, d := range k.IP.Diag {
			r.Unknown("A0", "diag/"+d, "", d)
		}
	}
}
