// Package props assembles, per property, the rule instances that decide it.
package props

import (
	"fmt"
	"os"
	"runtime/debug"
	"strconv"
	"strings"
	"time"

	"astverif/layout"
	"astverif/load"
	"astverif/report"
)

// Ctx is what a property check receives.
type Ctx struct {
	P    *load.Program
	R    *report.Report
	Tier string
}

type entry struct {
	level string
	run   func(c *Ctx)
}

var registry = map[string]entry{}

func register(id, level string, run func(c *Ctx)) { registry[id] = entry{level, run} }

// IDs lists the registered properties.
func IDs() []string {
	var out []string
	for k := range registry {
		out = append(out, k)
	}
	return out
}

// Run executes one property check and returns the process exit code.
func Run(id, tier, only string) (code int) {
	e, ok := registry[id]
	if !ok {
		fmt.Fprintf(os.Stderr, "astverif: unknown property %q\n", id)
		return 2
	}
	r := report.New(id, tier, e.level)
	defer func() {
		if x := recover(); x != nil {
			fmt.Fprintf(os.Stderr, "astverif: internal error while checking %s: %v\n%s", id, x, debug.Stack())
			code = 2
		}
	}()
	p, err := load.Load(load.Options{})
	if err != nil {
		fmt.Fprintln(os.Stderr, "astverif:", err)
		return 2
	}
	c := &Ctx{P: p, R: r, Tier: tier}
	// the analysis is bounded: a change that makes an engine explore without end (a parser that forks per descriptor kind, a
	// composition that never closes) is reported as an undecided obligation after the budget, never waited for indefinitely
	budget := 8 * time.Minute
	if tier == "thorough" {
		budget = 45 * time.Minute
	}
	if v := os.Getenv("VERIF_BUDGET_S"); v != "" {
		if n, err := strconv.Atoi(v); err == nil && n > 0 {
			budget = time.Duration(n) * time.Second
		}
	}
	done := make(chan interface{}, 1)
	go func() {
		defer func() { done <- recover() }()
		e.run(c)
		layout.SpecWidthRule(r)
	}()
	select {
	case x := <-done:
		if x != nil {
			panic(x)
		}
	case <-time.After(budget):
		rb := report.New(id, tier, e.level)
		rb.Explanation = "analysis budget exceeded"
		// what the rules that did finish found is kept: they may name the construct
		for _, o := range r.Undischarged() {
			key := strings.TrimPrefix(o.Key, o.Rule+"/")
			if o.Status == report.Violated {
				rb.Bad(o.Rule, key, o.Pos, o.Detail)
			} else {
				rb.Unknown(o.Rule, key, o.Pos, o.Detail)
			}
		}
		rb.Unknown("A0", "analysis-budget", "", fmt.Sprintf("the rules of %s did not finish within %s on this tree (they take under a minute on the reference tree): some construct makes an engine explore without end; nothing is claimed", id, budget))
		return rb.Finish()
	}
	if os.Getenv("VERIF_SELFTEST") != "0" && tier == "thorough" {
		st := SelfTest(id, false)
		r.Extra["selftest_variants"] = st
	}
	if tier == "thorough" {
		// second pass under a 32-bit int model
		p32, err := load.Load(load.Options{GOARCH: "386"})
		if err != nil {
			fmt.Fprintln(os.Stderr, "astverif: GOARCH=386 load:", err)
			return 2
		}
		r32 := report.New(id, tier, e.level)
		e.run(&Ctx{P: p32, R: r32, Tier: tier})
		layout.SpecWidthRule(r32)
		for _, o := range r32.Obls {
			o.Key = "386:" + strings.TrimPrefix(o.Key, o.Rule+"/")
			switch o.Status {
			case report.Discharged:
				// only failures under the second configuration add information
			default:
				if o.Status == report.Violated {
					r.Bad(o.Rule, o.Key, o.Pos, "[GOARCH=386] "+o.Detail)
				} else {
					r.Unknown(o.Rule, o.Key, o.Pos, "[GOARCH=386] "+o.Detail)
				}
			}
		}
		r.Count("obligations_386", len(r32.Obls))
	}
	if only != "" {
		for _, o := range r.Obls {
			if strings.Contains(o.Key, only) {
				fmt.Printf("%s %s %s: %s\n", o.Status, o.Key, o.Pos, o.Detail)
			}
		}
	}
	return r.Finish()
}

// RunOn executes one property's rules on an already loaded program and returns the raw report.
func RunOn(p *load.Program, id, tier string) (r *report.Report, err error) {
	e, ok := registry[id]
	if !ok {
		return nil, fmt.Errorf("unknown property %q", id)
	}
	r = report.New(id, tier, e.level)
	defer func() {
		if x := recover(); x != nil {
			err = fmt.Errorf("internal error: %v\n%s", x, debug.Stack())
		}
	}()
	e.run(&Ctx{P: p, R: r, Tier: tier})
	layout.SpecWidthRule(r)
	return r, nil
}
