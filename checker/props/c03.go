package props

import (
	"astverif/itersafe"
	"astverif/pathint"
)

func init() { register("C03", "other", c03) }

// demuxRoots are the entry points whose reachable code is "the demux path".
var demuxRoots = []string{"Demuxer.NextPacket", "Demuxer.NextData", "Demuxer.Rewind", "NewDemuxer"}

func c03(c *Ctx) {
	r := c.R
	r.Explanation = "Engine C: path-sensitive abstract interpretation (linear forms + guard facts, loops cut at headers, callee summaries) of every function reachable from NextPacket/NextData."
	r.RuleText = "one obligation per fetch/seek/skip/make site (P1), per index/slice site (P2), per definite nil dereference (P3), per loop (P4); aggregated over all explored paths"
	r.Trusted = []string{"go/types + go/ssa", "astikit BytesIterator summary"}
	ck := itersafe.New(c.P)
	// documented input domain (property C03: "packet size auto-detected or explicit >= 188")
	ck.IP.SuffixLo = map[string]int64{".optPacketSize": 0}
	ck.IP.NonZeroLo = map[string]int64{".optPacketSize": 188, "$packetSize": 188}
	ck.IP.FieldInvs = []pathint.FieldInv{{Type: "packetBuffer", Field: "packetSize", Lo: 188}}
	ck.Run(r, demuxRoots)
}
