package props

import (
	"astverif/demuxrules"
	"astverif/errflow"
	"astverif/extrarules"
	"astverif/itersafe"
	"astverif/pathint"
	"astverif/report"
	"astverif/tables"
)

func init() { register("C03", "other", c03) }

// demuxRoots are the entry points whose reachable code is "the demux path".
var demuxRoots = []string{"Demuxer.NextPacket", "Demuxer.NextData", "Demuxer.Rewind", "NewDemuxer"}

// engineC runs the iterator-safety engine once and returns its raw report (other properties import
// individual rules from it).
func engineC(c *Ctx) *report.Report {
	tmp := report.New("tmp", c.Tier, "other")
	ck := itersafe.New(c.P)
	ck.IP.SuffixLo = map[string]int64{".optPacketSize": 0}
	ck.IP.NonZeroLo = map[string]int64{".optPacketSize": 188, "$packetSize": 188}
	ck.IP.FieldInvs = []pathint.FieldInv{{Type: "packetBuffer", Field: "packetSize", Lo: 188}}
	ck.Run(tmp, demuxRoots)
	return tmp
}

// importRules copies the obligations of the given rules from one report into another.
func importRules(dst, src *report.Report, rules ...string) int {
	n := 0
	for _, o := range src.Obls {
		for _, rl := range rules {
			if o.Rule == rl {
				key := o.Key[len(o.Rule)+1:]
				switch o.Status {
				case report.Discharged:
					dst.OK(o.Rule, key, o.Pos, o.Detail)
				case report.Violated:
					dst.Bad(o.Rule, key, o.Pos, o.Detail)
				default:
					dst.Unknown(o.Rule, key, o.Pos, o.Detail)
				}
				n++
			}
		}
	}
	return n
}

func c03(c *Ctx) {
	r := c.R
	r.Explanation = "Engine C: path-sensitive abstract interpretation (linear forms + guard facts, loops cut at headers, callee summaries) of every function reachable from NextPacket/NextData."
	r.RuleText = "one obligation per fetch/seek/skip/make site (P1), per index/slice site (P2), per definite nil dereference (P3), per loop (P4); aggregated over all explored paths"
	r.Trusted = []string{"go/types + go/ssa", "astikit BytesIterator summary"}
	ck := itersafe.New(c.P)
	// documented input domain (property C03: "packet size auto-detected or explicit >= 188")
	ck.IP.SuffixLo = map[string]int64{".optPacketSize": 0}
	ck.IP.NonZeroLo = map[string]int64{".optPacketSize": 188, "$packetSize": 188}
	ck.IP.FieldInvs = []pathint.FieldInv{{Type: "packetBuffer", Field: "packetSize", Lo: 188}}
	ck.Run(r, demuxRoots)
	// T1 clause: the syntax header pointer is only dereferenced for table ids that have one (no nil dereference)
	tables.T1(c.P, r)
	// reaching ErrNoMorePackets: an exhausted reader is never turned into a successful read of nothing
	errflow.E4b(c.P, r)
	errflow.E4c(c.P, r, "ErrNoMorePackets")
	// the packet buffer is dropped only by Rewind (which seeks to 0 itself): dropping it after an error makes the next call
	// detect the packet size again, and a successful detection on a seekable reader rewinds to offset 0 — the stream
	// would be replayed for ever instead of reaching ErrNoMorePackets
	extrarules.WhoMayStoreField(c.P, r, "P8", "Demuxer.packetBuffer/dropped-by", "Demuxer", "packetBuffer", []string{"(*Demuxer).Rewind"}, 1, extrarules.IsNilConst, "nil stores",
		"re-detecting the packet size after input was consumed rewinds a seekable reader to offset 0 (autoDetectPacketSize): no progress")
	extrarules.WhoMayStoreField(c.P, r, "P8", "Demuxer.packetBuffer/stored-by", "Demuxer", "packetBuffer", []string{"(*Demuxer).Rewind", "(*Demuxer).NextPacket"}, 2, nil, "stores",
		"the packet buffer is created lazily by NextPacket and dropped by Rewind only")
	// "every later call returns ErrNoMorePackets again": the end of the stream is reported only when the pool is really
	// empty (an empty dump means an empty pool, every dumped group is parsed) — rules R1 of C02
	demuxrules.New(c.P, r).DrainRules()
	r.Floor("P5", "progress-on-error return classes of NextPacket", r.Counters["sites_P5"], 1)
	r.Floor("P6", "declared-end loops", r.Counters["sites_P6"], 1)
}
