package props

import (
	"astverif/demuxrules"
	"astverif/extrarules"
	"astverif/tables"
)

func init() { register("C06", "other", c06) }

func c06(c *Ctx) {
	r := c.R
	r.Explanation = "Structural necessary conditions of 'duplicates are harmless, loss never splices', each decided for ALL packet sequences at once. " +
		"(a) T3: the formulas of hasDiscontinuity and isSameAsPrevious are extracted from the source as boolean combinations of the atoms AF, DI, L=len>0, P=HasPayload, E0=(cc==prev), E1=(cc==(prev+1)%16), " +
		"the atoms' arithmetic is checked over all 16x16 counter pairs, and truth tables over all valuations decide: DI guarded and sufficient, +1 is continuous, a gap is detected, an empty queue is continuous, isSame = L∧P∧E0, " +
		"and duplicate-branch liveness: either the duplicate test is evaluated on the un-reset queue or isSame∧¬hasDiscontinuity is satisfiable. " +
		"(b) go/ssa: every path from the isSameAsPrevious-true edge of (*packetAccumulator).add returns the zero result with no store to q (directly or via callees). " +
		"(c) every value that can reach append(queue, p) on a path through the hasDiscontinuity-true edge has length 0 (nil, x[:0], make(…,0,…)): no splice across a gap. " +
		"(d) in (*packetPool).addUnlocked the TransportErrorIndicator test and the HasPayload test dominate every access to the accumulator map and acc.add; their drop edges return the zero result without effects. " +
		"(e) hasDiscontinuity is called only from add, on the value loaded from b.q with no intervening store. " +
		"(f) the branch on hasDiscontinuity(queue, p) strictly dominates every store to q and every return of add outside the isSameAsPrevious-true edge: the gap test is taken for every non-duplicate packet, in particular before a PUSI flush. " +
		"(g) the PUSI flush edge is reachable from the discontinuity edge and every group add can return on a path through the hasDiscontinuity-true edge (phi edges restricted to those paths, append(base, p) looked through) is nil, x[:0] or make(…,0,…): after a gap the flushed unit is the reset queue, never the queue as loaded; R3 of C02 (the PUSI edge returns the pre-append queue and keeps a fresh one) is re-run here because (g) builds on it. " +
		"NOT decided: which units survive a given loss pattern (a behavioural statement over values); whether 16 or more lost packets alias (excluded by the property); " +
		"byte-identity of delivered units (depends on parseData, properties C02/C12/C13)."
	r.RuleText = "T3: one obligation per formula, per atom semantics, per truth-table clause; S5/S2/R3: one obligation per edge rule of add/addUnlocked (duplicate edge, discontinuity edge, unconditional test, flush after the decision, PUSI edge) and per call site of hasDiscontinuity; non-trivial = needed a truth table over all valuations or a dominance/def-use argument"
	r.Trusted = []string{"go/types + go/ssa (x/tools v0.29.0): SSA construction, dominator tree, def-use", "the boolean/arith evaluator of package tables (unit-tested)",
		"Go semantics of append/slicing: x[:0] and make(T,0,n) have length 0"}
	tables.T3(c.P, r)
	demuxrules.New(c.P, r).C06()
	// a parse error on one unit must not cost the following, intact units: accumulators are removed by the end-of-stream
	// drain only (I8 of C07)
	extrarules.WhoMayMutateMapField(c.P, r, "I8", "packetPool.b/mutated-by", "packetPool", "b", []string{"(*packetPool).addUnlocked"}, []string{"(*packetPool).dumpUnlocked"}, 1, 1,
		"an accumulator removed outside the end-of-stream drain loses the head of the next unit of that PID")
	r.Floor("C06", "obligations", len(r.Obls), 15)
	// "every unit still delivered is byte-identical to a unit of the loss-free output": what was delivered is never altered
	// afterwards (S3), a loss is never answered by re-detecting the packet size (P8), the pool survives errors on other units
	// (I8), the last unit of a PID is drained at the end (R1)
	joinS3(c)
	joinP8(c)
	joinDrain(c)
}
