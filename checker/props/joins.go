package props

import (
	"astverif/demuxrules"
	"astverif/extrarules"
	"astverif/ownership"
)

// Rule groups that several properties need. A property's statement often rests on a clause that was first written for a
// neighbouring property (seven rounds of seeded changes showed that about half of the misses were "right rule, wrong
// property"); these helpers run such a group under the current property with one line of reason at the call site.

// joinS3: nothing handed out by the demuxer aliases a buffer that later calls reuse (rule S3 of C16).
func joinS3(c *Ctx) {
	c.R.Floor("S3", "borrowed/owned byte-slice source sites", ownership.BorrowTaint(c.P, c.R), 10)
}

// joinP8: the packet buffer is created lazily by NextPacket and dropped by Rewind only (rule P8 of C03).
func joinP8(c *Ctx) {
	r := c.R
	extrarules.WhoMayStoreField(c.P, r, "P8", "Demuxer.packetBuffer/dropped-by", "Demuxer", "packetBuffer", []string{"(*Demuxer).Rewind"}, 1, extrarules.IsNilConst, "nil stores",
		"re-detecting the packet size after input was consumed rewinds a seekable reader to offset 0 (the stream is replayed) or swallows the next two packets of a plain reader")
	extrarules.WhoMayStoreField(c.P, r, "P8", "Demuxer.packetBuffer/stored-by", "Demuxer", "packetBuffer", []string{"(*Demuxer).Rewind", "(*Demuxer).NextPacket"}, 2, nil, "stores",
		"the packet buffer is created lazily by NextPacket and dropped by Rewind only")
}

// joinI8: the pool and its per-PID accumulators live for the whole pass (rule I8 of C07).
func joinI8(c *Ctx) {
	r := c.R
	extrarules.WhoMayStoreField(c.P, r, "I8", "Demuxer.packetPool/stored-by", "Demuxer", "packetPool", []string{"NewDemuxer", "(*Demuxer).Rewind"}, 2, nil, "stores",
		"replacing the packet pool while demuxing discards the pending units of every PID")
	extrarules.WhoMayMutateMapField(c.P, r, "I8", "packetPool.b/mutated-by", "packetPool", "b", []string{"(*packetPool).addUnlocked"}, []string{"(*packetPool).dumpUnlocked"}, 1, 1,
		"an accumulator removed outside the end-of-stream drain loses the unit its PID is assembling")
}

// joinDrain: the end of the stream is reported only when the pool is really empty and every dumped group was parsed (R1 of C02).
func joinDrain(c *Ctx) { demuxrules.New(c.P, c.R).DrainRules() }

// joinPSIComplete: a PAT/PMT unit is flushed exactly when its sections are complete (R6, R9, R10 of C02).
func joinPSIComplete(c *Ctx) { demuxrules.New(c.P, c.R).PSICompleteRules() }

// joinReset: every field the demux path writes is reset by Rewind with a fresh value (reset rules of C20).
func joinReset(c *Ctx) { ownership.ResetCompleteness(c.P, c.R, c20Reset) }

// joinRefused: a refused AddElementaryStream / RemoveElementaryStream changes nothing.
func joinRefused(c *Ctx, rule string) {
	extrarules.NoEffectBeforeError(c.P, c.R, rule, []string{"Muxer.AddElementaryStream", "Muxer.RemoveElementaryStream"},
		"a refused call must leave the muxer as it was")
}
