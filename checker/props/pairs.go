package props

import (
	"sort"

	"astverif/layout"
	"astverif/pathint"
	"astverif/tables"

	"golang.org/x/tools/go/ssa"
)

// descriptorPairs derives the calculator ↔ writer pairs of the descriptor bodies from the three tag
// dispatchers (engine E, T2) — not from names.
func descriptorPairs(c *Ctx) ([]layout.Pair, error) {
	trs, err := tables.Dispatch(c.P)
	if err != nil {
		return nil, err
	}
	seen := map[string]bool{}
	var out []layout.Pair
	for _, t := range trs {
		if t.Calc == nil || t.Write == nil {
			continue
		}
		k := t.Calc.Name() + "|" + t.Write.Name()
		if seen[k] {
			continue
		}
		seen[k] = true
		cf, wf := c.P.FuncOf(t.Calc), c.P.FuncOf(t.Write)
		if cf == nil || wf == nil {
			continue
		}
		out = append(out, layout.Pair{Name: "descriptor-body/" + t.Calc.Name() + "=" + t.Write.Name(), Calc: cf, Writer: wf, ArgMap: []int{1}})
	}
	sort.Slice(out, func(i, j int) bool { return out[i].Name < out[j].Name })
	return out, nil
}

func (c *Ctx) fn(key string) *ssa.Function { return c.P.Func(key) }

// Levels of the calculator/writer hierarchy. Pairs of one level are proven with the pairs of the levels
// below abstracted to their contract "writer emits 8·calc(arg)+extra bits" (assume-guarantee; each
// contract is itself an obligation of its own level).

// level0Pairs: one descriptor with its tag/length header.
func level0Pairs(c *Ctx) []layout.Pair {
	return []layout.Pair{
		{Name: "descriptor/calcDescriptorLength=writeDescriptor", Calc: c.fn("calcDescriptorLength"), Writer: c.fn("writeDescriptor"), ArgMap: []int{1}, ExtraBits: 16},
	}
}

// level1: descriptor loops, with single descriptors abstracted.
func level1Abstract(c *Ctx) map[*ssa.Function]pathint.AbstractSpec {
	m := map[*ssa.Function]pathint.AbstractSpec{}
	if f := c.fn("calcDescriptorLength"); f != nil {
		m[f] = pathint.AbstractSpec{Name: "calcDescriptorLength", ArgIdx: 0}
	}
	if f := c.fn("writeDescriptor"); f != nil {
		m[f] = pathint.AbstractSpec{Name: "calcDescriptorLength", ArgIdx: 1, Writer: true, ExtraBits: 16}
	}
	return m
}

func level1Pairs(c *Ctx) []layout.Pair {
	ps := []layout.Pair{
		{Name: "descriptor-loop/calcDescriptorsLength=writeDescriptorsWithLength", Calc: c.fn("calcDescriptorsLength"), Writer: c.fn("writeDescriptorsWithLength"), ArgMap: []int{1}, ExtraBits: 16},
	}
	// the loop without its length prefix is a function of its own today; merged into the prefixed writer it is covered by that pair
	if c.fn("writeDescriptors") != nil || c.fn("writeDescriptorsWithLength") == nil {
		ps = append([]layout.Pair{{Name: "descriptor-loop/calcDescriptorsLength=writeDescriptors", Calc: c.fn("calcDescriptorsLength"), Writer: c.fn("writeDescriptors"), ArgMap: []int{1}}}, ps...)
	}
	return ps
}

// level2: table bodies, with descriptor loops abstracted.
func level2Abstract(c *Ctx) map[*ssa.Function]pathint.AbstractSpec {
	m := map[*ssa.Function]pathint.AbstractSpec{}
	if f := c.fn("calcDescriptorsLength"); f != nil {
		m[f] = pathint.AbstractSpec{Name: "calcDescriptorsLength", ArgIdx: 0}
	}
	if f := c.fn("writeDescriptorsWithLength"); f != nil {
		m[f] = pathint.AbstractSpec{Name: "calcDescriptorsLength", ArgIdx: 1, Writer: true, ExtraBits: 16}
	}
	if f := c.fn("writeDescriptors"); f != nil {
		m[f] = pathint.AbstractSpec{Name: "calcDescriptorsLength", ArgIdx: 1, Writer: true}
	}
	return m
}

func level2Pairs(c *Ctx) []layout.Pair {
	return []layout.Pair{
		{Name: "pat/calcPATSectionLength=writePATSection", Calc: c.fn("calcPATSectionLength"), Writer: c.fn("writePATSection"), ArgMap: []int{1}},
		{Name: "pmt/calcPMTSectionLength=writePMTSection", Calc: c.fn("calcPMTSectionLength"), Writer: c.fn("writePMTSection"), ArgMap: []int{1}},
	}
}

// level3: the section with its header, syntax header and CRC, table bodies abstracted.
func level3Abstract(c *Ctx) map[*ssa.Function]pathint.AbstractSpec {
	m := map[*ssa.Function]pathint.AbstractSpec{}
	for _, p := range [][2]string{{"calcPATSectionLength", "writePATSection"}, {"calcPMTSectionLength", "writePMTSection"}} {
		if f := c.fn(p[0]); f != nil {
			m[f] = pathint.AbstractSpec{Name: p[0], ArgIdx: 0}
		}
		if f := c.fn(p[1]); f != nil {
			m[f] = pathint.AbstractSpec{Name: p[0], ArgIdx: 1, Writer: true}
		}
	}
	return m
}

func level3Pairs(c *Ctx) []layout.Pair {
	return []layout.Pair{
		{Name: "section_length/calcPSISectionLength=writePSISection", Calc: c.fn("calcPSISectionLength"), Writer: c.fn("writePSISection"), ArgMap: []int{1}, ExtraBits: 24,
			AssumeGE: map[string]int64{"$s/Header.SectionLength": 1}},
	}
}

// packetPairs: adaptation field and PES optional header lengths.
func packetPairs(c *Ctx) []layout.Pair {
	return []layout.Pair{
		{Name: "adaptation_field_length/calcPacketAdaptationFieldLength=writePacketAdaptationField", Calc: c.fn("calcPacketAdaptationFieldLength"), Writer: c.fn("writePacketAdaptationField"),
			ArgMap: []int{1}, ExtraBits: 8, Assume: map[string]bool{"$af.IsOneByteStuffing": false}},
		{Name: "adaptation_extension_length/calcPacketAdaptationFieldExtensionLength=writePacketAdaptationFieldExtension", Calc: c.fn("calcPacketAdaptationFieldExtensionLength"),
			Writer: c.fn("writePacketAdaptationFieldExtension"), ArgMap: []int{1}, ExtraBits: 8},
		{Name: "pes_optional_header/calcPESOptionalHeaderLength=writePESOptionalHeader", Calc: c.fn("calcPESOptionalHeaderLength"), Writer: c.fn("writePESOptionalHeader"), ArgMap: []int{1}},
		{Name: "PES_header_data_length/calcPESOptionalHeaderDataLength=writePESOptionalHeader", Calc: c.fn("calcPESOptionalHeaderDataLength"), Writer: c.fn("writePESOptionalHeader"), ArgMap: []int{1}, ExtraBits: 24},
	}
}
