package props

import (
	"astverif/errflow"
	"astverif/extrarules"
	"astverif/layout"
	"astverif/ownership"
	"astverif/report"
	"strings"
)

func init() { register("C08", "other", c08) }

// c08Framing are the only functions allowed to operate on the demuxer's reader (A.4).
var c08Framing = []string{"peek", "autoDetectPacketSize", "discardPeeked", "rewind", "(*packetBuffer).next"}

func c08(c *Ctx) {
	r := c.R
	r.Explanation = "Thin structural clauses over go/ssa that hold for every read schedule and reader kind because they constrain the only code that can observe chunking and framing. " +
		"(a) E6: every Read on an io.Reader in the package consumes its byte count (no single short-read-intolerant Read), and the reader path reads through io.ReadFull. " +
		"(b) who-may-touch: values derived from Demuxer.r / packetBuffer.r (and every io.Reader parameter they are passed to, fixpoint over static calls) are operated on — method call, type assertion, hand-off outside the package — only in {peek, autoDetectPacketSize, rewind, (*packetBuffer).next}; all other functions only store or forward the reader. " +
		"(c) packet-size influence: loads of packetBuffer.packetSize and the iterator length in parsePacket are followed through arithmetic, locals and calls; allowed uses are the read-buffer allocation, the comparison with len(packetReadBuffer), the ==0 auto-detect trigger, error-message arguments and the single Seek(Len−188+1) in parsePacket; any other branch, index, store, return or call is a violation. " +
		"(d) resync identity: on the non-seekable edge (rewind == -1) of autoDetectPacketSize the length ls of the resync read satisfies l + ls = 2·packetSize as linear forms over the SSA expression (l = constant length of the probe buffer, packetSize = the value returned), peek's plain branch consumes exactly len(b) via one io.ReadFull, its bufio branch only calls Peek and reports shouldRewind=false, and nothing else touches the reader unless shouldRewind. " +
		"(e) the per-packet io.ReadFull(pb.r, pb.packetReadBuffer) reads into a buffer that on every path was just made with length pb.packetSize or tested to have that length; packetSize is written only by the constructor. " +
		"NOT decided: equality of outputs across readers, chunkings and packet sizes as such; the semantics of io.ReadFull, bufio.Reader.Peek and io.Seeker are trusted; on a non-seekable, non-bufio reader the first two packets are consumed by auto-detection (the property only promises loss-free detection for seekable and bufio readers)."
	r.RuleText = "one obligation per Read call (E6), per function holding the reader (reader/…), per packet-size source (psize/function/packetSize#n, Len#n, param:x), per clause of the resync protocol (resync/…), two for the exact read length (readfull/…)"
	r.Trusted = []string{
		"go/types + go/ssa (x/tools v0.29.0); static call graph of the root package",
		"io.ReadFull reads exactly len(buf) bytes or returns an error; bufio.Reader.Peek consumes nothing; io.Seeker.Seek(0, io.SeekStart) repositions at byte 0",
		"astikit BytesIterator summary: Len() is the length of the wrapped buffer, Seek(n) sets the cursor",
	}
	n := errflow.E6(c.P, r)
	r.Count("e6_read_sites", n)
	r.Floor("E6", "io.ReadFull call sites on the reader path (reachable from NextPacket)", ownership.ReadFullSites(c.P, []string{"Demuxer.NextPacket"}), 2)
	ownership.ReaderTouch(c.P, r, c08Framing)
	ownership.PacketSizeFlow(c.P, r)
	ownership.ResyncIdentity(c.P, r)
	ownership.ReadFullExact(c.P, r)
	extrarules.FirstMatchWins(c.P, r, "autoDetectPacketSize")
	extrarules.DiscardEqualsPeeked(c.P, r)
	// the end of the stream looks the same whether it is met while reading packets or during packet size detection: the
	// sentinel is never wrapped on the way up (E4c)
	errflow.E4c(c.P, r, "ErrNoMorePackets")
	// "auto-detection on a bufio reader neither loses nor alters any packet": an error of the reader calls inside the framing
	// functions (Peek on a too small bufio buffer, Seek, ReadFull) is returned, never turned into a fall-through to the path
	// for plain readers, which skips two packets (E2 of C18, the I/O call sites only)
	{
		tmp := report.New("tmp", c.Tier, "other")
		errflow.E2E3(c.P, tmp, errflow.ComputeIOSets(c.P), errflow.E2Options{Exceptions: e2Exceptions, OnlyIO: true})
		n := 0
		for _, o := range tmp.Obls {
			if o.Rule != "E2" || !(strings.HasPrefix(o.Pos, "packet_buffer.go:")) {
				continue
			}
			key := o.Key[len(o.Rule)+1:]
			switch o.Status {
			case report.Discharged:
				r.OK(o.Rule, key, o.Pos, o.Detail)
			case report.Violated:
				r.Bad(o.Rule, key, o.Pos, o.Detail)
			default:
				r.Unknown(o.Rule, key, o.Pos, o.Detail)
			}
			n++
		}
		r.Floor("E2", "error-returning I/O call sites in packet_buffer.go", n, 4)
	}
	// packets of 188+k bytes yield the same packets: parsePacket on the reference encodings of whole packets with k = 0, 4
	// and 16 extra bytes after the sync byte (payload only, adaptation field + payload, adaptation field only, one-byte
	// adaptation field) delivers the same fields and the same payload bytes (A4 pair spec/ts-packet of C11)
	ck := layout.NewBits(c.P)
	ck.A3(r, c11PacketSpecPairs(c))
	for _, d := range ck.IP.Diag {
		r.Unknown("A0", "diag/"+d, "", d)
	}
	// whatever the reader kind: nothing returned aliases the reused read buffer (S3) and the packet size is detected once
	// per pass (P8)
	joinS3(c)
	joinP8(c)
}
