package props

import (
	"astverif/demuxrules"
	"astverif/extrarules"
	"astverif/layout"
	"astverif/ownership"
)

func init() { register("C02", "other", c02) }

func c02(c *Ctx) {
	r := c.R
	r.Explanation = "Thin structural necessary conditions of 'NextData delivers exactly the carried units', each decided on go/ssa for ALL inputs: " +
		"(R1) drain before end: every return of (*Demuxer).NextData whose error can be ErrNoMorePackets is reached with it only over an edge on which the pool has just been found empty — the edge len(dumpUnlocked()) == 0, or the nil edge of the result of a helper that returns nil only behind such an edge (merged returns are judged per incoming edge) — and in every function that calls dumpUnlocked, parseData(dump) lies on every path from the non-empty edge to a return or to the next dump. " +
		"(R2) buffered sections first, none dropped: the len(dmx.dataBuffer) test dominates every NextPacket/addUnlocked/dumpUnlocked call; its non-empty edge returns dataBuffer[0] and stores dataBuffer[1:]; in updateData the only store to dataBuffer is append(dataBuffer, ds[1:]...) on paths that return ds[0]; only NextData/updateData/Rewind store to the field. " +
		"(R3/S6) the accumulator queue is append-only: every value stored to packetAccumulator.q anywhere in the package is built from the loaded q, x[:0], make(…,0,…), nil and append(<one of these>, p) with p the arriving packet, no element of q is overwritten, add returns nil or a whole queue value, and on the PayloadUnitStartIndicator-true edge the returned group is the pre-append queue while p goes to a fresh make(…,0,…). " +
		"(R4) no read-ahead: on all paths from a non-empty addUnlocked/dumpUnlocked result to the return of its data no call can reach an io.Reader/io.Seeker (transitive closure over static calls and function values of the package); parseData/updateData are outside that closure; add evaluates isPSIComplete on append(queue, p) and its true edge returns that queue and stores nil. " +
		"(R5) the only functions that call io.Reader/io.Seeker/bufio methods or hand a reader to library code are peek, autoDetectPacketSize, rewind and (*packetBuffer).next, plus unexported plain functions never used as values whose every call site lies in one of those (their private helpers, e.g. discardPeeked of autoDetectPacketSize). " +
		"(R6) exact fit is complete: every non-constant return value of isPSIComplete is a comparison between Len() and Offset() of the one iterator created in the function (not advanced afterwards) whose truth table over the orderings Len<Offset, Len==Offset, Len>Offset is [false true true] (operator, operand order and negations resolved on SSA); the other returns are false. " +
		"(R7) the early flush consults the live program map: with the true edges of `b.pid == PIDPAT` and of existsUnlocked(b.pid) / a comma-ok lookup in programMap.p — receiver loaded from b.programMap inside add — removed from add's CFG (boolean phis resolved edge by edge), the isPSIComplete call is unreachable, with only the PIDPAT edge removed it is reachable, and no boolean field of packetAccumulator feeds a condition on the way (a PSI flag cached by the constructor would miss PMT PIDs learnt from a later PAT). " +
		"(R8) dispatch and completeness are decided on the assembled payload: in parseData and isPSIComplete the argument of isPESPayload and of every astikit.NewBytesIterator derives, through whole or length-preserving slices only, from the load of field s of the single bytesPool.get item, after the concatenation loop, and every iterator use takes such an iterator; the single copy into that buffer is c += copy(payload.s[c:], ps[k].Payload) with c a running sum from 0, k an induction variable 0,1,2,… bounded by len(ps) over the parameter ps itself, executed in every iteration of a loop left only through its bound test. " +
		"NOT decided: that the delivered units EQUAL the carried units for every packetisation (values produced by accumulate/concatenate/parse: payload offsets are C11's, section parsing C13's, PES C12's); the arithmetic of isPSIComplete before its final comparison (pointer field, section lengths); that the size passed to bytesPool.get is the sum of the payload lengths; a stale COPY of the program map handed to the accumulator by its creator (R7 looks at add only); what user callbacks (PacketsParser, PacketSkipper, logger) do with a reader they captured themselves; " +
		"on a PUSI packet that alone completes a PSI unit the early flush replaces the (necessarily incomplete) previous queue — accepted by R3 and listed here."
	r.RuleText = "one obligation per return that may carry the end sentinel and per dump site (R1), per buffer rule and per writer of dataBuffer (R2), per store to q and per return of add (S6), one for the PUSI edge (R3), per delivery path, per reader-free callee and one for the early flush (R4), per function with direct reader access (R5), one for the final comparison of isPSIComplete (R6), one for the guard of the early flush (R7), per function one for the iterator source and one for the concatenation loop plus one for the isPESPayload argument (R8)"
	r.Trusted = []string{"go/types + go/ssa (x/tools v0.29.0): SSA construction, dominator tree, def-use, static callees",
		"user callbacks and the logger do not read from the demuxer's reader", "Go semantics of append/slicing/copy", "astikit v0.30.0 BytesIterator summary: Len() is the buffer length, Offset() the read position, Skip may move the offset beyond Len"}
	demuxrules.New(c.P, r).C02()
	r.Floor("C02", "obligations", len(r.Obls), 22)
	// "exactly the units the stream carries", also on a second pass: every field the demux path writes is reset by Rewind
	// (the reset rules of C20), and the packet buffer is dropped by Rewind only (P8 of C03: dropping it after an error makes
	// the next call re-detect the packet size, which replays or skips packets)
	ownership.ResetCompleteness(c.P, r, c20Reset)
	extrarules.WhoMayStoreField(c.P, r, "P8", "Demuxer.packetBuffer/dropped-by", "Demuxer", "packetBuffer", []string{"(*Demuxer).Rewind"}, 1, extrarules.IsNilConst, "nil stores",
		"re-detecting the packet size after input was consumed rewinds a seekable reader to offset 0 (the stream is replayed over the live pool) or swallows the next two packets of a plain reader")
	// a delivered unit stays what it was: nothing in it aliases a buffer that later calls reuse (rule S3 of C16)
	r.Floor("S3", "borrowed/owned byte-slice source sites", ownership.BorrowTaint(c.P, r), 10)
	// the payload of a packet starts after the adaptation field, whatever its length (including the one-byte field):
	// the whole-packet joints of C01
	ck := layout.NewBits(c.P)
	ck.A3(r, c01Joints(c))
	for _, d := range ck.IP.Diag {
		r.Unknown("A0", "diag/"+d, "", d)
	}
	joinI8(c)
}
