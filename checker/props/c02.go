package props

import "astverif/demuxrules"

func init() { register("C02", "other", c02) }

func c02(c *Ctx) {
	r := c.R
	r.Explanation = "Thin structural necessary conditions of 'NextData delivers exactly the carried units', each decided on go/ssa for ALL inputs: " +
		"(R1) drain before end: every return of (*Demuxer).NextData whose error can be ErrNoMorePackets is dominated by the edge len(dumpUnlocked()) == 0, and inside the drain loop parseData(dump) lies on every path from the non-empty edge to a return or to the next dump. " +
		"(R2) buffered sections first, none dropped: the len(dmx.dataBuffer) test dominates every NextPacket/addUnlocked/dumpUnlocked call; its non-empty edge returns dataBuffer[0] and stores dataBuffer[1:]; in updateData the only store to dataBuffer is append(dataBuffer, ds[1:]...) on paths that return ds[0]; only NextData/updateData/Rewind store to the field. " +
		"(R3/S6) the accumulator queue is append-only: every value stored to packetAccumulator.q anywhere in the package is built from the loaded q, x[:0], make(…,0,…), nil and append(<one of these>, p) with p the arriving packet, no element of q is overwritten, add returns nil or a whole queue value, and on the PayloadUnitStartIndicator-true edge the returned group is the pre-append queue while p goes to a fresh make(…,0,…). " +
		"(R4) no read-ahead: on all paths from a non-empty addUnlocked/dumpUnlocked result to the return of its data no call can reach an io.Reader/io.Seeker (transitive closure over static calls and function values of the package); parseData/updateData are outside that closure; add evaluates isPSIComplete on append(queue, p) and its true edge returns that queue and stores nil. " +
		"(R5) the only functions that call io.Reader/io.Seeker/bufio methods or hand a reader to library code are peek, autoDetectPacketSize, rewind and (*packetBuffer).next. " +
		"NOT decided: that the delivered units EQUAL the carried units for every packetisation (values produced by accumulate/concatenate/parse: payload offsets are C11's, section parsing C13's, PES C12's); the arithmetic of isPSIComplete; what user callbacks (PacketsParser, PacketSkipper, logger) do with a reader they captured themselves; " +
		"on a PUSI packet that alone completes a PSI unit the early flush replaces the (necessarily incomplete) previous queue — accepted by R3 and listed here."
	r.RuleText = "one obligation per return that may carry the end sentinel and per dump site (R1), per buffer rule and per writer of dataBuffer (R2), per store to q and per return of add (S6), one for the PUSI edge (R3), per delivery path, per reader-free callee and one for the early flush (R4), per function with direct reader access (R5)"
	r.Trusted = []string{"go/types + go/ssa (x/tools v0.29.0): SSA construction, dominator tree, def-use, static callees",
		"user callbacks and the logger do not read from the demuxer's reader", "Go semantics of append/slicing"}
	demuxrules.New(c.P, r).C02()
	r.Floor("C02", "obligations", len(r.Obls), 15)
}
