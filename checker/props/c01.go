package props

import (
	"astverif/demuxrules"
	"astverif/ownership"
	"fmt"
	"go/token"
	"go/types"

	"astverif/layout"
	"astverif/lin"
	"astverif/load"
	"astverif/muxstate"
	"astverif/ssau"

	"golang.org/x/tools/go/ssa"
)

func init() { register("C01", "other", c01) }

// c01Joints: the places where the structures of the mux path are nested into each other.
func c01Joints(c *Ctx) []layout.RTPair {
	return []layout.RTPair{
		// a whole packet: sync byte, header, adaptation field, payload, padding
		{Name: "packet", Writer: c.fn("writePacket"), Parser: c.fn("parsePacket"), WriterObj: "$w", It: "$i", Root: "$p", RootPtr: true, MinSources: 2, Guided: true, ExactLen: true,
			ParserPreds: map[string]bool{"nil:$s": true}, // no packet skipper (C19 decides the skipper)
			WriterPreds: map[string]bool{"$p/AdaptationField.HasPCR": true, "$p/AdaptationField.HasOPCR": false, "$p/AdaptationField.HasSplicingCountdown": false,
				"$p/AdaptationField.HasTransportPrivateData": false, "$p/AdaptationField.HasAdaptationExtensionField": false,
				"$p/AdaptationField.IsOneByteStuffing": false},
			SkipSource: func(src *layout.Source) string {
				// writePacket pads a short packet with 0xFF after the payload, which the parser returns as payload;
				// WriteData always sizes the adaptation field stuffing so that nothing is padded: assume no padding
				seenPayload := false
				for k, ch := range src.Chunks {
					if ch.Kind == layout.CBlob {
						seenPayload = true
					}
					if ch.Kind == layout.CRepeat && seenPayload && k == len(src.Chunks)-1 {
						src.St.Facts = append(src.St.Facts, lin.Fact{F: ch.Len}, lin.Fact{F: ch.Len.Scale(-1)})
						src.Chunks = src.Chunks[:k]
						src.Replace()
					}
				}
				return ""
			},
			WriterEq: map[string]int64{"$targetPacketSize": 188},
			// without payload the parser stops after the adaptation field (what follows is stuffing)
			ConsumedSkip: func(src *layout.Source) bool {
				for _, ch := range src.Chunks {
					if ch.Kind == layout.CBlob {
						return false
					}
				}
				return true
			},
			Computed: map[string]func(*layout.Source) *lin.Form{
				"AdaptationField.Length": exempt, "AdaptationField.StuffingLength": exempt,
			},
			Why: map[string]string{
				"AdaptationField.Length":         "decided for every valuation in C11 pair adaptation-field",
				"AdaptationField.StuffingLength": "decided for every valuation in C11 pair adaptation-field",
			},
			ElsewherePrefix: "AdaptationField.", ElsewhereWhy: "decided for every valuation in C11 pair adaptation-field",
		},
		{Name: "packet-one-byte-af", Writer: c.fn("writePacket"), Parser: c.fn("parsePacket"), WriterObj: "$w", It: "$i", Root: "$p", RootPtr: true, MinSources: 2, Guided: true, ExactLen: true,
			ParserPreds: map[string]bool{"nil:$s": true}, // no packet skipper (C19 decides the skipper)
			WriterPreds: map[string]bool{"$p.Header.HasAdaptationField": true, "$p/AdaptationField.IsOneByteStuffing": true},
			SkipSource: func(src *layout.Source) string {
				// writePacket pads a short packet with 0xFF after the payload, which the parser returns as payload;
				// WriteData always sizes the adaptation field stuffing so that nothing is padded: assume no padding
				seenPayload := false
				for k, ch := range src.Chunks {
					if ch.Kind == layout.CBlob {
						seenPayload = true
					}
					if ch.Kind == layout.CRepeat && seenPayload && k == len(src.Chunks)-1 {
						src.St.Facts = append(src.St.Facts, lin.Fact{F: ch.Len}, lin.Fact{F: ch.Len.Scale(-1)})
						src.Chunks = src.Chunks[:k]
						src.Replace()
					}
				}
				return ""
			},
			WriterEq: map[string]int64{"$targetPacketSize": 188},
			// without payload the parser stops after the adaptation field (what follows is stuffing)
			ConsumedSkip: func(src *layout.Source) bool {
				for _, ch := range src.Chunks {
					if ch.Kind == layout.CBlob {
						return false
					}
				}
				return true
			},
			Computed: map[string]func(*layout.Source) *lin.Form{
				"AdaptationField.Length": exempt, "AdaptationField.StuffingLength": exempt,
			},
			Why: map[string]string{
				"AdaptationField.Length":         "decided for every valuation in C11 pair adaptation-field",
				"AdaptationField.StuffingLength": "decided for every valuation in C11 pair adaptation-field",
			},
			ElsewherePrefix: "AdaptationField.", ElsewhereWhy: "decided for every valuation in C11 pair adaptation-field",
		},
	}
}

// c01Stuffing: whatever function WriteData calls to obtain the stuffing-only adaptation field (the call whose result is
// stored into the packet's AdaptationField), composed with writePacketAdaptationField, occupies exactly the n bytes it was
// asked for — for every state of its other parameters (a maker that reuses an object of the muxer must reset every field).
func c01Stuffing(c *Ctx, lk *layout.Checker) {
	r := c.R
	wd := c.fn("Muxer.WriteData")
	if wd == nil {
		r.Unknown("A2", "stuffing/anchor", "", "Muxer.WriteData not found")
		return
	}
	makers := stuffingMakers(c, wd)
	if len(makers) == 0 {
		r.Unknown("A2", "stuffing/maker", c.P.Pos(wd.Pos()), "no call in WriteData whose result becomes the packet's adaptation field: how the stuffing adaptation field is built cannot be decided")
		return
	}
	for m := range makers {
		lk.MadeSize(r, "stuffing/"+m.Name()+"=writePacketAdaptationField", m, c.fn("writePacketAdaptationField"), 1)
	}
}

func c01(c *Ctx) {
	r := c.R
	r.Explanation = "Structural necessary conditions of the mux→demux round trip, decided for all inputs: (a) every structure on the mux path is read back field for field by the library's own parsers (rule A3: TS header, PCR, adaptation field for all 145 flag valuations, PES header with PTS/DTS/ESCR, section syntax header, PAT and PMT bodies with 0/1/2 entries; the PES optional header for all valuations is decided under C12, descriptor bodies under C14); the joints: a whole packet written by writePacket is parsed back by parsePacket (sync byte, header, adaptation field, payload bytes, padding to 188); " +
		"(b) nothing built is withheld: in WriteData every consumed continuity counter value reaches writePacket for the very packet (S1-es), and the adaptation field handed to WriteData reaches writePacket (S1-af); (c) automatic PIDs are initialised in range and proven unused at assignment (autopid). " +
		"NOT decided: that the 184-byte chunking, the stuffing arithmetic and the demuxer's reassembly compose to the identity for every payload length and history; ordering across PIDs; table emission counts."
	r.RuleText = "A3: one obligation per structure field and per pair acceptance/consumption; S1-es / S1-af: one per consumed value / attached adaptation field; autopid: one per nextPID store plus initialised / collision-checked"
	r.Trusted = []string{"go/types + go/ssa (x/tools v0.29.0)", "astikit BitsWriter / BytesIterator summaries", "package bitdom"}
	ck := layout.NewBits(c.P)
	ck.UnrollFor = func(f *ssa.Function, elem types.Type) []int {
		if p, ok := elem.Underlying().(*types.Pointer); ok {
			if n, ok := p.Elem().(*types.Named); ok && n.Obj().Name() == "Descriptor" {
				return []int{0}
			}
		}
		return []int{0, 1, 2}
	}
	var pairs []layout.RTPair
	pairs = append(pairs, c11Pairs(c)...)
	for _, p := range c12Pairs(c) {
		if p.Name != "pes-optional-header" {
			pairs = append(pairs, p)
		}
	}
	pairs = append(pairs, c13Pairs(c)...)
	pairs = append(pairs, c13PMT(c)...)
	ck.A3(r, pairs)
	ck.A3(r, c01Joints(c))
	// the payload the muxer wrote is what the PES parser delimits: PES_packet_length bytes when it is not 0, everything up
	// to the end of the unit when it is 0 — for every stream id, because the writer also emits 0 for units above 65535
	// bytes (the whole-PES reference encodings of C12)
	for _, sp := range c12SpecPairs(c) {
		if sp.Name == "spec/pes-data" {
			ck.A3(r, []layout.RTPair{sp})
		}
	}
	for _, d := range ck.IP.Diag {
		r.Unknown("A0", "diag/"+d, "", d)
	}
	// the stuffing adaptation field WriteData builds for n free bytes occupies exactly n bytes (otherwise writePacket
	// pads after the payload and the demuxer returns the padding as payload)
	lk := layout.New(c.P)
	c01Stuffing(c, lk)
	// the joints above assume that writePacket pads nothing after the payload: rule F1 discharges that assumption (every
	// packet WriteData builds fills the packet exactly, on every path of the packetisation loop)
	c04ExactFill(c)
	muxstate.ESPairing(c.P, r)
	c01AFCarried(c)
	c01StuffingReset(c)
	// what the demuxer delivers stays what was written: nothing in it aliases a buffer that later reads reuse (rule S3 of C16)
	r.Floor("S3", "borrowed/owned byte-slice source sites", ownership.BorrowTaint(c.P, r), 10)
	// "exactly one PES per WriteData call": a PES that decodes is delivered whatever its stream id or header says (D2)
	demuxrules.New(c.P, r).NoContentFilter()
	muxstate.AutoPID(c.P, r, muxstate.RuleAutoPID)
	// "one PAT/PMT pair per table emission describing the configured streams": every emission serialises the live stream list
	// and PCR PID, every change raises the dirty flag, the context map follows the stream list (the 'current' rules of C17)
	muxstate.Current(c.P, r)
	r.Floor("A3", "structure fields compared", countPrefix(r, "A3/", "/field/"), 80)
}

// c01AFCarried is rule S1-af: in (*Muxer).WriteData the adaptation field of the MuxerData, once attached to a packet,
// reaches writePacket for that packet on every path that does not fail — otherwise it is silently lost.
func c01AFCarried(c *Ctx) {
	r := c.R
	f := c.fn("Muxer.WriteData")
	if f == nil {
		r.Unknown("S1-af", "(*Muxer).WriteData/anchor", "", "function not found")
		return
	}
	n := 0
	for _, b := range f.Blocks {
		for _, in := range b.Instrs {
			st, ok := in.(*ssa.Store)
			if !ok {
				continue
			}
			fa, ok := st.Addr.(*ssa.FieldAddr)
			if !ok {
				continue
			}
			name, _ := ssau.FieldName(fa)
			alloc, isAlloc := fa.X.(*ssa.Alloc)
			if name != "AdaptationField" || !isAlloc || !ssau.IsNamed(alloc.Type().(*types.Pointer).Elem(), load.RootPath, "Packet") {
				continue
			}
			// the stored value is the MuxerData's adaptation field (a load of a field named AdaptationField)
			ld, ok := st.Val.(*ssa.UnOp)
			if !ok {
				continue
			}
			src, ok := ld.X.(*ssa.FieldAddr)
			if !ok {
				continue
			}
			if sn, _ := ssau.FieldName(src); sn != "AdaptationField" {
				continue
			}
			n++
			res := muxstate.MustReach(f, st, muxstate.Flow{
				Stop: func(i ssa.Instruction) bool {
					call, ok := i.(*ssa.Call)
					if !ok {
						return false
					}
					cal := call.Call.StaticCallee()
					return cal != nil && cal.Name() == "writePacket" && len(call.Call.Args) >= 2 && call.Call.Args[1] == ssa.Value(alloc)
				},
				Bad: func(i ssa.Instruction) string {
					if ret, ok := i.(*ssa.Return); ok && !muxstate.ExemptReturn(ret) {
						return "return without error"
					}
					return ""
				},
			})
			key := "(*Muxer).WriteData/adaptation-field-reaches-writePacket"
			if res.OK() {
				r.OK("S1-af", key, c.P.Pos(st.Pos()), "every non-failing path from the attachment of the adaptation field to the end of the iteration writes the packet")
			} else {
				t := res.Terminals[0]
				r.Bad("S1-af", key, c.P.Pos(st.Pos()), fmt.Sprintf("the adaptation field attached to the packet can be dropped: a path reaches %s without writePacket for that packet (%s): when the adaptation field and the PES header do not fit one packet the packet is built, filled with stuffing and never written", t.Kind, muxstate.PathString(c.P, t.Path)))
			}
		}
	}
	r.Floor("S1-af", "attachments of MuxerData.AdaptationField to a packet", n, 1)
}

// c01StuffingReset: WriteData stores the stuffing it needs into the adaptation field the caller handed in
// (pkt.AdaptationField aliases d.AdaptationField) and the size budget of the next call is computed from that same field
// (calcPacketAdaptationFieldLength adds StuffingLength). Rule S1-reset: after every store of a non-zero value into a
// StuffingLength field inside WriteData, every path to a successful return stores 0 into the StuffingLength of
// d.AdaptationField — otherwise the next PES written with the same adaptation field object starts with a packet whose
// budget counts stuffing that is no longer needed, and the packet is padded after the payload. The nil edge of a test of
// d.AdaptationField is exempt: there is no caller-owned field on it.
func c01StuffingReset(c *Ctx) {
	r := c.R
	f := c.fn("Muxer.WriteData")
	if f == nil || len(f.Params) < 2 {
		r.Unknown("S1-reset", "(*Muxer).WriteData/anchor", "", "function not found")
		return
	}
	d := f.Params[1]
	// loads of d.AdaptationField
	isCallerAF := func(v ssa.Value) bool {
		ld, ok := v.(*ssa.UnOp)
		if !ok || ld.Op != token.MUL {
			return false
		}
		fa, ok := ld.X.(*ssa.FieldAddr)
		if !ok || fa.X != ssa.Value(d) {
			return false
		}
		n, _ := ssau.FieldName(fa)
		return n == "AdaptationField"
	}
	feasible := func(from *ssa.BasicBlock, succ int) bool {
		iff, ok := from.Instrs[len(from.Instrs)-1].(*ssa.If)
		if !ok {
			return true
		}
		cmp, ok := iff.Cond.(*ssa.BinOp)
		if !ok || (cmp.Op != token.NEQ && cmp.Op != token.EQL) {
			return true
		}
		var other ssa.Value
		switch {
		case isCallerAF(cmp.X):
			other = cmp.Y
		case isCallerAF(cmp.Y):
			other = cmp.X
		default:
			return true
		}
		if k, ok := other.(*ssa.Const); !ok || !k.IsNil() {
			return true
		}
		nilSucc := 1 // `!= nil`: the else edge is the nil edge
		if cmp.Op == token.EQL {
			nilSucc = 0
		}
		return succ != nilSucc
	}
	// a store of a non-zero value into a StuffingLength field
	stuffingStore := func(in ssa.Instruction) bool {
		st, ok := in.(*ssa.Store)
		if !ok {
			return false
		}
		fa, ok := st.Addr.(*ssa.FieldAddr)
		if !ok {
			return false
		}
		if name, _ := ssau.FieldName(fa); name != "StuffingLength" {
			return false
		}
		if k, isC := ssau.ConstInt(st.Val); isC && k == 0 {
			return false
		}
		return true
	}
	n := 0
	for _, b := range f.Blocks {
		for _, in := range b.Instrs {
			st := in
			if !stuffingStore(in) {
				// or a call of a helper of the package that contains such a store (an extracted "stuff the packet" helper)
				call, isCall := in.(*ssa.Call)
				if !isCall {
					continue
				}
				cal := call.Call.StaticCallee()
				if cal == nil || cal.Pkg != c.P.SSAPkg || len(cal.Blocks) == 0 {
					continue
				}
				has := false
				for _, cb := range cal.Blocks {
					for _, ci := range cb.Instrs {
						if stuffingStore(ci) {
							has = true
						}
					}
				}
				if !has {
					continue
				}
			}
			n++
			res := muxstate.MustReach(f, st, muxstate.Flow{
				Stop: func(i ssa.Instruction) bool {
					z, ok := i.(*ssa.Store)
					if !ok {
						return false
					}
					za, ok := z.Addr.(*ssa.FieldAddr)
					if !ok || !isCallerAF(za.X) {
						return false
					}
					if name, _ := ssau.FieldName(za); name != "StuffingLength" {
						return false
					}
					k, isC := ssau.ConstInt(z.Val)
					return isC && k == 0
				},
				Bad: func(i ssa.Instruction) string {
					if i == ssa.Instruction(st) {
						return "" // the same store in a later iteration keeps the obligation open, it does not end it
					}
					if ret, ok := i.(*ssa.Return); ok && !muxstate.ExemptReturn(ret) {
						return "return without error"
					}
					return ""
				},
				Feasible: feasible,
			})
			key := fmt.Sprintf("(*Muxer).WriteData/stuffing-length-reset#%d", n)
			var bad []string
			for _, t := range res.Terminals {
				if t.Kind == "next-iteration" {
					continue
				}
				bad = append(bad, fmt.Sprintf("%s (%s)", t.Kind, muxstate.PathString(c.P, t.Path)))
			}
			if len(bad) == 0 {
				r.OK("S1-reset", key, c.P.Pos(st.Pos()), "every successful return after this store resets d.AdaptationField.StuffingLength to 0: the next call's size budget starts clean")
			} else {
				r.Bad("S1-reset", key, c.P.Pos(st.Pos()), "the stuffing stored into the adaptation field survives a successful WriteData: "+bad[0]+
					" — the size budget of the next PES written with the same adaptation field counts it again (calcPacketAdaptationFieldLength) and the packet is padded after its payload")
			}
		}
	}
	r.Floor("S1-reset", "stores of stuffing into an adaptation field inside WriteData", n, 2)
}
