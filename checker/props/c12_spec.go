package props

import (
	"fmt"
	"sync"

	"astverif/layout"
	"astverif/lin"
)

// Reference encodings of ISO/IEC 13818-1 2.4.3.6/2.4.3.7 (PES packet header fields after PES_packet_length),
// transcribed from the standard independently of the library's writer. They include the fields the writer does not
// support (previous_PES_packet_CRC), which only this rule can position.

func ptsSpec(c *layout.Checker) []*layout.Source {
	b := c.NewSpec("PTS ('0010' prefix)")
	b.Const(4, 2)
	timestamp33(b, "$cr.Base")
	return []*layout.Source{b.Source()}
}

func escrSpec(c *layout.Checker) []*layout.Source {
	b := c.NewSpec("ESCR")
	b.Const(2, 3).Slice("$cr.Base", 32, 30).Const(1, 1).Slice("$cr.Base", 29, 15).Const(1, 1).Slice("$cr.Base", 14, 0).Const(1, 1)
	b.Field(9, "$cr.Extension").Const(1, 1) // ESCR_extension, marker_bit
	return []*layout.Source{b.Source()}
}

// pesOptionalSpec enumerates the optional fields: PTS_DTS_flags ∈ {00, 10, 11}, ESCR, ES_rate, additional copy info,
// previous_PES_packet_CRC, and the extension with private data, sequence counter, P-STD buffer and extension 2.
// DSM trick mode has its own instances at the end (one per trick_mode_control value). (pack_header_field is not supported by the parser — it reads
// the length byte only, which the source says itself — and is left out.)
func pesOptionalSpec(c *layout.Checker) []*layout.Source {
	var out []*layout.Source
	h := "$h"
	for _, ptsdts := range []int64{0, 2, 3} {
		for flags := 0; flags < 32; flags++ {
			escr, rate, copyInfo, crc, ext := flags&16 != 0, flags&8 != 0, flags&4 != 0, flags&2 != 0, flags&1 != 0
			exts := []int{0}
			if ext {
				exts = []int{0, 1, 2, 3, 4, 5, 6, 7, 8, 9, 10, 11, 12, 13, 14, 15}
			}
			if ext && ptsdts == 0 && flags == 1 {
				// pack_header_field_flag = 1 with pack_field_length = 0 (an empty pack header — the one case in which reading
				// the length byte only, as the parser's own TODO says it does, is what the standard asks for): the fields that
				// follow it must still be found, and their flags still come from the flag byte
				for ef := 16; ef < 32; ef++ {
					exts = append(exts, ef)
				}
			}
			for _, ef := range exts {
				pack, priv, seq, pstd, ext2 := ef&16 != 0, ef&8 != 0, ef&4 != 0, ef&2 != 0, ef&1 != 0
				b := c.NewSpec(fmt.Sprintf("PES optional header PTS_DTS=%d flags=%05b ext=%05b", ptsdts, flags, ef))
				b.Const(2, 2).Field(2, h+".ScramblingControl").Flag(h + ".Priority").Flag(h + ".DataAlignmentIndicator").Flag(h + ".IsCopyrighted").Flag(h + ".IsOriginal")
				b.Field(2, h+".PTSDTSIndicator").Fix(h+".PTSDTSIndicator", ptsdts)
				b.FlagIs(h+".HasESCR", escr).FlagIs(h+".HasESRate", rate).FlagIs(h+".HasDSMTrickMode", false)
				b.FlagIs(h+".HasAdditionalCopyInfo", copyInfo).FlagIs(h+".HasCRC", crc).FlagIs(h+".HasExtension", ext)
				b.LengthOfRest(8) // PES_header_data_length
				switch ptsdts {
				case 2:
					b.Const(4, 2)
					timestamp33(b, h+"/PTS.Base")
				case 3:
					b.Const(4, 3)
					timestamp33(b, h+"/PTS.Base")
					b.Const(4, 1)
					timestamp33(b, h+"/DTS.Base")
				}
				if escr {
					b.Const(2, 3).Slice(h+"/ESCR.Base", 32, 30).Const(1, 1).Slice(h+"/ESCR.Base", 29, 15).Const(1, 1).Slice(h+"/ESCR.Base", 14, 0).Const(1, 1)
					b.Field(9, h+"/ESCR.Extension").Const(1, 1)
				}
				if rate {
					b.Const(1, 1).Field(22, h+".ESRate").Const(1, 1) // marker_bit, ES_rate, marker_bit
				}
				if copyInfo {
					b.Const(1, 1).Field(7, h+".AdditionalCopyInfo") // marker_bit, additional_copy_info
				}
				if crc {
					b.Field(16, h+".CRC") // previous_PES_packet_CRC
				}
				if ext {
					b.FlagIs(h+".HasPrivateData", priv).FlagIs(h+".HasPackHeaderField", pack).FlagIs(h+".HasProgramPacketSequenceCounter", seq)
					b.FlagIs(h+".HasPSTDBuffer", pstd).Const(3, 7).FlagIs(h+".HasExtension2", ext2)
					if priv {
						b.BlobN(h+".PrivateData", 16) // PES_private_data: 128 bits
					}
					if pack {
						b.Field(8, h+".PackField").Fix(h+".PackField", 0) // pack_field_length = 0, no pack_header()
					}
					if seq {
						b.Const(1, 1).Field(7, h+".PacketSequenceCounter").Const(1, 1).Field(1, h+".MPEG1OrMPEG2ID").Field(6, h+".OriginalStuffingLength")
					}
					if pstd {
						b.Const(2, 1).Field(1, h+".PSTDBufferScale").Field(13, h+".PSTDBufferSize")
					}
					if ext2 {
						b.Const(1, 1)
						// PES_extension_field_length (7 bits) and the bytes
						b.LenField(7, h+".Extension2Data").Blob(h + ".Extension2Data")
					}
				}
				out = append(out, b.Source())
			}
		}
	}
	// DSM_trick_mode (table 2-21, 2.4.3.7): trick_mode_control(3) followed by a 5-bit body that depends on it. One
	// instance per value of trick_mode_control, on the header with no other optional field and with PTS + ES_rate +
	// additional_copy_info around it (the byte sits between ES_rate and additional_copy_info).
	for _, around := range []bool{false, true} {
		for ctl := int64(0); ctl < 8; ctl++ {
			b := c.NewSpec(fmt.Sprintf("PES optional header with DSM trick mode, trick_mode_control=%d, neighbours=%v", ctl, around))
			b.Const(2, 2).Field(2, h+".ScramblingControl").Flag(h + ".Priority").Flag(h + ".DataAlignmentIndicator").Flag(h + ".IsCopyrighted").Flag(h + ".IsOriginal")
			pd := int64(0)
			if around {
				pd = 2
			}
			b.Field(2, h+".PTSDTSIndicator").Fix(h+".PTSDTSIndicator", pd)
			b.FlagIs(h+".HasESCR", false).FlagIs(h+".HasESRate", around).FlagIs(h+".HasDSMTrickMode", true)
			b.FlagIs(h+".HasAdditionalCopyInfo", around).FlagIs(h+".HasCRC", false).FlagIs(h+".HasExtension", false)
			b.LengthOfRest(8) // PES_header_data_length
			if around {
				b.Const(4, 2)
				timestamp33(b, h+"/PTS.Base")
				b.Const(1, 1).Field(22, h+".ESRate").Const(1, 1)
			}
			m := h + "/DSMTrickMode"
			b.Field(3, m+".TrickModeControl").Fix(m+".TrickModeControl", ctl)
			switch ctl {
			case 0, 3: // fast_forward, fast_reverse
				b.Field(2, m+".FieldID").Field(1, m+".IntraSliceRefresh").Field(2, m+".FrequencyTruncation")
			case 1, 4: // slow_motion, slow_reverse
				b.Field(5, m+".RepeatControl")
			case 2: // freeze_frame
				b.Field(2, m+".FieldID").Const(3, 7)
			default:
				b.Const(5, 31) // reserved
			}
			if around {
				b.Const(1, 1).Field(7, h+".AdditionalCopyInfo")
			}
			out = append(out, b.Source())
		}
	}
	return out
}

// pesDataSpec: PES_packet() of 2.4.3.6 as a whole — packet_start_code_prefix, stream_id, PES_packet_length, the optional
// header (here without optional fields, with 0 or 2 stuffing bytes) and the payload. PES_packet_length is either the
// number of bytes that follow it or 0 (unbounded: the payload runs to the end of the unit). With a non-zero length the
// unit may hold more bytes than the packet: they are not part of the payload.
type pesDataInst struct {
	bounded, opt       bool
	stuffing, trailing int
	short              bool // PES_packet_length announces more bytes than the unit holds
}

var pesDataInsts sync.Map // *layout.Source -> pesDataInst

func pesDataSpec(c *layout.Checker) []*layout.Source {
	var out []*layout.Source
	for _, sid := range []int64{0xbf, 0xbe, 0xe0, 0xc0, 0xbd} {
		for _, bounded := range []bool{true, false} {
			for _, stuffing := range []int{0, 2} {
				for _, trailing := range []int{0, 3} {
					opt := sid != 0xbf && sid != 0xbe // private_stream_2 and padding_stream have no optional header
					if (!opt && stuffing > 0) || (!bounded && trailing > 0) {
						continue
					}
					b := c.NewSpec(fmt.Sprintf("PES packet stream_id=0x%02x bounded=%v stuffing=%d trailing=%d", sid, bounded, stuffing, trailing))
					b.Const(24, 1).Field(8, "$d/Header.StreamID").Fix("$d/Header.StreamID", sid)
					if bounded {
						b.LengthOfRest(16)
					} else {
						b.Const(16, 0)
					}
					if opt {
						h := "$d/Header/OptionalHeader"
						b.Const(2, 2).Field(2, h+".ScramblingControl").Flag(h + ".Priority").Flag(h + ".DataAlignmentIndicator").Flag(h + ".IsCopyrighted").Flag(h + ".IsOriginal")
						b.Field(2, h+".PTSDTSIndicator").Fix(h+".PTSDTSIndicator", 0)
						b.FlagIs(h+".HasESCR", false).FlagIs(h+".HasESRate", false).FlagIs(h+".HasDSMTrickMode", false)
						b.FlagIs(h+".HasAdditionalCopyInfo", false).FlagIs(h+".HasCRC", false).FlagIs(h+".HasExtension", false)
						b.Const(8, uint64(stuffing)) // PES_header_data_length
						for k := 0; k < stuffing; k++ {
							b.Const(8, 0xff) // stuffing_byte
						}
					}
					b.Blob("$d.Data")
					if bounded {
						b.EndLength()
						if !opt {
							// without optional header PES_packet_length is the payload length: 0 bytes cannot be announced
							// (0 means unbounded)
							b.MinLen("$d.Data", 1)
						}
					}
					if trailing > 0 {
						b.Opaque(8*trailing, "$trailing")
					}
					src := b.Source()
					pesDataInsts.Store(src, pesDataInst{bounded, opt, stuffing, trailing, false})
					out = append(out, src)
				}
			}
		}
	}
	// PES_packet_length longer than the bytes available (a unit cut short): "exactly that many bytes when non-zero" cannot
	// be honoured, the parser must report an error, never a shortened payload
	for _, sid := range []int64{0xbf, 0xc0, 0xe0} {
		for _, missing := range []int64{1, 200} {
			opt := sid != 0xbf
			b := c.NewSpec(fmt.Sprintf("truncated PES packet stream_id=0x%02x missing=%d", sid, missing))
			b.Const(24, 1).Field(8, "$d/Header.StreamID").Fix("$d/Header.StreamID", sid)
			hdr := int64(0)
			if opt {
				hdr = 3
			}
			b.Const(16, uint64(hdr+10+missing)) // PES_packet_length announces `missing` bytes more than follow
			if opt {
				h := "$d/Header/OptionalHeader"
				b.Const(2, 2).Field(2, h+".ScramblingControl").Flag(h + ".Priority").Flag(h + ".DataAlignmentIndicator").Flag(h + ".IsCopyrighted").Flag(h + ".IsOriginal")
				b.Field(2, h+".PTSDTSIndicator").Fix(h+".PTSDTSIndicator", 0)
				b.FlagIs(h+".HasESCR", false).FlagIs(h+".HasESRate", false).FlagIs(h+".HasDSMTrickMode", false)
				b.FlagIs(h+".HasAdditionalCopyInfo", false).FlagIs(h+".HasCRC", false).FlagIs(h+".HasExtension", false)
				b.Const(8, 0)
			}
			b.BlobN("$d.Data", 10)
			src := b.Source()
			pesDataInsts.Store(src, pesDataInst{true, opt, 0, 0, true})
			out = append(out, src)
		}
	}
	return out
}

func c12SpecPairs(c *Ctx) []layout.RTPair {
	noExt := "a PTS/DTS has no extension part"
	return []layout.RTPair{
		{Name: "spec/pts", Parser: c.fn("parsePTSOrDTS"), Sources: ptsSpec, It: "$i", Root: "$cr", RootPtr: true, MinSources: 1,
			NotWritten: map[string]string{"Extension": noExt}},
		{Name: "spec/escr", Parser: c.fn("parseESCR"), Sources: escrSpec, It: "$i", Root: "$cr", RootPtr: true, MinSources: 1},
		{Name: "spec/pes-data", Parser: c.fn("parsePESData"), Sources: pesDataSpec, It: "$i", Root: "$d", RootPtr: true, MinSources: 26, ExactLen: true,
			RejectSource: func(src *layout.Source) bool {
				in, _ := pesDataInsts.Load(src)
				return in.(pesDataInst).short
			},
			// what follows a bounded packet in the unit is not consumed
			Consumed: func(src *layout.Source) lin.Form {
				in, _ := pesDataInsts.Load(src)
				return layout.ScaleDown8(src.Total).AddC(-int64(in.(pesDataInst).trailing))
			},
			Computed: map[string]func(*layout.Source) *lin.Form{
				"Header.OptionalHeader.MarkerBits": constForm(2),
				"Header.OptionalHeader.HeaderLength": func(src *layout.Source) *lin.Form {
					in, _ := pesDataInsts.Load(src)
					f := lin.Const(int64(in.(pesDataInst).stuffing))
					return &f
				},
				// PES_packet_length: the bytes after it up to the end of the packet, or 0
				"Header.PacketLength": func(src *layout.Source) *lin.Form {
					v, _ := pesDataInsts.Load(src)
					in := v.(pesDataInst)
					f := lin.Const(0)
					if in.bounded {
						f = layout.ScaleDown8(src.Total).AddC(-6 - int64(in.trailing))
					}
					return &f
				},
			},
			ElsewherePrefix: "Header.OptionalHeader.", ElsewhereWhy: "the optional fields are decided by spec/pes-optional-header"},
		{Name: "spec/pes-optional-header", Parser: c.fn("parsePESOptionalHeader"), Sources: pesOptionalSpec, It: "$i", Root: "$h", RootPtr: true, MinSources: 800,
			Computed: map[string]func(*layout.Source) *lin.Form{
				"MarkerBits": constForm(2),
				"HeaderLength": func(src *layout.Source) *lin.Form {
					if !src.TotalOK || !layout.Div8(src.Total) {
						return nil
					}
					f := layout.ScaleDown8(src.Total).AddC(-3)
					return &f
				},
				"Extension2Length": func(src *layout.Source) *lin.Form {
					for _, ch := range src.Chunks {
						if ch.Kind == layout.CBlob && ch.Blob == "$h.Extension2Data" {
							f := ch.Len
							return &f
						}
					}
					f := lin.Const(0)
					return &f
				},
			},
			NotWritten: map[string]string{
				"PTS.Extension":     noExt,
				"DTS.Extension":     noExt,
				"HasOptionalFields": "not part of the stream",
			},
		},
	}
}
