package props

import (
	"fmt"

	"astverif/layout"
	"astverif/lin"
)

// Reference encodings of ISO/IEC 13818-1 2.4.3.6/2.4.3.7 (PES packet header fields after PES_packet_length),
// transcribed from the standard independently of the library's writer. They include the fields the writer does not
// support (previous_PES_packet_CRC), which only this rule can position.

func ptsSpec(c *layout.Checker) []*layout.Source {
	b := c.NewSpec("PTS ('0010' prefix)")
	b.Const(4, 2)
	timestamp33(b, "$cr.Base")
	return []*layout.Source{b.Source()}
}

func escrSpec(c *layout.Checker) []*layout.Source {
	b := c.NewSpec("ESCR")
	b.Const(2, 3).Slice("$cr.Base", 32, 30).Const(1, 1).Slice("$cr.Base", 29, 15).Const(1, 1).Slice("$cr.Base", 14, 0).Const(1, 1)
	b.Field(9, "$cr.Extension").Const(1, 1) // ESCR_extension, marker_bit
	return []*layout.Source{b.Source()}
}

// pesOptionalSpec enumerates the optional fields: PTS_DTS_flags ∈ {00, 10, 11}, ESCR, ES_rate, additional copy info,
// previous_PES_packet_CRC, and the extension with private data, sequence counter, P-STD buffer and extension 2.
// (DSM trick mode is covered by A3 for all its classes; pack_header_field is not supported by the parser — it reads
// the length byte only, which the source says itself — and is left out.)
func pesOptionalSpec(c *layout.Checker) []*layout.Source {
	var out []*layout.Source
	h := "$h"
	for _, ptsdts := range []int64{0, 2, 3} {
		for flags := 0; flags < 32; flags++ {
			escr, rate, copyInfo, crc, ext := flags&16 != 0, flags&8 != 0, flags&4 != 0, flags&2 != 0, flags&1 != 0
			exts := []int{0}
			if ext {
				exts = []int{0, 1, 2, 3, 4, 5, 6, 7, 8, 9, 10, 11, 12, 13, 14, 15}
			}
			for _, ef := range exts {
				priv, seq, pstd, ext2 := ef&8 != 0, ef&4 != 0, ef&2 != 0, ef&1 != 0
				b := c.NewSpec(fmt.Sprintf("PES optional header PTS_DTS=%d flags=%05b ext=%04b", ptsdts, flags, ef))
				b.Const(2, 2).Field(2, h+".ScramblingControl").Flag(h + ".Priority").Flag(h + ".DataAlignmentIndicator").Flag(h + ".IsCopyrighted").Flag(h + ".IsOriginal")
				b.Field(2, h+".PTSDTSIndicator").Fix(h+".PTSDTSIndicator", ptsdts)
				b.FlagIs(h+".HasESCR", escr).FlagIs(h+".HasESRate", rate).FlagIs(h+".HasDSMTrickMode", false)
				b.FlagIs(h+".HasAdditionalCopyInfo", copyInfo).FlagIs(h+".HasCRC", crc).FlagIs(h+".HasExtension", ext)
				b.LengthOfRest(8) // PES_header_data_length
				switch ptsdts {
				case 2:
					b.Const(4, 2)
					timestamp33(b, h+"/PTS.Base")
				case 3:
					b.Const(4, 3)
					timestamp33(b, h+"/PTS.Base")
					b.Const(4, 1)
					timestamp33(b, h+"/DTS.Base")
				}
				if escr {
					b.Const(2, 3).Slice(h+"/ESCR.Base", 32, 30).Const(1, 1).Slice(h+"/ESCR.Base", 29, 15).Const(1, 1).Slice(h+"/ESCR.Base", 14, 0).Const(1, 1)
					b.Field(9, h+"/ESCR.Extension").Const(1, 1)
				}
				if rate {
					b.Const(1, 1).Field(22, h+".ESRate").Const(1, 1) // marker_bit, ES_rate, marker_bit
				}
				if copyInfo {
					b.Const(1, 1).Field(7, h+".AdditionalCopyInfo") // marker_bit, additional_copy_info
				}
				if crc {
					b.Field(16, h+".CRC") // previous_PES_packet_CRC
				}
				if ext {
					b.FlagIs(h+".HasPrivateData", priv).FlagIs(h+".HasPackHeaderField", false).FlagIs(h+".HasProgramPacketSequenceCounter", seq)
					b.FlagIs(h+".HasPSTDBuffer", pstd).Const(3, 7).FlagIs(h+".HasExtension2", ext2)
					if priv {
						b.BlobN(h+".PrivateData", 16) // PES_private_data: 128 bits
					}
					if seq {
						b.Const(1, 1).Field(7, h+".PacketSequenceCounter").Const(1, 1).Field(1, h+".MPEG1OrMPEG2ID").Field(6, h+".OriginalStuffingLength")
					}
					if pstd {
						b.Const(2, 1).Field(1, h+".PSTDBufferScale").Field(13, h+".PSTDBufferSize")
					}
					if ext2 {
						b.Const(1, 1)
						// PES_extension_field_length (7 bits) and the bytes
						b.LenField(7, h+".Extension2Data").Blob(h + ".Extension2Data")
					}
				}
				out = append(out, b.Source())
			}
		}
	}
	return out
}

func c12SpecPairs(c *Ctx) []layout.RTPair {
	noExt := "a PTS/DTS has no extension part"
	return []layout.RTPair{
		{Name: "spec/pts", Parser: c.fn("parsePTSOrDTS"), Sources: ptsSpec, It: "$i", Root: "$cr", RootPtr: true, MinSources: 1,
			NotWritten: map[string]string{"Extension": noExt}},
		{Name: "spec/escr", Parser: c.fn("parseESCR"), Sources: escrSpec, It: "$i", Root: "$cr", RootPtr: true, MinSources: 1},
		{Name: "spec/pes-optional-header", Parser: c.fn("parsePESOptionalHeader"), Sources: pesOptionalSpec, It: "$i", Root: "$h", RootPtr: true, MinSources: 800,
			Computed: map[string]func(*layout.Source) *lin.Form{
				"MarkerBits": constForm(2),
				"HeaderLength": func(src *layout.Source) *lin.Form {
					if !src.TotalOK || !layout.Div8(src.Total) {
						return nil
					}
					f := layout.ScaleDown8(src.Total).AddC(-3)
					return &f
				},
				"Extension2Length": func(src *layout.Source) *lin.Form {
					for _, ch := range src.Chunks {
						if ch.Kind == layout.CBlob && ch.Blob == "$h.Extension2Data" {
							f := ch.Len
							return &f
						}
					}
					f := lin.Const(0)
					return &f
				},
			},
			NotWritten: map[string]string{
				"PTS.Extension":        noExt,
				"DTS.Extension":        noExt,
				"PackField":            "pack_header_field is left out of the reference instances (the parser reads its length byte only, as its source says)",
				"HasOptionalFields":    "not part of the stream",
				"DSMTrickMode.FieldID": "DSM trick mode is decided by A3 for all its classes", "DSMTrickMode.FrequencyTruncation": "see FieldID",
				"DSMTrickMode.IntraSliceRefresh": "see FieldID", "DSMTrickMode.RepeatControl": "see FieldID", "DSMTrickMode.TrickModeControl": "see FieldID",
			},
		},
	}
}
