package props

import (
	"astverif/errflow"
	"astverif/layout"
)

func init() { register("C18", "other", c18) }

// apiCountFuncs are the API-level (int, error) functions whose byte counts the properties speak about.
var apiCountFuncs = []string{"Muxer.WriteData", "Muxer.WriteTables", "Muxer.retransmitTables", "Muxer.WritePacket"}

// e2Exceptions: audited sites where an error is deliberately not propagated.
var e2Exceptions = []errflow.Exception{
	{Func: "(*Demuxer).NextData", Callee: "parseData#1", Reason: "EOF drain: a final incomplete unit is logged and the drain continues (documented in the source); not a reader/writer error"},
}

func c18(c *Ctx) {
	r := c.R
	r.Explanation = "Error-discipline rules over go/ssa for every function of the package: E1 every BitsWriterBatch latch is consulted (Err()) on every path from a write to a return that does not already carry a non-nil error; " +
		"E2 every error-returning call site is checked or returned and its failure edge returns a non-nil error — for errors that can originate from the io.Reader/io.Writer (transitive closure over static calls) the returned error must derive from the original; " +
		"E3 every fmt.Errorf on such a chain uses %w for the cause; E4 ErrNoMorePackets is produced only under a comparison of a reader error with io.EOF/io.ErrUnexpectedEOF; " +
		"E5 API byte counts are sums of callee counts (never more than what callees report). NOT decided: that what was delivered before a fault is a prefix of the fault-free output (behavioural)."
	r.RuleText = "one obligation per BitsWriterBatch (E1), per error-returning call site (E2/E3), per production of the EOF sentinel (E4), per return of an API count function (E5); non-trivial = needed a path, dominance or derivation argument"
	r.Trusted = []string{"go/types + go/ssa (x/tools v0.29.0)", "astikit v0.30.0 summaries: BitsWriterBatch latches the first error and Err() returns it; BitsWriter.Write* return the io.Writer's error"}
	sets := errflow.ComputeIOSets(c.P)
	errflow.E1(c.P, r)
	errflow.E2E3(c.P, r, sets, errflow.E2Options{Exceptions: e2Exceptions})
	errflow.E4(c.P, r, "ErrNoMorePackets", sets)
	errflow.E4b(c.P, r)
	errflow.E4c(c.P, r, "ErrNoMorePackets")
	errflow.E2c(c.P, r, sets)
	errflow.E5(c.P, r, apiCountFuncs)
	errflow.E5b(c.P, r, apiCountFuncs)
	// the counts writePacket reports are bytes accepted by the caller's writer only if the muxer's packet writer writes
	// straight into it (a buffer in between would report bytes the writer never accepted when the flush fails)
	muxerWriterLink(c, "E5", "bitsWriter", "w", true, "the byte counts of writePacket are bytes handed to the caller's writer")
	// "a byte count no larger than what the writer accepted": the count writePacket reports is built by the same accounting
	// that decides the packet's size — on every outcome it is the sum of what the emission calls returned (A1b of C04:
	// a fill loop that counts iterations instead of written bytes over-reports once the batch has latched an error)
	layout.New(c.P).ExactSize(r, "writePacket", "targetPacketSize", 0x47)
	r.Floor("E2", "io-tainted error call sites", r.Counters["io_error_call_sites"], 40)
	r.Count("writer_tainted_funcs", len(sets.Writer))
	r.Count("reader_tainted_funcs", len(sets.Reader))
}
