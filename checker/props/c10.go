package props

import (
	"astverif/crc"
	"astverif/crcgate"
)

func init() { register("C10", "proof", c10) }

func c10(c *Ctx) {
	r := c.R
	r.Explanation = "Proof by static analysis (no code of the library is executed) that the PSI checksum is CRC-32/MPEG-2 — polynomial 0x04C11DB7, initial value 0xFFFFFFFF, MSB first, not reflected, no final XOR — for every byte string and every chunking. " +
		"F1: tableCRC32 is a [256]uint32 initialised by 256 constants (values read from go/types) and no SSA function of the package stores to it or lets its address escape (only indexing loads; the literal's own element stores in the synthetic package initialiser are the sole stores). " +
		"F2: each of the 256 constants equals (i*x^32) mod 0x104C11DB7 computed by the checker's own bitwise polynomial division. " +
		"F3: the right-hand side of the loop body of updateCRC32 is interpreted from the AST in a GF(2)-affine bit-vector domain (32 result bits, each a constant XOR a set of the 40 atoms crc.0..31, b.0..7); the table lookup is summarised through the table's GF(2)-linearity, which is itself verified on the literal's constants (T[0]=0, every entry is the XOR of the basis entries T[1<<k] selected by its index bits, index provably < 256); the 32 canonical forms are compared with those of 8 bit-serial reference steps (fb = crc[31]^bit; crc <<= 1; crc ^= fb*POLY; bit 7 first). Equality of canonical forms is equality of functions on all 2^40 (state, byte) pairs. " +
		"F4: updateCRC32 is syntactically `for _, b := range bs { acc = step(acc, b) }; return acc` over its own parameters (types.Object identity), i.e. a left fold, so update(update(c,a),b) = update(c,a||b) for every split. " +
		"F5: computeCRC32(bs) returns updateCRC32(0xFFFFFFFF, bs) unmodified. " +
		"F6: the residue-0 corollary (message followed by its big-endian checksum has CRC 0) is recorded as a theorem of F2-F5, and the endianness facts it relies on are checked: parseCRC32 assembles the 4 fetched bytes exactly big-endian (same bit-vector domain, atoms = bits of the 4 bytes), and writePSISection starts its running value at the constant 0xFFFFFFFF, updates it only through a write callback `v = updateCRC32(v, bs)`, and emits it with Write(v) at static type uint32. " +
		"Oracle: the bit-serial definition of CRC-32/MPEG-2 coded in the checker (crc.refEntry, crc.refStep). NOT decided here: which bytes of the section reach the write callback (the coverage of the checksum is a layout property), and run-time panics outside updateCRC32."
	r.RuleText = "F1 3 obligations (+1 per offending site); F2 one per table entry (256); F3 one per result bit (32); F4 one per structural fact of the fold (8) + the chunking theorem; F5 one per fact about computeCRC32 (5); F6 the corollary, 4 byte-placement obligations + 2 shape facts for parseCRC32, 4 facts for writePSISection. Anything the interpreter cannot handle is reported undecided, never passed."
	r.Trusted = []string{
		"go/types constant evaluation (values of the table literal's elements, of crc32Polynomial, of masks and shift counts) and object resolution (Info.Uses/Defs)",
		"go/ast + go/parser (the syntax tree is the program), Go operator precedence as implemented by go/parser",
		"go/ssa (x/tools v0.29.0) for F1: every store and address-of in the package appears as an ssa.Store / operand use",
		"Go semantics of uint32/uint8 operators <<, >>, ^, &, | and unsigned conversions as modelled by package bitdom (unit-tested against concrete arithmetic)",
		"astikit v0.30.0 summaries: BitsWriter.Write(uint32) (also via BitsWriterBatch) emits the 4 bytes most significant first; the BitsWriter write callback receives exactly the bytes written; BytesIterator.NextBytesNoCopy(n) returns the next n stream bytes in order",
	}
	crc.Prove(c.P, r)
	// the checksum ENFORCED on input is this very function compared for equality with the stored CRC_32 (no alternative
	// value accepted): the input gate of C09
	crcgate.InputGate(c.P, r)

}
