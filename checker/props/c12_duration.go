package props

import (
	"fmt"
	"go/constant"
	"go/token"
	"math/big"

	"astverif/ssau"

	"golang.org/x/tools/go/ssa"
)

// term: sym · num / den where every multiplication happened before the first division (otherwise precision is lost).
type durTerm struct {
	sym      string
	num, den *big.Int
	mulAfter bool // a multiplication after a division: the truncation happens too early
}

// c12Duration decides the arithmetic shape of ClockReference.Duration(): the result is
// trunc(Base·10^9/90000) + trunc(Extension·10^9/27000000) — each tick count is multiplied before it is divided (so that
// only the final nanosecond is truncated), the two ratios are exactly 1 s / 90 kHz and 1 s / 27 MHz, and no
// intermediate product can overflow int64 for Base < 2^33 and Extension < 2^9.
func c12Duration(c *Ctx) {
	r := c.R
	f := c.fn("ClockReference.Duration")
	key := "ClockReference.Duration"
	if f == nil {
		r.Unknown("D1", key+"/anchor", "", "function not found")
		return
	}
	pos := c.P.Pos(f.Pos())
	var eval func(v ssa.Value, depth int) ([]durTerm, string)
	constOf := func(v ssa.Value) *big.Int {
		for {
			if cv, ok := v.(*ssa.Convert); ok {
				v = cv.X
				continue
			}
			break
		}
		cst, ok := v.(*ssa.Const)
		if !ok || cst.Value == nil {
			return nil
		}
		val := constant.ToInt(cst.Value)
		if val.Kind() != constant.Int {
			return nil
		}
		b, ok := new(big.Int).SetString(val.ExactString(), 10)
		if !ok {
			return nil
		}
		return b
	}
	eval = func(v ssa.Value, depth int) ([]durTerm, string) {
		if depth > 20 {
			return nil, "expression too deep"
		}
		switch x := v.(type) {
		case *ssa.Convert:
			return eval(x.X, depth+1)
		case *ssa.ChangeType:
			return eval(x.X, depth+1)
		case *ssa.Field:
			n, _ := ssau.FieldName(x)
			return []durTerm{{sym: n, num: big.NewInt(1), den: big.NewInt(1)}}, ""
		case *ssa.UnOp:
			if fa, ok := x.X.(*ssa.FieldAddr); ok && x.Op == token.MUL {
				n, _ := ssau.FieldName(fa)
				return []durTerm{{sym: n, num: big.NewInt(1), den: big.NewInt(1)}}, ""
			}
		case *ssa.BinOp:
			switch x.Op {
			case token.ADD:
				a, e1 := eval(x.X, depth+1)
				b, e2 := eval(x.Y, depth+1)
				if e1 != "" {
					return nil, e1
				}
				if e2 != "" {
					return nil, e2
				}
				return append(a, b...), ""
			case token.MUL, token.QUO:
				k := constOf(x.Y)
				operand := x.X
				if k == nil && x.Op == token.MUL {
					k, operand = constOf(x.X), x.Y
				}
				if k == nil || k.Sign() <= 0 {
					return nil, "a factor/divisor is not a positive constant"
				}
				ts, e := eval(operand, depth+1)
				if e != "" {
					return nil, e
				}
				for i := range ts {
					if x.Op == token.MUL {
						if ts[i].den.Cmp(big.NewInt(1)) != 0 {
							ts[i].mulAfter = true
						}
						ts[i].num = new(big.Int).Mul(ts[i].num, k)
					} else {
						ts[i].den = new(big.Int).Mul(ts[i].den, k)
					}
				}
				return ts, ""
			}
		}
		return nil, fmt.Sprintf("unsupported construct %T", v)
	}
	var ret *ssa.Return
	for _, b := range f.Blocks {
		for _, in := range b.Instrs {
			if x, ok := in.(*ssa.Return); ok {
				ret = x
			}
		}
	}
	if ret == nil || len(ret.Results) != 1 || len(f.Blocks) != 1 {
		r.Unknown("D1", key+"/shape", pos, "the function is not a single return expression")
		return
	}
	ts, e := eval(ret.Results[0], 0)
	if e != "" {
		r.Unknown("D1", key+"/shape", pos, "the result is not a sum of tick counts scaled by constants: "+e)
		return
	}
	want := map[string][2]int64{"Base": {1000000000, 90000}, "Extension": {1000000000, 27000000}}
	maxv := map[string]int64{"Base": 1<<33 - 1, "Extension": 1<<9 - 1}
	seen := map[string]bool{}
	limit := new(big.Int).Lsh(big.NewInt(1), 63)
	for _, t := range ts {
		w, ok := want[t.sym]
		k := key + "/" + t.sym
		if !ok || seen[t.sym] {
			r.Bad("D1", k+"/term", pos, "unexpected or repeated term "+t.sym)
			continue
		}
		seen[t.sym] = true
		// ratio: num/den == w0/w1
		l := new(big.Int).Mul(t.num, big.NewInt(w[1]))
		rr := new(big.Int).Mul(t.den, big.NewInt(w[0]))
		r.Check(l.Cmp(rr) == 0, "D1", k+"/ratio", pos, fmt.Sprintf("%s ticks are scaled by %s/%s = 10^9/%d", t.sym, t.num, t.den, w[1]),
			fmt.Sprintf("%s ticks are scaled by %s/%s, expected 10^9/%d (1 s / clock frequency)", t.sym, t.num, t.den, w[1]))
		r.Check(!t.mulAfter, "D1", k+"/multiply-before-divide", pos, "the tick count is multiplied before it is divided: only the final nanosecond is truncated",
			"the tick count is divided before it is multiplied: the result is truncated to a coarser unit than the nanosecond")
		prod := new(big.Int).Mul(t.num, big.NewInt(maxv[t.sym]))
		r.Check(prod.Cmp(limit) < 0, "D1", k+"/no-overflow", pos, fmt.Sprintf("the largest intermediate product %s fits int64", prod),
			fmt.Sprintf("the intermediate product can reach %s, beyond int64", prod))
	}
	for sym := range want {
		if !seen[sym] {
			r.Bad("D1", key+"/"+sym+"/term", pos, "the "+sym+" part does not contribute to the duration")
		}
	}
}
