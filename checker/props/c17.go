package props

import (
	"astverif/extrarules"
	"go/types"
	"strings"

	"astverif/muxstate"
)

func init() { register("C17", "other", c17) }

func c17(c *Ctx) {
	r := c.R
	r.Explanation = "Engine D (state/ownership/ordering on go/ssa). Decided structurally, hence for ALL histories and retransmit periods: " +
		"first — NewMuxer sets tablesRetransmitCounter from tablesRetransmitPeriod after every option application and on every path; in WriteData the single retransmitTables call dominates every writePacket and sits on the found edge of the esContexts lookup whose other edge returns an error at once. " +
		"periodic — retransmitTables increments the counter exactly once, first; a truth table obtained by simulating its CFG over {force, counter<period} shows `return 0, nil` before WriteTables iff !force && counter<period (counter read after the increment); the reset to 0 is confined to the err==nil edge of WriteTables and precedes every success return; the only writers of the counter are NewMuxer and retransmitTables. " +
		"force — the truth table of the argument passed by WriteData (short-circuit blocks and phi walked) equals AdaptationField!=nil && RandomAccessIndicator && PID==pmt.PCRPID, atoms recognised through field objects. " +
		"current — generatePMT stores &m.pmt (generatePAT: m.pm.toPATDataUnlocked()) into the section passed to writePSIData; every write of m.pmt.ElementaryStreams / m.pmt.PCRPID / m.pm is followed on every non-failing path by pmtUpdated/pmUpdated = true; esContexts and the stream list change in the same functions with the same PID (append + insert of the same es; two-slice removal at the index whose PID matched the deleted key); growth only at the tail. " +
		"version — version inc() only inside the generator on the true edge of its dirty flag, the emitted VersionNumber is that counter's get()/inc(); the flag is cleared only after the last call that can fail, on success edges; version counters built with 31; NewMuxer registers exactly (pmtStartPID, programNumberStart), setUnlocked/toPATDataUnlocked carry the pair into the PAT, the PMT packet uses pmtStartPID and TableIDExtension = m.pmt.ProgramNumber = programNumberStart. " +
		"autopid — the automatic PID is m.nextPID; nextPID must be initialised in NewMuxer from a constant in [0x20,0x1FFF) and otherwise only incremented; the candidate must pass a duplicate check before the stream is registered, and the assigned value must be PROVEN unused at the assignment: a membership test (esContexts lookup or search of pmt.ElementaryStreams) of the current m.nextPID dominates the read that is assigned, and neither the test's in-use edge nor any store to m.nextPID can be followed by that read without the test being re-executed (loop form yes, single `if` no). Version counters and dirty flags are overwritten only by construction or by a rollback that writes back the snapshot of the same field taken before the generator call (undo[F]). " +
		"NOT decided: positions of table packets in concrete byte streams; the `iff` of the version rule over histories containing failed generations (the static part is C05's S1-tables); that nextPID does not run into 0x1FFF or an explicitly added PID after 2^13 additions beyond what the duplicate check covers; content of descriptors/stream types in the PMT body (C13)."
	r.RuleText = "one obligation per ordering/dominance instance (first), per clause of retransmitTables and the who-may-write set (periodic), per retransmitTables call (force), per mutation site and per list/map update pair (current), per version inc / flag clear / mapping constant (version, width), per nextPID store plus initialised / collision-checked (autopid)"
	r.Trusted = []string{"go/types + go/ssa (x/tools v0.29.0): CFG, dominators, def-use, phi placement", "Go semantics of append / delete / map update and of short-circuit && (as compiled by go/ssa)", "Muxer methods are not called concurrently (the type documents no locking)"}
	muxstate.First(c.P, r)
	muxstate.Periodic(c.P, r)
	muxstate.Force(c.P, r)
	muxstate.Current(c.P, r)
	muxstate.Versions(c.P, r)
	muxstate.UndoStores(c.P, r, muxstate.RuleVersion, func(f *types.Var) bool { return !strings.HasSuffix(f.Name(), "CC") })
	muxstate.CounterWidths(c.P, r, map[string]int64{"version": 31}, map[string]int{"version": 2})
	muxstate.AutoPID(c.P, r, muxstate.RuleAutoPID)
	// version_number changes iff a stream was added or removed or the PCR PID was set: a refused Add/Remove must not
	// raise the dirty flag (or change anything else)
	extrarules.NoEffectBeforeError(c.P, r, muxstate.RuleVersion, []string{"Muxer.AddElementaryStream", "Muxer.RemoveElementaryStream"},
		"a refused call that raised the dirty flag bumps version_number although the content did not change")
}
