package props

import (
	"astverif/demuxrules"
	"astverif/extrarules"
	"astverif/ownership"
)

func init() { register("C07", "other", c07) }

func c07(c *Ctx) {
	r := c.R
	r.Explanation = "Structural necessary conditions of per-PID independence, decided on go/ssa for ALL interleavings: " +
		"(I1) in (*packetPool).addUnlocked the accumulator that receives packet p is b.b[uint32(p.Header.PID)] or a newPacketAccumulator(p.Header.PID, …) stored under that key: lookup key, update key and constructor argument are loads of the same access path p.Header.PID and p is not written in between; the constructor keeps the pid. " +
		"(I2) no shared mutable state: for every package-level variable all addresses/references derived from it are followed through the package (field/index addresses, loaded pointers/slices/maps, parameters of package functions they are passed to); outside the synthetic initializer there is no store, map update, delete, copy-into or by-reference escape; the only mutation is (*sync.Pool).Get/Put through bytesPool. " +
		"programMap.p is modified only by setUnlocked/unsetUnlocked (and built by the constructor); setUnlocked is called on the demuxer's map only from (*Demuxer).updateData and on the muxer's only from NewMuxer. " +
		"(I3) every bytesPool.get is followed on every path by `defer bytesPool.put(item)` on its result, and the item, its .s slice, slices of it, the BytesIterator built on it and NextBytesNoCopy results are never stored, returned, appended to, captured or converted to an interface; they are only passed to copy/len, isPESPayload, encoding/binary readers, iterator methods and parse* functions. " +
		"(I4/S7) every range over a map in functions reachable from NextData/NextPacket/Rewind only collects keys into a local slice and a sort of that slice dominates every later use; the muxer's toPATDataUnlocked ranges a map proven single-entry by who-may-write. " +
		"(I5) in parseData every pid use is ps[0].Header.PID and every FirstPacket is a copy of ps[0].Header/AdaptationField; no other constant index into ps. " +
		"(I6/S5) the TransportErrorIndicator and HasPayload tests of (*packetPool).addUnlocked dominate every access to the accumulator map and acc.add and their drop edges have no effect (the rule shared with C06): a corrupted packet, whose PID field cannot be trusted, never touches the accumulator of the PID it shows. " +
		"(I7/S3) borrowed-slice retention (the rule of C16): every value aliasing a reused buffer — NextBytesNoCopy results, loads of bytesPoolItem.s and packetBuffer.packetReadBuffer, the []byte parameters/results they flow into — is never stored in a result field, boxed, captured or returned; a retained borrowed slice would be overwritten by the next packet or unit of ANY pid. " +
		"NOT decided: equality of per-PID output sequences across interleavings as a behavioural fact; the effect of the timing of PAT delivery on which PIDs are PMT PIDs (allowed by the property); data races (the API is single-threaded)."
	r.RuleText = "one obligation for the accumulator key and one for the constructor (I1), one per package-level variable, per writer of programMap.p and per setUnlocked call site (I2), two per bytesPool.get site (I3), one per map range (S7), one for parseData's unit identity (I5), two for the packet filters of addUnlocked (I6), one per borrowed or owned byte-slice source site and per retained result field (I7/S3)"
	r.Trusted = []string{"go/types + go/ssa (x/tools v0.29.0): SSA construction, dominator tree, def-use, static callees",
		"sync.Pool hands an item to one holder at a time", "astikit v0.30.0 summary: NextBytesNoCopy borrows, NextBytes/Dump copy; BytesIterator methods do not retain the buffer beyond the iterator",
		"isPESPayload and encoding/binary.BigEndian.UintN only read their argument",
		"the audited reads-only callee table of package ownership (rule S3, as in C16): astikit BitsWriter.Write/WriteBytesN, io.Writer/io.Reader contracts"}
	demuxrules.New(c.P, r).C07()
	// a Packet object is never recycled across reads: one that was skipped or failed to parse would hand its adaptation field
	// (of another PID) to the next packet parsed into it (I9 of C16)
	demuxrules.New(c.P, r).PacketsNotMutated()
	// the pool and its per-PID accumulators live for the whole pass: replacing the pool or removing an accumulator while
	// demuxing (because of a parse error on, or a table delivered for, another PID) loses the unit a PID is assembling
	extrarules.WhoMayStoreField(c.P, r, "I8", "Demuxer.packetPool/stored-by", "Demuxer", "packetPool", []string{"NewDemuxer", "(*Demuxer).Rewind"}, 2, nil, "stores",
		"replacing the packet pool while demuxing discards the pending units of every PID")
	extrarules.WhoMayStoreField(c.P, r, "I8", "packetPool.b/stored-by", "packetPool", "b", []string{"newPacketPool"}, 1, nil, "stores",
		"the per-PID accumulator map is created once per pool")
	extrarules.WhoMayMutateMapField(c.P, r, "I8", "packetPool.b/mutated-by", "packetPool", "b", []string{"(*packetPool).addUnlocked"}, []string{"(*packetPool).dumpUnlocked"}, 1, 1,
		"an accumulator removed outside the end-of-stream drain loses the unit its PID is assembling because of what happened on another PID")
	r.Floor("S3", "borrowed/owned byte-slice source sites", ownership.BorrowTaint(c.P, r), 10)
	// per-pass state of one PID must not survive into the next pass, nor may an error on one PID make the demuxer re-detect
	// the packet size (which swallows or replays packets of every PID): the reset rules of C20 and P8 of C03
	ownership.ResetCompleteness(c.P, r, c20Reset)
	extrarules.WhoMayStoreField(c.P, r, "P8", "Demuxer.packetBuffer/dropped-by", "Demuxer", "packetBuffer", []string{"(*Demuxer).Rewind"}, 1, extrarules.IsNilConst, "nil stores",
		"re-detecting the packet size after input was consumed rewinds a seekable reader to offset 0 (the stream is replayed over the live pool) or swallows the next two packets of a plain reader")
	r.Floor("C07", "obligations", len(r.Obls), 18)
	// a PMT PID is recognised because a PAT listing it was delivered before: PATs are delivered by the packet that completes
	// them (R6, R9, R10)
	joinPSIComplete(c)
}
