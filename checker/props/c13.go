package props

import (
	"astverif/crc"
	"astverif/crcgate"
	"astverif/demuxrules"
	"astverif/layout"
	"astverif/lin"
	"astverif/muxstate"
	"astverif/ownership"
	"astverif/report"
	"astverif/tables"
	"go/types"

	"golang.org/x/tools/go/ssa"
)

func init() { register("C13", "other", c13) }

// endOfStream: the caller passes the end offset of the section data (here: everything the writer emitted).
func endOfStream(src *layout.Source) lin.Form {
	if src.TotalOK && layout.Div8(src.Total) {
		return layout.ScaleDown8(src.Total)
	}
	return lin.Sym("?end")
}

func c13Pairs(c *Ctx) []layout.RTPair {
	return []layout.RTPair{
		{Name: "psi-syntax-header", Writer: c.fn("writePSISectionSyntaxHeader"), Parser: c.fn("parsePSISectionSyntaxHeader"), WriterObj: "$w", It: "$i", Root: "$h", RootPtr: true, MinSources: 1, Guided: true},
		{Name: "pat-section", Writer: c.fn("writePATSection"), Parser: c.fn("parsePATSection"), WriterObj: "$w", It: "$i", Root: "$d", RootPtr: true, MinSources: 3, Guided: true,
			ParserParams: map[string]func(*layout.Source) lin.Form{"offsetSectionsEnd": endOfStream},
			Computed: map[string]func(*layout.Source) *lin.Form{
				// transport_stream_id travels in the syntax header (table_id_extension): the section parser copies its argument
				"TransportStreamID": func(*layout.Source) *lin.Form { f := lin.Sym("$tableIDExtension"); return &f },
			},
		},
	}
}

// c13PMT: the PMT body with 0, 1 and 2 elementary streams; descriptor loops are empty here (they have their own
// pair under C14).
func c13PMT(c *Ctx) []layout.RTPair {
	return []layout.RTPair{
		{Name: "pmt-section", Writer: c.fn("writePMTSection"), Parser: c.fn("parsePMTSection"), WriterObj: "$w", It: "$i", Root: "$d", RootPtr: true, MinSources: 3, Guided: true,
			ParserParams: map[string]func(*layout.Source) lin.Form{"offsetSectionsEnd": endOfStream},
			Computed: map[string]func(*layout.Source) *lin.Form{
				"ProgramNumber": func(*layout.Source) *lin.Form { f := lin.Sym("$tableIDExtension"); return &f },
			},
		},
	}
}

func c13(c *Ctx) {
	r := c.R
	r.Explanation = "Engine A at bit level on the PSI structures that have a writer (section syntax header, PAT body, PMT body): A3 round trip as for C11/C12; lists (programs, elementary streams) are explored by exact unrolling for 0, 1 and 2 elements with symbolic element values."
	r.RuleText = "one obligation per structure field (A3/<pair>/field/<path>), per pair acceptance and consumption"
	r.Trusted = []string{"go/types + go/ssa (x/tools v0.29.0)", "astikit BitsWriter and BytesIterator summaries", "package bitdom"}
	ck := layout.NewBits(c.P)
	ck.A3(r, c13Pairs(c))
	ckp := layout.NewBits(c.P)
	ckp.UnrollFor = func(f *ssa.Function, elem types.Type) []int {
		if p, ok := elem.Underlying().(*types.Pointer); ok {
			if n, ok := p.Elem().(*types.Named); ok && n.Obj().Name() == "Descriptor" {
				return []int{0}
			}
		}
		return []int{0, 1, 2}
	}
	ckp.A3(r, c13PMT(c))
	ckp.A3(r, c13SpecPairs(c))
	// the descriptor loops inside the tables: 12-bit loop length, several descriptors, loops above 1023 / 2047 bytes
	ckp.A3(r, c13LoopPairs(c))
	// where a section and its CRC_32 end (section_length, CRC only for the table ids that carry one — a TOT has
	// section_syntax_indicator 0 and still ends with a CRC_32): the input-side gate rules of C09
	crcgate.InputGate(c.P, r)
	// "the PAT and PMT sections the library writes are, byte for byte, the reference encoding": that includes the CRC_32 of
	// EVERY section of a unit — the running checksum starts at 0xFFFFFFFF for each section, is updated only by the write
	// callback and is emitted as it stands (C09d, and the writer facts F6 of the CRC proof)
	crcgate.OutputSide(c.P, r)
	// "the reference encoding of the same content": the PMT/PAT bytes emitted are serialised from the current content on every
	// successful generation, never patched cached bytes (rules 'current' of C17)
	muxstate.Current(c.P, r)
	{
		tmp := report.New("tmp", c.Tier, "other")
		crc.Prove(c.P, tmp)
		r.Floor("F6", "writer/parser facts of the CRC proof", importRules(r, tmp, "F6"), 8)
	}
	// "any BCD start time and duration": the EIT start_time / duration and the TOT UTC_time are opaque 40/24-bit fields in the
	// reference encodings above; their values are decided by the decode rules of C15 (Annex C date formulas, BCD digits,
	// float64 robustness)
	decodeDate(c)
	bcd(c)
	// a delivered table stays what was decoded: nothing in it aliases the pooled payload buffer (rule S3 of C16)
	r.Floor("S3", "borrowed/owned byte-slice source sites", ownership.BorrowTaint(c.P, r), 10)
	// "1..n sections per unit": the unit is complete exactly when its sections are (rules R6, R9, R10 of C02)
	demuxrules.New(c.P, r).PSICompleteRules()
	// "the structure delivered by the demuxer": every section that decodes becomes a DemuxerData, whatever its
	// current_next_indicator, version or section number (D1)
	demuxrules.New(c.P, r).NoContentFilter()
	// the lengths the PAT/PMT writers announce (section_length, program_info_length, ES_info_length, descriptor_length)
	// equal the bytes they emit: rule A2 level by level, including narrow-arithmetic wrap-around (shared with C09)
	c09Lengths(c)
	// which table ids are parsed, have a syntax header / CRC, are delivered (truth tables over all 256 ids)
	before := len(r.Obls)
	tables.T1(c.P, r)
	r.Floor("T1", "truth-table obligations", len(r.Obls)-before, 20)
	for _, d := range ckp.IP.Diag {
		r.Unknown("A0", "diag/pmt/"+d, "", d)
	}
	var fs []*ssa.Function
	for _, n := range []string{"parsePSISectionHeader", "parsePSISectionSyntaxHeader", "parsePATSection", "parsePMTSection", "parseCRC32"} {
		fs = append(fs, c.fn(n))
	}
	ck.A5(r, fs)
	for _, d := range ck.IP.Diag {
		r.Unknown("A0", "diag/"+d, "", d)
	}
}
