package props

import (
	"astverif/errflow"
	"astverif/extrarules"
	"astverif/layout"
	"astverif/muxstate"
)

func init() { register("C04", "other", c04) }

func c04(c *Ctx) {
	r := c.R
	r.Explanation = "Decided for every flag valuation, length and loop trip count at once (path-sensitive abstract interpretation over go/ssa with symbolic loop summation and if-conversion; no solver): " +
		"A1 — on every success path of every function that writes to a BitsWriter and returns a byte count, 8 × returned count = bits handed to the writer (24 functions; loops such as padding, stuffing, program/stream/descriptor loops are summarised in closed form, a loop whose trip count is not provably non-negative is additionally explored as 'not entered'); " +
		"A1b — writePacket returns exactly targetPacketSize on every success path (so with A1 it emits exactly 8·188 bits: padded, never longer) and its first emission is the sync byte 0x47; " +
		"A0 — every Write/WriteN operand has a type and width the BitsWriter accepts; " +
		"S5 — validate before emit: inside writePacket no locally constructed rejection is reachable after an emission, and in WriteData the unknown-PID rejection precedes the table retransmission and every packet write (shared with C17 'first'); " +
		"E5 — the API functions' byte counts are sums of the counts their callees report. " +
		"NOT decided: acceptance of every emitted packet by an independent decoder for all stuffing cases (0/1/2 free bytes arithmetic of WriteData), payload_unit_start placement over histories."
	r.RuleText = "one obligation per writer function (A1), per success outcome class of writePacket (A1b), per offending emission (A0), per anchor function (S5), per API return (E5)"
	r.Trusted = []string{"go/types + go/ssa (x/tools v0.29.0)", "astikit BitsWriter/BitsWriterBatch summary: bits per operand type, WriteN emits the low n bits, WriteBytesN exactly n bytes",
		"documented domains: lengths fit their fields (no uint8 wrap), pointer_field >= 0"}
	ck := layout.New(c.P)
	ck.A1(r)
	ck.ExactSize(r, "writePacket", "targetPacketSize", 0x47)
	ck.NoEmitBeforeLocalError(r, "writePacket")
	// "adaptation field plus payload fill the packet exactly": the stuffing adaptation field WriteData asks for n free bytes
	// occupies exactly n bytes, whatever state its maker may hold (otherwise writePacket pads after the payload)
	c01Stuffing(c, ck)
	c04ExactFill(c)
	// the size budget of the NEXT call is computed from the caller's adaptation field: the stuffing WriteData stored into it is
	// taken back (to exactly 0, not by a tally that may exceed it) before a successful return (S1-reset of C01) — a negative
	// StuffingLength wraps in the uint8 length and the packet comes out longer than 188 bytes
	c01StuffingReset(c)
	// every buffer the muxer assembles output in starts empty in each method that fills it (B1)
	muxerBuffersStartEmpty(c)
	// a value the adaptation-field writer refuses is refused before anything of the packet reached the writer
	ck.NoEmitBeforeLocalError(r, "writePacketAdaptationField")
	// "consistent under an independent decoder": what writePacket emits is read back field for field by parsePacket (header
	// fields masked to their widths: an oversize PID or counter must not spill into neighbouring flags) — the whole-packet
	// joints of C01; and table packets always come out of writePacket, never from patched cached bytes (rules 'current' of C17)
	ckj := layout.NewBits(c.P)
	ckj.A3(r, c01Joints(c))
	ckj.A3(r, c11Pairs(c)[:1])
	for _, d := range ckj.IP.Diag {
		r.Unknown("A0", "diag/joints/"+d, "", d)
	}
	muxstate.Current(c.P, r)
	ck.ReportAPI(r)
	for _, d := range ck.IP.Diag {
		r.Unknown("A0", "diag/"+d, "", d)
	}
	extrarules.PUSIOnlyWithPESHeader(c.P, r)
	muxstate.First(c.P, r)
	errflow.E5(c.P, r, apiCountFuncs)
	errflow.E5b(c.P, r, apiCountFuncs)
	r.Floor("A1", "writer functions analysed", r.Counters["writer_functions"], 20)
	// "a rejected call leaves no partial packet" — nor any other trace: a refused Add/RemoveElementaryStream changes nothing
	joinRefused(c, "S5")
}
