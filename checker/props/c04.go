package props

import (
	"astverif/layout"
)

func init() { register("C04", "other", c04) }

func c04(c *Ctx) {
	r := c.R
	r.Explanation = "A1: per writer function, on every success path (loops summarised symbolically), 8 × returned byte count = bits handed to the BitsWriter."
	r.RuleText = "one obligation per writer function (A1)"
	r.Trusted = []string{"go/types + go/ssa", "astikit BitsWriter summary"}
	ck := layout.New(c.P)
	ck.A1(r)
	ck.ReportAPI(r)
	for _, d := range ck.IP.Diag {
		r.Unknown("A0", "diag/"+d, "", d)
	}
}
