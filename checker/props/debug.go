package props

import (
	"fmt"
	"os"
	"sort"

	"astverif/itersafe"
	"astverif/layout"
	"astverif/load"
	"astverif/pathint"
)

// DebugSummary prints the interpreter's summary of the named functions.
func DebugSummary(names []string) {
	p, err := load.Load(load.Options{})
	if err != nil {
		fmt.Fprintln(os.Stderr, err)
		os.Exit(2)
	}
	ck := itersafe.New(p)
	ck.IP.SuffixLo = map[string]int64{".optPacketSize": 0}
	ck.IP.NonZeroLo = map[string]int64{".optPacketSize": 188, "$packetSize": 188}
	ck.IP.FieldInvs = []pathint.FieldInv{{Type: "packetBuffer", Field: "packetSize", Lo: 188}}
	if len(names) > 0 && names[0] == "-A" {
		names = names[1:]
		ck.IP = layout.New(p).IP
	}
	for _, n := range names {
		f := p.Func(n)
		if f == nil {
			fmt.Println("no such function", n)
			continue
		}
		s := ck.IP.Summarize(f)
		fmt.Printf("== %s: paths=%d outcomes=%d reqs=%d truncated=%v\n", n, s.Paths, len(s.Outcomes), len(s.Reqs), s.Truncated)
		for i, o := range s.Outcomes {
			fmt.Printf(" outcome %d errNil=%d marks=%v paramConds=%v preds=%v\n", i, o.ErrNil, o.Marks, o.ParamConds, o.Preds)
			for _, r := range o.Results {
				fmt.Printf("   result %s\n", r)
			}
			var ks []string
			for k := range o.Mem {
				ks = append(ks, k)
			}
			sort.Strings(ks)
			for _, k := range ks {
				fmt.Printf("   mem %s = %s\n", k, o.Mem[k])
			}
			for _, ft := range o.Facts {
				fmt.Printf("   fact %s\n", ft)
			}
			for _, ne := range o.NE {
				fmt.Printf("   ne %s != 0\n", ne)
			}
		}
		for _, rq := range s.Reqs {
			fmt.Printf(" req %s %s: %s >= 0\n", rq.Rule, rq.Site, rq.F)
		}
	}
}
