package props

import (
	"astverif/bitdom"
	"fmt"
	"os"
	"sort"

	"astverif/itersafe"
	"astverif/layout"
	"astverif/load"
	"astverif/pathint"
)

// DebugSummary prints the interpreter's summary of the named functions.
func DebugSummary(names []string) {
	p, err := load.Load(load.Options{})
	if err != nil {
		fmt.Fprintln(os.Stderr, err)
		os.Exit(2)
	}
	ck := itersafe.New(p)
	ck.IP.SuffixLo = map[string]int64{".optPacketSize": 0}
	ck.IP.NonZeroLo = map[string]int64{".optPacketSize": 188, "$packetSize": 188}
	ck.IP.FieldInvs = []pathint.FieldInv{{Type: "packetBuffer", Field: "packetSize", Lo: 188}}
	if len(names) > 0 && names[0] == "-A" {
		names = names[1:]
		ck.IP = layout.New(p).IP
	}
	if len(names) > 0 && names[0] == "-B" {
		names = names[1:]
		ck.IP = layout.NewBits(p).IP
	}
	for _, n := range names {
		f := p.Func(n)
		if f == nil {
			fmt.Println("no such function", n)
			continue
		}
		s := ck.IP.Summarize(f)
		fmt.Printf("== %s: paths=%d outcomes=%d reqs=%d truncated=%v\n", n, s.Paths, len(s.Outcomes), len(s.Reqs), s.Truncated)
		for i, o := range s.Outcomes {
			fmt.Printf(" outcome %d errNil=%d marks=%v paramConds=%v preds=%v\n", i, o.ErrNil, o.Marks, o.ParamConds, o.Preds)
			for _, r := range o.Results {
				fmt.Printf("   result %s\n", r)
			}
			var ks []string
			for k := range o.Mem {
				ks = append(ks, k)
			}
			sort.Strings(ks)
			for _, k := range ks {
				fmt.Printf("   mem %s = %s\n", k, o.Mem[k])
			}
			for _, ft := range o.Facts {
				fmt.Printf("   fact %s\n", ft)
			}
			for _, ne := range o.NE {
				fmt.Printf("   ne %s != 0\n", ne)
			}
			for _, e := range o.Events {
				printEvent(e, "   ")
			}
			var ds []string
			for k := range o.Defs {
				ds = append(ds, k)
			}
			sort.Strings(ds)
			for _, k := range ds {
				fmt.Printf("   def %s = %s\n", k, o.Defs[k])
			}
		}
		for _, rq := range s.Reqs {
			fmt.Printf(" req %s %s: %s >= 0\n", rq.Rule, rq.Site, rq.F)
		}
	}
}

func printEvent(e pathint.Event, ind string) {
	bits := ""
	if bv, ok := e.Val.Bits.(bitdom.Vec); ok {
		bits = " bits=" + bv.String()
	}
	fmt.Printf("%sevent %s obj=%s off=%s width=%s val=%s%s id=%s key=%s\n", ind, e.Kind, e.Obj, e.Off, e.Width, e.Val, bits, e.ID, e.Key)
	for i, b := range e.Body {
		g := ""
		if i < len(e.Guard) {
			g = e.Guard[i]
		}
		fmt.Printf("%s body %d guard=%s\n", ind, i, g)
		for _, be := range b {
			printEvent(be, ind+"    ")
		}
	}
}

// DebugCompose composes every success outcome of a writer with a parser summary and prints the verdicts.
func DebugCompose(writer, parser, root string, rootPtr bool) {
	p, err := load.Load(load.Options{})
	if err != nil {
		fmt.Fprintln(os.Stderr, err)
		os.Exit(2)
	}
	ck := layout.NewBits(p)
	wf, pf := p.Func(writer), p.Func(parser)
	if wf == nil || pf == nil {
		fmt.Println("no such function")
		return
	}
	ws := ck.IP.Summarize(wf)
	ps := &pathint.Summary{}
	if os.Getenv("ASTVERIF_GUIDED") == "" {
		ps = ck.IP.Summarize(pf)
	}
	fmt.Printf("writer outcomes=%d parser outcomes=%d\n", len(ws.Outcomes), len(ps.Outcomes))
	for i := range ws.Outcomes {
		o := &ws.Outcomes[i]
		if o.ErrNil == pathint.No {
			continue
		}
		if only := os.Getenv("ASTVERIF_COMPOSE_ONLY"); only != "" && only != fmt.Sprint(i) {
			continue
		}
		if rootPtr && o.ParamConds["nil:"+root] {
			continue
		}
		if max := os.Getenv("ASTVERIF_COMPOSE_MAX"); max != "" && fmt.Sprint(i) == max {
			break
		}
		src := ck.SourceFromOutcome(wf, o, "$w", fmt.Sprintf("%s#%d", writer, i))
		fmt.Printf("-- source %s: %s\n", src.Name, src.Describe())
		fmt.Printf("   total=%s ok=%v facts=%v\n", src.Total, src.TotalOK, src.St.Facts)
		var comp *layout.Composition
		if os.Getenv("ASTVERIF_GUIDED") != "" {
			comp = ck.Guided(src, pf, "$i", root, rootPtr, layout.ComposeOpts{})
		} else {
			comp = ck.Compose(src, pf, ps, "$i", root, rootPtr, layout.ComposeOpts{})
		}
		fmt.Printf("   parser outcomes compatible: %d consumed=%s assumed=%v\n", comp.Outcomes, comp.Consumed, comp.Assumed)
		for _, pr := range comp.Problems {
			fmt.Printf("   PROBLEM %s\n", pr)
		}
		for _, f := range comp.Fields {
			tag := "ok  "
			if !f.OK {
				tag = "BAD "
			} else if f.Skip {
				tag = "skip"
			}
			fmt.Printf("   %s %s: %s\n", tag, f.Path, f.Detail)
		}
	}
}
