// Package crcgate holds the structural rules of property C09: the CRC_32 gate of the PSI section
// parser (input side), the "no data without check" rule on the way up to NextData, the CRC write
// callback discipline of writePSISection (output side) and the section_length gate of the muxer.
//
// Everything is decided on the type-checked program: go/ssa def-use chains, dominators, conditional
// edges and static callees. Source text is never matched; obligation keys never contain line numbers.
package crcgate

import (
	"go/constant"
	"go/token"
	"go/types"
	"strings"

	"golang.org/x/tools/go/ssa"

	"astverif/load"
	"astverif/report"
	"astverif/ssau"
)

// Rule names (first component of the obligation keys).
// OffsetsFallback, when set, decides "every table id that reaches the CRC code has its offsets computed by the header parser" by
// tracing both functions for all 256 ids (package tables); used when the header parser's early return is not selected by one
// predicate call. It reports whether it emitted a verdict under rule/key.
var OffsetsFallback func(p *load.Program, r *report.Report, rule, key string) bool

const (
	RuleA = "C09a" // CRC gate, input side
	RuleC = "C09c" // no data without check
	RuleD = "C09d" // CRC write callback, output side
	RuleF = "C09f" // section_length: emitted value and gate
)

const (
	iterType   = "BytesIterator"
	writerType = "BitsWriter"
	batchType  = "BitsWriterBatch"
)

// A is the analysis context of one run.
type A struct {
	P     *load.Program
	R     *report.Report
	funcs []*ssa.Function
}

// Run evaluates the rules (a), (c), (d) and (f) of C09. The T1 truth tables (b) are wired by the caller.
func Run(p *load.Program, r *report.Report) {
	a := &A{P: p, R: r, funcs: p.SrcFuncs()}
	a.inputGate()
	a.noDataWithoutCheck()
	a.outputSide()
}

// NoDataWithoutCheck evaluates rule (c) only: no data is delivered together with, or after, an error of its parser.
func NoDataWithoutCheck(p *load.Program, r *report.Report) {
	a := &A{P: p, R: r, funcs: p.SrcFuncs()}
	a.noDataWithoutCheck()
}

// OutputSide evaluates rule (d) only: the CRC_32 the section writer emits is the running checksum of the section's bytes.
func OutputSide(p *load.Program, r *report.Report) {
	a := &A{P: p, R: r, funcs: p.SrcFuncs()}
	a.outputSide()
}

// InputGate evaluates the input-side rules only (where sections and their CRC_32 end, the gate itself).
func InputGate(p *load.Program, r *report.Report) {
	a := &A{P: p, R: r, funcs: p.SrcFuncs()}
	a.inputGate()
}

// ---------------------------------------------------------------------------------------------
// anchors, positions

func (a *A) anchor(rule, key string) *ssa.Function {
	f := a.P.Func(key)
	if f == nil || f.Blocks == nil {
		a.R.Unknown(rule, "anchor/"+key, "-", "anchor function "+key+" no longer resolves: every obligation that needs it is undecided")
		return nil
	}
	return f
}

func (a *A) ipos(in ssa.Instruction) string {
	if in == nil {
		return "-"
	}
	if p := in.Pos(); p.IsValid() {
		return a.P.Pos(p)
	}
	if iff, ok := in.(*ssa.If); ok && iff.Cond.Pos().IsValid() {
		return a.P.Pos(iff.Cond.Pos())
	}
	for _, x := range in.Block().Instrs {
		if x.Pos().IsValid() {
			return a.P.Pos(x.Pos())
		}
	}
	return a.P.Pos(in.Parent().Pos())
}

func (a *A) vpos(v ssa.Value) string {
	if in, ok := v.(ssa.Instruction); ok {
		return a.ipos(in)
	}
	if v != nil && v.Pos().IsValid() {
		return a.P.Pos(v.Pos())
	}
	return "-"
}

func (a *A) fpos(f *ssa.Function) string { return a.P.Pos(f.Pos()) }

// bare is the function name used in keys: "f", "m" (method without receiver), "f$1".
func bare(f *ssa.Function) string {
	if f == nil {
		return "<nil>"
	}
	if f.Parent() != nil {
		return bare(f.Parent()) + "$" + strings.TrimPrefix(f.Name(), f.Parent().Name()+"$")
	}
	return f.Name()
}

// ---------------------------------------------------------------------------------------------
// CFG helpers

func lastInstr(b *ssa.BasicBlock) ssa.Instruction {
	if len(b.Instrs) == 0 {
		return nil
	}
	return b.Instrs[len(b.Instrs)-1]
}

func blockIf(b *ssa.BasicBlock) *ssa.If {
	iff, _ := lastInstr(b).(*ssa.If)
	return iff
}

func blockReturn(b *ssa.BasicBlock) *ssa.Return {
	r, _ := lastInstr(b).(*ssa.Return)
	return r
}

func inCycle(b *ssa.BasicBlock) bool {
	for _, s := range b.Succs {
		if ssau.Reaches(s, b) {
			return true
		}
	}
	return false
}

// canFollow reports whether instruction y can execute strictly after instruction x in one activation.
func canFollow(x, y ssa.Instruction) bool {
	if x.Block() == y.Block() {
		if ssau.IndexOf(x) < ssau.IndexOf(y) {
			return true
		}
		return inCycle(x.Block())
	}
	for _, s := range x.Block().Succs {
		if ssau.Reaches(s, y.Block()) {
			return true
		}
	}
	return false
}

// edge is one CFG edge (block, successor index).
type edge struct {
	From *ssa.BasicBlock
	Succ int
}

// reach lists the blocks reachable from the start blocks without taking a cut edge and without
// entering a cut block (a start block that is cut is not entered either).
func reach(starts []*ssa.BasicBlock, cutEdges []edge, cutBlocks map[*ssa.BasicBlock]bool) map[*ssa.BasicBlock]bool {
	isCut := func(b *ssa.BasicBlock, i int) bool {
		for _, e := range cutEdges {
			if e.From == b && e.Succ == i {
				return true
			}
		}
		return false
	}
	seen := map[*ssa.BasicBlock]bool{}
	st := append([]*ssa.BasicBlock{}, starts...)
	for len(st) > 0 {
		b := st[len(st)-1]
		st = st[:len(st)-1]
		if b == nil || seen[b] || cutBlocks[b] {
			continue
		}
		seen[b] = true
		for i, s := range b.Succs {
			if !isCut(b, i) {
				st = append(st, s)
			}
		}
	}
	return seen
}

// stripNot removes leading boolean negations.
func stripNot(v ssa.Value) (ssa.Value, bool) {
	neg := false
	for {
		u, ok := v.(*ssa.UnOp)
		if !ok || u.Op != token.NOT {
			return v, neg
		}
		v = u.X
		neg = !neg
	}
}

// condIf is an If whose condition, modulo negation, is the matched value V.
type condIf struct {
	If  *ssa.If
	Neg bool
	V   ssa.Value
}

// succIdx returns the successor index taken when V has truth value val.
func (c condIf) succIdx(val bool) int {
	if val != c.Neg {
		return 0
	}
	return 1
}

// when returns the successor block taken when V has truth value val, and whether that block is
// entered through this edge only.
func (c condIf) when(val bool) (*ssa.BasicBlock, bool) {
	blk := c.If.Block()
	b := blk.Succs[c.succIdx(val)]
	return b, len(b.Preds) == 1 && blk.Succs[0] != blk.Succs[1]
}

func (c condIf) edge(val bool) edge { return edge{c.If.Block(), c.succIdx(val)} }

func ifsOn(f *ssa.Function, pred func(v ssa.Value) bool) []condIf {
	var out []condIf
	for _, b := range f.Blocks {
		iff := blockIf(b)
		if iff == nil {
			continue
		}
		v, neg := stripNot(iff.Cond)
		if pred(v) {
			out = append(out, condIf{iff, neg, v})
		}
	}
	return out
}

// dominatedByEdge reports whether every path to block b takes the edge of c on which V = val.
func dominatedByEdge(b *ssa.BasicBlock, c condIf, val bool) bool {
	want := c.succIdx(val)
	for _, e := range ssau.DominatingEdges(b) {
		if e.If == c.If && e.Succ == want {
			return true
		}
	}
	return false
}

// nilEdgeDominates reports whether block b is entered only through the "is nil" edge of a nil
// comparison of the error value errv.
func nilEdgeDominates(b *ssa.BasicBlock, errv ssa.Value) bool {
	for _, e := range ssau.DominatingEdges(b) {
		nc, ok := ssau.AsNilCompare(e.If.Cond)
		if !ok || !ssau.SameValue(nc.X, errv) {
			continue
		}
		nilSucc := 0
		if nc.Ne {
			nilSucc = 1
		}
		if e.Succ == nilSucc {
			return true
		}
	}
	return false
}

// successReturn reports whether a Return may return a nil error (it is not provably an error return).
func successReturn(r *ssa.Return) bool {
	idx := ssau.ErrorResultIndex(r.Parent().Signature)
	if idx < 0 || idx >= len(r.Results) {
		return true
	}
	return !ssau.NonNilOnAllEdges(r.Results[idx], r.Block())
}

// ---------------------------------------------------------------------------------------------
// values

// strip removes value-preserving wrappers (interface boxing, type changes).
func strip(v ssa.Value) ssa.Value {
	for {
		switch x := v.(type) {
		case *ssa.MakeInterface:
			v = x.X
		case *ssa.ChangeInterface:
			v = x.X
		case *ssa.ChangeType:
			v = x.X
		default:
			return v
		}
	}
}

// leaves = ssau.Leaves after stripping wrappers.
func leaves(v ssa.Value) []ssa.Value { return ssau.Leaves(strip(v)) }

// soleLeaf returns the single non-zero leaf of v, or nil.
func soleLeaf(v ssa.Value) ssa.Value {
	ls := leaves(v)
	if len(ls) != 1 || ls[0] == nil {
		return nil
	}
	return strip(ls[0])
}

// fieldChain walks an address or value upwards through field selections and loads of pointer fields
// and returns the root and the field names from the root down: *(&(*(&s.Header)).TableID) -> (s, [Header TableID]).
func fieldChain(v ssa.Value) (root ssa.Value, fields []string) {
	for {
		switch x := v.(type) {
		case *ssa.UnOp:
			if x.Op != token.MUL {
				return v, fields
			}
			switch y := x.X.(type) {
			case *ssa.FieldAddr:
				v = x.X
				continue
			case *ssa.UnOp:
				// dereference of a loaded pointer: *(*(&x.f))
				if y.Op == token.MUL {
					v = x.X
					continue
				}
			}
			return v, fields
		case *ssa.FieldAddr:
			n, _ := ssau.FieldName(x)
			fields = append([]string{n}, fields...)
			v = x.X
		case *ssa.Field:
			n, _ := ssau.FieldName(x)
			fields = append([]string{n}, fields...)
			v = x.X
		default:
			return v, fields
		}
	}
}

func sameFields(a []string, b ...string) bool {
	if len(a) != len(b) {
		return false
	}
	for i := range a {
		if a[i] != b[i] {
			return false
		}
	}
	return true
}

// isLoadOf reports whether v loads root.f1.f2… (fields selected through pointer loads).
func isLoadOf(v ssa.Value, root ssa.Value, fields ...string) bool {
	if u, ok := v.(*ssa.UnOp); !ok || u.Op != token.MUL {
		return false
	}
	r, fs := fieldChain(v)
	return r == root && sameFields(fs, fields...)
}

// tupleSource returns (call, index) when v is `extract call #index` or a single-result call.
func tupleSource(v ssa.Value) (*ssa.Call, int) {
	switch x := v.(type) {
	case *ssa.Extract:
		if c, ok := x.Tuple.(*ssa.Call); ok {
			return c, x.Index
		}
	case *ssa.Call:
		if x.Call.Signature().Results().Len() == 1 {
			return x, 0
		}
	}
	return nil, 0
}

func extractOf(call ssa.Value, idx int) ssa.Value {
	vs := ssau.ResultValue(call, idx)
	if len(vs) == 0 {
		return nil
	}
	return vs[0]
}

// reachesCall reports whether the operand closure of v contains a call to fn.
func reachesCall(v ssa.Value, fn *ssa.Function) bool {
	seen := map[ssa.Value]bool{}
	var rec func(v ssa.Value) bool
	rec = func(v ssa.Value) bool {
		if v == nil || seen[v] {
			return false
		}
		seen[v] = true
		if c, ok := v.(*ssa.Call); ok && c.Call.StaticCallee() == fn {
			return true
		}
		in, ok := v.(ssa.Instruction)
		if !ok {
			return false
		}
		for _, op := range in.Operands(nil) {
			if op != nil && *op != nil && rec(*op) {
				return true
			}
		}
		return false
	}
	return rec(v)
}

// isAstikit reports whether t (modulo one pointer) is the astikit type name.
func isAstikit(t types.Type, name string) bool { return ssau.IsNamed(t, load.AstikitPath, name) }

// astikitMethod returns the method name when the call is a static call of a method of astikit type
// typeName (pointer or value receiver), "" otherwise.
func astikitMethod(c *ssa.CallCommon, typeName string) string {
	f := c.StaticCallee()
	if f == nil || f.Signature.Recv() == nil {
		return ""
	}
	if !isAstikit(f.Signature.Recv().Type(), typeName) {
		return ""
	}
	return f.Name()
}

// inRoot reports whether f is a function of the analysed package (closures included).
func inRoot(f *ssa.Function) bool {
	for f != nil && f.Parent() != nil {
		f = f.Parent()
	}
	return f != nil && f.Pkg != nil && f.Pkg.Pkg.Path() == load.RootPath
}

func paramOfType(f *ssa.Function, pkg, name string) *ssa.Parameter {
	for _, p := range f.Params {
		if ssau.IsNamed(p.Type(), pkg, name) {
			return p
		}
	}
	return nil
}

func constUint(v ssa.Value) (uint64, bool) {
	c, ok := v.(*ssa.Const)
	if !ok || c.Value == nil || c.Value.Kind() != constant.Int {
		return 0, false
	}
	if constant.Sign(c.Value) < 0 {
		return 0, false
	}
	return c.Uint64(), true
}

// site is a static call site.
type site struct {
	In ssa.CallInstruction
	Fn *ssa.Function
}

// callSites lists the static call sites of callee and every other reference to it (function value
// taken): the latter cannot be followed.
func (a *A) callSites(callee *ssa.Function) (sites []site, other []ssa.Instruction) {
	for _, f := range a.funcs {
		for _, b := range f.Blocks {
			for _, in := range b.Instrs {
				if c, ok := in.(ssa.CallInstruction); ok && c.Common().StaticCallee() == callee {
					sites = append(sites, site{c, f})
					for _, arg := range c.Common().Args {
						if fv, ok := arg.(*ssa.Function); ok && fv == callee {
							other = append(other, in)
						}
					}
					continue
				}
				for _, op := range in.Operands(nil) {
					if op == nil || *op == nil {
						continue
					}
					if fv, ok := (*op).(*ssa.Function); ok && fv == callee {
						other = append(other, in)
					}
				}
			}
		}
	}
	return
}

// fieldStores lists the stores into field `field` of the object base points to (FieldAddr referrers
// of base). other=true when base is used in a way that could write the field out of sight (passed to
// a call, stored, converted).
func fieldStores(base ssa.Value, field string) (sts []*ssa.Store) {
	refs := base.Referrers()
	if refs == nil {
		return nil
	}
	for _, r := range *refs {
		fa, ok := r.(*ssa.FieldAddr)
		if !ok {
			continue
		}
		if n, _ := ssau.FieldName(fa); n != field {
			continue
		}
		for _, rr := range *fa.Referrers() {
			if st, ok := rr.(*ssa.Store); ok && st.Addr == ssa.Value(fa) {
				sts = append(sts, st)
			}
		}
	}
	return
}

// escapesToCall reports whether the pointer base itself is handed to a call, stored somewhere or
// otherwise leaves the def-use chains this package follows (field selections and loads are fine).
func escapesToCall(base ssa.Value) ssa.Instruction {
	refs := base.Referrers()
	if refs == nil {
		return nil
	}
	for _, r := range *refs {
		switch x := r.(type) {
		case *ssa.FieldAddr, *ssa.DebugRef, *ssa.Return:
		case *ssa.UnOp:
		case *ssa.Store:
			if x.Val == base {
				return r
			}
		default:
			return r
		}
	}
	return nil
}

func joinNonEmpty(xs []string) string { return strings.Join(xs, "; ") }
