package crcgate

import (
	"os"
	"strings"
	"testing"

	"astverif/load"
	"astverif/report"
)

// TestUnchangedTree: on the current tree of the repository every obligation is discharged and the
// main anchors produce obligations.
func TestUnchangedTree(t *testing.T) {
	p, err := load.Load(load.Options{})
	if err != nil {
		t.Fatal(err)
	}
	r := report.New("C09", "quick", "other")
	Run(p, r)
	have := map[string]bool{}
	for _, o := range r.Obls {
		have[o.Key] = true
		if o.Status != report.Discharged {
			t.Errorf("%s %s: %s", o.Status, o.Key, o.Detail)
		}
	}
	for _, k := range []string{
		"C09a/parsePSISection/gate/return[stop=false]",
		"C09a/parsePSISection/stream-operand-from-4-fetched-bytes",
		"C09a/parsePSISectionHeader/offset-sections-end",
		"C09c/parsePSIData/no-data-on-error/parsePSISection",
		"C09d/writePSISection/install-before-first-emission",
		"C09d/writePSISection/callback-removed",
		"C09f/writePSISection/emitted-length-from-calculator",
		"C09f/generatePAT/section-length-positive",
	} {
		if !have[k] {
			t.Errorf("missing obligation %s", k)
		}
	}
}

// TestDump prints the SSA of the functions named in $DUMP (comma separated declaration keys); a
// debugging aid, skipped otherwise.
func TestDump(t *testing.T) {
	fns := os.Getenv("DUMP")
	if fns == "" {
		t.Skip()
	}
	p, err := load.Load(load.Options{})
	if err != nil {
		t.Fatal(err)
	}
	for _, k := range strings.Split(fns, ",") {
		f := p.Func(k)
		if f == nil {
			t.Fatalf("no %s", k)
		}
		f.WriteTo(os.Stdout)
		for _, a := range f.AnonFuncs {
			a.WriteTo(os.Stdout)
		}
	}
}
