package crcgate

import (
	"fmt"
	"go/token"
	"go/types"

	"golang.org/x/tools/go/ssa"

	"astverif/load"
	"astverif/ssau"
)

// Lower bounds of the unsigned lengths the muxer stores in PSISectionHeader.SectionLength. The writer
// gates the section body and CRC_32 on `SectionLength > 0`, so the field must be provably positive.
//
// The evaluator is deliberately small: constants, +, *, <<, conversions, phis (loop-carried
// accumulators that only grow), calls of repository calculators (their returns, with parameters bound
// to the caller's arguments) and len(x.F) where x was built by a repository function that appends one
// element per entry of a map that is provably never empty.

const lbInf = int64(1) << 40

type lbEval struct {
	a     *A
	facts []string
	why   string
}

func (a *A) lowerBound(v ssa.Value, g *ssa.Function) (int64, []string, string) {
	e := &lbEval{a: a}
	lb := e.val(v, nil, map[ssa.Value]bool{}, 0)
	if lb >= lbInf {
		lb = 0
	}
	return lb, e.facts, e.why
}

func (e *lbEval) fact(s string) {
	for _, f := range e.facts {
		if f == s {
			return
		}
	}
	e.facts = append(e.facts, s)
}

func capLB(x int64) int64 {
	if x > lbInf {
		return lbInf
	}
	return x
}

// env binds the parameters of the function being evaluated to values of its caller.
type lbEnv struct {
	bind   map[*ssa.Parameter]ssa.Value
	parent *lbEnv
}

func (e *lbEval) val(v ssa.Value, env *lbEnv, seen map[ssa.Value]bool, depth int) int64 {
	v = strip(v)
	switch x := v.(type) {
	case *ssa.Const:
		if k, ok := constUint(x); ok {
			return capLB(int64(k))
		}
		return 0
	case *ssa.Convert:
		return e.val(x.X, env, seen, depth)
	case *ssa.BinOp:
		switch x.Op {
		case token.ADD:
			return capLB(e.val(x.X, env, seen, depth) + e.val(x.Y, env, seen, depth))
		case token.MUL:
			l, r := e.val(x.X, env, seen, depth), e.val(x.Y, env, seen, depth)
			if l >= lbInf || r >= lbInf {
				return lbInf
			}
			return capLB(l * r)
		}
		return 0
	case *ssa.Phi:
		if seen[x] {
			return lbInf // a cycle through an accumulator: bounded by its other incoming values
		}
		seen[x] = true
		lb := lbInf
		for _, ed := range x.Edges {
			if b := e.val(ed, env, seen, depth); b < lb {
				lb = b
			}
		}
		delete(seen, x)
		return lb
	case *ssa.Call:
		if b, ok := x.Call.Value.(*ssa.Builtin); ok {
			if b.Name() == "len" && len(x.Call.Args) == 1 {
				return e.lenLB(x.Call.Args[0], env)
			}
			return 0
		}
		callee := x.Call.StaticCallee()
		if callee == nil || !inRoot(callee) || callee.Blocks == nil || depth > 6 {
			return 0
		}
		ne := &lbEnv{bind: map[*ssa.Parameter]ssa.Value{}, parent: env}
		for i, p := range callee.Params {
			if i < len(x.Call.Args) {
				ne.bind[p] = x.Call.Args[i]
			}
		}
		lb := lbInf
		for _, rt := range ssau.Returns(callee) {
			if len(rt.Results) != 1 {
				return 0
			}
			if b := e.val(rt.Results[0], ne, map[ssa.Value]bool{}, depth+1); b < lb {
				lb = b
			}
		}
		if lb >= lbInf {
			return 0
		}
		if lb > 0 {
			e.fact(fmt.Sprintf("%s returns at least %d", bare(callee), lb))
		}
		return lb
	}
	return 0
}

// resolve follows parameter bindings upwards.
func resolve(v ssa.Value, env *lbEnv) (ssa.Value, *lbEnv) {
	for {
		v = strip(v)
		p, ok := v.(*ssa.Parameter)
		if !ok || env == nil {
			return v, env
		}
		b, ok := env.bind[p]
		if !ok {
			return v, env
		}
		v, env = b, env.parent
	}
}

// lenLB bounds len(x) for x = (object built by a repository function).F.
func (e *lbEval) lenLB(x ssa.Value, env *lbEnv) int64 {
	root, fs := fieldChain(strip(x))
	if len(fs) != 1 {
		return 0
	}
	obj, oenv := resolve(root, env)
	c, ok := obj.(*ssa.Call)
	if !ok {
		return 0
	}
	h := c.Call.StaticCallee()
	if h == nil || !inRoot(h) || h.Blocks == nil || h.Signature.Recv() == nil || len(c.Call.Args) == 0 {
		return 0
	}
	mapField, why := appendPerMapEntry(h, fs[0])
	if why != "" {
		e.why = bare(h) + ": " + why
		return 0
	}
	e.fact(fmt.Sprintf("%s appends exactly one element to .%s per entry of its receiver's map .%s", bare(h), fs[0], mapField))
	// the receiver: owner.field of a struct type of the package
	recv, _ := resolve(c.Call.Args[0], oenv)
	rroot, rfs := fieldChain(recv)
	if len(rfs) != 1 {
		e.why = "the receiver of " + bare(h) + " is not a field of an object of the package"
		return 0
	}
	ownerT := rroot.Type()
	if _, isParam := rroot.(*ssa.Parameter); !isParam {
		e.why = "the receiver of " + bare(h) + " is not reached from a method receiver or parameter"
		return 0
	}
	if why := e.a.mapNeverEmpty(ownerT, rfs[0], h.Signature.Recv().Type(), mapField, e); why != "" {
		e.why = why
		return 0
	}
	return 1
}

// appendPerMapEntry checks that h builds and returns an object D such that D.field receives exactly
// one append per iteration of a `range` over the receiver's map field, and nothing else; it returns
// the name of that map field.
func appendPerMapEntry(h *ssa.Function, field string) (string, string) {
	rets := ssau.Returns(h)
	if len(rets) != 1 || len(rets[0].Results) != 1 {
		return "", "not a single return of a single value"
	}
	d, ok := soleLeaf(rets[0].Results[0]).(*ssa.Alloc)
	if !ok {
		return "", "the returned object is not built locally"
	}
	if esc := escapesToCall(d); esc != nil {
		return "", "the returned object is handed to " + esc.String()
	}
	var rng *ssa.Range
	for _, b := range h.Blocks {
		for _, in := range b.Instrs {
			switch x := in.(type) {
			case *ssa.Range:
				if rng != nil {
					return "", "more than one range loop"
				}
				rng = x
			case *ssa.MapUpdate:
				return "", "the function modifies a map"
			case *ssa.Call:
				if b, ok := x.Call.Value.(*ssa.Builtin); ok && (b.Name() == "delete" || b.Name() == "clear") {
					return "", "the function deletes from a map"
				}
			}
		}
	}
	if rng == nil {
		return "", "no range loop"
	}
	if _, isMap := rng.X.Type().Underlying().(*types.Map); !isMap {
		return "", "the range loop is not over a map"
	}
	mroot, mfs := fieldChain(strip(rng.X))
	if len(mfs) != 1 || len(h.Params) == 0 {
		return "", "the ranged map is not a field of the receiver"
	}
	switch r := mroot.(type) {
	case *ssa.Parameter:
		if r != h.Params[0] {
			return "", "the ranged map does not belong to the receiver"
		}
	case *ssa.Alloc:
		// local copy of a value receiver: its only store is the receiver parameter
		n := 0
		for _, rf := range *r.Referrers() {
			if st, ok := rf.(*ssa.Store); ok && st.Addr == ssa.Value(r) {
				n++
				if st.Val != ssa.Value(h.Params[0]) {
					return "", "the ranged map does not belong to the receiver"
				}
			}
		}
		if n != 1 {
			return "", "the receiver copy is reassigned"
		}
	default:
		return "", "the ranged map does not belong to the receiver"
	}
	// next / ok / body
	var next *ssa.Next
	for _, rf := range *rng.Referrers() {
		if n, ok := rf.(*ssa.Next); ok {
			if next != nil {
				return "", "several next operations on the range"
			}
			next = n
		}
	}
	if next == nil {
		return "", "no next operation"
	}
	okv := extractOf0(next)
	iff := blockIf(next.Block())
	if iff == nil || okv == nil || iff.Cond != okv {
		return "", "the loop is not controlled by the range's ok flag"
	}
	body := next.Block().Succs[0]
	if len(body.Preds) != 1 {
		return "", "the loop body is entered from elsewhere"
	}
	// stores into D.field
	nAppend := 0
	for _, st := range fieldStores(d, field) {
		switch v := strip(st.Val).(type) {
		case *ssa.MakeSlice:
			if st.Block() == body || body.Dominates(st.Block()) {
				return "", "the slice is re-created inside the loop"
			}
			continue
		case *ssa.Call:
			b, isB := v.Call.Value.(*ssa.Builtin)
			if !isB || b.Name() != "append" || len(v.Call.Args) != 2 {
				return "", "the field is assigned something else than an append"
			}
			if !isLoadOf(strip(v.Call.Args[0]), d, field) {
				return "", "the append does not extend the field itself"
			}
			sl, isSl := strip(v.Call.Args[1]).(*ssa.Slice)
			if !isSl {
				return "", "the appended elements are not a fixed list"
			}
			arr, isArr := sl.X.Type().Underlying().(*types.Pointer)
			if !isArr {
				return "", "the appended elements are not a fixed list"
			}
			at, isArrT := arr.Elem().Underlying().(*types.Array)
			if !isArrT || at.Len() < 1 {
				return "", "the append adds no element"
			}
			B := st.Block()
			if B != body && !body.Dominates(B) {
				return "", "an append happens outside the loop body"
			}
			// executed on every iteration: dominates every back edge
			for _, p := range next.Block().Preds {
				if p == B || B.Dominates(p) {
					continue
				}
				if ssau.Reaches(body, p) {
					return "", "the append is skipped on some iterations"
				}
			}
			nAppend++
		default:
			return "", "the field is assigned " + st.Val.String()
		}
	}
	if nAppend != 1 {
		return "", fmt.Sprintf("%d appends in the loop (expected one)", nAppend)
	}
	return mfs[0], ""
}

func extractOf0(t ssa.Value) ssa.Value {
	refs := t.Referrers()
	if refs == nil {
		return nil
	}
	for _, rf := range *refs {
		if ex, ok := rf.(*ssa.Extract); ok && ex.Index == 0 {
			return ex
		}
	}
	return nil
}

// mapNeverEmpty establishes the package invariant "owner.field.mapField has at least one entry once
// the owner's constructor has returned":
//
//	I1 objects of the owner type are allocated by exactly one function of the package (the constructor);
//	I2 owner.field is assigned exactly once in the package, in the constructor, from a function that
//	   makes the map;
//	I3 the constructor inserts an entry (a call, on owner.field, of a method whose body is one
//	   unconditional map update of mapField) in a block that dominates its returns;
//	I4 no live code removes entries: every delete/clear on holder.mapField sits in a function without
//	   call sites or references, holder.mapField is assigned only where the map is made, and no whole
//	   holder struct is overwritten through a pointer.
func (a *A) mapNeverEmpty(ownerT types.Type, field string, holderT types.Type, mapField string, e *lbEval) string {
	ownerName := namedName(ownerT)
	holderName := namedName(holderT)
	if ownerName == "" || holderName == "" {
		return "owner or holder type is not a named type of the package"
	}
	// I1
	var ctor *ssa.Function
	var ownerAlloc *ssa.Alloc
	for _, f := range a.funcs {
		for _, b := range f.Blocks {
			for _, in := range b.Instrs {
				al, ok := in.(*ssa.Alloc)
				if !ok || !ssau.IsNamed(al.Type(), load.RootPath, ownerName) {
					continue
				}
				if _, isPtrToPtr := al.Type().(*types.Pointer).Elem().(*types.Pointer); isPtrToPtr {
					continue // a local holding a *owner
				}
				if ctor != nil && ctor != f || ownerAlloc != nil {
					return "I1: objects of type " + ownerName + " are allocated in more than one place (" + bare(ctor) + ", " + bare(f) + ")"
				}
				ctor, ownerAlloc = f, al
			}
		}
	}
	if ctor == nil {
		return "I1: no allocation of " + ownerName + " in the package"
	}
	// I2
	var fieldStore *ssa.Store
	for _, f := range a.funcs {
		for _, b := range f.Blocks {
			for _, in := range b.Instrs {
				st, ok := in.(*ssa.Store)
				if !ok {
					continue
				}
				fa, ok := st.Addr.(*ssa.FieldAddr)
				if !ok || !ssau.IsNamed(fa.X.Type(), load.RootPath, ownerName) {
					continue
				}
				if n, _ := ssau.FieldName(fa); n != field {
					continue
				}
				if fieldStore != nil || f != ctor || fa.X != ssa.Value(ownerAlloc) {
					return "I2: " + ownerName + "." + field + " is assigned outside its constructor or more than once (" + bare(f) + " at " + a.ipos(st) + ")"
				}
				fieldStore = st
			}
		}
	}
	if fieldStore == nil {
		return "I2: the constructor does not assign " + ownerName + "." + field
	}
	mk, ok := strip(fieldStore.Val).(*ssa.Call)
	if !ok || mk.Call.StaticCallee() == nil || !inRoot(mk.Call.StaticCallee()) {
		return "I2: " + ownerName + "." + field + " is not initialised by a constructor function of the package"
	}
	maker := mk.Call.StaticCallee()
	// whole owner struct overwritten?
	for _, f := range a.funcs {
		for _, b := range f.Blocks {
			for _, in := range b.Instrs {
				st, ok := in.(*ssa.Store)
				if !ok {
					continue
				}
				for _, tn := range []string{ownerName, holderName} {
					if pt, isP := st.Addr.Type().(*types.Pointer); isP && namedName(pt.Elem()) == tn && isStruct(pt.Elem()) {
						if al, isAl := st.Addr.(*ssa.Alloc); isAl && !al.Heap {
							continue // local copy (value receiver spill)
						}
						return "I4: a whole " + tn + " value is overwritten through a pointer in " + bare(f) + " at " + a.ipos(st)
					}
				}
			}
		}
	}
	// I3
	inserted := false
	for _, ci := range ssau.Calls(ctor) {
		c, ok := ci.(*ssa.Call)
		if !ok {
			continue
		}
		m := c.Call.StaticCallee()
		if m == nil || !inRoot(m) || m.Signature.Recv() == nil || namedName(m.Signature.Recv().Type()) != holderName || len(c.Call.Args) == 0 {
			continue
		}
		rroot, rfs := fieldChain(strip(c.Call.Args[0]))
		early := false // the holder is filled before it is stored into the owner's field
		if rroot != ssa.Value(ownerAlloc) || len(rfs) != 1 || rfs[0] != field {
			if st := ssau.StoredInField(strip(c.Call.Args[0]), load.RootPath, ownerName, field); st == nil || st != fieldStore {
				continue
			}
			early = true
		}
		if !unconditionalMapUpdate(m, mapField) {
			continue
		}
		if !early && !ssau.InstrBefore(fieldStore, c) {
			continue
		}
		if early && !ssau.InstrBefore(c, fieldStore) {
			continue
		}
		dom := true
		for _, rt := range ssau.Returns(ctor) {
			if !ssau.InstrBefore(c, rt) {
				dom = false
			}
		}
		if dom {
			inserted = true
			e.fact(fmt.Sprintf("%s (the only place that allocates a %s) sets .%s = %s() and then calls %s on it unconditionally, which inserts an entry in .%s", bare(ctor), ownerName, field, bare(maker), bare(m), mapField))
		}
	}
	if !inserted {
		return "I3: the constructor " + bare(ctor) + " does not unconditionally insert an entry into " + ownerName + "." + field + "." + mapField
	}
	// I4
	for _, f := range a.funcs {
		for _, b := range f.Blocks {
			for _, in := range b.Instrs {
				switch x := in.(type) {
				case *ssa.Call:
					bi, ok := x.Call.Value.(*ssa.Builtin)
					if !ok || (bi.Name() != "delete" && bi.Name() != "clear") || len(x.Call.Args) == 0 {
						continue
					}
					_, fs := fieldChain(strip(x.Call.Args[0]))
					if len(fs) == 0 || fs[len(fs)-1] != mapField || !a.fieldOfType(strip(x.Call.Args[0]), holderName) {
						continue
					}
					top := f
					for top.Parent() != nil {
						top = top.Parent()
					}
					sites, other := a.callSites(top)
					if len(sites) > 0 || len(other) > 0 || top != f {
						where := "?"
						if len(sites) > 0 {
							where = bare(sites[0].Fn)
						} else if len(other) > 0 {
							where = bare(other[0].Parent())
						}
						return "I4: " + bare(f) + " removes entries from " + holderName + "." + mapField + " and is reachable (used in " + where + ")"
					}
				case *ssa.Store:
					fa, ok := x.Addr.(*ssa.FieldAddr)
					if !ok || !ssau.IsNamed(fa.X.Type(), load.RootPath, holderName) {
						continue
					}
					if n, _ := ssau.FieldName(fa); n != mapField {
						continue
					}
					if _, isMake := strip(x.Val).(*ssa.MakeMap); !isMake {
						return "I4: " + holderName + "." + mapField + " is assigned something else than a fresh map in " + bare(f)
					}
					if f != maker {
						return "I4: " + holderName + "." + mapField + " is re-made in " + bare(f)
					}
				}
			}
		}
	}
	e.fact(fmt.Sprintf("no reachable code deletes from or replaces %s.%s (every delete/clear on it sits in a function without call sites)", holderName, mapField))
	return ""
}

// fieldOfType: v is a load of a field of a struct of the named package type.
func (a *A) fieldOfType(v ssa.Value, typeName string) bool {
	u, ok := v.(*ssa.UnOp)
	if !ok || u.Op != token.MUL {
		return false
	}
	fa, ok := u.X.(*ssa.FieldAddr)
	return ok && ssau.IsNamed(fa.X.Type(), load.RootPath, typeName)
}

func unconditionalMapUpdate(m *ssa.Function, mapField string) bool {
	for _, b := range m.Blocks {
		for _, in := range b.Instrs {
			mu, ok := in.(*ssa.MapUpdate)
			if !ok {
				continue
			}
			_, fs := fieldChain(strip(mu.Map))
			if len(fs) != 1 || fs[0] != mapField {
				continue
			}
			all := true
			for _, rt := range ssau.Returns(m) {
				if !ssau.InstrBefore(mu, rt) {
					all = false
				}
			}
			if all && !inCycle(b) {
				return true
			}
		}
	}
	return false
}

func namedName(t types.Type) string {
	if p, ok := t.(*types.Pointer); ok {
		t = p.Elem()
	}
	n, ok := t.(*types.Named)
	if !ok || n.Obj().Pkg() == nil || n.Obj().Pkg().Path() != load.RootPath {
		return ""
	}
	return n.Obj().Name()
}

func isStruct(t types.Type) bool {
	_, ok := t.Underlying().(*types.Struct)
	return ok
}
