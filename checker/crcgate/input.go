package crcgate

import (
	"fmt"
	"go/token"
	"go/types"
	"sort"
	"strings"

	"golang.org/x/tools/go/ssa"

	"astverif/load"
	"astverif/ssau"
)

// ---------------------------------------------------------------------------------------------
// iterator model (astikit.BytesIterator): Seek(n) sets the offset, Skip(n) adds to it, NextByte /
// NextBytes(n) / NextBytesNoCopy(n) return the bytes at the offset and advance it by 1 / n on success,
// Offset / Len / HasBytesLeft do not change it. A repository function that receives the iterator may
// move it arbitrarily.

type iterOp struct {
	In   ssa.CallInstruction
	Name string // astikit method name, "call:<function>" for a repository function, "?" otherwise
	Pure bool
}

func iterOps(f *ssa.Function, it ssa.Value) (ops []iterOp, stray []ssa.Instruction) {
	for _, c := range ssau.Calls(f) {
		cc := c.Common()
		uses := cc.Value == it
		for _, arg := range cc.Args {
			if arg == it {
				uses = true
			}
		}
		if !uses {
			continue
		}
		op := iterOp{In: c, Name: "?"}
		if m := astikitMethod(cc, iterType); m != "" && len(cc.Args) > 0 && cc.Args[0] == it {
			op.Name = m
			op.Pure = m == "Offset" || m == "Len" || m == "HasBytesLeft"
		} else if callee := cc.StaticCallee(); callee != nil && inRoot(callee) {
			op.Name = "call:" + bare(callee)
		}
		if _, isCall := c.(*ssa.Call); !isCall {
			op.Name = "?"
			op.Pure = false
		}
		ops = append(ops, op)
	}
	if refs := it.Referrers(); refs != nil {
		for _, r := range *refs {
			switch r.(type) {
			case ssa.CallInstruction, *ssa.DebugRef:
			default:
				stray = append(stray, r)
			}
		}
	}
	return
}

func movingOps(ops []iterOp) map[ssa.Instruction]iterOp {
	m := map[ssa.Instruction]iterOp{}
	for _, o := range ops {
		if !o.Pure {
			m[o.In] = o
		}
	}
	return m
}

// prevOps walks the CFG backwards from instruction at and returns, per path, the nearest instruction
// satisfying isOp; entry is set when some path reaches the function entry without meeting one.
func prevOps(at ssa.Instruction, isOp func(ssa.Instruction) bool) (prev []ssa.Instruction, entry bool) {
	seen := map[*ssa.BasicBlock]bool{}
	have := map[ssa.Instruction]bool{}
	var walk func(b *ssa.BasicBlock, from int)
	walk = func(b *ssa.BasicBlock, from int) {
		for i := from; i >= 0; i-- {
			if isOp(b.Instrs[i]) {
				if !have[b.Instrs[i]] {
					have[b.Instrs[i]] = true
					prev = append(prev, b.Instrs[i])
				}
				return
			}
		}
		if len(b.Preds) == 0 {
			entry = true
			return
		}
		for _, p := range b.Preds {
			if seen[p] {
				continue
			}
			seen[p] = true
			walk(p, len(p.Instrs)-1)
		}
	}
	walk(at.Block(), ssau.IndexOf(at)-1)
	return
}

// seekBefore checks that on every path the nearest iterator-moving operation before `at` is
// it.Seek(x) and returns the x values (one per distinct Seek).
func seekBefore(at ssa.Instruction, it ssa.Value, moving map[ssa.Instruction]iterOp) (args []ssa.Value, bad string) {
	prev, entry := prevOps(at, func(in ssa.Instruction) bool { _, ok := moving[in]; return ok })
	if entry {
		return nil, "a path reaches it from the function entry without positioning the iterator"
	}
	if len(prev) == 0 {
		return nil, "no iterator operation precedes it"
	}
	for _, p := range prev {
		op := moving[p]
		if op.Name != "Seek" {
			return nil, "the nearest preceding iterator operation on some path is " + op.Name + ", not Seek"
		}
		args = append(args, op.In.Common().Args[1])
	}
	return args, ""
}

// isFetch recognises it.NextBytesNoCopy(n) / it.NextBytes(n) and returns n.
func isFetch(c *ssa.Call, it ssa.Value) (n ssa.Value, ok bool) {
	if c == nil {
		return nil, false
	}
	m := astikitMethod(&c.Call, iterType)
	if (m != "NextBytesNoCopy" && m != "NextBytes") || len(c.Call.Args) != 2 || c.Call.Args[0] != it {
		return nil, false
	}
	return c.Call.Args[1], true
}

// be32 decomposes v as an OR of terms uint32(bs[k]) << sh over one byte slice bs.
func be32(v ssa.Value) (bs ssa.Value, terms map[int64]int64, ok bool) {
	terms = map[int64]int64{}
	ok = true
	var rec func(v ssa.Value, sh int64)
	rec = func(v ssa.Value, sh int64) {
		switch x := v.(type) {
		case *ssa.BinOp:
			switch x.Op {
			case token.OR:
				rec(x.X, sh)
				rec(x.Y, sh)
				return
			case token.SHL:
				if k, isC := constUint(x.Y); isC {
					rec(x.X, sh+int64(k))
					return
				}
			}
		case *ssa.Convert:
			tb, isB := x.Type().Underlying().(*types.Basic)
			ld, isLd := x.X.(*ssa.UnOp)
			if isB && tb.Kind() == types.Uint32 && isLd && ld.Op == token.MUL {
				if ia, isIA := ld.X.(*ssa.IndexAddr); isIA {
					k, isC := ssau.ConstInt(ia.Index)
					eb, isByte := ld.Type().Underlying().(*types.Basic)
					if isC && isByte && eb.Kind() == types.Uint8 {
						if bs == nil {
							bs = ia.X
						}
						if _, dup := terms[k]; dup || bs != ia.X {
							ok = false
							return
						}
						terms[k] = sh
						return
					}
				}
			}
		case *ssa.Call:
			if ssau.CalleeName(&x.Call) == "(encoding/binary.bigEndian).Uint32" && len(x.Call.Args) == 2 && sh == 0 && bs == nil && len(terms) == 0 {
				bs = x.Call.Args[1]
				terms[0], terms[1], terms[2], terms[3] = 24, 16, 8, 0
				return
			}
		}
		ok = false
	}
	rec(v, 0)
	if bs == nil {
		ok = false
	}
	return
}

func bigEndian4(terms map[int64]int64) bool {
	return len(terms) == 4 && terms[0] == 24 && terms[1] == 16 && terms[2] == 8 && terms[3] == 0
}

func termsString(terms map[int64]int64) string {
	var ks []int
	for k := range terms {
		ks = append(ks, int(k))
	}
	sort.Ints(ks)
	var s []string
	for _, k := range ks {
		s = append(s, fmt.Sprintf("bs[%d]<<%d", k, terms[int64(k)]))
	}
	return strings.Join(s, " | ")
}

// usesBytesOf reports whether the operand closure of v loads an element of the byte slice returned by fetch.
func usesBytesOf(v ssa.Value, fetch *ssa.Call) bool {
	seen := map[ssa.Value]bool{}
	var rec func(v ssa.Value) bool
	rec = func(v ssa.Value) bool {
		if v == nil || seen[v] {
			return false
		}
		seen[v] = true
		if ia, ok := v.(*ssa.IndexAddr); ok {
			if c, idx := tupleSource(soleLeafOrSelf(ia.X)); c == fetch && idx == 0 {
				return true
			}
		}
		in, ok := v.(ssa.Instruction)
		if !ok {
			return false
		}
		if _, isCall := v.(*ssa.Call); isCall {
			return false
		}
		for _, op := range in.Operands(nil) {
			if op != nil && *op != nil && rec(*op) {
				return true
			}
		}
		return false
	}
	return rec(v)
}

func soleLeafOrSelf(v ssa.Value) ssa.Value {
	if l := soleLeaf(v); l != nil {
		return l
	}
	return v
}

// throughField resolves a load of a field of a locally built object to the value of the unique store
// into that field that dominates the load. ok=false with a reason when v is such a load but cannot be
// resolved; v itself is returned when it is not a field load.
func throughField(v ssa.Value) (ssa.Value, string) {
	u, ok := v.(*ssa.UnOp)
	if !ok || u.Op != token.MUL {
		return v, ""
	}
	fa, ok := u.X.(*ssa.FieldAddr)
	if !ok {
		return v, ""
	}
	name, _ := ssau.FieldName(fa)
	base := soleLeafOrSelf(fa.X)
	sts := fieldStores(base, name)
	if len(sts) != 1 {
		return nil, fmt.Sprintf("field %s has %d stores in the function (expected exactly one)", name, len(sts))
	}
	if !ssau.InstrBefore(sts[0], u) {
		return nil, "the store into field " + name + " does not dominate the load"
	}
	if e := escapesToCall(base); e != nil {
		return nil, "the object holding field " + name + " is handed to " + e.String() + " and may be modified out of sight"
	}
	return strip(sts[0].Val), ""
}

// ---------------------------------------------------------------------------------------------
// (a) CRC gate in parsePSISection

func (a *A) inputGate() {
	const rule = RuleA
	const fn = "parsePSISection"
	r := a.R
	ps := a.anchor(rule, fn)
	hdr := a.anchor(rule, "parsePSISectionHeader")
	comp := a.anchor(rule, "computeCRC32")
	has := a.anchor(rule, "PSITableID.hasCRC32")
	if ps == nil || hdr == nil || comp == nil || has == nil {
		return
	}
	it := paramOfType(ps, load.AstikitPath, iterType)
	if it == nil {
		r.Unknown(rule, "anchor/"+fn+"/iterator", a.fpos(ps), fn+" has no *astikit.BytesIterator parameter")
		return
	}
	ops, stray := iterOps(ps, it)
	if len(stray) > 0 {
		r.Unknown(rule, fn+"/iterator-aliased", a.ipos(stray[0]), "the iterator is used other than as a call argument ("+stray[0].String()+"): its position is not tracked")
	}
	moving := movingOps(ops)

	// the section object: the value returned as result 0 on every return
	var root ssa.Value
	rootOK := true
	rets := ssau.Returns(ps)
	for _, rt := range rets {
		l := soleLeaf(rt.Results[0])
		if l == nil || (root != nil && l != root) {
			rootOK = false
			continue
		}
		root = l
	}
	if !rootOK || root == nil {
		r.Unknown(rule, fn+"/section-object", a.fpos(ps), "the returned section is not one single object on all returns")
		return
	}

	// the call of the header parser whose result is stored in s.Header
	var hc *ssa.Call
	iterIdx := -1
	{
		var bad []string
		var calls []*ssa.Call
		for _, c := range ssau.Calls(ps) {
			if cc, ok := c.(*ssa.Call); ok && cc.Call.StaticCallee() == hdr {
				calls = append(calls, cc)
			}
		}
		if len(calls) != 1 {
			bad = append(bad, fmt.Sprintf("%d calls of parsePSISectionHeader (expected 1)", len(calls)))
		} else {
			hc = calls[0]
			for i, arg := range hc.Call.Args {
				if arg == it {
					iterIdx = i
				}
			}
			if iterIdx < 0 {
				bad = append(bad, "the header parser does not receive the section's iterator")
			}
			sts := fieldStores(root, "Header")
			if len(sts) != 1 || strip(sts[0].Val) != extractOf(hc, 0) {
				bad = append(bad, "s.Header is not (only) the header returned by parsePSISectionHeader")
			}
			if e := escapesToCall(root); e != nil {
				bad = append(bad, "the section object is handed to "+e.String())
			}
		}
		pos := a.fpos(ps)
		if hc != nil {
			pos = a.ipos(hc)
		}
		r.Check(len(bad) == 0, rule, fn+"/header-from-parser", pos,
			"one call of parsePSISectionHeader on the section's iterator; its header result is the only value stored in s.Header; the section object is not handed to any call",
			joinNonEmpty(bad))
		if len(bad) > 0 {
			hc = nil
		}
	}

	// the has-CRC test
	hasIfs := ifsOn(ps, func(v ssa.Value) bool {
		c, ok := v.(*ssa.Call)
		return ok && c.Call.StaticCallee() == has
	})
	var hasIf *condIf
	{
		var bad []string
		if len(hasIfs) != 1 {
			bad = append(bad, fmt.Sprintf("%d branches on hasCRC32() (expected 1)", len(hasIfs)))
		} else {
			c := hasIfs[0].V.(*ssa.Call)
			if !isLoadOf(c.Call.Args[0], root, "Header", "TableID") {
				bad = append(bad, "hasCRC32 is not evaluated on s.Header.TableID of the section being returned")
			}
			hasIf = &hasIfs[0]
		}
		pos := a.fpos(ps)
		if hasIf != nil {
			pos = a.ipos(hasIf.If)
		}
		r.Check(len(bad) == 0, rule, fn+"/has-crc-test", pos, "one branch on s.Header.TableID.hasCRC32() (the T1 predicate) of the section being returned", joinNonEmpty(bad))
		if len(bad) > 0 {
			hasIf = nil
		}
	}

	// the comparison
	isCmp := func(v ssa.Value) bool {
		b, ok := v.(*ssa.BinOp)
		return ok && (b.Op == token.EQL || b.Op == token.NEQ) && (reachesCall(b.X, comp) || reachesCall(b.Y, comp))
	}
	cmpIfs := ifsOn(ps, isCmp)
	var cmp *condIf       // the branch of parsePSISection only a matching CRC passes
	var cmpBin *ssa.BinOp // the comparison itself, in cf
	var eq edge           // the edge of cmp taken on a match
	var gateBlock *ssa.BasicBlock
	cf, cit, cmoving := ps, ssa.Value(it), moving
	up := func(v ssa.Value) ssa.Value { return v } // a value of cf seen from parsePSISection
	eqEdge := func() edge { return eq }
	if len(cmpIfs) == 1 {
		cmp = &cmpIfs[0]
		cmpBin = cmp.V.(*ssa.BinOp)
		eq = cmp.edge(cmpBin.Op == token.EQL)
		gateBlock = cmp.If.Block()
	} else if len(cmpIfs) == 0 {
		// the comparison moved into a helper: one call of a package function that receives the iterator, holds the only comparison
		// with computeCRC32 and returns an error; its nil-error edge in parsePSISection then is the gate, provided the helper
		// returns nil only over the equal edge of its comparison
		type cand struct {
			call *ssa.Call
			g    *ssa.Function
			ci   condIf
		}
		var cands []cand
		for _, c := range ssau.Calls(ps) {
			cc, ok := c.(*ssa.Call)
			if !ok {
				continue
			}
			g := cc.Call.StaticCallee()
			if g == nil || !inRoot(g) || g.Blocks == nil || g == comp {
				continue
			}
			if gi := ifsOn(g, isCmp); len(gi) == 1 {
				cands = append(cands, cand{cc, g, gi[0]})
			} else if len(gi) > 1 {
				cmpIfs = append(cmpIfs, gi...)
			}
		}
		if len(cands) == 1 && len(cmpIfs) == 0 {
			cd := cands[0]
			g := cd.g
			key := fn + "/gate/helper/" + bare(g)
			ei := ssau.ErrorResultIndex(g.Signature)
			j := -1
			for i, arg := range cd.call.Call.Args {
				if arg == ssa.Value(it) {
					j = i
				}
			}
			var errv ssa.Value
			if ei >= 0 {
				if g.Signature.Results().Len() == 1 {
					errv = cd.call
				} else {
					errv = extractOf(cd.call, ei)
				}
			}
			var bad []string
			var eifs []condIf
			if errv == nil {
				bad = append(bad, "the helper has no error result, or its error is discarded")
			} else {
				eifs = ifsOn(ps, func(v ssa.Value) bool {
					nc, ok := ssau.AsNilCompare(v)
					return ok && ssau.SameValue(nc.X, errv)
				})
				if len(eifs) != 1 {
					bad = append(bad, fmt.Sprintf("%d branches test the helper's error against nil (expected 1)", len(eifs)))
				}
			}
			if j < 0 || j >= len(g.Params) {
				bad = append(bad, "the helper does not receive the section's iterator")
			}
			gb := cd.ci.V.(*ssa.BinOp)
			geq := cd.ci.edge(gb.Op == token.EQL)
			nsucc := 0
			open := reach([]*ssa.BasicBlock{g.Blocks[0]}, []edge{geq}, nil)
			for _, rt := range ssau.Returns(g) {
				if !successReturn(rt) {
					continue
				}
				nsucc++
				if open[rt.Block()] {
					bad = append(bad, "the error-free return at "+a.ipos(rt)+" is reachable without taking the `computed CRC == stream CRC` edge of the comparison at "+a.ipos(cd.ci.If))
				}
			}
			if nsucc == 0 {
				bad = append(bad, "the helper has no error-free return")
			}
			if len(bad) == 0 {
				gops, gstray := iterOps(g, g.Params[j])
				if len(gstray) > 0 {
					bad = append(bad, "the iterator is used other than as a call argument in the helper ("+gstray[0].String()+")")
				} else {
					cmoving = movingOps(gops)
				}
			}
			r.Check(len(bad) == 0, rule, key, a.ipos(cd.call),
				fmt.Sprintf("the CRC comparison lives in %s: it receives the section's iterator, its %d error-free return(s) are only reachable over the equal edge of its single comparison with computeCRC32, and parsePSISection tests its error once", bare(g), nsucc),
				joinNonEmpty(bad))
			if len(bad) == 0 {
				nc, _ := ssau.AsNilCompare(eifs[0].V)
				cmp = &eifs[0]
				cmpBin = gb
				eq = cmp.edge(!nc.Ne)
				gateBlock = cd.call.Block()
				cf, cit = g, ssa.Value(g.Params[j])
				call := cd.call
				up = func(v ssa.Value) ssa.Value {
					if p, ok := v.(*ssa.Parameter); ok && p.Parent() == g {
						for i, q := range g.Params {
							if q == p && i < len(call.Call.Args) {
								return strip(call.Call.Args[i])
							}
						}
					}
					return v
				}
			}
		}
	}
	_ = cf

	// ---- gate: per success return ------------------------------------------------------------
	nSuccess := 0
	syntaxStores := fieldStores(root, "Syntax")
	for _, rt := range rets {
		if !successReturn(rt) {
			continue
		}
		nSuccess++
		label := "return[stop=?]"
		if len(rt.Results) > 1 {
			if bv, ok := ssau.ConstBool(rt.Results[1]); ok {
				label = fmt.Sprintf("return[stop=%v]", bv)
			}
		}
		pos := a.ipos(rt)
		key := fn + "/gate/" + label
		switch {
		case hasIf == nil:
			r.Unknown(rule, key, pos, "the has-CRC branch was not identified")
		case cmp == nil:
			r.Bad(rule, key, pos, fmt.Sprintf("%d branches compare a value computed by computeCRC32 (expected exactly 1): the CRC gate is missing or ambiguous", len(cmpIfs)))
		default:
			tb, _ := hasIf.when(true)
			seen := reach([]*ssa.BasicBlock{tb}, []edge{eqEdge()}, nil)
			if seen[rt.Block()] {
				r.Bad(rule, key, pos, "this error-free return is reachable from the hasCRC32()=true edge without taking the `computed CRC == stream CRC` edge of the comparison at "+a.ipos(cmp.If)+": a CRC mismatch (or a skipped comparison) can end in a delivered section")
			} else if ssau.Reaches(tb, rt.Block()) {
				r.OK(rule, key, pos, "every path from the hasCRC32()=true edge to this error-free return takes the equal edge of the CRC comparison; all other exits of the region are provably non-nil error returns")
			} else {
				r.OK(rule, key, pos, "not reachable from the hasCRC32()=true edge (no has-CRC path ends here)")
			}
		}
		// Syntax set => the has-CRC test was passed
		key2 := fn + "/syntax-implies-test/" + label
		switch {
		case hasIf == nil:
			r.Unknown(rule, key2, pos, "the has-CRC branch was not identified")
		default:
			leak := ""
			after := false
			for _, st := range syntaxStores {
				if canFollow(st, rt) {
					after = true
				}
				if st.Block() == hasIf.If.Block() && ssau.IndexOf(st) < ssau.IndexOf(hasIf.If) {
					continue
				}
				seen := reach(st.Block().Succs, nil, map[*ssa.BasicBlock]bool{hasIf.If.Block(): true})
				if seen[rt.Block()] {
					leak = a.ipos(st)
				}
			}
			switch {
			case leak != "":
				r.Bad(rule, key2, pos, "this error-free return is reachable after s.Syntax was set at "+leak+" without evaluating hasCRC32(): parsed table data can be returned unchecked")
			case !after:
				r.OK(rule, key2, pos, "this return cannot follow an assignment to s.Syntax: the section it returns carries no table data (toData skips it)")
			default:
				r.OK(rule, key2, pos, "after s.Syntax is set, every path to this error-free return evaluates s.Header.TableID.hasCRC32()")
			}
		}
	}
	r.Floor(rule, "error-free returns of parsePSISection examined", nSuccess, 2)
	r.Floor(rule, "stores to s.Syntax in parsePSISection", len(syntaxStores), 1)
	if cmp == nil {
		r.Bad(rule, fn+"/gate/comparison", a.fpos(ps), fmt.Sprintf("%d branches compare a value computed by computeCRC32 (expected exactly 1)", len(cmpIfs)))
		return
	}
	if hasIf != nil {
		r.Check(dominatedByEdge(gateBlock, *hasIf, true), rule, fn+"/gate/comparison", a.ipos(cmp.If),
			"the CRC comparison is evaluated only on the hasCRC32()=true edge", "the CRC comparison is not dominated by the hasCRC32()=true edge")
	}

	// ---- computed operand ----------------------------------------------------------------------
	compSide, streamSide := cmpBin.X, cmpBin.Y
	if !reachesCall(cmpBin.X, comp) {
		compSide, streamSide = cmpBin.Y, cmpBin.X
	}
	var compCall *ssa.Call
	{
		key := fn + "/computed-operand-from-computeCRC32"
		l := soleLeaf(compSide)
		c, _ := l.(*ssa.Call)
		switch {
		case reachesCall(streamSide, comp):
			r.Bad(rule, key, a.ipos(cmp.If), "both operands of the comparison derive from computeCRC32: nothing read from the stream is compared")
		case c == nil || c.Call.StaticCallee() != comp:
			r.Bad(rule, key, a.ipos(cmp.If), "the computed operand is not the unmodified result of one computeCRC32 call (it is "+strip(compSide).String()+")")
		default:
			compCall = c
			r.OK(rule, key, a.ipos(c), "one operand of the comparison is, on every path, the unmodified result of computeCRC32(…)")
		}
	}

	// ---- bounds of the checksummed slice ---------------------------------------------------------
	ia, ie := -1, -1 // result indexes of the header parser used as slice start / sections end
	if compCall != nil {
		fc, fidx := tupleSource(soleLeafOrSelf(compCall.Call.Args[0]))
		n, isF := isFetch(fc, cit)
		if !isF || fidx != 0 {
			r.Bad(rule, fn+"/crc-slice-bounds/fetch", a.ipos(compCall), "the argument of computeCRC32 is not the byte slice returned by one NextBytesNoCopy/NextBytes on the section's iterator")
		} else {
			ev := extractOf(fc, 1)
			okChecked := ev != nil && nilEdgeDominates(compCall.Block(), ev)
			r.Check(okChecked, rule, fn+"/crc-slice-bounds/fetch", a.ipos(fc),
				"computeCRC32 receives the slice returned by the iterator fetch and runs only on the nil-error edge of that fetch (the fetch delivered exactly the requested bytes)",
				"computeCRC32 is not dominated by the nil-error edge of the fetch of its argument: a failed fetch yields an empty slice")
			// start
			var startArg ssa.Value
			args, bad := seekBefore(fc, cit, cmoving)
			if bad == "" && len(args) == 1 {
				startArg = strip(args[0])
				c, idx := tupleSource(up(startArg))
				if hc == nil || c != hc {
					bad = "the Seek argument is not a result of the parsePSISectionHeader call (it is " + startArg.String() + ")"
				} else {
					ia = idx
				}
			} else if bad == "" {
				bad = "several different Seek calls precede the fetch"
			}
			r.Check(bad == "", rule, fn+"/crc-slice-bounds/start", a.ipos(fc),
				fmt.Sprintf("the fetch of the checksummed bytes is immediately preceded (no other iterator movement on any path) by Seek(result #%d of parsePSISectionHeader): the slice starts at the saved section start", ia),
				"slice start: "+bad)
			// length
			bad = ""
			sub, isSub := strip(n).(*ssa.BinOp)
			if !isSub || sub.Op != token.SUB {
				bad = "the fetched length is not a difference of two offsets (it is " + strip(n).String() + ")"
			} else {
				ce, idxE := tupleSource(up(strip(sub.X)))
				if hc == nil || ce != hc {
					bad = "the minuend of the length is not a result of the parsePSISectionHeader call (it is " + strip(sub.X).String() + ")"
				} else if startArg == nil || strip(sub.Y) != startArg {
					bad = "the subtrahend of the length is not the offset the iterator was positioned at"
				} else {
					ie = idxE
				}
			}
			r.Check(bad == "", rule, fn+"/crc-slice-bounds/length", a.ipos(fc),
				fmt.Sprintf("the fetched length is (result #%d) − (result #%d) of parsePSISectionHeader: the slice ends at the sections-end offset", ie, ia),
				"slice length: "+bad)
		}
	}

	// ---- stream operand --------------------------------------------------------------------------
	var streamMove ssa.Instruction
	{
		key := fn + "/stream-operand-from-4-fetched-bytes"
		v := soleLeaf(streamSide)
		if v != nil {
			if u := up(v); u != v {
				v = soleLeaf(u)
			}
		}
		bad := ""
		if v == nil {
			bad = "the stream operand has several possible definitions"
		} else if c, isC := v.(*ssa.Const); isC {
			bad = "the computed CRC is compared with the constant " + c.String() + ", not with a value read from the stream"
		} else {
			var why string
			v, why = throughField(v)
			if why != "" {
				bad = why
			} else if v = soleLeafOrSelf(v); v == nil {
				bad = "unresolved"
			}
		}
		if bad == "" {
			streamMove, bad = a.fetched4(v, ps, it)
		}
		pos := a.ipos(cmp.If)
		if streamMove != nil {
			pos = a.ipos(streamMove)
		}
		r.Check(bad == "", rule, key, pos,
			"the other operand is, through the unique store into s.CRC32, uint32(bs[0])<<24|uint32(bs[1])<<16|uint32(bs[2])<<8|uint32(bs[3]) of the 4 bytes bs fetched from the section's iterator",
			"stream operand: "+bad)
		if bad != "" {
			streamMove = nil
		}
	}
	if streamMove != nil {
		key := fn + "/stream-position"
		args, bad := seekBefore(streamMove, it, moving)
		idx := -1
		if bad == "" {
			if len(args) != 1 {
				bad = "several different Seek calls precede the fetch of the stream CRC"
			} else if c, i := tupleSource(strip(args[0])); hc == nil || c != hc {
				bad = "the Seek before the CRC fetch does not go to a result of parsePSISectionHeader (it goes to " + strip(args[0]).String() + ")"
			} else {
				idx = i
				if ie >= 0 && idx != ie {
					bad = fmt.Sprintf("the stream CRC is read at result #%d of parsePSISectionHeader but the checksummed slice ends at result #%d", idx, ie)
				}
				if ie < 0 {
					ie = idx
				}
			}
		}
		r.Check(bad == "", rule, key, a.ipos(streamMove),
			fmt.Sprintf("the 4 CRC bytes are fetched immediately after Seek(result #%d of parsePSISectionHeader), the very offset at which the checksummed slice ends", idx),
			bad)
	}

	// ---- the offsets delivered by the header parser ----------------------------------------------
	if hc != nil && ia >= 0 && ie >= 0 {
		stops := a.headerOffsets(hdr, has, iterIdx, ia, ie)
		// returns of the header parser that do not compute the offsets must be excluded by the same
		// predicate before the CRC code runs
		for _, sp := range stops {
			key := fn + "/offsets-defined/" + bare(sp.Q)
			ifs := ifsOn(ps, func(v ssa.Value) bool {
				c, ok := v.(*ssa.Call)
				return ok && c.Call.StaticCallee() == sp.Q && len(c.Call.Args) > 0 && isLoadOf(c.Call.Args[0], root, "Header", "TableID")
			})
			ok := false
			for _, q := range ifs {
				if dominatedByEdge(gateBlock, q, !sp.Val) && (streamMove == nil || dominatedByEdge(streamMove.Block(), q, !sp.Val)) {
					ok = true
				}
			}
			r.Check(ok, rule, key, a.ipos(cmp.If),
				fmt.Sprintf("the header parser returns without computing the offsets only when %s(TableID)=%v; the CRC code of parsePSISection runs only on the %s(s.Header.TableID)=%v edge", bare(sp.Q), sp.Val, bare(sp.Q), !sp.Val),
				fmt.Sprintf("the header parser leaves the offsets at zero when %s(TableID)=%v, and parsePSISection does not exclude that case before the CRC code", bare(sp.Q), sp.Val))
		}
	}
}

// fetched4 checks that v is the big-endian combination of 4 bytes fetched from the iterator, either
// directly in function f or through a repository helper f calls with the iterator. It returns the
// instruction of f that moves the iterator for this fetch.
func (a *A) fetched4(v ssa.Value, f *ssa.Function, it ssa.Value) (ssa.Instruction, string) {
	if c, idx := tupleSource(v); c != nil {
		if callee := c.Call.StaticCallee(); callee != nil && inRoot(callee) && callee.Blocks != nil {
			j := -1
			for i, arg := range c.Call.Args {
				if arg == it {
					j = i
				}
			}
			if j < 0 {
				return nil, bare(callee) + " does not receive the section's iterator"
			}
			if bad := a.helperFetches4(callee, idx, j); bad != "" {
				return nil, bare(callee) + ": " + bad
			}
			return c, ""
		}
	}
	bs, terms, ok := be32(v)
	if !ok {
		return nil, "it is not an OR of shifted uint32(byte) terms over one fetched slice (it is " + v.String() + ")"
	}
	if !bigEndian4(terms) {
		return nil, "byte placement is " + termsString(terms) + ", not big-endian over 4 bytes"
	}
	fc, fidx := tupleSource(soleLeafOrSelf(bs))
	n, isF := isFetch(fc, it)
	if !isF || fidx != 0 {
		return nil, "the combined bytes do not come from a fetch on the section's iterator"
	}
	if k, isC := ssau.ConstInt(n); !isC || k != 4 {
		return nil, "the fetch does not request exactly 4 bytes"
	}
	return fc, ""
}

// helperFetches4: every error-free return of helper h yields, as result #idx, the big-endian value of
// the 4 bytes fetched by the only iterator-moving operation of h on its parameter #j.
func (a *A) helperFetches4(h *ssa.Function, idx, j int) string {
	if j >= len(h.Params) {
		return "parameter mismatch"
	}
	it := h.Params[j]
	ops, stray := iterOps(h, it)
	if len(stray) > 0 {
		return "the iterator is aliased"
	}
	moving := movingOps(ops)
	n := 0
	for _, rt := range ssau.Returns(h) {
		if !successReturn(rt) {
			continue
		}
		n++
		v := soleLeaf(rt.Results[idx])
		if v == nil {
			return "an error-free return has several possible values"
		}
		bs, terms, ok := be32(v)
		if !ok {
			return "the returned value is not an OR of shifted uint32(byte) terms over one slice (it is " + v.String() + ")"
		}
		if !bigEndian4(terms) {
			return "byte placement is " + termsString(terms) + ", not bs[0]<<24 | bs[1]<<16 | bs[2]<<8 | bs[3]<<0"
		}
		fc, fidx := tupleSource(soleLeafOrSelf(bs))
		nn, isF := isFetch(fc, it)
		if !isF || fidx != 0 {
			return "the combined bytes do not come from a fetch on the iterator parameter"
		}
		if k, isC := ssau.ConstInt(nn); !isC || k != 4 {
			return "the fetch does not request exactly 4 bytes"
		}
		if len(moving) != 1 {
			return fmt.Sprintf("%d iterator-moving operations (expected only the 4-byte fetch)", len(moving))
		}
		if _, ok := moving[fc]; !ok {
			return "the 4-byte fetch is not the iterator operation of the helper"
		}
		if inCycle(fc.Block()) {
			return "the fetch is inside a loop"
		}
	}
	if n == 0 {
		return "no error-free return"
	}
	return ""
}

// stopPred describes a return of the header parser that leaves the offsets undefined: it is taken
// exactly when Q(TableID) = Val.
type stopPred struct {
	Q   *ssa.Function
	Val bool
}

// headerOffsets checks, in parsePSISectionHeader, what the results #ia (section start) and #ie
// (sections end) are.
func (a *A) headerOffsets(hdr, has *ssa.Function, iterIdx, ia, ie int) (stops []stopPred) {
	const rule = RuleA
	const fn = "parsePSISectionHeader"
	r := a.R
	if iterIdx >= len(hdr.Params) {
		r.Unknown(rule, fn+"/offset-start", a.fpos(hdr), "parameter mismatch")
		return
	}
	it := hdr.Params[iterIdx]
	ops, stray := iterOps(hdr, it)
	if len(stray) > 0 {
		r.Unknown(rule, fn+"/iterator-aliased", a.ipos(stray[0]), "the iterator is used other than as a call argument")
	}
	moving := movingOps(ops)
	rets := ssau.Returns(hdr)

	isOffset := func(v ssa.Value) *ssa.Call {
		c, ok := v.(*ssa.Call)
		if !ok || astikitMethod(&c.Call, iterType) != "Offset" || c.Call.Args[0] != it {
			return nil
		}
		return c
	}

	// ---- section start ---------------------------------------------------------------------------
	var off0 *ssa.Call
	{
		var bad []string
		for _, rt := range rets {
			c := isOffset(soleLeafOrSelf(rt.Results[ia]))
			if c == nil || (off0 != nil && c != off0) {
				bad = append(bad, "result #"+fmt.Sprint(ia)+" is not one i.Offset() call on every return (at "+a.ipos(rt)+" it is "+strip(rt.Results[ia]).String()+")")
				continue
			}
			off0 = c
		}
		if off0 != nil {
			for in, op := range moving {
				if canFollow(in, off0) {
					bad = append(bad, "iterator operation "+op.Name+" at "+a.ipos(in)+" can precede the i.Offset() call that is returned as the section start")
				}
			}
		}
		sort.Strings(bad)
		pos := a.fpos(hdr)
		if off0 != nil {
			pos = a.ipos(off0)
		}
		r.Check(len(bad) == 0 && off0 != nil, rule, fn+"/offset-start", pos,
			fmt.Sprintf("result #%d is, on every return, the value of i.Offset() taken before any operation moves the iterator: the offset of table_id", ia),
			joinNonEmpty(bad))
	}

	// ---- sections end ----------------------------------------------------------------------------
	hroot := soleLeaf(rets[0].Results[0])
	hasIfs := ifsOn(hdr, func(v ssa.Value) bool {
		c, ok := v.(*ssa.Call)
		return ok && c.Call.StaticCallee() == has && hroot != nil && isLoadOf(c.Call.Args[0], hroot, "TableID")
	})
	nFull := 0
	key := fn + "/offset-sections-end"
	for _, rt := range rets {
		if !successReturn(rt) {
			continue
		}
		v := strip(rt.Results[ie])
		if _, isConst := v.(*ssa.Const); isConst {
			// a return that does not compute the offsets: find the table-id predicate that selects it
			found := false
			for _, e := range ssau.DominatingEdges(rt.Block()) {
				cv, neg := stripNot(e.If.Cond)
				c, ok := cv.(*ssa.Call)
				if !ok || hroot == nil {
					continue
				}
				q := c.Call.StaticCallee()
				if q == nil || !inRoot(q) || len(c.Call.Args) == 0 || !isLoadOf(c.Call.Args[0], hroot, "TableID") {
					continue
				}
				stops = append(stops, stopPred{q, (e.Succ == 0) != neg})
				found = true
				break
			}
			if !found && !(OffsetsFallback != nil && OffsetsFallback(a.P, r, rule, key+"/defined-for-checked-ids")) {
				r.Unknown(rule, key+"/undefined", a.ipos(rt), "an error-free return yields a constant sections-end offset and is not selected by a predicate on the table id")
			}
			continue
		}
		nFull++
		bad := a.sectionsEndShape(rt, v, hroot, hasIfs, it, moving, off0)
		r.Check(bad == "", rule, key, a.ipos(rt),
			fmt.Sprintf("result #%d = i.Offset() after exactly NextByte + NextBytesNoCopy(2) (= section start + 3) + int(h.SectionLength), minus 4 exactly on the hasCRC32()=true edge; h.SectionLength is computed from the 2 fetched bytes", ie),
			bad)
	}
	r.Floor(rule, "returns of parsePSISectionHeader that compute the sections-end offset", nFull, 1)
	return
}

func (a *A) sectionsEndShape(rt *ssa.Return, v ssa.Value, hroot ssa.Value, hasIfs []condIf, it ssa.Value, moving map[ssa.Instruction]iterOp, off0 *ssa.Call) string {
	if len(hasIfs) != 1 {
		return fmt.Sprintf("%d branches on h.TableID.hasCRC32() in the header parser (expected 1)", len(hasIfs))
	}
	hi := hasIfs[0]
	phi, ok := v.(*ssa.Phi)
	if !ok || len(phi.Edges) != 2 {
		return "the sections-end offset is not a two-way merge on hasCRC32() (it is " + v.String() + ")"
	}
	tb, texcl := hi.when(true)
	fb, fexcl := hi.when(false)
	var withCRC, without ssa.Value
	for i, e := range phi.Edges {
		p := phi.Block().Preds[i]
		switch {
		case texcl && (p == tb || tb.Dominates(p)):
			withCRC = strip(e)
		case p == hi.If.Block() && fb == phi.Block(), fexcl && (p == fb || fb.Dominates(p)):
			without = strip(e)
		}
	}
	if withCRC == nil || without == nil {
		return "the two incoming values of the merge are not selected by the two edges of hasCRC32()"
	}
	sub, ok := withCRC.(*ssa.BinOp)
	if !ok || sub.Op != token.SUB || strip(sub.X) != without {
		return "on the hasCRC32()=true edge the offset is not (offset without CRC) − constant (it is " + withCRC.String() + ")"
	}
	if k, isC := ssau.ConstInt(sub.Y); !isC || k != 4 {
		return "on the hasCRC32()=true edge the offset is reduced by " + sub.Y.String() + ", not by the 4 bytes of CRC_32"
	}
	add, ok := without.(*ssa.BinOp)
	if !ok || add.Op != token.ADD {
		return "the end offset is not a sum (it is " + without.String() + ")"
	}
	var off2 *ssa.Call
	var lenv ssa.Value
	for _, pair := range [][2]ssa.Value{{add.X, add.Y}, {add.Y, add.X}} {
		if c, ok := soleLeafOrSelf(pair[0]).(*ssa.Call); ok && astikitMethod(&c.Call, iterType) == "Offset" && c.Call.Args[0] == it {
			off2, lenv = c, strip(pair[1])
			break
		}
	}
	if off2 == nil {
		return "no operand of the sum is i.Offset()"
	}
	// the length operand
	cv, ok := lenv.(*ssa.Convert)
	if !ok {
		return "the length operand is not int(h.SectionLength) (it is " + lenv.String() + ")"
	}
	sl := strip(cv.X)
	if hroot == nil || !isLoadOf(sl, hroot, "SectionLength") {
		return "the length operand is not the SectionLength field of the header being returned"
	}
	slv, why := throughFieldNoEscape(sl)
	if why != "" {
		return "h.SectionLength: " + why
	}
	var f2, nb *ssa.Call
	var pre []string
	for in, op := range moving {
		if !canFollow(in, off2) {
			continue
		}
		c, _ := in.(*ssa.Call)
		switch {
		case op.Name == "NextByte" && nb == nil:
			nb = c
		case (op.Name == "NextBytesNoCopy" || op.Name == "NextBytes") && f2 == nil:
			if k, isC := ssau.ConstInt(c.Call.Args[1]); isC && k == 2 {
				f2 = c
				continue
			}
			pre = append(pre, op.Name+"(≠2)")
		default:
			pre = append(pre, op.Name)
		}
	}
	sort.Strings(pre)
	if len(pre) > 0 || f2 == nil || nb == nil {
		return "the iterator operations before the second i.Offset() are not exactly NextByte and NextBytesNoCopy(2) (extra: " + strings.Join(pre, ",") + ")"
	}
	for _, c := range []*ssa.Call{nb, f2} {
		if inCycle(c.Block()) || !ssau.InstrBefore(c, off2) {
			return "a fetch before the second i.Offset() is conditional or inside a loop"
		}
		if ev := extractOf(c, 1); ev == nil || !nilEdgeDominates(off2.Block(), ev) {
			return "the second i.Offset() is not on the nil-error edge of the preceding fetches"
		}
		if off0 != nil && !ssau.InstrBefore(off0, c) {
			return "the section start is not taken before the fetches"
		}
	}
	if !usesBytesOf(slv, f2) {
		return "h.SectionLength is not computed from the 2 bytes fetched after table_id"
	}
	return ""
}

// throughFieldNoEscape is throughField for an object that is returned (escapesToCall tolerates Return).
func throughFieldNoEscape(v ssa.Value) (ssa.Value, string) { return throughField(v) }

// ---------------------------------------------------------------------------------------------
// (c) no data without check

// dataUses lists the blocks in which the value v is used (for a use by a phi: the predecessor block
// the value comes from).
func dataUses(v ssa.Value) (blocks []*ssa.BasicBlock, instrs []ssa.Instruction) {
	seen := map[ssa.Value]bool{}
	var rec func(v ssa.Value)
	rec = func(v ssa.Value) {
		if v == nil || seen[v] {
			return
		}
		seen[v] = true
		refs := v.Referrers()
		if refs == nil {
			return
		}
		for _, rf := range *refs {
			switch x := rf.(type) {
			case *ssa.DebugRef:
			case *ssa.Phi:
				if x.Referrers() == nil || len(*x.Referrers()) == 0 {
					continue
				}
				for i, e := range x.Edges {
					if e == v {
						blocks = append(blocks, x.Block().Preds[i])
						instrs = append(instrs, x)
					}
				}
			default:
				blocks = append(blocks, rf.Block())
				instrs = append(instrs, rf)
			}
		}
	}
	rec(v)
	return
}

func (a *A) noDataWithoutCheck() {
	const rule = RuleC
	r := a.R
	// the producers of the chain; their callers are whatever functions of the package call them today (parsePSIData, parseData,
	// NextData and any helper a caller's loop has been moved into)
	chain := []string{"parsePSISection", "parsePSIData", "parseData"}
	nSites, nUses := 0, 0
	type link struct{ f, g *ssa.Function }
	var links []link
	for _, name := range chain {
		g := a.anchor(rule, name)
		if g == nil {
			continue
		}
		n := 0
		for _, f := range a.P.SrcFuncs() {
			for _, ci := range ssau.Calls(f) {
				if ci.Common().StaticCallee() == g {
					links = append(links, link{f, g})
					n++
					break
				}
			}
		}
		if n == 0 {
			r.Bad(rule, "chain/no-data-on-error/"+bare(g), a.fpos(g), "no function of the package calls "+bare(g)+" any more: the checked chain parsePSISection → parsePSIData → parseData → NextData is broken")
		}
	}
	for _, ln := range links {
		f, g := ln.f, ln.g
		key := bare(f) + "/no-data-on-error/" + bare(g)
		errIdx := ssau.ErrorResultIndex(g.Signature)
		n := 0
		for _, ci := range ssau.Calls(f) {
			if ci.Common().StaticCallee() != g {
				continue
			}
			n++
			c, isCall := ci.(*ssa.Call)
			if !isCall || errIdx < 0 {
				r.Unknown(rule, key, a.ipos(ci), "deferred call or no error result")
				continue
			}
			nSites++
			datav, errv := extractOf(c, 0), extractOf(c, errIdx)
			if datav == nil {
				r.OK(rule, key, a.ipos(c), "the data result is discarded")
				continue
			}
			blocks, instrs := dataUses(datav)
			nUses += len(blocks)
			var bad []string
			if errv == nil {
				bad = append(bad, "the error result is discarded while the data result is used")
			} else {
				for i, b := range blocks {
					if !nilEdgeDominates(b, errv) {
						bad = append(bad, "the data result is used at "+a.ipos(instrs[i])+" ("+instrs[i].String()+") which is not dominated by the nil edge of the test of the returned error")
					}
				}
			}
			// what happens on the error edge (information only: propagated or dropped)
			how := "the data is used on the nil-error edge only"
			if errv != nil {
				for _, iff := range ifsOn(f, func(v ssa.Value) bool {
					nc, ok := ssau.AsNilCompare(v)
					return ok && ssau.SameValue(nc.X, errv)
				}) {
					nc, _ := ssau.AsNilCompare(iff.V)
					eb, _ := iff.when(nc.Ne)
					prop := true
					for b := range reach([]*ssa.BasicBlock{eb}, nil, nil) {
						if rt := blockReturn(b); rt != nil && successReturn(rt) {
							prop = false
						}
					}
					if prop {
						how += "; on the error edge every reachable return carries a non-nil error (propagated)"
					} else {
						how += "; on the error edge the error is handled locally and the data dropped with it"
					}
				}
			}
			r.Check(len(bad) == 0, rule, key, a.ipos(c), fmt.Sprintf("%d use(s) of the data returned by %s: %s", len(blocks), bare(g), how), joinNonEmpty(bad))
		}
		if n == 0 {
			r.Bad(rule, key, a.fpos(f), bare(f)+" no longer calls "+bare(g)+": the checked chain parsePSISection → parsePSIData → parseData → NextData is broken")
		}
	}
	r.Floor(rule, "call sites on the chain parsePSISection → NextData", nSites, 4)
	r.Floor(rule, "uses of returned data examined", nUses, 4)

	// NextData never hands out data together with an error
	if f := a.P.Func("Demuxer.NextData"); f != nil && f.Blocks != nil {
		key := bare(f) + "/no-data-with-error"
		var bad []string
		n := 0
		errIdx := ssau.ErrorResultIndex(f.Signature)
		for _, rt := range ssau.Returns(f) {
			if errIdx < 0 || !ssau.NonNilOnAllEdges(rt.Results[errIdx], rt.Block()) {
				continue
			}
			n++
			if !provablyNil(rt.Results[0], rt.Block()) {
				bad = append(bad, "the return at "+a.ipos(rt)+" carries a non-nil error and a data value that is not provably nil")
			}
		}
		r.Check(len(bad) == 0, rule, key, a.fpos(f), fmt.Sprintf("%d error returns of NextData: the data result is nil on every path (nil constant, or a value on the nil edge of its own nil test)", n), joinNonEmpty(bad))
		r.Floor(rule, "error returns of NextData", n, 2)
	}
}

// provablyNil: v is nil on every path into block b: the nil constant, a phi whose every edge is nil or
// enters through the nil edge of a nil test of the incoming value.
func provablyNil(v ssa.Value, b *ssa.BasicBlock) bool {
	seen := map[ssa.Value]bool{}
	var rec func(v ssa.Value) bool
	nilOnEdge := func(e ssa.Value, pred, succ *ssa.BasicBlock) bool {
		iff := blockIf(pred)
		if iff == nil || pred.Succs[0] == pred.Succs[1] {
			return false
		}
		nc, ok := ssau.AsNilCompare(iff.Cond)
		if !ok || nc.X != e {
			return false
		}
		nilSucc := 0
		if nc.Ne {
			nilSucc = 1
		}
		return pred.Succs[nilSucc] == succ
	}
	rec = func(v ssa.Value) bool {
		if ssau.IsNilConst(v) {
			return true
		}
		phi, ok := v.(*ssa.Phi)
		if !ok {
			return false
		}
		if seen[phi] {
			return true
		}
		seen[phi] = true
		for i, e := range phi.Edges {
			if nilOnEdge(e, phi.Block().Preds[i], phi.Block()) {
				continue
			}
			if !rec(e) {
				return false
			}
		}
		return true
	}
	return rec(v)
}
