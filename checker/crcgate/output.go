package crcgate

import (
	"fmt"
	"go/token"
	"go/types"
	"sort"
	"strings"

	"golang.org/x/tools/go/ssa"

	"astverif/load"
	"astverif/ssau"
)

// emission is one call in the section writer that can put bytes on the writer.
type emission struct {
	In     ssa.CallInstruction
	Direct bool      // Write / WriteN / WriteBytesN on the writer or on a batch over it
	Val    ssa.Value // written value (wrappers stripped), direct emissions only
	Bits   int       // number of bits when statically known, else -1
	Name   string
}

func bitsOfType(t types.Type) int {
	b, ok := t.Underlying().(*types.Basic)
	if !ok {
		return -1
	}
	switch b.Kind() {
	case types.Bool:
		return 1
	case types.Uint8:
		return 8
	case types.Uint16:
		return 16
	case types.Uint32:
		return 32
	case types.Uint64:
		return 64
	}
	return -1
}

// writerCtx collects what the section writer does with its BitsWriter.
type writerCtx struct {
	f         *ssa.Function
	w         *ssa.Parameter
	batches   map[ssa.Value]bool
	emissions []emission
	cbOps     []ssa.CallInstruction // SetWriteCallback calls (Call or Defer)
	unknown   []ssa.CallInstruction
	foreign   []ssa.CallInstruction // writes on a writer that is not w
}

func (a *A) scanWriter(f *ssa.Function, w *ssa.Parameter) *writerCtx {
	ctx := &writerCtx{f: f, w: w, batches: map[ssa.Value]bool{}}
	// batches over w: allocs holding NewBitsWriterBatch(w)
	for _, b := range f.Blocks {
		for _, in := range b.Instrs {
			st, ok := in.(*ssa.Store)
			if !ok {
				continue
			}
			c, isC := st.Val.(*ssa.Call)
			if !isC || ssau.CalleeName(&c.Call) != load.AstikitPath+".NewBitsWriterBatch" {
				continue
			}
			if len(c.Call.Args) == 1 && c.Call.Args[0] == ssa.Value(w) {
				if al, isA := st.Addr.(*ssa.Alloc); isA {
					ctx.batches[al] = true
				}
			}
		}
	}
	// a batch slot must hold nothing else
	for al := range ctx.batches {
		for _, rf := range *al.Referrers() {
			if st, ok := rf.(*ssa.Store); ok && st.Addr == al {
				c, isC := st.Val.(*ssa.Call)
				if !isC || ssau.CalleeName(&c.Call) != load.AstikitPath+".NewBitsWriterBatch" || c.Call.Args[0] != ssa.Value(w) {
					delete(ctx.batches, al)
				}
			}
		}
	}
	involves := func(cc *ssa.CallCommon) bool {
		for _, arg := range cc.Args {
			if arg == ssa.Value(w) || ctx.batches[arg] {
				return true
			}
		}
		return false
	}
	for _, ci := range ssau.Calls(f) {
		cc := ci.Common()
		mw := astikitMethod(cc, writerType)
		mb := astikitMethod(cc, batchType)
		isWrite := func(m string) bool { return m == "Write" || m == "WriteN" || m == "WriteBytesN" }
		if !involves(cc) {
			if isWrite(mw) || isWrite(mb) {
				ctx.foreign = append(ctx.foreign, ci)
			}
			continue
		}
		switch {
		case mw == "SetWriteCallback":
			ctx.cbOps = append(ctx.cbOps, ci)
		case ssau.CalleeName(cc) == load.AstikitPath+".NewBitsWriterBatch", mb == "Err":
		case isWrite(mw) || isWrite(mb):
			m := mw + mb
			e := emission{In: ci, Direct: true, Name: m, Bits: -1}
			if len(cc.Args) >= 2 {
				e.Val = strip(cc.Args[1])
				switch m {
				case "Write":
					e.Bits = bitsOfType(e.Val.Type())
				case "WriteN":
					if len(cc.Args) >= 3 {
						if k, ok := ssau.ConstInt(cc.Args[2]); ok {
							e.Bits = int(k)
						}
					}
				}
			}
			if _, isCall := ci.(*ssa.Call); !isCall {
				ctx.unknown = append(ctx.unknown, ci)
				continue
			}
			ctx.emissions = append(ctx.emissions, e)
		default:
			callee := cc.StaticCallee()
			if _, isCall := ci.(*ssa.Call); isCall && callee != nil && inRoot(callee) && callee.Parent() == nil {
				ctx.emissions = append(ctx.emissions, emission{In: ci, Name: bare(callee), Bits: -1})
			} else {
				ctx.unknown = append(ctx.unknown, ci)
			}
		}
	}
	return ctx
}

// ---------------------------------------------------------------------------------------------
// (d) output side: the CRC write callback of writePSISection, (f) the emitted section_length

func (a *A) outputSide() {
	const rule = RuleD
	const fn = "writePSISection"
	r := a.R
	ws := a.anchor(rule, fn)
	upd := a.anchor(rule, "updateCRC32")
	has := a.anchor(rule, "PSITableID.hasCRC32")
	comp := a.anchor(rule, "computeCRC32")
	if ws == nil || upd == nil || has == nil || comp == nil {
		return
	}
	w := paramOfType(ws, load.AstikitPath, writerType)
	s := paramOfType(ws, load.RootPath, "PSISection")
	if w == nil || s == nil {
		r.Unknown(rule, "anchor/"+fn+"/parameters", a.fpos(ws), "writePSISection has no (*astikit.BitsWriter, *PSISection) parameters")
		return
	}
	ctx := a.scanWriter(ws, w)
	for _, u := range ctx.unknown {
		r.Unknown(rule, fn+"/unclassified-writer-use", a.ipos(u), "the writer is handed to "+u.String()+", which is neither a known astikit operation nor a repository function: emissions cannot be ordered")
	}
	for _, u := range ctx.foreign {
		r.Bad(rule, fn+"/single-writer", a.ipos(u), "a write goes to a writer other than the one the callback is installed on: "+u.String())
	}
	r.Floor(rule, "emissions found in writePSISection", len(ctx.emissions), 3)

	hasIfs := ifsOn(ws, func(v ssa.Value) bool {
		c, ok := v.(*ssa.Call)
		return ok && c.Call.StaticCallee() == has && len(c.Call.Args) == 1 && isLoadOf(c.Call.Args[0], s, "Header", "TableID")
	})
	guardOf := func(b *ssa.BasicBlock) *condIf {
		for i := range hasIfs {
			if dominatedByEdge(b, hasIfs[i], true) {
				return &hasIfs[i]
			}
		}
		return nil
	}

	// ---- the callback ----------------------------------------------------------------------------
	var install *ssa.Call
	var removals []ssa.CallInstruction
	{
		var installs []*ssa.Call
		var odd []string
		for _, op := range ctx.cbOps {
			cc := op.Common()
			if cc.Args[0] != ssa.Value(w) {
				odd = append(odd, "SetWriteCallback on another writer at "+a.ipos(op))
				continue
			}
			if ssau.IsNilConst(strip(cc.Args[1])) {
				removals = append(removals, op)
				continue
			}
			c, isCall := op.(*ssa.Call)
			if !isCall {
				odd = append(odd, "a callback is installed by a deferred call at "+a.ipos(op))
				continue
			}
			installs = append(installs, c)
		}
		if len(installs) != 1 {
			odd = append(odd, fmt.Sprintf("%d SetWriteCallback(non-nil) calls (expected exactly 1)", len(installs)))
		} else {
			install = installs[0]
			if inCycle(install.Block()) {
				odd = append(odd, "the callback is installed inside a loop")
			}
		}
		pos := a.fpos(ws)
		if install != nil {
			pos = a.ipos(install)
		}
		r.Check(len(odd) == 0, rule, fn+"/callback-installed", pos, "exactly one w.SetWriteCallback(non-nil) on the writer parameter, outside any loop", joinNonEmpty(odd))
		if len(odd) > 0 {
			install = nil
		}
	}
	var crcVar *ssa.Alloc
	if install != nil {
		key := fn + "/callback-updates"
		bad := ""
		mc, ok := strip(install.Call.Args[1]).(*ssa.MakeClosure)
		if !ok {
			bad = "the installed callback is not a function literal of writePSISection (it is " + strip(install.Call.Args[1]).String() + "): the variable it updates cannot be identified"
			r.Unknown(rule, key, a.ipos(install), bad)
		} else {
			cl := mc.Fn.(*ssa.Function)
			crcVar, bad = closureUpdates(cl, mc, upd)
			r.Check(bad == "", rule, key, a.fpos(cl),
				"the callback's only effect on captured state is v = updateCRC32(v, bs) with v the captured uint32 variable and bs the callback's byte-slice parameter",
				bad)
			if bad != "" {
				crcVar = nil
			}
		}
	}

	// ---- the running value -----------------------------------------------------------------------
	var loads []*ssa.UnOp
	if crcVar != nil {
		key := fn + "/init-constant"
		var bad []string
		var stores []*ssa.Store
		for _, rf := range *crcVar.Referrers() {
			switch x := rf.(type) {
			case *ssa.Store:
				if x.Addr == ssa.Value(crcVar) {
					stores = append(stores, x)
				} else {
					bad = append(bad, "the address of the CRC variable is stored at "+a.ipos(x))
				}
			case *ssa.UnOp:
				loads = append(loads, x)
			case *ssa.MakeClosure, *ssa.DebugRef:
			default:
				bad = append(bad, "the CRC variable is used by "+rf.String()+" at "+a.ipos(rf))
			}
		}
		want, wantOK := computeInit(comp, upd)
		if !wantOK {
			bad = append(bad, "computeCRC32 is neither updateCRC32(<constant>, bs) nor a loop entered with a constant accumulator: the parser-side initial value is unknown")
		}
		if len(stores) != 1 {
			bad = append(bad, fmt.Sprintf("%d assignments to the CRC variable outside the callback (expected only the initialisation)", len(stores)))
		} else {
			st := stores[0]
			k, isC := constUint(st.Val)
			switch {
			case !isC:
				bad = append(bad, "the CRC variable is initialised with the non-constant "+st.Val.String())
			case k != 0xFFFFFFFF:
				bad = append(bad, fmt.Sprintf("the CRC variable is initialised with 0x%08X, CRC-32/MPEG-2 starts from 0xFFFFFFFF", k))
			case wantOK && k != want:
				bad = append(bad, fmt.Sprintf("the CRC variable is initialised with 0x%08X but computeCRC32 (parser side) starts from 0x%08X", k, want))
			}
			if !ssau.InstrBefore(st, install) {
				bad = append(bad, "the initialisation does not dominate the installation of the callback")
			}
			for _, e := range ctx.emissions {
				if canFollow(e.In, st) {
					bad = append(bad, "the emission "+e.Name+" at "+a.ipos(e.In)+" can precede the initialisation")
				}
			}
		}
		pos := a.vpos(crcVar)
		if len(stores) > 0 {
			pos = a.ipos(stores[0])
		}
		r.Check(len(bad) == 0, rule, key, pos,
			"the captured variable is assigned once outside the callback: the constant 0xFFFFFFFF (the value computeCRC32 starts from), before the callback is installed and before any emission; its address goes nowhere else",
			joinNonEmpty(bad))
	}

	// ---- install before the first emission, under the has-CRC predicate ---------------------------
	var installGuard *condIf
	if install != nil {
		installGuard = guardOf(install.Block())
		r.Check(installGuard != nil, rule, fn+"/install-guard", a.ipos(install),
			"the callback is installed on the s.Header.TableID.hasCRC32()=true edge (the predicate of the parser's gate, decided by T1)",
			"the callback is not installed under s.Header.TableID.hasCRC32()")
		key := fn + "/install-before-first-emission"
		var bad []string
		for _, e := range ctx.emissions {
			if canFollow(e.In, install) {
				bad = append(bad, "the emission "+e.Name+" at "+a.ipos(e.In)+" can execute before the callback is installed: its bytes are not covered by the CRC")
			}
		}
		if installGuard != nil && len(bad) == 0 {
			// every path from the entry to an emission passes the installation or the has-CRC=false edge
			cut := map[*ssa.BasicBlock]bool{install.Block(): true}
			seen := reach([]*ssa.BasicBlock{ws.Blocks[0]}, []edge{installGuard.edge(false)}, cut)
			for _, e := range ctx.emissions {
				if seen[e.In.Block()] {
					bad = append(bad, "the emission "+e.Name+" at "+a.ipos(e.In)+" is reachable on a hasCRC32()=true path that does not install the callback")
				}
			}
			for _, e := range ctx.emissions {
				if e.In.Block() == install.Block() && ssau.IndexOf(e.In) < ssau.IndexOf(install) {
					bad = append(bad, "the emission "+e.Name+" at "+a.ipos(e.In)+" precedes the installation in its block")
				}
			}
		}
		r.Check(len(bad) == 0, rule, key, a.ipos(install),
			fmt.Sprintf("none of the %d emissions can execute before SetWriteCallback, and every path to an emission either installs the callback or takes the hasCRC32()=false edge", len(ctx.emissions)),
			joinNonEmpty(bad))
	}

	// ---- the CRC emission -------------------------------------------------------------------------
	var crcEm *emission
	{
		var cands []*emission
		for i := range ctx.emissions {
			e := &ctx.emissions[i]
			if e.Direct && e.Name == "Write" && e.Bits == 32 {
				cands = append(cands, e)
			}
		}
		key := fn + "/crc-value-from-variable"
		switch {
		case crcVar == nil:
			r.Unknown(rule, key, a.fpos(ws), "the variable updated by the callback was not identified")
		case len(cands) != 1:
			r.Bad(rule, key, a.fpos(ws), fmt.Sprintf("%d 32-bit emissions in writePSISection (expected exactly one: CRC_32)", len(cands)))
		default:
			e := cands[0]
			ld, isLd := e.Val.(*ssa.UnOp)
			if isLd && ld.Op == token.MUL && ld.X == ssa.Value(crcVar) {
				crcEm = e
				r.OK(rule, key, a.ipos(e.In), "the single 32-bit emission writes the value loaded from the variable the callback updates, at static type uint32 (32 bits, most significant byte first)")
				var bad []string
				for _, o := range ctx.emissions {
					if o.In != e.In && canFollow(ld, o.In) {
						bad = append(bad, "the emission "+o.Name+" at "+a.ipos(o.In)+" can execute after the CRC value was read")
					}
				}
				r.Check(len(bad) == 0, rule, fn+"/crc-read-after-body", a.ipos(ld), "the CRC variable is read after every other emission of the section (no emission can follow the read)", joinNonEmpty(bad))
			} else {
				r.Bad(rule, key, a.ipos(e.In), "the 32-bit value written is "+e.Val.String()+", not a read of the variable the callback updates")
			}
		}
	}
	var crcGuard *condIf
	if crcEm != nil {
		var bad []string
		for _, o := range ctx.emissions {
			if o.In != crcEm.In && canFollow(crcEm.In, o.In) {
				bad = append(bad, "the emission "+o.Name+" at "+a.ipos(o.In)+" can execute after CRC_32 was written")
			}
		}
		if inCycle(crcEm.In.Block()) {
			bad = append(bad, "CRC_32 is written inside a loop")
		}
		r.Check(len(bad) == 0, rule, fn+"/crc-emitted-last", a.ipos(crcEm.In), "CRC_32 is the last emission of the section: no other emission can follow it", joinNonEmpty(bad))

		crcGuard = guardOf(crcEm.In.Block())
		r.Check(crcGuard != nil, rule, fn+"/crc-only-for-crc-tables", a.ipos(crcEm.In),
			"CRC_32 is written on the s.Header.TableID.hasCRC32()=true edge only (same predicate as the parser's gate and as the installation of the callback)",
			"CRC_32 is not written under s.Header.TableID.hasCRC32()")
	}

	// ---- table id stable while the section is written ---------------------------------------------
	{
		var bad []string
		for _, f := range a.calleeClosure(ws) {
			for _, b := range f.Blocks {
				for _, in := range b.Instrs {
					st, ok := in.(*ssa.Store)
					if !ok {
						continue
					}
					if fa, ok := st.Addr.(*ssa.FieldAddr); ok {
						if n, _ := ssau.FieldName(fa); n == "TableID" && ssau.IsNamed(fa.X.Type(), load.RootPath, "PSISectionHeader") {
							bad = append(bad, bare(f)+" assigns PSISectionHeader.TableID at "+a.ipos(st))
						}
					}
				}
			}
		}
		r.Check(len(bad) == 0, rule, fn+"/tableid-stable", a.fpos(ws), "no function called while the section is written assigns PSISectionHeader.TableID: the three evaluations of hasCRC32() agree", joinNonEmpty(bad))
	}

	// ---- removal on all exits ---------------------------------------------------------------------
	if install != nil {
		key := fn + "/callback-removed"
		bad := ""
		var deferred ssa.CallInstruction
		direct := map[ssa.Instruction]bool{}
		for _, rm := range removals {
			if _, isDefer := rm.(*ssa.Defer); isDefer {
				// registered before the installation on every path, or after it with no exit in between
				if ssau.InstrBefore(rm, install) || leakBefore(install, rm) == nil {
					deferred = rm
				}
			} else if _, isCall := rm.(*ssa.Call); isCall {
				direct[rm] = true
			}
		}
		how := ""
		if deferred != nil {
			how = "a deferred w.SetWriteCallback(nil) is registered on every path that installs the callback (no exit between installation and registration); deferred calls run on every exit, panics included"
			// the function must actually run its defers on the exits
			for _, rt := range ssau.Returns(ws) {
				if !ssau.Reaches(install.Block(), rt.Block()) {
					continue
				}
				hasRun := false
				for _, in := range rt.Block().Instrs {
					if _, ok := in.(*ssa.RunDefers); ok {
						hasRun = true
					}
				}
				if !hasRun {
					bad = "a return after the installation does not run the deferred calls"
				}
			}
		} else {
			// direct removals: every path from the installation to a return passes one
			if esc := exitWithout(install, direct); esc != nil {
				bad = "the return at " + a.ipos(esc) + " is reachable after the installation without w.SetWriteCallback(nil): the callback stays installed on the caller's writer and later writes keep updating a dead CRC"
			} else {
				how = "every path from the installation to a return calls w.SetWriteCallback(nil)"
			}
		}
		r.Check(bad == "", rule, key, a.ipos(install), how, bad)
	}

	// ---- nothing replaces or removes the callback while the section is written ------------------
	if install != nil {
		key := fn + "/callback-kept-until-crc"
		var bad []string
		for _, op := range ctx.cbOps {
			c, isCall := op.(*ssa.Call)
			if !isCall || c == install {
				continue
			}
			for _, e := range ctx.emissions {
				if canFollow(c, e.In) {
					bad = append(bad, "SetWriteCallback at "+a.ipos(c)+" can execute before the emission "+e.Name+" at "+a.ipos(e.In)+": the bytes written afterwards are not accumulated")
					break
				}
			}
		}
		for _, f := range a.calleeClosure(ws) {
			if f == ws {
				continue
			}
			for _, ci := range ssau.Calls(f) {
				if astikitMethod(ci.Common(), writerType) == "SetWriteCallback" {
					bad = append(bad, bare(f)+", called while the section is written, sets the writer's callback itself at "+a.ipos(ci))
				}
			}
		}
		r.Check(len(bad) == 0, rule, key, a.ipos(install), "between the installation and the last emission no other SetWriteCallback can execute, neither in writePSISection nor in any function it calls", joinNonEmpty(bad))
	}

	// ---- (f) + success paths ---------------------------------------------------------------------
	a.lengthGate(ctx, s, crcEm, crcGuard, hasIfs)
}

// closureUpdates checks the callback body and returns the captured variable it updates.
func closureUpdates(cl *ssa.Function, mc *ssa.MakeClosure, upd *ssa.Function) (*ssa.Alloc, string) {
	if len(cl.Params) != 1 {
		return nil, "the callback does not take exactly one parameter"
	}
	var stores []*ssa.Store
	for _, b := range cl.Blocks {
		for _, in := range b.Instrs {
			switch x := in.(type) {
			case *ssa.Store:
				stores = append(stores, x)
			case *ssa.MapUpdate, *ssa.Send, *ssa.Go, *ssa.Defer:
				return nil, "the callback has other effects (" + in.String() + ")"
			case *ssa.Call:
				if x.Call.StaticCallee() != upd {
					return nil, "the callback calls " + x.String() + " besides updateCRC32"
				}
			}
		}
	}
	if len(stores) != 1 {
		return nil, fmt.Sprintf("the callback contains %d assignments (expected exactly one: v = updateCRC32(v, bs))", len(stores))
	}
	st := stores[0]
	fv, ok := st.Addr.(*ssa.FreeVar)
	if !ok {
		return nil, "the callback does not assign a captured variable"
	}
	c, ok := strip(st.Val).(*ssa.Call)
	if !ok || c.Call.StaticCallee() != upd || len(c.Call.Args) != 2 {
		return nil, "the value assigned to " + fv.Name() + " is not the result of updateCRC32 (it is " + st.Val.String() + ")"
	}
	ld, ok := strip(c.Call.Args[0]).(*ssa.UnOp)
	if !ok || ld.Op != token.MUL || ld.X != ssa.Value(fv) {
		return nil, "updateCRC32 does not continue from the captured variable (first argument is " + c.Call.Args[0].String() + ")"
	}
	if c.Call.Args[1] != ssa.Value(cl.Params[0]) {
		return nil, "updateCRC32 is not fed the bytes handed to the callback"
	}
	if inCycle(st.Block()) || inCycle(c.Block()) {
		return nil, "the update is inside a loop of the callback"
	}
	for _, rt := range ssau.Returns(cl) {
		if !ssau.InstrBefore(st, rt) && st.Block() != rt.Block() {
			return nil, "the update is conditional: some written bytes are not accumulated"
		}
	}
	idx := -1
	for i, f := range cl.FreeVars {
		if f == fv {
			idx = i
		}
	}
	if idx < 0 || idx >= len(mc.Bindings) {
		return nil, "captured variable not bound"
	}
	al, ok := mc.Bindings[idx].(*ssa.Alloc)
	if !ok {
		return nil, "the captured variable is not a local of writePSISection"
	}
	if b, isB := al.Type().(*types.Pointer).Elem().Underlying().(*types.Basic); !isB || b.Kind() != types.Uint32 {
		return nil, "the captured variable is not a uint32"
	}
	return al, ""
}

// computeInit returns the constant computeCRC32 passes to updateCRC32 as initial value.
func computeInit(comp, upd *ssa.Function) (uint64, bool) {
	var k uint64
	n := 0
	for _, ci := range ssau.Calls(comp) {
		if ci.Common().StaticCallee() != upd || len(ci.Common().Args) != 2 {
			continue
		}
		c, ok := constUint(ci.Common().Args[0])
		if !ok {
			return 0, false
		}
		k = c
		n++
	}
	if n == 0 {
		// the fold written out in computeCRC32: the returned value is the loop's accumulator phi, entered with a constant (that the
		// loop is updateCRC32's fold is the CRC proof's F5, joined into this property)
		for _, rt := range ssau.Returns(comp) {
			if len(rt.Results) != 1 {
				return 0, false
			}
			phi, ok := rt.Results[0].(*ssa.Phi)
			if !ok {
				return 0, false
			}
			found := false
			for i, e := range phi.Edges {
				if phi.Block().Dominates(phi.Block().Preds[i]) {
					continue
				}
				c, ok := constUint(e)
				if !ok || (found && c != k) {
					return 0, false
				}
				k, found = c, true
			}
			if !found {
				return 0, false
			}
			n = 1
		}
	}
	return k, n == 1
}

// leakBefore returns a Return reachable from instruction from without passing instruction via.
func leakBefore(from, via ssa.Instruction) *ssa.Return {
	return exitWithout(from, map[ssa.Instruction]bool{via: true})
}

// exitWithout walks forward from the instruction after `from` and returns a Return that can be
// reached without executing one of the via instructions (nil when every exit passes one).
func exitWithout(from ssa.Instruction, via map[ssa.Instruction]bool) *ssa.Return {
	seen := map[*ssa.BasicBlock]bool{}
	var found *ssa.Return
	var scan func(b *ssa.BasicBlock, i int)
	scan = func(b *ssa.BasicBlock, i int) {
		for ; i < len(b.Instrs); i++ {
			in := b.Instrs[i]
			if via[in] {
				return
			}
			if rt, ok := in.(*ssa.Return); ok {
				if found == nil {
					found = rt
				}
				return
			}
		}
		for _, s := range b.Succs {
			if !seen[s] {
				seen[s] = true
				scan(s, 0)
			}
		}
	}
	scan(from.Block(), ssau.IndexOf(from)+1)
	return found
}

// calleeClosure lists f and the repository functions it calls, transitively.
func (a *A) calleeClosure(f *ssa.Function) []*ssa.Function {
	seen := map[*ssa.Function]bool{}
	var out []*ssa.Function
	var rec func(f *ssa.Function)
	rec = func(f *ssa.Function) {
		if f == nil || seen[f] || !inRoot(f) || f.Blocks == nil {
			return
		}
		seen[f] = true
		out = append(out, f)
		for _, an := range f.AnonFuncs {
			rec(an)
		}
		for _, c := range ssau.Calls(f) {
			rec(c.Common().StaticCallee())
		}
	}
	rec(f)
	return out
}

// ---------------------------------------------------------------------------------------------
// (f) section_length: emitted value, gate, producers

func (a *A) lengthGate(ctx *writerCtx, s *ssa.Parameter, crcEm *emission, crcGuard *condIf, hasIfs []condIf) {
	const rule = RuleF
	const fn = "writePSISection"
	r := a.R
	ws := ctx.f
	calc := a.anchor(rule, "calcPSISectionLength")
	if calc == nil {
		return
	}

	// ---- the emitted 12-bit value -----------------------------------------------------------------
	var lenCall *ssa.Call
	{
		key := fn + "/emitted-length-from-calculator"
		var cands []*emission
		for i := range ctx.emissions {
			if e := &ctx.emissions[i]; e.Direct && e.Bits == 12 {
				cands = append(cands, e)
			}
		}
		if len(cands) != 1 {
			r.Bad(rule, key, a.fpos(ws), fmt.Sprintf("%d 12-bit emissions in writePSISection (expected exactly one: section_length)", len(cands)))
		} else {
			e := cands[0]
			bad := ""
			ls := leaves(e.Val)
			for _, l := range ls {
				c, ok := l.(*ssa.Call)
				switch {
				case l == nil:
					bad = "the emitted value can be the zero value of an unassigned local"
				case ok && c.Call.StaticCallee() == calc && len(c.Call.Args) == 1 && c.Call.Args[0] == ssa.Value(s):
					lenCall = c
				default:
					if _, fs := fieldChain(l); len(fs) > 0 {
						bad = "the emitted 12-bit value is read from the field " + strings.Join(fs, ".") + " of the section, not computed from what is written: a stale or hand-set SectionLength goes on the wire"
					} else {
						bad = "the emitted 12-bit value is " + l.String() + ", not the result of calcPSISectionLength(s)"
					}
				}
			}
			if bad == "" && lenCall != nil {
				for _, o := range ctx.emissions {
					if canFollow(o.In, lenCall) {
						bad = "the length is calculated after an emission"
					}
				}
			}
			if bad != "" {
				lenCall = nil
			}
			r.Check(bad == "" && lenCall != nil, rule, key, a.ipos(e.In),
				"the single 12-bit emission writes, on every path, the result of calcPSISectionLength(s) for the section being written (that this equals the bytes emitted after it is obligation A2)",
				bad)
		}
	}

	// ---- the gate in front of body and CRC --------------------------------------------------------
	// conditional edges, other than hasCRC32() and error tests, that every path to the CRC emission takes
	var gates []ssau.Edge
	if crcEm != nil {
		for _, e := range ssau.DominatingEdges(crcEm.In.Block()) {
			if _, isNil := ssau.AsNilCompare(e.If.Cond); isNil {
				continue
			}
			isHas := false
			for _, h := range hasIfs {
				if h.If == e.If {
					isHas = true
				}
			}
			// the admission test of the writer (table id is PAT or PMT) is decided by T1 f/writable-set
			if isHas || a.isTableIDCompare(e.If.Cond, s) {
				continue
			}
			gates = append(gates, e)
		}
	}

	// CRC present on every error-free exit, except through the has-CRC=false edge and the gates' other edges
	if crcEm != nil && crcGuard != nil {
		key := fn + "/crc-on-all-success-paths"
		cutE := []edge{crcGuard.edge(false)}
		for _, g := range gates {
			cutE = append(cutE, edge{g.If.Block(), 1 - g.Succ})
		}
		seen := reach([]*ssa.BasicBlock{ws.Blocks[0]}, cutE, map[*ssa.BasicBlock]bool{crcEm.In.Block(): true})
		var bad []string
		for _, rt := range ssau.Returns(ws) {
			if seen[rt.Block()] && successReturn(rt) {
				bad = append(bad, "the error-free return at "+a.ipos(rt)+" is reachable on a hasCRC32()=true path without writing CRC_32")
			}
		}
		r.Check(len(bad) == 0, rule, key, a.ipos(crcEm.In),
			fmt.Sprintf("every path to an error-free return writes CRC_32, takes the hasCRC32()=false edge, or leaves through one of the %d gate(s) examined by rule C09f", len(gates)),
			joinNonEmpty(bad))
	}

	producersOK := true
	var producers []string
	needProducers := false
	for _, g := range gates {
		key := fn + "/gate"
		cond, neg := stripNot(g.If.Cond)
		taken := (g.Succ == 0) != neg // truth value of cond on the edge towards body and CRC
		x, isPos := positivityTest(cond, taken)
		switch {
		case !isPos:
			r.Unknown(rule, key, a.ipos(g.If), "the section body and CRC_32 are written only under the condition "+cond.String()+", which is not a `length > 0` test: when it fails for a has-CRC table the header goes out without body and CRC")
		case lenCall != nil && soleLeaf(x) == ssa.Value(lenCall):
			r.OK(rule, key, a.ipos(g.If), "body and CRC_32 are written when the computed section_length (the very value emitted) is positive")
		case isLoadOf(strip(x), s, "Header", "SectionLength"):
			needProducers = true
			// the field is not assigned by the writer itself
			detail := "body and CRC_32 are written only when the struct field s.Header.SectionLength is positive, while the emitted section_length is computed: consistent iff every section reaching the writer has a positive field"
			res := a.producers(ws, s, calc)
			producers = res.names
			if !res.ok {
				producersOK = false
			}
			if res.ok {
				r.OK(rule, key, a.ipos(g.If), detail+"; discharged per producer: "+strings.Join(res.names, ", "))
			} else {
				r.Bad(rule, key, a.ipos(g.If), detail+"; NOT established for: "+strings.Join(res.failed, ", "))
			}
		default:
			r.Unknown(rule, key, a.ipos(g.If), "body and CRC_32 are gated by "+x.String()+", which is neither the computed length nor s.Header.SectionLength")
		}
	}
	_ = producersOK
	if needProducers {
		r.Floor(rule, "producers of sections reaching writePSISection", len(producers), 2)
	}
}

// isTableIDCompare: cond compares s.Header.TableID with a constant.
func (a *A) isTableIDCompare(cond ssa.Value, s ssa.Value) bool {
	v, _ := stripNot(cond)
	b, ok := v.(*ssa.BinOp)
	if !ok {
		return false
	}
	_, cx := b.X.(*ssa.Const)
	_, cy := b.Y.(*ssa.Const)
	return cy && isLoadOf(b.X, s, "Header", "TableID") || cx && isLoadOf(b.Y, s, "Header", "TableID")
}

// positivityTest recognises `x > 0`, `x != 0`, `0 < x`, `x >= 1` … for unsigned x, holding with truth
// value taken, i.e. the edge is followed exactly when x is positive.
func positivityTest(cond ssa.Value, taken bool) (ssa.Value, bool) {
	b, ok := cond.(*ssa.BinOp)
	if !ok {
		return nil, false
	}
	x, y, op := b.X, b.Y, b.Op
	if _, isC := x.(*ssa.Const); isC {
		x, y = y, x
		switch op {
		case token.LSS:
			op = token.GTR
		case token.GTR:
			op = token.LSS
		case token.LEQ:
			op = token.GEQ
		case token.GEQ:
			op = token.LEQ
		}
	}
	k, isC := constUint(y)
	if !isC {
		return nil, false
	}
	if bt, isB := x.Type().Underlying().(*types.Basic); !isB || bt.Info()&types.IsUnsigned == 0 {
		return nil, false
	}
	ev := func(n uint64) bool {
		switch op {
		case token.GTR:
			return n > k
		case token.GEQ:
			return n >= k
		case token.NEQ:
			return n != k
		case token.EQL:
			return n == k
		case token.LSS:
			return n < k
		case token.LEQ:
			return n <= k
		}
		return false
	}
	switch op {
	case token.GTR, token.GEQ, token.NEQ, token.EQL, token.LSS, token.LEQ:
	default:
		return nil, false
	}
	// the edge must be taken for 1, 2, large and not for 0
	if ev(0) == taken || ev(1) != taken || ev(2) != taken || ev(1<<15) != taken {
		return nil, false
	}
	return x, true
}

type producerResult struct {
	ok     bool
	names  []string
	failed []string
}

// producers follows the section parameter of the writer back to the objects that reach it and checks,
// for each, where Header.SectionLength comes from and that it is positive.
func (a *A) producers(ws *ssa.Function, s *ssa.Parameter, calc *ssa.Function) producerResult {
	const rule = RuleF
	r := a.R
	res := producerResult{ok: true}
	if hid := a.hiddenStores(); len(hid) > 0 {
		r.Unknown(rule, "writePSISection/producers", a.fpos(ws), "the section objects are also written through pointers that are not their composite literals (the literal values may be overwritten): "+joinNonEmpty(hid))
		res.ok = false
		res.failed = append(res.failed, "<aliased store>")
		return res
	}
	objs, why := a.origins(s, map[ssa.Value]bool{})
	if why != "" {
		r.Unknown(rule, "writePSISection/producers", a.fpos(ws), "the sections reaching the writer cannot be enumerated: "+why)
		res.ok = false
		res.failed = append(res.failed, "<unknown>")
		return res
	}
	sort.Slice(objs, func(i, j int) bool { return objs[i].Pos() < objs[j].Pos() })
	for _, o := range objs {
		al, isAlloc := o.(*ssa.Alloc)
		if !isAlloc {
			r.Unknown(rule, "writePSISection/producers", a.vpos(o), "a section reaching the writer is not a locally built object: "+o.String())
			res.ok = false
			res.failed = append(res.failed, o.String())
			continue
		}
		g := al.Parent()
		name := bare(g)
		res.names = append(res.names, name)
		okField, okPos := a.producerField(g, al, calc)
		if !okField || !okPos {
			res.ok = false
			res.failed = append(res.failed, name)
		}
	}
	return res
}

// origins resolves a pointer value to the allocations it may denote: parameters are followed to the
// arguments of all static call sites, loads of slice elements to the elements stored in the slice
// literal, loads of fields to the unique store into the field of each origin of the base.
func (a *A) origins(v ssa.Value, seen map[ssa.Value]bool) ([]ssa.Value, string) {
	v = strip(v)
	if seen[v] {
		return nil, ""
	}
	seen[v] = true
	switch x := v.(type) {
	case *ssa.Alloc:
		if ssau.SpillSlot(x) {
			break
		}
		return []ssa.Value{x}, ""
	case *ssa.Parameter:
		f := x.Parent()
		idx := -1
		for i, p := range f.Params {
			if p == x {
				idx = i
			}
		}
		sites, other := a.callSites(f)
		if len(other) > 0 {
			return nil, bare(f) + " is used as a function value at " + a.ipos(other[0])
		}
		if len(sites) == 0 {
			return nil, bare(f) + " has no static call site"
		}
		var out []ssa.Value
		for _, st := range sites {
			args := st.In.Common().Args
			if idx >= len(args) {
				return nil, "argument mismatch at " + a.ipos(st.In)
			}
			o, why := a.origins(args[idx], seen)
			if why != "" {
				return nil, why
			}
			out = append(out, o...)
		}
		return out, ""
	case *ssa.Phi:
		var out []ssa.Value
		for _, e := range x.Edges {
			o, why := a.origins(e, seen)
			if why != "" {
				return nil, why
			}
			out = append(out, o...)
		}
		return out, ""
	case *ssa.UnOp:
		if x.Op != token.MUL {
			break
		}
		switch ad := x.X.(type) {
		case *ssa.IndexAddr:
			// element of a slice
			elems, why := a.sliceElems(ad.X, seen)
			if why != "" {
				return nil, why
			}
			var out []ssa.Value
			for _, e := range elems {
				o, why := a.origins(e, seen)
				if why != "" {
					return nil, why
				}
				out = append(out, o...)
			}
			return out, ""
		case *ssa.FieldAddr:
			vals, why := a.fieldValues(ad, seen)
			if why != "" {
				return nil, why
			}
			var out []ssa.Value
			for _, e := range vals {
				o, why := a.origins(e, seen)
				if why != "" {
					return nil, why
				}
				out = append(out, o...)
			}
			return out, ""
		}
	}
	return nil, "unsupported value " + v.String() + " in " + bare(valueParent(v))
}

func valueParent(v ssa.Value) *ssa.Function {
	if in, ok := v.(ssa.Instruction); ok {
		return in.Parent()
	}
	return v.Parent()
}

// fieldValues: the values stored into field fa.Field of every object fa.X may denote.
func (a *A) fieldValues(fa *ssa.FieldAddr, seen map[ssa.Value]bool) ([]ssa.Value, string) {
	name, _ := ssau.FieldName(fa)
	bases, why := a.origins(fa.X, seen)
	if why != "" {
		return nil, why
	}
	var out []ssa.Value
	for _, b := range bases {
		sts := fieldStores(b, name)
		if len(sts) != 1 {
			return nil, fmt.Sprintf("field %s of %s has %d stores (expected one, from the composite literal)", name, b.String(), len(sts))
		}
		out = append(out, sts[0].Val)
	}
	return out, ""
}

// sliceElems: the elements of a slice value built by a slice literal.
func (a *A) sliceElems(sl ssa.Value, seen map[ssa.Value]bool) ([]ssa.Value, string) {
	sl = strip(sl)
	switch x := sl.(type) {
	case *ssa.Slice:
		arr, ok := x.X.(*ssa.Alloc)
		if !ok || x.Low != nil || x.High != nil {
			return nil, "slice of something else than a literal array: " + sl.String()
		}
		var out []ssa.Value
		for _, rf := range *arr.Referrers() {
			switch y := rf.(type) {
			case *ssa.IndexAddr:
				for _, rr := range *y.Referrers() {
					if st, ok := rr.(*ssa.Store); ok && st.Addr == ssa.Value(y) {
						out = append(out, st.Val)
					}
				}
			case *ssa.Slice, *ssa.DebugRef:
			default:
				return nil, "the literal array is used by " + rf.String()
			}
		}
		return out, ""
	case *ssa.UnOp:
		if x.Op == token.MUL {
			if fa, ok := x.X.(*ssa.FieldAddr); ok {
				vals, why := a.fieldValues(fa, seen)
				if why != "" {
					return nil, why
				}
				var out []ssa.Value
				for _, v := range vals {
					e, why := a.sliceElems(v, seen)
					if why != "" {
						return nil, why
					}
					out = append(out, e...)
				}
				return out, ""
			}
		}
	}
	return nil, "unsupported slice value " + sl.String()
}

// uniqueFieldValue returns the value of the unique store into field name of the allocation base.
func uniqueFieldValue(base ssa.Value, name string) ssa.Value {
	sts := fieldStores(base, name)
	if len(sts) != 1 {
		return nil
	}
	return strip(sts[0].Val)
}

// producerField checks, in producer g, the SectionLength field of the header of section sec.
func (a *A) producerField(g *ssa.Function, sec *ssa.Alloc, calc *ssa.Function) (okField, okPos bool) {
	const rule = RuleF
	r := a.R
	name := bare(g)
	keyF := name + "/section-length-field"
	keyP := name + "/section-length-positive"
	hv := uniqueFieldValue(sec, "Header")
	h, _ := hv.(*ssa.Alloc)
	if h == nil {
		r.Unknown(rule, keyF, a.vpos(sec), "the header of the section built here is not a local composite literal")
		return false, false
	}
	sts := fieldStores(h, "SectionLength")
	if len(sts) == 0 {
		r.Bad(rule, keyF, a.vpos(h), "Header.SectionLength is never set: it is 0, the writer's `SectionLength > 0` gate fails and the section goes out as a bare header without body and CRC_32")
		return false, false
	}
	if len(sts) != 1 {
		r.Unknown(rule, keyF, a.vpos(h), fmt.Sprintf("Header.SectionLength is assigned %d times", len(sts)))
		return false, false
	}
	v := strip(sts[0].Val)
	pos := a.ipos(sts[0])
	c, isCall := v.(*ssa.Call)
	var callee *ssa.Function
	if isCall {
		callee = c.Call.StaticCallee()
	}
	switch {
	case callee == calc && len(c.Call.Args) == 1 && strip(c.Call.Args[0]) == ssa.Value(sec):
		r.OK(rule, keyF, pos, "Header.SectionLength = calcPSISectionLength(section): the very calculator whose result the writer emits")
		okField = true
	case callee != nil && inRoot(callee) && len(c.Call.Args) == 1:
		// a table-specific calculator: it must be the summand calcPSISectionLength adds for the data of this section
		field, why := summandOf(calc, callee)
		if why != "" {
			r.Bad(rule, keyF, pos, "Header.SectionLength = "+bare(callee)+"(…), which is not the calculator of the emitted value: "+why)
			break
		}
		dataV := ssa.Value(nil)
		if syn, _ := uniqueFieldValue(sec, "Syntax").(*ssa.Alloc); syn != nil {
			if dat, _ := uniqueFieldValue(syn, "Data").(*ssa.Alloc); dat != nil {
				dataV = uniqueFieldValue(dat, field)
			}
		}
		if dataV == nil || !sameObject(dataV, strip(c.Call.Args[0])) {
			r.Bad(rule, keyF, pos, "Header.SectionLength = "+bare(callee)+"(x) but x is not the value stored in section.Syntax.Data."+field+": the field describes another table than the one written")
			break
		}
		r.OK(rule, keyF, pos, fmt.Sprintf("Header.SectionLength = %s(d) with d = section.Syntax.Data.%s, the summand calcPSISectionLength adds for this table: the field is the emitted section_length minus the constant syntax-header and CRC_32 sizes (the field is NOT the emitted value; it only drives the writer's `> 0` gate)", bare(callee), field))
		okField = true
	default:
		r.Bad(rule, keyF, pos, "Header.SectionLength is set to "+v.String()+", which does not come from the section length calculator")
	}
	if !okField {
		return false, false
	}
	// positivity
	lb, facts, why := a.lowerBound(v, g)
	if why != "" {
		r.Unknown(rule, keyP, pos, "no proof that the field is positive: "+why)
		return true, false
	}
	if lb < 1 {
		r.Unknown(rule, keyP, pos, "the field has no positive lower bound: when it is 0 the writer emits a header announcing the computed section_length but neither body nor CRC_32")
		return true, false
	}
	r.OK(rule, keyP, pos, fmt.Sprintf("the field is at least %d (modulo uint16 wrap-around above 65535, outside the 1021-byte section domain): %s", lb, strings.Join(facts, "; ")))
	return true, true
}

// summandOf checks that calc adds the result of sub(s.Syntax.Data.<field>) into its return value and
// returns the field name.
func summandOf(calc, sub *ssa.Function) (string, string) {
	if len(calc.Params) != 1 {
		return "", "calcPSISectionLength does not take one parameter"
	}
	var call *ssa.Call
	for _, ci := range ssau.Calls(calc) {
		if c, ok := ci.(*ssa.Call); ok && c.Call.StaticCallee() == sub {
			if call != nil {
				return "", "calcPSISectionLength calls " + bare(sub) + " more than once"
			}
			call = c
		}
	}
	if call == nil {
		return "", "calcPSISectionLength does not call " + bare(sub)
	}
	root, fs := fieldChain(strip(call.Call.Args[0]))
	if root != ssa.Value(calc.Params[0]) || len(fs) != 3 || fs[0] != "Syntax" || fs[1] != "Data" {
		return "", "its argument in calcPSISectionLength is not s.Syntax.Data.<table>"
	}
	// the call result flows into the return value through additions only
	ok := false
	for _, rt := range ssau.Returns(calc) {
		if addsInto(rt.Results[0], call, map[ssa.Value]bool{}) {
			ok = true
		}
	}
	if !ok {
		return "", "its result is not added into the value calcPSISectionLength returns"
	}
	return fs[2], ""
}

func addsInto(v ssa.Value, term ssa.Value, seen map[ssa.Value]bool) bool {
	if v == term {
		return true
	}
	if seen[v] {
		return false
	}
	seen[v] = true
	switch x := v.(type) {
	case *ssa.BinOp:
		if x.Op == token.ADD {
			return addsInto(x.X, term, seen) || addsInto(x.Y, term, seen)
		}
	case *ssa.Phi:
		for _, e := range x.Edges {
			if addsInto(e, term, seen) {
				return true
			}
		}
	}
	return false
}

// sameObject: identical SSA values, or the same access path from a parameter (&m.pmt twice).
func sameObject(x, y ssa.Value) bool {
	if x == y {
		return true
	}
	px, ok1 := ssau.AccessPath(x)
	py, ok2 := ssau.AccessPath(y)
	if !ok1 || !ok2 || px == "" || px != py {
		return false
	}
	rx, _ := fieldChain(x)
	ry, _ := fieldChain(y)
	_, isParam := rx.(*ssa.Parameter)
	return isParam && rx == ry
}

// hiddenStores lists the stores into the fields the producer analysis reads (section graph handed to
// the writer) that do not go through the allocation itself: such a store may overwrite the value of a
// composite literal out of sight of the per-allocation def-use walk.
func (a *A) hiddenStores() []string {
	watched := map[string]map[string]bool{
		"PSISectionHeader":     {"SectionLength": true},
		"PSISection":           {"Header": true, "Syntax": true},
		"PSISectionSyntax":     {"Data": true},
		"PSISectionSyntaxData": {"PAT": true, "PMT": true},
		"PSIData":              {"Sections": true},
	}
	var out []string
	for _, f := range a.funcs {
		for _, b := range f.Blocks {
			for _, in := range b.Instrs {
				st, ok := in.(*ssa.Store)
				if !ok {
					continue
				}
				switch ad := st.Addr.(type) {
				case *ssa.FieldAddr:
					tn := namedName(ad.X.Type())
					n, _ := ssau.FieldName(ad)
					if !watched[tn][n] {
						continue
					}
					if _, isAlloc := ad.X.(*ssa.Alloc); !isAlloc {
						out = append(out, fmt.Sprintf("%s.%s assigned through %s in %s at %s", tn, n, ad.X.Name(), bare(f), a.ipos(st)))
					}
				case *ssa.IndexAddr:
					// element of a []*PSISection that is not a slice literal's backing array
					pt, isP := ad.Type().(*types.Pointer)
					if !isP || namedName(pt.Elem()) != "PSISection" {
						continue
					}
					if _, isPtr := pt.Elem().(*types.Pointer); !isPtr {
						continue
					}
					if al, isAlloc := ad.X.(*ssa.Alloc); !isAlloc || (al.Comment != "slicelit" && al.Comment != "varargs") {
						out = append(out, fmt.Sprintf("element of a []*PSISection assigned in %s at %s", bare(f), a.ipos(st)))
					}
				case *ssa.Alloc:
				default:
					// whole-struct store through a pointer
					if pt, isP := st.Addr.Type().(*types.Pointer); isP {
						if tn := namedName(pt.Elem()); watched[tn] != nil && isStruct(pt.Elem()) {
							if _, isPtr := pt.Elem().(*types.Pointer); !isPtr {
								out = append(out, fmt.Sprintf("a whole %s assigned through a pointer in %s at %s", tn, bare(f), a.ipos(st)))
							}
						}
					}
				}
			}
		}
	}
	sort.Strings(out)
	return out
}
