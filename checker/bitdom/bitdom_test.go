package bitdom

import (
	"math/rand"
	"testing"
)

func envFor(src string, width int, x uint64) map[Atom]bool {
	m := map[Atom]bool{}
	for i := 0; i < width; i++ {
		m[Atom{src, i}] = x>>uint(i)&1 == 1
	}
	return m
}

func merged(ms ...map[Atom]bool) map[Atom]bool {
	o := map[Atom]bool{}
	for _, m := range ms {
		for k, v := range m {
			o[k] = v
		}
	}
	return o
}

func TestFormXorCanonical(t *testing.T) {
	a, b, c := AtomForm(Atom{"x", 0}), AtomForm(Atom{"x", 1}), AtomForm(Atom{"a", 5})
	l := a.Xor(b).Xor(c).Xor(One())
	r := One().Xor(c).Xor(b).Xor(a)
	if !l.Equal(r) {
		t.Fatalf("xor not canonical: %s vs %s", l, r)
	}
	if got := l.String(); got != "1^a.5^x.0^x.1" {
		t.Fatalf("String = %q", got)
	}
	if !l.Xor(r).IsZero() {
		t.Fatalf("f^f != 0: %s", l.Xor(r))
	}
	if v, ok := a.Xor(a).Xor(One()).IsConst(); !ok || !v {
		t.Fatalf("a^a^1 should be const 1")
	}
	if _, ok := a.IsConst(); ok {
		t.Fatalf("atom reported constant")
	}
	if a.Equal(b) || a.Equal(a.Not()) {
		t.Fatalf("distinct forms equal")
	}
}

func TestFormDoesNotAlias(t *testing.T) {
	a := AtomForm(Atom{"x", 0}).Xor(AtomForm(Atom{"x", 2}))
	b := a.MulConst(true)
	b.Atoms[0] = Atom{"y", 9}
	if a.Atoms[0] != (Atom{"x", 0}) {
		t.Fatalf("MulConst result aliases its operand")
	}
}

func TestTop(t *testing.T) {
	a, b := AtomForm(Atom{"x", 0}), AtomForm(Atom{"x", 1})
	top := a.And(b)
	if !top.Top || len(top.Atoms) != 2 {
		t.Fatalf("a&b should be Top with support {a,b}: %s", top)
	}
	if top.Equal(top) {
		t.Fatalf("Top must not be Equal to anything")
	}
	if _, ok := top.IsConst(); ok {
		t.Fatalf("Top reported constant")
	}
	x := top.Xor(AtomForm(Atom{"y", 3}))
	if !x.Top || len(x.Atoms) != 3 {
		t.Fatalf("Top^atom should be Top with enlarged support: %s", x)
	}
	if !top.MulConst(false).IsZero() {
		t.Fatalf("Top&0 should be 0")
	}
	if !a.And(a).Equal(a) || !a.Or(a).Equal(a) {
		t.Fatalf("idempotence lost")
	}
	if v, ok := a.Or(One()).IsConst(); !ok || !v {
		t.Fatalf("a|1 should be 1")
	}
	if !a.Or(Zero()).Equal(a) || !a.And(One()).Equal(a) || !a.And(Zero()).IsZero() {
		t.Fatalf("constant absorption wrong")
	}
	tf := TopForm(Atom{"b", 1}, Atom{"a", 1}, Atom{"b", 1})
	if got := tf.String(); got != "TOP{a.1,b.1}" {
		t.Fatalf("TopForm support not canonical: %s", got)
	}
	if _, ok := top.Eval(nil); ok {
		t.Fatalf("Top evaluated")
	}
}

func TestConst(t *testing.T) {
	v := Const(32, 0x04C11DB7)
	if x, ok := v.IsConst(); !ok || x != 0x04C11DB7 {
		t.Fatalf("Const round trip: %#x %v", x, ok)
	}
	if x, _ := Const(8, 0x1ff).IsConst(); x != 0xff {
		t.Fatalf("Const must truncate: %#x", x)
	}
	if _, ok := FromAtoms("a", 8).IsConst(); ok {
		t.Fatalf("atoms reported constant")
	}
}

// every exact operation agrees with uint32/uint8 arithmetic on random inputs
func TestOpsAgainstConcrete(t *testing.T) {
	rng := rand.New(rand.NewSource(1))
	A, B := FromAtoms("a", 32), FromAtoms("b", 32)
	for n := 0; n < 300; n++ {
		a, b := rng.Uint32(), rng.Uint32()
		k := rng.Intn(40)
		m := rng.Uint32()
		env := merged(envFor("a", 32, uint64(a)), envFor("b", 32, uint64(b)))
		check := func(name string, v Vec, want uint32) {
			t.Helper()
			got, ok := v.Eval(env)
			if !ok || uint32(got) != want || got>>32 != 0 {
				t.Fatalf("%s: a=%#x b=%#x k=%d m=%#x: got %#x ok=%v want %#x", name, a, b, k, m, got, ok, want)
			}
		}
		check("shl", A.Shl(k), a<<uint(k))
		check("shr", A.Shr(k), a>>uint(k))
		check("xor", A.Xor(B), a^b)
		check("not", A.Not(), ^a)
		check("andconst", A.AndConst(uint64(m)), a&m)
		check("xorconst", A.Xor(Const(32, uint64(m))), a^m)
		check("and-with-const-vec", A.And(Const(32, uint64(m))), a&m)
		check("or-with-const-vec", A.Or(Const(32, uint64(m))), a|m)
		check("trunc8-zext32", A.Trunc(8).ZeroExt(32), uint32(uint8(a)))
		check("resize", A.Resize(16).Resize(32), uint32(uint16(a)))
		lo, hi := A.AndConst(0x0000ffff), B.Shl(16)
		or, ok := lo.OrDisjoint(hi)
		if !ok {
			t.Fatalf("disjoint or rejected")
		}
		check("ordisjoint", or, a&0xffff|b<<16)
		check("add-const-free-carry", A.Shl(8).Add(B.Shr(24)), a<<8+b>>24)
		check("composite", A.Shl(8).Xor(A.Shr(24).Xor(B.Trunc(8).ZeroExt(32)).AndConst(0xff)), a<<8^((a>>24^uint32(uint8(b)))&0xff))
	}
}

func TestOrDisjointRejectsOverlap(t *testing.T) {
	A, B := FromAtoms("a", 8), FromAtoms("b", 8)
	if _, ok := A.OrDisjoint(B); ok {
		t.Fatalf("overlapping or accepted")
	}
	if _, ok := A.AndConst(0x0f).OrDisjoint(B.AndConst(0xf8)); ok {
		t.Fatalf("overlap at bit 3 accepted")
	}
	if _, ok := A.AndConst(0x0f).OrDisjoint(Const(8, 0x08)); ok {
		t.Fatalf("overlap with constant 1 accepted")
	}
	if v, ok := A.AndConst(0x0f).OrDisjoint(Const(8, 0xf0)); !ok || !v[7].Equal(One()) || !v[0].Equal(A[0]) {
		t.Fatalf("disjoint or with constant wrong: %v %v", v, ok)
	}
}

func TestAddOverApproximates(t *testing.T) {
	A, B := FromAtoms("a", 8), FromAtoms("b", 8)
	s := A.Add(B)
	if s[0].Top || !s[0].Equal(A[0].Xor(B[0])) {
		t.Fatalf("bit 0 of a sum is exactly a0^b0, got %s", s[0])
	}
	if !s[1].Top || !s.HasTop() {
		t.Fatalf("bit 1 of a+b must be Top, got %s", s[1])
	}
	// support of bit 2 mentions only bits 0..2 of either operand
	for _, at := range s[2].Support() {
		if at.Bit > 2 {
			t.Fatalf("support of sum bit 2 too large: %s", s[2])
		}
	}
	if s.Equal(s) {
		t.Fatalf("vector with Top bits must not be Equal")
	}
	c := Const(8, 200).Add(Const(8, 100))
	if x, ok := c.IsConst(); !ok || x != 44 {
		t.Fatalf("constant add wraps: %d %v", x, ok)
	}
}

func TestWidthChecks(t *testing.T) {
	mustPanic := func(name string, f func()) {
		t.Helper()
		defer func() {
			if recover() == nil {
				t.Fatalf("%s did not panic", name)
			}
		}()
		f()
	}
	mustPanic("xor", func() { FromAtoms("a", 8).Xor(FromAtoms("b", 9)) })
	mustPanic("trunc", func() { FromAtoms("a", 8).Trunc(9) })
	mustPanic("zext", func() { FromAtoms("a", 8).ZeroExt(7) })
	mustPanic("shl", func() { FromAtoms("a", 8).Shl(-1) })
}

// the motivating use: the table-driven CRC-32/MPEG-2 byte step equals 8 bit-serial steps
func TestCRCStepSymbolic(t *testing.T) {
	const poly = 0x04C11DB7
	var tab [256]uint32
	for i := range tab {
		c := uint32(i) << 24
		for k := 0; k < 8; k++ {
			if c&0x80000000 != 0 {
				c = c<<1 ^ poly
			} else {
				c <<= 1
			}
		}
		tab[i] = c
	}
	crc, b := FromAtoms("crc", 32), FromAtoms("b", 8)
	// table driven
	idx := crc.Shr(24).Xor(b.ZeroExt(32)).AndConst(0xff)
	look := Const(32, 0)
	for k := 0; k < 8; k++ {
		for j := 0; j < 32; j++ {
			look[j] = look[j].Xor(idx[k].MulConst(tab[1<<uint(k)]>>uint(j)&1 == 1))
		}
	}
	code := crc.Shl(8).Xor(look)
	// bit serial
	ref := crc
	for i := 7; i >= 0; i-- {
		fb := ref[31].Xor(b[i])
		ref = ref.Shl(1)
		for j := 0; j < 32; j++ {
			ref[j] = ref[j].Xor(fb.MulConst(poly>>uint(j)&1 == 1))
		}
	}
	if !code.Equal(ref) {
		t.Fatalf("table step != bit-serial step\ncode %s\nref  %s", code, ref)
	}
	if code.Shl(1).Equal(ref) || crc.Shl(7).Xor(look).Equal(ref) {
		t.Fatalf("mutated step compared equal")
	}
}
