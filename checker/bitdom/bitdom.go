// Package bitdom is a small abstract domain of fixed-width bit-vectors whose bits are GF(2)-affine
// forms over named input bits ("atoms").
//
//	Form  one bit:  c XOR a1 XOR a2 XOR ...   (c a constant bit, ai distinct atoms)
//	Vec   a little-endian vector of forms: index 0 is the least significant bit
//
// All operations that are GF(2)-affine (shifts by constants, xor, and-with-constant, or of
// bit-disjoint operands, truncation, zero extension, xor-with-constant) are exact. A bit whose value
// is not an affine function of the atoms is represented by a Top form that only remembers the set
// of atoms it may depend on (its support), so that non-affine arithmetic (general and/or, +, *) can
// be over-approximated without losing soundness: a Top form is never Equal to anything.
//
// Forms and vectors are immutable values: every operation returns fresh storage.
package bitdom

import (
	"fmt"
	"sort"
	"strings"
)

// Atom is one input bit: bit number Bit (0 = least significant) of the source named Src.
type Atom struct {
	Src string
	Bit int
}

func (a Atom) String() string { return fmt.Sprintf("%s.%d", a.Src, a.Bit) }

func atomLess(a, b Atom) bool {
	if a.Src != b.Src {
		return a.Src < b.Src
	}
	return a.Bit < b.Bit
}

// Form is one abstract bit. When Top is false the bit equals C XOR (XOR of Atoms); Atoms is sorted
// and duplicate-free, which makes the representation canonical. When Top is true the bit is an
// unknown function of (at most) the atoms in Atoms, and C is meaningless (kept false).
type Form struct {
	C     bool
	Atoms []Atom
	Top   bool
}

// Zero and One are the constant forms.
func Zero() Form { return Form{} }
func One() Form  { return Form{C: true} }

// Bit returns the constant form of b.
func Bit(b bool) Form { return Form{C: b} }

// AtomForm returns the form consisting of the single atom a.
func AtomForm(a Atom) Form { return Form{Atoms: []Atom{a}} }

// TopForm returns a non-affine form with the given support (sorted and deduplicated).
func TopForm(support ...Atom) Form {
	s := append([]Atom(nil), support...)
	sort.Slice(s, func(i, j int) bool { return atomLess(s[i], s[j]) })
	out := s[:0]
	for i, a := range s {
		if i == 0 || a != s[i-1] {
			out = append(out, a)
		}
	}
	if len(out) == 0 {
		out = nil
	}
	return Form{Top: true, Atoms: out}
}

// merge combines two sorted atom lists: symmetric difference when sym is true, union otherwise.
func merge(x, y []Atom, sym bool) []Atom {
	var out []Atom
	i, j := 0, 0
	for i < len(x) && j < len(y) {
		switch {
		case x[i] == y[j]:
			if !sym {
				out = append(out, x[i])
			}
			i++
			j++
		case atomLess(x[i], y[j]):
			out = append(out, x[i])
			i++
		default:
			out = append(out, y[j])
			j++
		}
	}
	out = append(out, x[i:]...)
	out = append(out, y[j:]...)
	return out
}

// Xor returns f XOR g. The result is Top (with the union of the supports) if either side is Top.
func (f Form) Xor(g Form) Form {
	if f.Top || g.Top {
		return Form{Top: true, Atoms: merge(f.Atoms, g.Atoms, false)}
	}
	return Form{C: f.C != g.C, Atoms: merge(f.Atoms, g.Atoms, true)}
}

// Not returns the complement of f.
func (f Form) Not() Form { return f.Xor(One()) }

// MulConst returns f AND b for a constant bit b.
func (f Form) MulConst(b bool) Form {
	if !b {
		return Zero()
	}
	return f.clone()
}

// And returns f AND g: exact when one side is constant or both sides are the same affine form,
// Top otherwise.
func (f Form) And(g Form) Form {
	if v, ok := f.IsConst(); ok {
		return g.MulConst(v)
	}
	if v, ok := g.IsConst(); ok {
		return f.MulConst(v)
	}
	if f.Equal(g) {
		return f.clone()
	}
	return Form{Top: true, Atoms: merge(f.Atoms, g.Atoms, false)}
}

// Or returns f OR g: exact when one side is constant or both sides are the same affine form,
// Top otherwise.
func (f Form) Or(g Form) Form {
	if v, ok := f.IsConst(); ok {
		if v {
			return One()
		}
		return g.clone()
	}
	if v, ok := g.IsConst(); ok {
		if v {
			return One()
		}
		return f.clone()
	}
	if f.Equal(g) {
		return f.clone()
	}
	return Form{Top: true, Atoms: merge(f.Atoms, g.Atoms, false)}
}

// IsConst reports whether f is a constant bit, and its value.
func (f Form) IsConst() (value, ok bool) {
	if f.Top || len(f.Atoms) != 0 {
		return false, false
	}
	return f.C, true
}

// IsZero reports whether f is the constant 0.
func (f Form) IsZero() bool { v, ok := f.IsConst(); return ok && !v }

// Equal reports whether f and g are the same affine function. A Top form is equal to nothing
// (not even to itself): equality is only ever claimed when it is proved.
func (f Form) Equal(g Form) bool {
	if f.Top || g.Top || f.C != g.C || len(f.Atoms) != len(g.Atoms) {
		return false
	}
	for i := range f.Atoms {
		if f.Atoms[i] != g.Atoms[i] {
			return false
		}
	}
	return true
}

// Support returns the atoms f may depend on.
func (f Form) Support() []Atom { return append([]Atom(nil), f.Atoms...) }

// Eval evaluates an affine form under an assignment of the atoms (missing atoms are 0).
// ok is false for Top forms.
func (f Form) Eval(env map[Atom]bool) (value, ok bool) {
	if f.Top {
		return false, false
	}
	v := f.C
	for _, a := range f.Atoms {
		if env[a] {
			v = !v
		}
	}
	return v, true
}

func (f Form) clone() Form {
	return Form{C: f.C, Top: f.Top, Atoms: append([]Atom(nil), f.Atoms...)}
}

// String renders the canonical form, e.g. "0", "1^crc.31^b.7", "TOP{b.0,b.1}".
func (f Form) String() string {
	if f.Top {
		parts := make([]string, len(f.Atoms))
		for i, a := range f.Atoms {
			parts[i] = a.String()
		}
		return "TOP{" + strings.Join(parts, ",") + "}"
	}
	if len(f.Atoms) == 0 {
		if f.C {
			return "1"
		}
		return "0"
	}
	var parts []string
	if f.C {
		parts = append(parts, "1")
	}
	for _, a := range f.Atoms {
		parts = append(parts, a.String())
	}
	return strings.Join(parts, "^")
}

// Vec is a bit-vector of forms; index 0 is the least significant bit, len(v) is the width.
type Vec []Form

// Const returns the constant vector of the given width holding value (truncated to width).
func Const(width int, value uint64) Vec {
	v := make(Vec, width)
	for i := 0; i < width && i < 64; i++ {
		v[i].C = value>>uint(i)&1 == 1
	}
	return v
}

// FromAtoms returns the vector whose bit i is the atom {src, i}.
func FromAtoms(src string, width int) Vec {
	v := make(Vec, width)
	for i := range v {
		v[i] = AtomForm(Atom{src, i})
	}
	return v
}

// TopVec returns a vector of the given width all of whose bits are Top with the given support.
func TopVec(width int, support ...Atom) Vec {
	t := TopForm(support...)
	v := make(Vec, width)
	for i := range v {
		v[i] = t.clone()
	}
	return v
}

// Width is the number of bits.
func (v Vec) Width() int { return len(v) }

func (v Vec) clone() Vec {
	o := make(Vec, len(v))
	for i := range v {
		o[i] = v[i].clone()
	}
	return o
}

func sameWidth(op string, v, w Vec) {
	if len(v) != len(w) {
		panic(fmt.Sprintf("bitdom: %s of vectors of different widths %d and %d", op, len(v), len(w)))
	}
}

// Shl is the logical left shift by k >= 0 within the width (bits shifted out are lost; k >= width
// gives 0, as for Go's unsigned integers).
func (v Vec) Shl(k int) Vec {
	if k < 0 {
		panic("bitdom: negative shift count")
	}
	o := make(Vec, len(v))
	for i := range o {
		if i-k >= 0 {
			o[i] = v[i-k].clone()
		}
	}
	return o
}

// Shr is the logical right shift by k >= 0 within the width (zeros enter from the top).
func (v Vec) Shr(k int) Vec {
	if k < 0 {
		panic("bitdom: negative shift count")
	}
	o := make(Vec, len(v))
	for i := range o {
		if i+k >= 0 && i+k < len(v) {
			o[i] = v[i+k].clone()
		}
	}
	return o
}

// Xor is the bitwise exclusive or of two vectors of equal width.
func (v Vec) Xor(w Vec) Vec {
	sameWidth("Xor", v, w)
	o := make(Vec, len(v))
	for i := range o {
		o[i] = v[i].Xor(w[i])
	}
	return o
}

// Not is the bitwise complement.
func (v Vec) Not() Vec {
	o := make(Vec, len(v))
	for i := range o {
		o[i] = v[i].Not()
	}
	return o
}

// AndConst is the bitwise and with a constant mask (mask bits at positions >= 64 are 0).
func (v Vec) AndConst(mask uint64) Vec {
	o := make(Vec, len(v))
	for i := range o {
		o[i] = v[i].MulConst(i < 64 && mask>>uint(i)&1 == 1)
	}
	return o
}

// OrDisjoint is the bitwise or of two vectors of equal width that never have a possibly-nonzero
// bit at the same position; under that condition or coincides with xor and stays affine.
// ok is false (and the result nil) if some position is possibly nonzero on both sides.
func (v Vec) OrDisjoint(w Vec) (Vec, bool) {
	sameWidth("OrDisjoint", v, w)
	o := make(Vec, len(v))
	for i := range o {
		switch {
		case v[i].IsZero():
			o[i] = w[i].clone()
		case w[i].IsZero():
			o[i] = v[i].clone()
		default:
			return nil, false
		}
	}
	return o, true
}

// And is the general bitwise and (bits become Top where neither side is constant).
func (v Vec) And(w Vec) Vec {
	sameWidth("And", v, w)
	o := make(Vec, len(v))
	for i := range o {
		o[i] = v[i].And(w[i])
	}
	return o
}

// Or is the general bitwise or (bits become Top where neither side is constant).
func (v Vec) Or(w Vec) Vec {
	sameWidth("Or", v, w)
	o := make(Vec, len(v))
	for i := range o {
		o[i] = v[i].Or(w[i])
	}
	return o
}

// Add is the wrapping sum of two vectors of equal width: exact as long as the carry chain is
// provably 0 (one operand bit constant 0 at each position so far), Top above the first position
// where a carry may be generated.
func (v Vec) Add(w Vec) Vec {
	sameWidth("Add", v, w)
	o := make(Vec, len(v))
	carry := Zero()
	for i := range o {
		o[i] = v[i].Xor(w[i]).Xor(carry)
		// carry' = maj(v,w,carry) = v&w | carry&(v^w)
		carry = v[i].And(w[i]).Or(carry.And(v[i].Xor(w[i])))
	}
	return o
}

// Trunc keeps the low width bits (width <= len(v)).
func (v Vec) Trunc(width int) Vec {
	if width < 0 || width > len(v) {
		panic(fmt.Sprintf("bitdom: Trunc(%d) of a %d-bit vector", width, len(v)))
	}
	return v[:width].clone()
}

// ZeroExt widens to width bits (width >= len(v)) with constant-0 high bits.
func (v Vec) ZeroExt(width int) Vec {
	if width < len(v) {
		panic(fmt.Sprintf("bitdom: ZeroExt(%d) of a %d-bit vector", width, len(v)))
	}
	o := make(Vec, width)
	copy(o, v.clone())
	return o
}

// Resize truncates or zero-extends to width (the semantics of a conversion between unsigned
// integer types).
func (v Vec) Resize(width int) Vec {
	if width <= len(v) {
		return v.Trunc(width)
	}
	return v.ZeroExt(width)
}

// IsConst reports whether every bit is constant, and the value (width must be <= 64).
func (v Vec) IsConst() (uint64, bool) {
	if len(v) > 64 {
		return 0, false
	}
	var x uint64
	for i, f := range v {
		b, ok := f.IsConst()
		if !ok {
			return 0, false
		}
		if b {
			x |= 1 << uint(i)
		}
	}
	return x, true
}

// HasTop reports whether some bit is non-affine.
func (v Vec) HasTop() bool {
	for _, f := range v {
		if f.Top {
			return true
		}
	}
	return false
}

// Equal reports whether the vectors have the same width and bitwise Equal forms.
func (v Vec) Equal(w Vec) bool {
	if len(v) != len(w) {
		return false
	}
	for i := range v {
		if !v[i].Equal(w[i]) {
			return false
		}
	}
	return true
}

// Eval evaluates an affine vector of width <= 64 under an assignment of the atoms.
func (v Vec) Eval(env map[Atom]bool) (uint64, bool) {
	if len(v) > 64 {
		return 0, false
	}
	var x uint64
	for i, f := range v {
		b, ok := f.Eval(env)
		if !ok {
			return 0, false
		}
		if b {
			x |= 1 << uint(i)
		}
	}
	return x, true
}

// String lists the bits from most to least significant.
func (v Vec) String() string {
	parts := make([]string, len(v))
	for i := range v {
		parts[len(v)-1-i] = v[i].String()
	}
	return "[" + strings.Join(parts, " | ") + "]"
}

// Subst replaces every atom a of f by m(a); atoms for which m reports false are kept. The result is Top
// when f is Top or a replacement is Top (the support is the union of the replacements' supports).
func (f Form) Subst(m func(Atom) (Form, bool)) Form {
	res := Form{C: f.C}
	top := f.Top
	if top {
		res.C = false
	}
	var support []Atom
	for _, a := range f.Atoms {
		g, ok := m(a)
		if !ok {
			g = AtomForm(a)
		}
		if top || g.Top {
			top = true
			support = append(support, g.Atoms...)
			support = append(support, res.Atoms...)
			res = Form{}
			continue
		}
		res = res.Xor(g)
	}
	if top {
		return TopForm(append(support, res.Atoms...)...)
	}
	return res
}

// Subst applies Form.Subst to every bit.
func (v Vec) Subst(m func(Atom) (Form, bool)) Vec {
	o := make(Vec, len(v))
	for i := range v {
		o[i] = v[i].Subst(m)
	}
	return o
}

// SignExt widens to width bits replicating the most significant bit.
func (v Vec) SignExt(width int) Vec {
	if width <= len(v) || len(v) == 0 {
		return v.Resize(width)
	}
	o := make(Vec, width)
	copy(o, v.clone())
	for i := len(v); i < width; i++ {
		o[i] = v[len(v)-1].clone()
	}
	return o
}
