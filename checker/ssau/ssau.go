// Package ssau holds SSA helpers shared by the engines: callee resolution through type
// information, looking through spill slots and phis, edge dominance, error idioms.
package ssau

import (
	"go/constant"
	"go/token"
	"go/types"
	"sort"
	"strings"

	"golang.org/x/tools/go/ssa"
)

// CalleeName returns a qualified name for the callee of a call: "pkgpath.Func",
// "(pkgpath.T).Method" / "(*pkgpath.T).Method", or "iface:(pkgpath.I).Method" for interface
// invocations; "" for dynamic calls of function values; "builtin:name" for builtins.
func CalleeName(c *ssa.CallCommon) string {
	if c.IsInvoke() {
		recv := c.Value.Type()
		return "iface:(" + types.TypeString(recv, nil) + ")." + c.Method.Name()
	}
	switch v := c.Value.(type) {
	case *ssa.Builtin:
		return "builtin:" + v.Name()
	case *ssa.Function:
		return FuncQName(v)
	case *ssa.MakeClosure:
		if f, ok := v.Fn.(*ssa.Function); ok {
			return FuncQName(f)
		}
	}
	return ""
}

// StaticCallee returns the statically known callee function, or nil.
func StaticCallee(c *ssa.CallCommon) *ssa.Function { return c.StaticCallee() }

// FuncQName returns the qualified name of a function.
func FuncQName(f *ssa.Function) string {
	if f == nil {
		return ""
	}
	if f.Parent() != nil {
		return FuncQName(f.Parent()) + "$" + f.Name()
	}
	if recv := f.Signature.Recv(); recv != nil {
		return "(" + types.TypeString(recv.Type(), nil) + ")." + f.Name()
	}
	if f.Pkg != nil {
		return f.Pkg.Pkg.Path() + "." + f.Name()
	}
	if o := f.Object(); o != nil && o.Pkg() != nil {
		return o.Pkg().Path() + "." + f.Name()
	}
	return f.Name()
}

// IsErrorType reports whether t is the predeclared error type.
func IsErrorType(t types.Type) bool {
	n, ok := t.(*types.Named)
	return ok && n.Obj().Pkg() == nil && n.Obj().Name() == "error"
}

// ErrorResultIndex returns the index of the (last) error result of a signature, or -1.
func ErrorResultIndex(sig *types.Signature) int {
	r := sig.Results()
	for i := r.Len() - 1; i >= 0; i-- {
		if IsErrorType(r.At(i).Type()) {
			return i
		}
	}
	return -1
}

// IsNamed reports whether t (after stripping one pointer) is the named type pkgpath.name.
func IsNamed(t types.Type, pkgpath, name string) bool {
	if p, ok := t.(*types.Pointer); ok {
		t = p.Elem()
	}
	n, ok := t.(*types.Named)
	if !ok || n.Obj().Pkg() == nil {
		return false
	}
	return n.Obj().Pkg().Path() == pkgpath && n.Obj().Name() == name
}

// ResultValue returns the SSA values that carry result #idx of a call instruction (the call itself
// when the callee has a single result, else its Extract instructions).
func ResultValue(call ssa.Value, idx int) []ssa.Value {
	sig := callSig(call)
	if sig == nil {
		return nil
	}
	if sig.Results().Len() == 1 {
		if idx == 0 {
			return []ssa.Value{call}
		}
		return nil
	}
	var out []ssa.Value
	for _, r := range *call.Referrers() {
		if e, ok := r.(*ssa.Extract); ok && e.Index == idx {
			out = append(out, e)
		}
	}
	return out
}

func callSig(v ssa.Value) *types.Signature {
	c, ok := v.(*ssa.Call)
	if !ok {
		return nil
	}
	return c.Call.Signature()
}

// IsNilConst reports whether v is the nil constant.
func IsNilConst(v ssa.Value) bool {
	c, ok := v.(*ssa.Const)
	return ok && c.Value == nil
}

// ConstInt returns the integer value of a constant.
func ConstInt(v ssa.Value) (int64, bool) {
	c, ok := v.(*ssa.Const)
	if !ok || c.Value == nil {
		return 0, false
	}
	if c.Value.Kind() != constant.Int {
		return 0, false
	}
	return c.Int64(), true
}

// ConstBool returns the boolean value of a constant.
func ConstBool(v ssa.Value) (bool, bool) {
	c, ok := v.(*ssa.Const)
	if !ok || c.Value == nil || c.Value.Kind() != constant.Bool {
		return false, false
	}
	return constant.BoolVal(c.Value), true
}

// SpillSlot reports whether a is an Alloc used only by direct loads and stores (a spilled local or
// named result, never address-taken otherwise).
func SpillSlot(a *ssa.Alloc) bool {
	for _, r := range *a.Referrers() {
		switch r := r.(type) {
		case *ssa.Store:
			if r.Addr != a {
				return false
			}
		case *ssa.UnOp:
			if r.Op != token.MUL {
				return false
			}
		case *ssa.DebugRef:
		default:
			return false
		}
	}
	return true
}

// ReachingStores returns the values that may be stored in spill slot a when control reaches
// instruction at (searching backwards through the CFG). zero is set when a path reaches the
// function entry without a store (the slot still holds its zero value).
func ReachingStores(a *ssa.Alloc, at ssa.Instruction) (vals []ssa.Value, zero bool) {
	type key struct {
		b *ssa.BasicBlock
	}
	seen := map[*ssa.BasicBlock]bool{}
	var walk func(b *ssa.BasicBlock, from int)
	walk = func(b *ssa.BasicBlock, from int) {
		for i := from; i >= 0; i-- {
			if st, ok := b.Instrs[i].(*ssa.Store); ok && st.Addr == a {
				vals = append(vals, st.Val)
				return
			}
			if b.Instrs[i] == ssa.Instruction(a) {
				zero = true
				return
			}
		}
		if len(b.Preds) == 0 {
			zero = true
			return
		}
		for _, p := range b.Preds {
			if seen[p] {
				continue
			}
			seen[p] = true
			walk(p, len(p.Instrs)-1)
		}
	}
	b := at.Block()
	idx := indexOf(b, at)
	walk(b, idx-1)
	return
}

func indexOf(b *ssa.BasicBlock, in ssa.Instruction) int {
	for i, x := range b.Instrs {
		if x == in {
			return i
		}
	}
	return len(b.Instrs)
}

// IndexOf returns the index of an instruction in its block.
func IndexOf(in ssa.Instruction) int { return indexOf(in.Block(), in) }

// Leaves resolves v through Phi nodes, spill-slot loads, ChangeInterface/MakeInterface/ChangeType
// and returns the set of leaf values (deduplicated). A nil entry means "zero value of a slot".
func Leaves(v ssa.Value) []ssa.Value {
	var out []ssa.Value
	seen := map[ssa.Value]bool{}
	zeroSeen := false
	var rec func(v ssa.Value)
	rec = func(v ssa.Value) {
		if v == nil || seen[v] {
			return
		}
		seen[v] = true
		switch x := v.(type) {
		case *ssa.Phi:
			for _, e := range x.Edges {
				rec(e)
			}
			return
		case *ssa.ChangeInterface:
			rec(x.X)
			return
		case *ssa.ChangeType:
			rec(x.X)
			return
		case *ssa.UnOp:
			if x.Op == token.MUL {
				if a, ok := x.X.(*ssa.Alloc); ok && SpillSlot(a) {
					vals, zero := ReachingStores(a, x)
					for _, s := range vals {
						rec(s)
					}
					if zero && !zeroSeen {
						zeroSeen = true
						out = append(out, nil)
					}
					return
				}
			}
		}
		out = append(out, v)
	}
	rec(v)
	return out
}

// GlobalOf returns the package-level variable loaded by v (v = *global), or nil.
func GlobalOf(v ssa.Value) *ssa.Global {
	u, ok := v.(*ssa.UnOp)
	if !ok || u.Op != token.MUL {
		return nil
	}
	g, _ := u.X.(*ssa.Global)
	return g
}

// GlobalName returns "pkgpath.Name" of a global.
func GlobalName(g *ssa.Global) string {
	if g == nil {
		return ""
	}
	return g.Pkg.Pkg.Path() + "." + g.Name()
}

// VarargValues returns the values stored into the variadic slice passed as argument v
// (v = slice(alloc [n]T)[:]); ok=false if the shape is not recognised.
func VarargValues(v ssa.Value) (vals []ssa.Value, ok bool) {
	if IsNilConst(v) {
		return nil, true
	}
	sl, isSl := v.(*ssa.Slice)
	if !isSl {
		return nil, false
	}
	a, isA := sl.X.(*ssa.Alloc)
	if !isA {
		return nil, false
	}
	for _, r := range *a.Referrers() {
		ia, isIA := r.(*ssa.IndexAddr)
		if !isIA {
			continue
		}
		for _, rr := range *ia.Referrers() {
			if st, isSt := rr.(*ssa.Store); isSt && st.Addr == ia {
				vals = append(vals, st.Val)
			}
		}
	}
	return vals, true
}

// StripIface removes MakeInterface / ChangeInterface wrappers.
func StripIface(v ssa.Value) ssa.Value {
	for {
		switch x := v.(type) {
		case *ssa.MakeInterface:
			v = x.X
		case *ssa.ChangeInterface:
			v = x.X
		default:
			return v
		}
	}
}

// NilCompare describes `x != nil` / `x == nil`.
type NilCompare struct {
	X  ssa.Value
	Ne bool
}

// AsNilCompare recognises a comparison of a value against nil.
func AsNilCompare(v ssa.Value) (NilCompare, bool) {
	b, ok := v.(*ssa.BinOp)
	if !ok || (b.Op != token.NEQ && b.Op != token.EQL) {
		return NilCompare{}, false
	}
	if IsNilConst(b.Y) {
		return NilCompare{X: b.X, Ne: b.Op == token.NEQ}, true
	}
	if IsNilConst(b.X) {
		return NilCompare{X: b.Y, Ne: b.Op == token.NEQ}, true
	}
	return NilCompare{}, false
}

// EdgeGuards returns, for block b, the list of (If instruction, successor index) edges that
// dominate b in the strict sense "every path to b passes through this edge": the successor
// block has the If's block as its only predecessor and dominates b.
type Edge struct {
	If   *ssa.If
	Succ int
}

// DominatingEdges lists the conditional edges all paths to b pass through.
func DominatingEdges(b *ssa.BasicBlock) []Edge {
	var out []Edge
	for d := b; d != nil; d = d.Idom() {
		if len(d.Preds) != 1 {
			continue
		}
		p := d.Preds[0]
		if len(p.Instrs) == 0 {
			continue
		}
		iff, ok := p.Instrs[len(p.Instrs)-1].(*ssa.If)
		if !ok {
			continue
		}
		for i, s := range p.Succs {
			if s == d {
				// both successors identical would make the edge meaningless
				if p.Succs[0] == p.Succs[1] {
					continue
				}
				out = append(out, Edge{If: iff, Succ: i})
			}
		}
	}
	return out
}

// NilAt reports whether value v is known nil in block b: b is dominated by the nil edge of a nil comparison of v.
func NilAt(v ssa.Value, b *ssa.BasicBlock) bool {
	for _, e := range DominatingEdges(b) {
		nc, ok := AsNilCompare(e.If.Cond)
		if !ok || !sameValue(nc.X, v) {
			continue
		}
		// Ne: cond is v != nil: nil edge is the false successor (1); Eq: true successor (0)
		nilSucc := 0
		if nc.Ne {
			nilSucc = 1
		}
		if e.Succ == nilSucc {
			return true
		}
	}
	return false
}

// NonNilAt reports whether value v is known non-nil in block b because b is dominated by the
// non-nil edge of a nil comparison of v (or of a value that resolves to the same leaves).
func NonNilAt(v ssa.Value, b *ssa.BasicBlock) bool {
	for _, e := range DominatingEdges(b) {
		nc, ok := AsNilCompare(e.If.Cond)
		if !ok {
			continue
		}
		nonNilSucc := 1
		if nc.Ne {
			nonNilSucc = 0
		}
		if e.Succ != nonNilSucc {
			continue
		}
		if sameValue(nc.X, v) {
			return true
		}
	}
	return false
}

// sameValue: identical SSA value, or both are loads of the same spill slot with no intervening
// store (approximated by identical reaching-store sets).
func sameValue(a, b ssa.Value) bool {
	if a == b {
		return true
	}
	la, lb := Leaves(a), Leaves(b)
	if len(la) == 0 || len(la) != len(lb) {
		return false
	}
	set := map[ssa.Value]bool{}
	for _, x := range la {
		set[x] = true
	}
	for _, x := range lb {
		if !set[x] {
			return false
		}
	}
	return true
}

// SameValue is the exported form of sameValue.
func SameValue(a, b ssa.Value) bool { return sameValue(a, b) }

// IsErrorConstructor reports whether v is a call that always returns a non-nil error
// (fmt.Errorf, errors.New).
func IsErrorConstructor(v ssa.Value) bool {
	c, ok := v.(*ssa.Call)
	if !ok {
		return false
	}
	n := CalleeName(&c.Call)
	return n == "fmt.Errorf" || n == "errors.New"
}

// IsSentinelLoad reports whether v loads a package-level error variable (ErrXxx / errXxx / io.EOF…).
func IsSentinelLoad(v ssa.Value) bool {
	g := GlobalOf(v)
	return g != nil && IsErrorType(g.Type().(*types.Pointer).Elem())
}

// ProvablyNonNilError reports whether the error value v, used in block b, is non-nil on every path:
// each leaf is an error constructor, a sentinel load, or guarded by a dominating non-nil edge.
func ProvablyNonNilError(v ssa.Value, b *ssa.BasicBlock) bool {
	if NonNilAt(v, b) {
		return true
	}
	leaves := Leaves(v)
	if len(leaves) == 0 {
		return false
	}
	for _, l := range leaves {
		if l == nil {
			return false
		}
		if IsErrorConstructor(l) || IsSentinelLoad(l) {
			continue
		}
		if NonNilAt(l, b) {
			continue
		}
		// a phi edge value guarded in its own predecessor block is handled by NonNilPhi
		return false
	}
	return true
}

// NonNilOnAllEdges is a finer version for a value that is a Phi: every incoming edge value must be
// provably non-nil in its predecessor block.
func NonNilOnAllEdges(v ssa.Value, b *ssa.BasicBlock) bool {
	if ProvablyNonNilError(v, b) {
		return true
	}
	seen := map[ssa.Value]bool{}
	var rec func(v ssa.Value, b *ssa.BasicBlock) bool
	rec = func(v ssa.Value, b *ssa.BasicBlock) bool {
		if IsNilConst(v) {
			return false
		}
		if ProvablyNonNilError(v, b) {
			return true
		}
		switch x := v.(type) {
		case *ssa.Phi:
			if seen[x] {
				return true
			}
			seen[x] = true
			for i, e := range x.Edges {
				if !rec(e, x.Block().Preds[i]) {
					return false
				}
			}
			return true
		case *ssa.UnOp:
			if x.Op == token.MUL {
				if a, ok := x.X.(*ssa.Alloc); ok && SpillSlot(a) {
					if seen[x] {
						return true
					}
					seen[x] = true
					stores, zero := reachingStoreInstrs(a, x)
					if zero || len(stores) == 0 {
						return false
					}
					for _, st := range stores {
						if !rec(st.Val, st.Block()) {
							return false
						}
					}
					return true
				}
			}
		}
		return false
	}
	return rec(v, b)
}

func reachingStoreInstrs(a *ssa.Alloc, at ssa.Instruction) (sts []*ssa.Store, zero bool) {
	seen := map[*ssa.BasicBlock]bool{}
	var walk func(b *ssa.BasicBlock, from int)
	walk = func(b *ssa.BasicBlock, from int) {
		for i := from; i >= 0; i-- {
			if st, ok := b.Instrs[i].(*ssa.Store); ok && st.Addr == a {
				sts = append(sts, st)
				return
			}
			if b.Instrs[i] == ssa.Instruction(a) {
				zero = true
				return
			}
		}
		if len(b.Preds) == 0 {
			zero = true
			return
		}
		for _, p := range b.Preds {
			if seen[p] {
				continue
			}
			seen[p] = true
			walk(p, len(p.Instrs)-1)
		}
	}
	b := at.Block()
	walk(b, indexOf(b, at)-1)
	return
}

// Returns lists the Return instructions of f.
func Returns(f *ssa.Function) []*ssa.Return {
	var out []*ssa.Return
	for _, b := range f.Blocks {
		if len(b.Instrs) == 0 {
			continue
		}
		if r, ok := b.Instrs[len(b.Instrs)-1].(*ssa.Return); ok {
			out = append(out, r)
		}
	}
	return out
}

// Calls lists the call instructions (Call, Defer, Go) of f in block order.
func Calls(f *ssa.Function) []ssa.CallInstruction {
	var out []ssa.CallInstruction
	for _, b := range f.Blocks {
		for _, in := range b.Instrs {
			if c, ok := in.(ssa.CallInstruction); ok {
				out = append(out, c)
			}
		}
	}
	return out
}

// Reaches reports whether block to is reachable from block from (from itself counts).
func Reaches(from, to *ssa.BasicBlock) bool {
	seen := map[*ssa.BasicBlock]bool{}
	var st []*ssa.BasicBlock
	st = append(st, from)
	for len(st) > 0 {
		b := st[len(st)-1]
		st = st[:len(st)-1]
		if b == to {
			return true
		}
		if seen[b] {
			continue
		}
		seen[b] = true
		st = append(st, b.Succs...)
	}
	return false
}

// InstrBefore reports whether a executes before b on every path that executes both in straight
// line: a's block strictly dominates b's block, or same block and earlier index.
func InstrBefore(a, b ssa.Instruction) bool {
	if a.Block() == b.Block() {
		return indexOf(a.Block(), a) < indexOf(b.Block(), b)
	}
	return a.Block().Dominates(b.Block())
}

// ShortType renders a type without the package path noise.
func ShortType(t types.Type) string {
	s := types.TypeString(t, func(p *types.Package) string { return p.Name() })
	return strings.TrimPrefix(s, "untyped ")
}

// FieldName returns the name of the field addressed by a FieldAddr / Field instruction.
func FieldName(v ssa.Value) (string, bool) {
	switch x := v.(type) {
	case *ssa.FieldAddr:
		st := x.X.Type().Underlying().(*types.Pointer).Elem().Underlying().(*types.Struct)
		return st.Field(x.Field).Name(), true
	case *ssa.Field:
		st := x.X.Type().Underlying().(*types.Struct)
		return st.Field(x.Field).Name(), true
	}
	return "", false
}

// AccessPath renders the access path of an address or value rooted at a parameter, receiver,
// global or allocation: e.g. "m.pmt.ElementaryStreams", "*bytesPool". ok=false when the root is
// something else (call result, phi …).
func AccessPath(v ssa.Value) (string, bool) {
	switch x := v.(type) {
	case *ssa.Parameter:
		return x.Name(), true
	case *ssa.FreeVar:
		return x.Name(), true
	case *ssa.Global:
		return "&" + x.Name(), true
	case *ssa.Alloc:
		if x.Comment != "" {
			return "&" + x.Comment, true
		}
		return "&alloc", true
	case *ssa.FieldAddr:
		p, ok := AccessPath(x.X)
		n, _ := FieldName(x)
		return strings.TrimPrefix(p, "&") + "." + n, ok
	case *ssa.Field:
		p, ok := AccessPath(x.X)
		n, _ := FieldName(x)
		return strings.TrimPrefix(p, "&") + "." + n, ok
	case *ssa.UnOp:
		if x.Op == token.MUL {
			p, ok := AccessPath(x.X)
			return strings.TrimPrefix(p, "&"), ok
		}
	case *ssa.IndexAddr:
		p, ok := AccessPath(x.X)
		return strings.TrimPrefix(p, "&") + "[]", ok
	}
	return "", false
}

// Forwarders returns the functions of target's package that do nothing but pass arguments on to target (or to another forwarder):
// one basic block, whose only call is that one, and whose results are the call's results in order. The map gives, per parameter
// index of target, where the forwarder takes the argument from: a parameter index of its own (≥ 0), or -1 for anything else (a field
// of its receiver, a constant). `m.writeTSPacket(p)` = `writePacket(m.bitsWriter, p, m.packetSize)` is the instance this is for.
// Forwarder: Map[i] is the forwarder's own parameter index that supplies target parameter i (-1: something else); Inner is the one
// call in its body.
type Forwarder struct {
	Map   []int
	Inner *ssa.Call
}

func Forwarders(target *ssa.Function) map[*ssa.Function]Forwarder {
	known := map[*ssa.Function]Forwarder{}
	if target == nil || target.Pkg == nil {
		return known
	}
	for round := 0; round < 2; round++ {
		for _, mem := range allPkgFuncs(target.Pkg) {
			f := mem
			if _, done := known[f]; f == target || len(f.Blocks) != 1 || done {
				continue
			}
			var call *ssa.Call
			ncalls := 0
			clean := true
			for _, in := range f.Blocks[0].Instrs {
				switch x := in.(type) {
				case *ssa.Call:
					ncalls++
					call = x
				case *ssa.Store, *ssa.MapUpdate, *ssa.Send, *ssa.Go, *ssa.Defer:
					clean = false
				}
			}
			if ncalls != 1 || !clean {
				continue
			}
			cal := call.Call.StaticCallee()
			var inner []int // per target parameter: index into call.Call.Args
			switch {
			case cal == target:
				for i := range target.Params {
					inner = append(inner, i)
				}
			case cal != nil && known[cal].Map != nil:
				inner = known[cal].Map
			default:
				continue
			}
			ret, ok := f.Blocks[0].Instrs[len(f.Blocks[0].Instrs)-1].(*ssa.Return)
			if !ok {
				continue
			}
			good := true
			for i, rv := range ret.Results {
				if len(ret.Results) == 1 {
					if rv != ssa.Value(call) {
						good = false
					}
				} else if ex, isEx := rv.(*ssa.Extract); !isEx || ex.Tuple != ssa.Value(call) || ex.Index != i {
					good = false
				}
			}
			if !good {
				continue
			}
			m := make([]int, len(target.Params))
			for i := range m {
				m[i] = -1
				ai := inner[i]
				if ai < 0 || ai >= len(call.Call.Args) {
					continue
				}
				for j, p := range f.Params {
					if call.Call.Args[ai] == ssa.Value(p) {
						m[i] = j
					}
				}
			}
			known[f] = Forwarder{Map: m, Inner: call}
		}
	}
	return known
}

func allPkgFuncs(pkg *ssa.Package) []*ssa.Function {
	var out []*ssa.Function
	for _, mem := range pkg.Members {
		switch x := mem.(type) {
		case *ssa.Function:
			out = append(out, x)
		case *ssa.Type:
			for _, t := range []types.Type{x.Type(), types.NewPointer(x.Type())} {
				ms := pkg.Prog.MethodSets.MethodSet(t)
				for i := 0; i < ms.Len(); i++ {
					if fn := pkg.Prog.MethodValue(ms.At(i)); fn != nil && fn.Pkg == pkg && fn.Synthetic == "" {
						out = append(out, fn)
					}
				}
			}
		}
	}
	sort.Slice(out, func(i, j int) bool { return out[i].String() < out[j].String() })
	// methods appear for T and *T
	var uniq []*ssa.Function
	for i, f := range out {
		if i == 0 || out[i-1] != f {
			uniq = append(uniq, f)
		}
	}
	return uniq
}

// StoredInField: v — a call result or other register, possibly seen through the load that copies it for a value receiver — is
// stored by exactly one Store of its function into field `field` of a struct of named type owner, and is otherwise only loaded or
// used as the first argument (receiver) of static calls: `pm := newProgramMap(); pm.setUnlocked(…); m := &Muxer{pm: pm}`. What is
// done to v is done to that field of the object being built. It returns the store (nil when v is not of that shape).
func StoredInField(v ssa.Value, pkgPath, owner, field string) *ssa.Store {
	if u, ok := v.(*ssa.UnOp); ok && u.Op == token.MUL {
		v = u.X
	}
	if _, isInstr := v.(ssa.Instruction); !isInstr || v.Referrers() == nil {
		return nil
	}
	var found *ssa.Store
	for _, r := range *v.Referrers() {
		switch x := r.(type) {
		case *ssa.DebugRef:
		case *ssa.UnOp:
			if x.Op != token.MUL {
				return nil
			}
		case *ssa.Store:
			fa, ok := x.Addr.(*ssa.FieldAddr)
			if !ok || x.Val != v || found != nil {
				return nil
			}
			n, _ := FieldName(fa)
			pt, isP := fa.X.Type().Underlying().(*types.Pointer)
			if n != field || !isP || !IsNamed(pt.Elem(), pkgPath, owner) {
				return nil
			}
			found = x
		case ssa.CallInstruction:
			if x.Common().StaticCallee() == nil || len(x.Common().Args) == 0 || x.Common().Args[0] != v {
				return nil
			}
		default:
			return nil
		}
	}
	return found
}
