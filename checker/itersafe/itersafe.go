// Package itersafe is engine C: iterator-safety, index-safety and termination obligations decided
// by the path-sensitive abstract interpreter (package pathint).
package itersafe

import (
	"fmt"
	"go/token"
	"go/types"
	"sort"
	"strings"

	"astverif/lin"
	"astverif/load"
	"astverif/pathint"
	"astverif/report"
	"astverif/ssau"

	"golang.org/x/tools/go/ssa"
)

type site struct {
	rule, key, pos string
	paths          int
	failed         int
	lifted         int
	example        string
	what           string
}

// Checker implements pathint.Hooks.
type Checker struct {
	P     *load.Program
	IP    *pathint.Interp
	sites map[string]*site
	order []string
	ord   map[ssa.Instruction]string
	// loops
	loopSites map[string]*site
	Funcs     map[*ssa.Function]bool
}

// New creates the checker.
func New(p *load.Program) *Checker {
	c := &Checker{P: p, sites: map[string]*site{}, ord: map[ssa.Instruction]string{}, loopSites: map[string]*site{}, Funcs: map[*ssa.Function]bool{}}
	c.IP = pathint.New(p, c)
	c.IP.OnReqFail = func(st *pathint.State, rq pathint.Requirement, x *ssa.Call) {
		s := c.siteByKey(rq.Rule, rq.Site, p.Pos(rq.Pos), rq.Desc)
		s.paths++
		s.failed++
		if s.example == "" {
			s.example = fmt.Sprintf("precondition %s >= 0 not established at the call %s in %s [path: %s]", rq.F, p.Pos(x.Pos()), load.FuncName(st.Fn), st.PathDesc())
		}
	}
	return c
}

// ordinal key of an instruction: function/kind#n (n counts instructions of that kind in block order).
func (c *Checker) keyOf(in ssa.Instruction, kind string) string {
	if k, ok := c.ord[in]; ok {
		return k
	}
	f := in.Parent()
	counts := map[string]int{}
	for _, b := range f.Blocks {
		for _, i := range b.Instrs {
			k := instrKind(i)
			if k == "" {
				continue
			}
			counts[k]++
			c.ord[i] = fmt.Sprintf("%s/%s#%d", load.FuncName(f), k, counts[k])
		}
	}
	if k, ok := c.ord[in]; ok {
		return k
	}
	return fmt.Sprintf("%s/%s", load.FuncName(f), kind)
}

func (c *Checker) keyOfCall(call ssa.CallInstruction, name string) string {
	f := call.Parent()
	n := 0
	for _, b := range f.Blocks {
		for _, i := range b.Instrs {
			if ci, ok := i.(ssa.CallInstruction); ok && ssau.CalleeName(ci.Common()) == ssau.CalleeName(call.Common()) {
				n++
				if ci == call {
					return fmt.Sprintf("%s/%s#%d", load.FuncName(f), name, n)
				}
			}
		}
	}
	return load.FuncName(f) + "/" + name
}

func instrKind(i ssa.Instruction) string {
	switch x := i.(type) {
	case *ssa.IndexAddr, *ssa.Index:
		return "index"
	case *ssa.Slice:
		return "slice"
	case *ssa.MakeSlice:
		return "make"
	case ssa.CallInstruction:
		if f := x.Common().StaticCallee(); f != nil && f.Signature.Recv() != nil && ssau.IsNamed(f.Signature.Recv().Type(), load.AstikitPath, "BytesIterator") {
			return f.Name()
		}
		return ""
	case *ssa.UnOp:
		if x.Op == token.MUL {
			return "deref"
		}
	case *ssa.FieldAddr:
		return "fieldaddr"
	case *ssa.Store:
		return "store"
	}
	return ""
}

func (c *Checker) siteByKey(rule, key, pos, what string) *site {
	k := rule + "/" + key
	s, ok := c.sites[k]
	if !ok {
		s = &site{rule: rule, key: key, pos: pos, what: what}
		c.sites[k] = s
		c.order = append(c.order, k)
	}
	return s
}

func (c *Checker) require(st *pathint.State, rule string, in ssa.Instruction, kind string, f lin.Form, what string) {
	key := c.keyOf(in, kind)
	s := c.siteByKey(rule, key, c.P.Pos(in.Pos()), what)
	s.paths++
	ok, lifted := st.Require(rule, key, in.Pos(), f, what)
	if ok {
		return
	}
	if lifted {
		s.lifted++
		return
	}
	s.failed++
	if s.example == "" {
		s.example = fmt.Sprintf("cannot show %s >= 0 [path: %s]", f, st.PathDesc())
	}
}

// IterCall implements P1 for iterator operations.
func (c *Checker) IterCall(st *pathint.State, call ssa.CallInstruction, method string, it *pathint.Obj, cur lin.Form, arg *pathint.Val) {
	switch method {
	case "NextBytes", "NextBytesNoCopy":
		if arg != nil && arg.K == pathint.KInt {
			c.require(st, "P1", call, method, arg.F, "length passed to "+method+" is never negative (astikit panics on a negative length)")
		}
	case "Seek":
		if arg != nil && arg.K == pathint.KInt {
			c.require(st, "P1", call, method, arg.F, "Seek target is never negative (a negative offset panics on the next fetch)")
		}
	case "Skip":
		if arg != nil && arg.K == pathint.KInt {
			c.require(st, "P1", call, method, cur.Add(arg.F), "cursor stays non-negative after Skip")
		}
	}
}

// Index implements P2 for element accesses.
func (c *Checker) Index(st *pathint.State, in ssa.Instruction, length lin.Form, idx lin.Form, known bool) {
	if !known {
		key := c.keyOf(in, "index")
		s := c.siteByKey("P2", key, c.P.Pos(in.Pos()), "index in range")
		s.paths++
		s.failed++
		if s.example == "" {
			s.example = "length of the indexed value is not tracked by the analyser"
		}
		return
	}
	if isCopyAccumulate(in) {
		key := c.keyOf(in, "index")
		s := c.siteByKey("P2", key, c.P.Pos(in.Pos()), "index in range (copy-accumulate idiom)")
		s.paths++
		return
	}
	c.require(st, "P2", in, "index", idx, "index is never negative")
	c.require(st, "P2", in, "index", length.Sub(idx).AddC(-1), "index is below the length")
}

// Slice implements P2 for slice expressions.
func (c *Checker) Slice(st *pathint.State, in *ssa.Slice, capOrLen lin.Form, lo, hi lin.Form) {
	if isCopyAccumulateSlice(in) {
		key := c.keyOf(in, "slice")
		s := c.siteByKey("P2", key, c.P.Pos(in.Pos()), "slice bounds (copy-accumulate idiom: c = Σ copy(dst[c:], …) never exceeds len(dst))")
		s.paths++
		return
	}
	c.require(st, "P2", in, "slice", lo, "slice low bound is never negative")
	c.require(st, "P2", in, "slice", hi.Sub(lo), "slice low bound does not exceed the high bound")
	c.require(st, "P2", in, "slice", capOrLen.Sub(hi), "slice high bound does not exceed the capacity")
}

// isCopyAccumulateSlice recognises dst[c:] where c = phi(0, c + copy(dst[c:], _)): by the contract of
// copy, c never exceeds len(dst).
func isCopyAccumulateSlice(in *ssa.Slice) bool {
	if in.High != nil || in.Low == nil {
		return false
	}
	phi, ok := in.Low.(*ssa.Phi)
	if !ok || len(phi.Edges) != 2 {
		return false
	}
	zero, inc := false, false
	for _, e := range phi.Edges {
		if n, ok := ssau.ConstInt(e); ok && n == 0 {
			zero = true
			continue
		}
		b, ok := e.(*ssa.BinOp)
		if !ok || b.Op != token.ADD {
			continue
		}
		var other ssa.Value
		if b.X == ssa.Value(phi) {
			other = b.Y
		} else if b.Y == ssa.Value(phi) {
			other = b.X
		}
		call, ok := other.(*ssa.Call)
		if !ok {
			continue
		}
		if bi, ok := call.Call.Value.(*ssa.Builtin); ok && bi.Name() == "copy" && call.Call.Args[0] == ssa.Value(in) {
			inc = true
		}
	}
	return zero && inc
}

func isCopyAccumulate(in ssa.Instruction) bool { return false }

// MakeSlice implements P1 for make.
func (c *Checker) MakeSlice(st *pathint.State, in *ssa.MakeSlice, n lin.Form) {
	c.require(st, "P1", in, "make", n, "length passed to make is never negative and the capacity is never below the length")
}

// BackEdge implements P4: every iteration of a cursor loop advances the cursor.
func (c *Checker) BackEdge(st *pathint.State, from, header *ssa.BasicBlock) {
	f := header.Parent()
	key := fmt.Sprintf("%s/loop@%s", load.FuncName(f), loopName(header))
	s, ok := c.loopSites[key]
	if !ok {
		s = &site{rule: "P4", key: key, pos: c.P.Pos(loopPos(header))}
		c.loopSites[key] = s
	}
	s.paths++
	if kind := structuralLoop(header); kind != "" {
		s.what = kind
		return
	}
	c.seekToDeclaredEnd(st, header)
	its := st.LoopIters(header)
	adv := false
	if st.MarkedSince(header, "consume") {
		adv = true
		s.what = "reader loop: every iteration consumes at least one byte from the reader (io.ReadFull of a non-empty buffer) or leaves the loop"
	} else if st.MarkedSince(header, "delete") {
		adv = true
		s.what = "drain loop: every iteration deletes at least one entry of a map that nothing in the loop adds to, or leaves the loop"
	}
	for _, it := range its {
		h, _ := st.LoopEntryCursor(header, it)
		cv, ok := st.Mem(it + ".#cur")
		if !ok || cv.K != pathint.KInt {
			continue
		}
		if st.Prove(cv.F.Sub(h).AddC(-1)) {
			adv = true
			s.what = "cursor loop: every iteration advances the iterator by at least one byte"
		}
	}
	if !adv {
		s.failed++
		if s.example == "" {
			if len(its) == 0 {
				s.example = "loop is neither a range/counted loop nor a cursor loop; termination needs a specific rule"
			} else {
				s.example = "a path around the loop does not provably advance the iterator [path: " + st.PathDesc() + "]"
			}
		}
	}
}

func loopName(h *ssa.BasicBlock) string {
	// ordinal of the header among loop headers of the function
	n := 0
	for _, b := range h.Parent().Blocks {
		isH := false
		for _, p := range b.Preds {
			if b.Dominates(p) {
				isH = true
			}
		}
		if isH {
			n++
			if b == h {
				return fmt.Sprintf("%d", n)
			}
		}
	}
	return h.String()
}

func loopPos(h *ssa.BasicBlock) token.Pos {
	for _, in := range h.Instrs {
		if in.Pos().IsValid() {
			return in.Pos()
		}
	}
	for _, s := range h.Succs {
		for _, in := range s.Instrs {
			if in.Pos().IsValid() {
				return in.Pos()
			}
		}
	}
	return token.NoPos
}

// structuralLoop recognises loops that terminate by construction: range over map/slice/array/string
// (ssa.Next, or an index phi incremented by one and compared against a loop-invariant length) and
// counted loops `for i := a; i < n; i++` with loop-invariant n.
func structuralLoop(h *ssa.BasicBlock) string {
	if len(h.Instrs) == 0 {
		return ""
	}
	iff, ok := h.Instrs[len(h.Instrs)-1].(*ssa.If)
	if !ok {
		return ""
	}
	// range over map / string: cond is extract #0 of a Next
	if e, ok := iff.Cond.(*ssa.Extract); ok {
		if _, ok := e.Tuple.(*ssa.Next); ok {
			return "range loop (finite by construction)"
		}
	}
	b, ok := iff.Cond.(*ssa.BinOp)
	if !ok || (b.Op != token.LSS && b.Op != token.LEQ && b.Op != token.NEQ) {
		return ""
	}
	// counter: either a phi of the header, or phi+1 computed in the header
	var phi *ssa.Phi
	switch x := b.X.(type) {
	case *ssa.Phi:
		phi = x
	case *ssa.BinOp:
		if p, ok := x.X.(*ssa.Phi); ok && x.Op == token.ADD {
			if n, ok := ssau.ConstInt(x.Y); ok && n > 0 {
				phi = p
			}
		}
	}
	if phi == nil || phi.Block() != h {
		return ""
	}
	// back-edge value of the phi must be phi + positive constant (directly or the header's own increment)
	incOK := false
	for i, e := range phi.Edges {
		if !h.Dominates(h.Preds[i]) {
			continue
		}
		if be, ok := e.(*ssa.BinOp); ok && be.Op == token.ADD {
			if be.X == ssa.Value(phi) {
				if n, ok := ssau.ConstInt(be.Y); ok && n > 0 {
					incOK = true
				}
			}
		}
	}
	if !incOK {
		return ""
	}
	// bound must be loop invariant: defined outside the loop (dominates the header strictly) or a constant
	switch y := b.Y.(type) {
	case *ssa.Const:
		return "counted loop (finite by construction)"
	case ssa.Instruction:
		if y.Block() != h && y.Block().Dominates(h) {
			return "counted/range loop (finite by construction)"
		}
		// len(x) recomputed in the header: x is an SSA value (slice values are immutable), invariant when x is defined
		// outside the loop
		if c, isCall := y.(*ssa.Call); isCall {
			if bi, isB := c.Call.Value.(*ssa.Builtin); isB && bi.Name() == "len" && len(c.Call.Args) == 1 {
				switch a := c.Call.Args[0].(type) {
				case *ssa.Parameter, *ssa.Const:
					return "counted loop (finite by construction)"
				case ssa.Instruction:
					if a.Block() != h && a.Block().Dominates(h) {
						return "counted loop over len(x), x defined before the loop (finite by construction)"
					}
					if a.Block() == h && fieldLoadUnchangedInLoop(h, a) {
						return "counted loop over len(p.f…), a field reloaded in the header that nothing in the loop can store to (no store of that type in the loop or in the package functions it calls)"
					}
				}
			}
		}
		// len(x) recomputed in the header of a loop that does not change x is also accepted when x is a parameter/field load outside
	case *ssa.Parameter:
		return "counted loop (finite by construction)"
	}
	return ""
}

// fieldLoadUnchangedInLoop: v is a load, in the loop header h, of a field reached from a value defined before the loop through field
// selections only, and no instruction of the loop — nor of a package function called from it, transitively — stores a value of the
// loaded type (type-based aliasing: only a store of an identical type can change the field; library code cannot name the type's
// owner and is assumed not to write it; dynamic calls and calls through function values make the answer "no").
func fieldLoadUnchangedInLoop(h *ssa.BasicBlock, v ssa.Instruction) bool {
	ld, ok := v.(*ssa.UnOp)
	if !ok || ld.Op != token.MUL {
		return false
	}
	addr := ld.X
	for {
		fa, ok := addr.(*ssa.FieldAddr)
		if !ok {
			break
		}
		addr = fa.X
	}
	if addr == ld.X {
		return false // not a field
	}
	switch b := addr.(type) {
	case *ssa.Parameter:
	case ssa.Instruction:
		if b.Block() == h || !b.Block().Dominates(h) {
			return false
		}
	default:
		return false
	}
	t := ld.Type()
	// the loop: blocks dominated by h from which h is reachable
	body := map[*ssa.BasicBlock]bool{}
	var back []*ssa.BasicBlock
	for _, p := range h.Preds {
		if h.Dominates(p) {
			back = append(back, p)
		}
	}
	for len(back) > 0 {
		b := back[len(back)-1]
		back = back[:len(back)-1]
		if body[b] {
			continue
		}
		body[b] = true
		if b == h {
			continue
		}
		back = append(back, b.Preds...)
	}
	body[h] = true
	seen := map[*ssa.Function]bool{}
	var clean func(blocks []*ssa.BasicBlock, inBody func(*ssa.BasicBlock) bool) bool
	clean = func(blocks []*ssa.BasicBlock, inBody func(*ssa.BasicBlock) bool) bool {
		for _, b := range blocks {
			if !inBody(b) {
				continue
			}
			for _, in := range b.Instrs {
				switch x := in.(type) {
				case *ssa.Store:
					if types.Identical(x.Val.Type(), t) {
						return false
					}
				case ssa.CallInstruction:
					cc := x.Common()
					if _, isB := cc.Value.(*ssa.Builtin); isB {
						continue
					}
					cal := cc.StaticCallee()
					if cal == nil {
						return false
					}
					if cal.Pkg != h.Parent().Pkg || len(cal.Blocks) == 0 {
						continue // library code
					}
					if seen[cal] {
						continue
					}
					seen[cal] = true
					if !clean(cal.Blocks, func(*ssa.BasicBlock) bool { return true }) {
						return false
					}
				}
			}
		}
		return true
	}
	return clean(h.Parent().Blocks, func(b *ssa.BasicBlock) bool { return body[b] })
}

// Call records progress events: a consuming read of at least one byte from the reader.
func (c *Checker) Call(st *pathint.State, call ssa.CallInstruction, callee string, args []pathint.Val) {
	if n := pathint.BigEndianWidth(callee); n > 0 && len(args) == 2 {
		// binary.BigEndian.UintN(bs) indexes bs[n-1]: panics on a shorter slice
		if args[1].K == pathint.KSlice {
			c.require(st, "P2", call, "bigendian", args[1].S.Len.AddC(-int64(n)), "the slice handed to binary.BigEndian.UintN holds at least N/8 bytes")
		} else {
			key := c.keyOfCall(call, "bigendian")
			s := c.siteByKey("P2", key, c.P.Pos(call.Pos()), "the slice handed to binary.BigEndian.UintN holds at least N/8 bytes")
			s.paths++
			s.failed++
			if s.example == "" {
				s.example = "length of the slice is not tracked by the analyser"
			}
		}
	}
	switch callee {
	case "io.ReadFull":
		st.Mark("may:read")
		if len(args) == 2 && args[1].K == pathint.KSlice {
			key := c.keyOfCall(call, "ReadFull")
			if ok, lifted := st.Require("P5", key, call.Pos(), args[1].S.Len.AddC(-1), "the buffer handed to io.ReadFull is not empty (the read consumes input)"); ok || lifted {
				st.Mark("consume")
			}
		}
	case "iface:(io.Reader).Read":
		st.Mark("may:read")
	case "(*bufio.Reader).Peek":
		st.Mark("may:peek") // looks at the input without consuming it
	case "iface:(io.Seeker).Seek", "iface:(io.ReadSeeker).Seek":
		st.Mark("may:seek")
		st.Mark("seekcall") // a successful repositioning undoes what was consumed so far (see Return)
	case "(*bufio.Reader).Discard":
		st.Mark("may:read")
		st.Mark("consume")
	}
}

// Publish implements P7: an object stored into long-lived state satisfies its type's invariants.
func (c *Checker) Publish(st *pathint.State, in *ssa.Store, target *pathint.Obj, path string, obj *pathint.Obj) {
	for _, inv := range c.IP.FieldInvs {
		if obj.Type == nil || !ssau.IsNamed(obj.Type, load.RootPath, inv.Type) {
			continue
		}
		key := obj.ID + "." + inv.Field
		v, ok := st.Mem(key)
		var f lin.Form
		switch {
		case ok && v.K == pathint.KInt:
			f = v.F
		case !ok && !st.IsFresh(obj):
			continue // object not created here: the invariant is assumed for it
		default:
			f = lin.Const(0)
		}
		c.require(st, "P7", in, "store", f.AddC(-inv.Lo), fmt.Sprintf("a %s stored into %s has %s >= %d (nothing half-constructed is kept)", inv.Type, path, inv.Field, inv.Lo))
	}
}

// ProgressFuncs are the functions whose failing returns must have consumed input (P5).
var ProgressFuncs = map[string]bool{"(*Demuxer).NextPacket": true}

// Return implements P5 — progress on error: a call that fails for a reason that depends on the input
// (it looked at the reader) must have consumed some of it, otherwise calling again fails the same way for
// ever and the end of the stream is never reached. Returns of the end-of-stream sentinel are exempt.
func (c *Checker) Return(st *pathint.State, ret *ssa.Return, results []pathint.Val) {
	f := ret.Parent()
	ei := ssau.ErrorResultIndex(f.Signature)
	if st.HasMark("seekcall") && ei >= 0 && ei < len(results) && results[ei].K == pathint.KErr {
		// the function that repositions the reader: when it reports success the consumption is undone
		nilErr := results[ei].ErrNil == pathint.Yes
		if results[ei].ErrNil == pathint.Maybe {
			if v, ok := st.Pred("nil:" + results[ei].Sym); ok && v {
				nilErr = true
			}
		}
		if nilErr {
			st.Unmark("consume")
			st.Mark("clear:consume")
		}
		st.Unmark("seekcall")
	}
	if !ProgressFuncs[load.FuncName(f)] {
		return
	}
	if ei < 0 || ei >= len(results) {
		return
	}
	ev := results[ei]
	if ev.K != pathint.KErr || ev.ErrNil == pathint.Yes {
		return
	}
	if ev.ErrNil == pathint.Maybe && !st.HasMark("may:read") && !st.HasMark("may:peek") {
		return
	}
	if ev.Sym == "@ErrNoMorePackets" {
		return
	}
	if strings.Contains(ev.Sym, "ioerr:") {
		return // the reader itself failed: not an input-dependent rejection
	}
	var looked []string
	for _, m := range st.Marks() {
		if strings.HasPrefix(m, "may:") {
			looked = append(looked, m[4:])
		}
	}
	if len(looked) == 0 {
		return // the failure does not depend on the input (e.g. context cancelled)
	}
	key := fmt.Sprintf("%s/progress-on-error/after[%s]", load.FuncName(f), strings.Join(looked, ","))
	s := c.siteByKey("P5", key, c.P.Pos(ret.Pos()), "a failing call has consumed input")
	s.paths++
	if !st.HasMark("consume") {
		s.failed++
		if s.example == "" {
			s.example = "an error that depends on the input is returned although nothing was consumed from the reader (after " + strings.Join(looked, ", ") + "): every later call fails the same way and ErrNoMorePackets is never reached [path: " + st.PathDesc() + "]"
		}
	}
}

// Deref implements the definite-nil part of P3.
func (c *Checker) Deref(st *pathint.State, in ssa.Instruction, ptr pathint.Val) {
	if ptr.K != pathint.KNilPtr {
		return
	}
	kind := instrKind(in)
	if kind == "" {
		kind = "deref"
	}
	key := c.keyOf(in, kind)
	s := c.siteByKey("P3", key, c.P.Pos(in.Pos()), "pointer is not nil when dereferenced")
	s.paths++
	s.failed++
	if s.example == "" {
		s.example = "a nil pointer is dereferenced on the path: " + st.PathDesc()
	}
}

// Reachable computes the functions of the root package statically reachable from the given roots
// (static callees and closures created inside).
func Reachable(p *load.Program, roots []string) (map[*ssa.Function]bool, []string) {
	seen := map[*ssa.Function]bool{}
	var missing []string
	var visit func(f *ssa.Function)
	visit = func(f *ssa.Function) {
		if f == nil || seen[f] || f.Blocks == nil || f.Pkg != p.SSAPkg {
			return
		}
		seen[f] = true
		for _, a := range f.AnonFuncs {
			visit(a)
		}
		for _, ci := range ssau.Calls(f) {
			visit(ci.Common().StaticCallee())
		}
	}
	for _, k := range roots {
		f := p.Func(k)
		if f == nil {
			missing = append(missing, k)
			continue
		}
		visit(f)
	}
	return seen, missing
}

// sortLessContract: f is a function literal whose only use is as the `less` argument of sort.Slice / sort.SliceStable(x, less) and it
// captures the very variable x is read from: the forms `i >= 0`, `j >= 0`, `len(x) - 1 - i >= 0`, `len(x) - 1 - j >= 0` over its two
// parameters hold at every call by the contract of package sort. It returns those forms as rendered by lin.Form.String.
func sortLessContract(f *ssa.Function) map[string]bool {
	out := map[string]bool{}
	par := f.Parent()
	if par == nil || len(f.Params) != 2 {
		return out
	}
	for _, b := range par.Blocks {
		for _, in := range b.Instrs {
			mc, ok := in.(*ssa.MakeClosure)
			if !ok || mc.Fn != ssa.Value(f) || mc.Referrers() == nil {
				continue
			}
			refs := *mc.Referrers()
			var call *ssa.Call
			n := 0
			for _, r := range refs {
				if _, isD := r.(*ssa.DebugRef); isD {
					continue
				}
				n++
				call, _ = r.(*ssa.Call)
			}
			if n != 1 || call == nil || len(call.Call.Args) != 2 || call.Call.Args[1] != ssa.Value(mc) {
				return map[string]bool{}
			}
			if name := ssau.CalleeName(&call.Call); name != "sort.Slice" && name != "sort.SliceStable" {
				return map[string]bool{}
			}
			mi, ok := call.Call.Args[0].(*ssa.MakeInterface)
			if !ok {
				return map[string]bool{}
			}
			ld, ok := mi.X.(*ssa.UnOp)
			if !ok || ld.Op != token.MUL {
				return map[string]bool{}
			}
			for k, bnd := range mc.Bindings {
				if bnd == ld.X && k < len(f.FreeVars) {
					x := "len($" + f.FreeVars[k].Name() + ")"
					for _, prm := range f.Params {
						out["$"+prm.Name()] = true
						out["-$"+prm.Name()+" + "+x+" - 1"] = true
					}
				}
			}
		}
	}
	return out
}

// Run analyses every function reachable from roots and reports the aggregated obligations.
func (c *Checker) Run(r *report.Report, roots []string) {
	reach, missing := Reachable(c.P, roots)
	for _, m := range missing {
		r.Unknown("P0", "anchor/"+m, "", "root function not found")
	}
	var fs []*ssa.Function
	for f := range reach {
		fs = append(fs, f)
	}
	sort.Slice(fs, func(i, j int) bool { return fs[i].Pos() < fs[j].Pos() })
	totalPaths := 0
	// which functions have in-package callers (their requirements are discharged at call sites)
	called := map[*ssa.Function]bool{}
	for _, f := range fs {
		for _, ci := range ssau.Calls(f) {
			if cal := ci.Common().StaticCallee(); cal != nil {
				called[cal] = true
			}
		}
	}
	for _, f := range fs {
		c.Funcs[f] = true
		s := c.IP.Summarize(f)
		totalPaths += s.Paths
		if s.Truncated {
			r.Unknown("P0", "budget/"+load.FuncName(f), c.P.Pos(f.Pos()), fmt.Sprintf("path budget exceeded after %d paths", s.Paths))
		}
		if !called[f] {
			// API root (or only called dynamically): residual preconditions are not established by anyone
			contract := sortLessContract(f)
			for _, rq := range s.Reqs {
				st := c.siteByKey(rq.Rule, rq.Site, c.P.Pos(rq.Pos), rq.Desc)
				if contract[rq.F.String()] {
					// sort.Slice(x, less) calls less(i, j) with 0 <= i, j < len(x) only
					st.lifted++
					continue
				}
				st.failed++
				if st.example == "" {
					st.example = fmt.Sprintf("precondition %s >= 0 reaches the entry point %s and nothing establishes it", rq.F, load.FuncName(f))
				}
			}
		}
	}
	r.Count("functions_analysed", len(fs))
	r.Count("paths_enumerated", totalPaths)
	keys := append([]string{}, c.order...)
	sort.Strings(keys)
	counts := map[string]int{}
	for _, k := range keys {
		s := c.sites[k]
		counts[s.rule]++
		if s.failed > 0 {
			r.Bad(s.rule, s.key, s.pos, fmt.Sprintf("%s: %s (%d of %d path visits fail)", s.what, s.example, s.failed, s.paths))
		} else {
			how := fmt.Sprintf("%s: proven on all %d path visits", s.what, s.paths)
			if s.lifted > 0 {
				how += fmt.Sprintf(" (%d via preconditions established at every call site)", s.lifted)
			}
			r.OK(s.rule, s.key, s.pos, how)
		}
	}
	var lkeys []string
	for k := range c.loopSites {
		lkeys = append(lkeys, k)
	}
	sort.Strings(lkeys)
	for _, k := range lkeys {
		s := c.loopSites[k]
		counts["P4"]++
		if s.failed > 0 {
			r.Bad("P4", s.key, s.pos, s.example)
		} else {
			r.OK("P4", s.key, s.pos, fmt.Sprintf("%s (%d back-edge visits)", s.what, s.paths))
		}
	}
	for _, h := range c.IP.FailedCandidates() {
		r.Unknown("P4", fmt.Sprintf("%s/loop@%s/invariant", load.FuncName(h.Parent()), loopName(h)), c.P.Pos(loopPos(h)),
			"the loop invariant assumed for an initially empty slice (it is empty whenever the loop header is reached) is not re-established by every iteration")
	}
	for _, d := range c.IP.Diag {
		r.Unknown("P0", "diag/"+d, "", d)
	}
	for rule, n := range counts {
		r.Count("sites_"+rule, n)
	}
}

var _ = types.Typ
var _ = strings.TrimSpace

// DeclaredEndLoops — P6: loops whose every iteration must account for exactly the declared length of the
// element it parsed: function -> (struct type of the element allocated in the loop, its length field,
// bytes of the element header).
var DeclaredEndLoops = map[string]struct {
	Type, Field string
	Header      int64
}{
	"parseDescriptors": {"Descriptor", "Length", 2},
}

func (c *Checker) seekToDeclaredEnd(st *pathint.State, header *ssa.BasicBlock) {
	f := header.Parent()
	spec, ok := DeclaredEndLoops[load.FuncName(f)]
	if !ok {
		return
	}
	// the element object allocated in the loop body
	var alloc *ssa.Alloc
	for _, b := range f.Blocks {
		for _, in := range b.Instrs {
			if a, ok := in.(*ssa.Alloc); ok && header.Dominates(b) && ssau.IsNamed(a.Type().(*types.Pointer).Elem(), load.RootPath, spec.Type) {
				alloc = a
			}
		}
	}
	key := fmt.Sprintf("%s/loop@%s/accounts-for-declared-length", load.FuncName(f), loopName(header))
	s := c.siteByKey("P6", key, c.P.Pos(loopPos(header)), "every iteration ends exactly at the declared end of the element (a malformed body never shifts what follows)")
	s.paths++
	if alloc == nil {
		s.failed++
		s.example = "no " + spec.Type + " is allocated in the loop: the element whose declared length should be honoured was not found"
		return
	}
	lv, ok := st.Mem("%" + f.Name() + ":" + alloc.Name() + "." + spec.Field)
	if !ok || lv.K != pathint.KInt {
		s.failed++
		if s.example == "" {
			s.example = "the declared length of the element is not known at the end of the iteration"
		}
		return
	}
	for _, it := range st.LoopIters(header) {
		h, _ := st.LoopEntryCursor(header, it)
		cv, ok := st.Mem(it + ".#cur")
		if !ok || cv.K != pathint.KInt {
			continue
		}
		d := cv.F.Sub(h).AddC(-spec.Header).Sub(lv.F)
		if !(st.Prove(d) && st.Prove(d.Scale(-1))) {
			s.failed++
			if s.example == "" {
				s.example = fmt.Sprintf("at the end of an iteration the cursor is at start + %s, not at start + %d + declared length [path: %s]", cv.F.Sub(h), spec.Header, st.PathDesc())
			}
		}
	}
}
