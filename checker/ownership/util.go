// Package ownership is engine D's ownership half: borrowed-slice escape (S3), pool pairing (S1),
// accumulator aliasing, muxer payload immutability, package-level state inventory (S2), reset
// completeness (S4) and the structural framing clauses of C08. Everything is computed on the
// type-checked go/ssa form of the root package; callees are resolved through types only.
package ownership

import (
	"fmt"
	"go/token"
	"go/types"
	"sort"
	"strings"

	"golang.org/x/tools/go/ssa"

	"astverif/load"
	"astverif/ssau"
)

const (
	astikit   = load.AstikitPath
	iterRecv  = "(*" + astikit + ".BytesIterator)."
	bitsWRecv = "(*" + astikit + ".BitsWriter)."
)

// fname is the stable display name of a function used in obligation keys.
func fname(f *ssa.Function) string { return load.FuncName(f) }

// ordinals hands out 1-based ordinals per (function-local) construct name.
type ordinals map[string]int

func (o ordinals) next(k string) int { o[k]++; return o[k] }

// fieldInfo describes the struct field addressed by a FieldAddr / read by a Field instruction.
type fieldInfo struct {
	Owner string     // name of the named struct type ("" for anonymous structs)
	Var   *types.Var // the field object (identity is the key)
	Base  ssa.Value  // the struct pointer / struct value
}

func (fi fieldInfo) String() string { return fi.Owner + "." + fi.Var.Name() }

func namedOf(t types.Type) string {
	if p, ok := t.Underlying().(*types.Pointer); ok {
		t = p.Elem()
	}
	if p, ok := t.(*types.Pointer); ok {
		t = p.Elem()
	}
	if n, ok := t.(*types.Named); ok {
		return n.Obj().Name()
	}
	return ""
}

// fieldOf returns the field addressed / read by v.
func fieldOf(v ssa.Value) (fieldInfo, bool) {
	switch x := v.(type) {
	case *ssa.FieldAddr:
		pt, ok := x.X.Type().Underlying().(*types.Pointer)
		if !ok {
			return fieldInfo{}, false
		}
		st, ok := pt.Elem().Underlying().(*types.Struct)
		if !ok {
			return fieldInfo{}, false
		}
		return fieldInfo{Owner: namedOf(pt.Elem()), Var: st.Field(x.Field), Base: x.X}, true
	case *ssa.Field:
		st, ok := x.X.Type().Underlying().(*types.Struct)
		if !ok {
			return fieldInfo{}, false
		}
		return fieldInfo{Owner: namedOf(x.X.Type()), Var: st.Field(x.Field), Base: x.X}, true
	}
	return fieldInfo{}, false
}

// loadedField: v is a load (*FieldAddr) or a Field read; returns the field.
func loadedField(v ssa.Value) (fieldInfo, bool) {
	switch x := v.(type) {
	case *ssa.UnOp:
		if x.Op == token.MUL {
			if fa, ok := x.X.(*ssa.FieldAddr); ok {
				return fieldOf(fa)
			}
		}
	case *ssa.Field:
		return fieldOf(x)
	}
	return fieldInfo{}, false
}

// lookupField finds the field object Type.field of the root package.
func lookupField(p *load.Program, typ, field string) *types.Var {
	obj := p.Types.Scope().Lookup(typ)
	if obj == nil {
		return nil
	}
	st, ok := obj.Type().Underlying().(*types.Struct)
	if !ok {
		return nil
	}
	for i := 0; i < st.NumFields(); i++ {
		if st.Field(i).Name() == field {
			return st.Field(i)
		}
	}
	return nil
}

// isByteSlice reports whether t is a slice of bytes.
func isByteSlice(t types.Type) bool {
	s, ok := t.Underlying().(*types.Slice)
	if !ok {
		return false
	}
	b, ok := s.Elem().Underlying().(*types.Basic)
	return ok && b.Kind() == types.Uint8
}

func isSlice(t types.Type) bool {
	_, ok := t.Underlying().(*types.Slice)
	return ok
}

func isIterPtr(t types.Type) bool {
	_, isPtr := t.(*types.Pointer)
	return isPtr && ssau.IsNamed(t, astikit, "BytesIterator")
}

// inRoot reports whether f is a function of the root package with a body.
func inRoot(p *load.Program, f *ssa.Function) bool {
	if f == nil || f.Blocks == nil {
		return false
	}
	for f.Parent() != nil {
		f = f.Parent()
	}
	return f.Pkg == p.SSAPkg
}

// reachable computes the functions of the root package reachable from roots through static calls,
// closures and referenced function values (dynamic calls of user-supplied function values and
// interface invocations leave the package and are not followed).
func reachable(p *load.Program, roots []*ssa.Function) map[*ssa.Function]bool {
	seen := map[*ssa.Function]bool{}
	var visit func(f *ssa.Function)
	visit = func(f *ssa.Function) {
		if !inRoot(p, f) || seen[f] {
			return
		}
		seen[f] = true
		var ops []*ssa.Value
		for _, b := range f.Blocks {
			for _, in := range b.Instrs {
				ops = in.Operands(ops[:0])
				for _, op := range ops {
					if op == nil || *op == nil {
						continue
					}
					switch x := (*op).(type) {
					case *ssa.Function:
						visit(x)
					case *ssa.MakeClosure:
						if fn, ok := x.Fn.(*ssa.Function); ok {
							visit(fn)
						}
					}
				}
			}
		}
	}
	for _, r := range roots {
		visit(r)
	}
	return seen
}

func sortedFuncs(m map[*ssa.Function]bool) []*ssa.Function {
	var out []*ssa.Function
	for f := range m {
		out = append(out, f)
	}
	sort.Slice(out, func(i, j int) bool { return out[i].Pos() < out[j].Pos() })
	return out
}

// shortCallee strips package paths from a qualified callee name.
func shortCallee(n string) string {
	n = strings.ReplaceAll(n, load.RootPath+".", "")
	n = strings.ReplaceAll(n, astikit+".", "astikit.")
	n = strings.ReplaceAll(n, "encoding/binary.", "binary.")
	return n
}

// callArgs returns the call's arguments including the receiver of an interface invocation at
// index 0 (so that index i always names the i-th value handed to the callee).
func callArgs(c *ssa.CallCommon) []ssa.Value {
	if c.IsInvoke() {
		return append([]ssa.Value{c.Value}, c.Args...)
	}
	return c.Args
}

// staticRootCallee returns the callee when it is a function of the root package with a body.
func staticRootCallee(p *load.Program, c *ssa.CallCommon) *ssa.Function {
	f := c.StaticCallee()
	if inRoot(p, f) {
		return f
	}
	return nil
}

// freshSlice reports whether v is a freshly allocated slice (MakeSlice, or a Slice of a fresh
// array allocation as go/ssa emits for make with constant capacity and for slice literals). It
// returns the constant length when known (-1 otherwise).
func freshSlice(v ssa.Value) (ok bool, length int64) {
	switch x := v.(type) {
	case *ssa.MakeSlice:
		if n, isC := ssau.ConstInt(x.Len); isC {
			return true, n
		}
		return true, -1
	case *ssa.Slice:
		a, isA := x.X.(*ssa.Alloc)
		if !isA {
			return false, 0
		}
		// the array must not be referenced by anything but this slice expression and element
		// initialisers (slice literal)
		for _, r := range *a.Referrers() {
			switch r := r.(type) {
			case *ssa.Slice:
				if r != x {
					return false, 0
				}
			case *ssa.IndexAddr:
			case *ssa.DebugRef:
			default:
				return false, 0
			}
		}
		arr, isArr := a.Type().Underlying().(*types.Pointer).Elem().Underlying().(*types.Array)
		if !isArr {
			return false, 0
		}
		if x.Low != nil {
			if n, isC := ssau.ConstInt(x.Low); !isC || n != 0 {
				return true, -1
			}
		}
		if x.High == nil {
			return true, arr.Len()
		}
		if n, isC := ssau.ConstInt(x.High); isC {
			return true, n
		}
		return true, -1
	}
	return false, 0
}

// formatOf returns the constant format string of a fmt.Errorf call.
func formatOf(c *ssa.Call) (string, bool) {
	if ssau.CalleeName(&c.Call) != "fmt.Errorf" || len(c.Call.Args) == 0 {
		return "", false
	}
	k, ok := c.Call.Args[0].(*ssa.Const)
	if !ok || k.Value == nil {
		return "", false
	}
	s := k.Value.ExactString()
	return s, true
}

// errDerives reports whether error value v (as returned) is err itself or a fmt.Errorf that wraps
// err with %w (looking through phis and spill slots; a nil leaf is tolerated when allowNil).
func errDerives(v, err ssa.Value, allowNil bool) (bool, string) {
	for _, l := range ssau.Leaves(v) {
		if l == nil || ssau.IsNilConst(l) {
			if allowNil {
				continue
			}
			return false, "a nil error is returned"
		}
		if l == err || ssau.StripIface(l) == err {
			continue
		}
		c, ok := l.(*ssa.Call)
		if !ok {
			return false, fmt.Sprintf("returned error %s does not derive from the original", l.Name())
		}
		f, ok := formatOf(c)
		if !ok {
			return false, "returned error is built by " + shortCallee(ssau.CalleeName(&c.Call))
		}
		if !strings.Contains(f, "%w") {
			return false, "fmt.Errorf without %w loses the cause"
		}
		vals, ok := ssau.VarargValues(c.Call.Args[len(c.Call.Args)-1])
		if !ok {
			return false, "fmt.Errorf arguments not recognised"
		}
		found := false
		for _, a := range vals {
			if ssau.StripIface(a) == err {
				found = true
			}
		}
		if !found {
			return false, "fmt.Errorf does not receive the original error"
		}
	}
	return true, ""
}

func joinSorted(m map[string]int) string {
	var ks []string
	for k, n := range m {
		if n > 1 {
			ks = append(ks, fmt.Sprintf("%s×%d", k, n))
		} else {
			ks = append(ks, k)
		}
	}
	sort.Strings(ks)
	return strings.Join(ks, ", ")
}

// extracts returns the Extract instructions selecting component idx of a tuple value.
func extracts(tuple ssa.Value, idx int) []ssa.Value {
	var out []ssa.Value
	for _, r := range *tuple.Referrers() {
		if e, ok := r.(*ssa.Extract); ok && e.Index == idx {
			out = append(out, e)
		}
	}
	return out
}

func keys2(m map[string][]string) []string {
	var out []string
	for k := range m {
		out = append(out, k)
	}
	sort.Strings(out)
	return out
}
