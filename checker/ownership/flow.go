package ownership

import (
	"go/token"
	"go/types"

	"golang.org/x/tools/go/ssa"

	"astverif/ssau"
)

// use is one use of a value that aliases the seed's backing store.
type use struct {
	Kind      string // elem-read elem-write elem-addr len copy-src copy-dst append-base append-src store-field store-index store-other spill iface call-arg return compare convert-string map-update send closure other
	Instr     ssa.Instruction
	Val       ssa.Value
	Field     fieldInfo       // store-field
	Callee    string          // call-arg: qualified callee name ("" = dynamic)
	Fn        *ssa.Function   // call-arg: static callee
	Common    *ssa.CallCommon // call-arg
	Arg       int             // call-arg: index into callArgs()
	Result    int             // return: result index
	Consumers []use           // iface: uses of the interface value
	Desc      string
}

// aliasClosure computes, inside one function, every value that shares the backing store of one of
// the seeds (Slice, Phi, ChangeType, slice-to-slice Convert, append with the value as base, loads
// of a spill slot it was stored to) and classifies every other use.
func aliasClosure(seeds []ssa.Value) (derived map[ssa.Value]bool, uses []use) {
	derived = map[ssa.Value]bool{}
	var work []ssa.Value
	push := func(v ssa.Value) {
		if v != nil && !derived[v] {
			derived[v] = true
			work = append(work, v)
		}
	}
	for _, s := range seeds {
		push(s)
	}
	for len(work) > 0 {
		v := work[len(work)-1]
		work = work[:len(work)-1]
		refs := v.Referrers()
		if refs == nil {
			continue
		}
		for _, r := range *refs {
			switch r := r.(type) {
			case *ssa.DebugRef:
			case *ssa.Slice:
				if r.X == v {
					push(r)
				} else {
					uses = append(uses, use{Kind: "other", Instr: r, Val: v, Desc: "slice bound"})
				}
			case *ssa.Phi:
				push(r)
			case *ssa.ChangeType:
				push(r)
			case *ssa.Convert:
				if isSlice(r.Type()) {
					push(r)
				} else if b, ok := r.Type().Underlying().(*types.Basic); ok && b.Info()&types.IsString != 0 {
					uses = append(uses, use{Kind: "convert-string", Instr: r, Val: v})
				} else {
					uses = append(uses, use{Kind: "other", Instr: r, Val: v, Desc: "conversion to " + ssau.ShortType(r.Type())})
				}
			case *ssa.IndexAddr:
				if r.X != v {
					uses = append(uses, use{Kind: "other", Instr: r, Val: v, Desc: "index operand"})
					break
				}
				for _, rr := range *r.Referrers() {
					switch rr := rr.(type) {
					case *ssa.DebugRef:
					case *ssa.UnOp:
						if rr.Op == token.MUL && !isSlice(rr.Type()) {
							uses = append(uses, use{Kind: "elem-read", Instr: rr, Val: v})
						} else {
							uses = append(uses, use{Kind: "other", Instr: rr, Val: v, Desc: "element of reference type read"})
						}
					case *ssa.Store:
						if rr.Addr == r {
							uses = append(uses, use{Kind: "elem-write", Instr: rr, Val: v})
						} else {
							uses = append(uses, use{Kind: "elem-addr", Instr: rr, Val: v, Desc: "element address stored"})
						}
					default:
						uses = append(uses, use{Kind: "elem-addr", Instr: rr, Val: v, Desc: "element address used by " + instrKind(rr)})
					}
				}
			case *ssa.Store:
				if r.Val != v {
					uses = append(uses, use{Kind: "other", Instr: r, Val: v, Desc: "used as store address"})
					break
				}
				switch a := r.Addr.(type) {
				case *ssa.Alloc:
					if ssau.SpillSlot(a) {
						uses = append(uses, use{Kind: "spill", Instr: r, Val: v})
						for _, ar := range *a.Referrers() {
							if u, ok := ar.(*ssa.UnOp); ok && u.Op == token.MUL {
								push(u)
							}
						}
					} else if fvs, ok := capturedLocally(a); ok {
						// a local captured by closures that are only called where they were made: the cell is still a local
						// variable — its loads, here and through the closures' free variables, carry the value on
						uses = append(uses, use{Kind: "spill", Instr: r, Val: v})
						for _, ar := range *a.Referrers() {
							if u, ok := ar.(*ssa.UnOp); ok && u.Op == token.MUL {
								push(u)
							}
						}
						for _, fv := range fvs {
							for _, fr := range *fv.Referrers() {
								if u, ok := fr.(*ssa.UnOp); ok && u.Op == token.MUL {
									push(u)
								}
							}
						}
					} else {
						uses = append(uses, use{Kind: "store-other", Instr: r, Val: v, Desc: "stored into the address-taken local " + a.Comment})
					}
				case *ssa.FieldAddr:
					fi, _ := fieldOf(a)
					uses = append(uses, use{Kind: "store-field", Instr: r, Val: v, Field: fi})
				case *ssa.IndexAddr:
					uses = append(uses, use{Kind: "store-index", Instr: r, Val: v, Desc: "stored as an element of " + ssau.ShortType(a.X.Type())})
				case *ssa.Global:
					uses = append(uses, use{Kind: "store-other", Instr: r, Val: v, Desc: "stored into the package-level variable " + a.Name()})
				default:
					uses = append(uses, use{Kind: "store-other", Instr: r, Val: v, Desc: "stored through a pointer"})
				}
			case *ssa.BinOp:
				uses = append(uses, use{Kind: "compare", Instr: r, Val: v})
			case *ssa.MakeInterface:
				u := use{Kind: "iface", Instr: r, Val: v}
				for _, rr := range *r.Referrers() {
					switch rr := rr.(type) {
					case *ssa.DebugRef:
					case ssa.CallInstruction:
						cc := rr.Common()
						hit := false
						for i, a := range callArgs(cc) {
							if a == ssa.Value(r) {
								hit = true
								u.Consumers = append(u.Consumers, use{Kind: "call-arg", Instr: rr, Val: r, Callee: ssau.CalleeName(cc), Fn: cc.StaticCallee(), Common: cc, Arg: i})
							}
						}
						if !hit {
							u.Consumers = append(u.Consumers, use{Kind: "other", Instr: rr, Val: r, Desc: "interface value called"})
						}
					default:
						u.Consumers = append(u.Consumers, use{Kind: "other", Instr: rr, Val: r, Desc: "interface value used by " + instrKind(rr)})
					}
				}
				uses = append(uses, u)
			case ssa.CallInstruction:
				cc := r.Common()
				if b, ok := cc.Value.(*ssa.Builtin); ok {
					for i, a := range cc.Args {
						if a != v {
							continue
						}
						switch b.Name() {
						case "len", "cap":
							uses = append(uses, use{Kind: "len", Instr: r, Val: v})
						case "copy":
							if i == 0 {
								uses = append(uses, use{Kind: "copy-dst", Instr: r, Val: v})
							} else {
								uses = append(uses, use{Kind: "copy-src", Instr: r, Val: v})
							}
						case "append":
							if i == 0 {
								uses = append(uses, use{Kind: "append-base", Instr: r, Val: v})
								if c, ok := r.(*ssa.Call); ok {
									push(c)
								}
							} else {
								uses = append(uses, use{Kind: "append-src", Instr: r, Val: v})
							}
						default:
							uses = append(uses, use{Kind: "call-arg", Instr: r, Val: v, Callee: "builtin:" + b.Name(), Common: cc, Arg: i})
						}
					}
					break
				}
				hit := false
				for i, a := range callArgs(cc) {
					if a == v {
						hit = true
						uses = append(uses, use{Kind: "call-arg", Instr: r, Val: v, Callee: ssau.CalleeName(cc), Fn: cc.StaticCallee(), Common: cc, Arg: i})
					}
				}
				if !hit {
					uses = append(uses, use{Kind: "other", Instr: r, Val: v, Desc: "called as a function value"})
				}
			case *ssa.Return:
				for i, x := range r.Results {
					if x == v {
						uses = append(uses, use{Kind: "return", Instr: r, Val: v, Result: i})
					}
				}
			case *ssa.MapUpdate:
				uses = append(uses, use{Kind: "map-update", Instr: r, Val: v, Desc: "stored into a map"})
			case *ssa.Send:
				uses = append(uses, use{Kind: "send", Instr: r, Val: v, Desc: "sent on a channel"})
			case *ssa.MakeClosure:
				uses = append(uses, use{Kind: "closure", Instr: r, Val: v, Desc: "captured by a closure"})
			default:
				uses = append(uses, use{Kind: "other", Instr: r, Val: v, Desc: "used by " + instrKind(r)})
			}
		}
	}
	return derived, uses
}

func instrKind(in ssa.Instruction) string {
	switch in.(type) {
	case *ssa.Call:
		return "call"
	case *ssa.Store:
		return "store"
	case *ssa.Return:
		return "return"
	case *ssa.FieldAddr:
		return "field address"
	case *ssa.UnOp:
		return "unary op"
	case *ssa.TypeAssert:
		return "type assertion"
	case *ssa.Extract:
		return "extract"
	case *ssa.Index:
		return "array index"
	case *ssa.Lookup:
		return "lookup"
	case *ssa.Range:
		return "range"
	case *ssa.SliceToArrayPointer:
		return "slice-to-array-pointer conversion"
	case *ssa.ChangeInterface:
		return "interface conversion"
	case *ssa.If:
		return "branch"
	}
	return "instruction"
}

// capturedLocally: the address of local a goes nowhere but into closures that are themselves only called (never stored, passed or
// returned), and is otherwise only stored to and loaded from. It returns the closures' free variables bound to a.
func capturedLocally(a *ssa.Alloc) ([]*ssa.FreeVar, bool) {
	var fvs []*ssa.FreeVar
	n := 0
	for _, r := range *a.Referrers() {
		switch x := r.(type) {
		case *ssa.DebugRef:
		case *ssa.Store:
			if x.Addr != ssa.Value(a) {
				return nil, false
			}
		case *ssa.UnOp:
			if x.Op != token.MUL {
				return nil, false
			}
		case *ssa.MakeClosure:
			fn, ok := x.Fn.(*ssa.Function)
			if !ok {
				return nil, false
			}
			for _, cr := range *x.Referrers() {
				switch c := cr.(type) {
				case *ssa.DebugRef:
				case *ssa.Call:
					if c.Call.Value != ssa.Value(x) {
						return nil, false
					}
				default:
					return nil, false
				}
			}
			for i, b := range x.Bindings {
				if b == ssa.Value(a) && i < len(fn.FreeVars) {
					fv := fn.FreeVars[i]
					// inside the closure the free variable is only stored through and loaded from
					for _, fr := range *fv.Referrers() {
						switch y := fr.(type) {
						case *ssa.DebugRef:
						case *ssa.UnOp:
							if y.Op != token.MUL {
								return nil, false
							}
						case *ssa.Store:
							if y.Addr != ssa.Value(fv) {
								return nil, false
							}
						default:
							return nil, false
						}
					}
					fvs = append(fvs, fv)
					n++
				}
			}
		default:
			return nil, false
		}
	}
	return fvs, n > 0
}
