package ownership

import (
	"fmt"
	"go/token"
	"go/types"
	"sort"
	"strings"

	"golang.org/x/tools/go/ssa"

	"astverif/load"
	"astverif/report"
	"astverif/ssau"
)

// instanceTypes are the types whose values are per-instance state.
var instanceTypes = []string{"Demuxer", "Muxer", "packetBuffer", "packetPool", "packetAccumulator", "programMap", "esContext", "Packet", "DemuxerData"}

// allFuncs lists every function of the root package including the package initialiser and its closures.
func allFuncs(p *load.Program) []*ssa.Function {
	out := p.SrcFuncs()
	seen := map[*ssa.Function]bool{}
	for _, f := range out {
		seen[f] = true
	}
	var add func(f *ssa.Function)
	add = func(f *ssa.Function) {
		if f == nil || seen[f] {
			return
		}
		seen[f] = true
		if f.Blocks != nil {
			out = append(out, f)
		}
		for _, a := range f.AnonFuncs {
			add(a)
		}
	}
	for _, m := range p.SSAPkg.Members {
		if f, ok := m.(*ssa.Function); ok {
			add(f)
		}
	}
	return out
}

func isInit(f *ssa.Function) bool {
	for f.Parent() != nil {
		f = f.Parent()
	}
	return f.Name() == "init" && f.Synthetic != ""
}

// typeReaches reports the first instance type reachable from t through fields, pointers, slices,
// arrays, maps and channels (interfaces are opaque and handled by looking at what is stored).
func typeReaches(t types.Type, want map[string]bool, seen map[types.Type]bool) string {
	if seen[t] {
		return ""
	}
	seen[t] = true
	if n, ok := t.(*types.Named); ok {
		if n.Obj().Pkg() != nil && n.Obj().Pkg().Path() == load.RootPath && want[n.Obj().Name()] {
			return n.Obj().Name()
		}
		if n.Obj().Pkg() != nil && n.Obj().Pkg().Path() != load.RootPath {
			return "" // foreign types cannot mention the root package's types
		}
	}
	switch u := t.Underlying().(type) {
	case *types.Pointer:
		return typeReaches(u.Elem(), want, seen)
	case *types.Slice:
		return typeReaches(u.Elem(), want, seen)
	case *types.Array:
		return typeReaches(u.Elem(), want, seen)
	case *types.Chan:
		return typeReaches(u.Elem(), want, seen)
	case *types.Map:
		if s := typeReaches(u.Key(), want, seen); s != "" {
			return s
		}
		return typeReaches(u.Elem(), want, seen)
	case *types.Struct:
		for i := 0; i < u.NumFields(); i++ {
			if s := typeReaches(u.Field(i).Type(), want, seen); s != "" {
				return s
			}
		}
	}
	return ""
}

// Globals is the S2 inventory of package-level variables (C16 e, C20 d): one obligation per variable.
func Globals(p *load.Program, r *report.Report, rule string) {
	var gs []*ssa.Global
	for _, m := range p.SSAPkg.Members {
		if g, ok := m.(*ssa.Global); ok && g.Name() != "init$guard" {
			gs = append(gs, g)
		}
	}
	sort.Slice(gs, func(i, j int) bool { return gs[i].Name() < gs[j].Name() })
	want := map[string]bool{}
	for _, n := range instanceTypes {
		want[n] = true
	}
	funcs := allFuncs(p)
	type gu struct {
		f  *ssa.Function
		in ssa.Instruction
	}
	usesOf := map[*ssa.Global][]gu{}
	var ops []*ssa.Value
	for _, f := range funcs {
		for _, b := range f.Blocks {
			for _, in := range b.Instrs {
				ops = in.Operands(ops[:0])
				for _, op := range ops {
					if op == nil || *op == nil {
						continue
					}
					if g, ok := (*op).(*ssa.Global); ok && g.Pkg == p.SSAPkg {
						usesOf[g] = append(usesOf[g], gu{f, in})
					}
				}
			}
		}
	}
	pools := 0
	for _, g := range gs {
		key := g.Name()
		pos := p.Pos(g.Pos())
		elem := g.Type().(*types.Pointer).Elem()
		var bad, unk, notes []string
		if tn := typeReaches(elem, want, map[types.Type]bool{}); tn != "" {
			bad = append(bad, "its type can hold a reference to per-instance state ("+tn+")")
		}
		inits, loads := 0, 0
		methods := map[string]bool{}
		for _, u := range usesOf[g] {
			at := " in " + fname(u.f) + " at " + p.Pos(u.in.Pos())
			switch x := u.in.(type) {
			case *ssa.Store:
				if x.Addr == ssa.Value(g) {
					if isInit(u.f) && u.f.Parent() == nil {
						inits++
						if _, isIface := elem.Underlying().(*types.Interface); isIface {
							if c, isC := ssau.StripIface(x.Val).(*ssa.Call); !isC || !ssau.IsErrorConstructor(c) {
								unk = append(unk, "the interface value stored by the initialiser is not an error constructor result")
							}
						}
					} else {
						bad = append(bad, "it is assigned outside the package initialiser"+at)
					}
				} else {
					unk = append(unk, "its address is stored"+at)
				}
			case *ssa.UnOp:
				if x.Op != token.MUL {
					unk = append(unk, "unexpected operator"+at)
					break
				}
				loads++
				if !isRefType(elem) {
					// a composite value that carries references (a struct with a slice / map / pointer field, an array of
					// such): copying it hands the same backing memory to every instance that receives a copy
					if _, isIface := elem.Underlying().(*types.Interface); !isIface && containsRef(elem, map[types.Type]bool{}) {
						for _, ref := range *x.Referrers() {
							switch ref.(type) {
							case *ssa.DebugRef:
							case *ssa.Field:
								// reading a field out of the copy: judged by what the field is
								if fv, ok := ref.(*ssa.Field); ok && containsRef(fv.Type(), map[types.Type]bool{}) {
									bad = append(bad, "a reference-carrying part of it is copied out"+at+": the copies share its backing memory")
								}
							default:
								bad = append(bad, "its value (which carries slices/maps/pointers) is copied"+at+": every copy shares the same backing memory")
							}
						}
					}
					break
				}
				for _, ref := range *x.Referrers() {
					switch y := ref.(type) {
					case *ssa.DebugRef:
					case *ssa.BinOp:
					case ssa.CallInstruction:
						sf := y.Common().StaticCallee()
						if sf != nil && inRoot(p, sf) && len(y.Common().Args) > 0 && y.Common().Args[0] == ssa.Value(x) && sf.Signature.Recv() != nil {
							methods[sf.Name()] = true
						} else {
							unk = append(unk, "the reference it holds is passed to "+calleeDesc(ssau.CalleeName(y.Common()))+at)
						}
					default:
						unk = append(unk, "the reference it holds is used by a "+instrKind(ref)+at)
					}
				}
			case *ssa.IndexAddr, *ssa.FieldAddr:
				for _, ref := range *x.(ssa.Value).Referrers() {
					switch y := ref.(type) {
					case *ssa.DebugRef:
					case *ssa.UnOp:
						loads++
					case *ssa.Store:
						if y.Addr == x.(ssa.Value) && isInit(u.f) && u.f.Parent() == nil {
							inits++
						} else {
							bad = append(bad, "an element of it is assigned outside the package initialiser"+at)
						}
					default:
						unk = append(unk, "the address of an element is used by a "+instrKind(ref)+at)
					}
				}
			default:
				unk = append(unk, "used by a "+instrKind(u.in)+at)
			}
		}
		if len(methods) > 0 {
			ms := keys(methods)
			okPool, why := poolDiscipline(p, g, ms)
			if okPool {
				pools++
				notes = append(notes, "the object it points to is a sync.Pool wrapper used only through "+strings.Join(ms, "/")+", which call sync.Pool.Get/Put and touch nothing else; its New function returns a freshly allocated item each time")
			} else {
				unk = append(unk, why)
			}
		}
		switch {
		case len(bad) > 0:
			r.Bad(rule, key, pos, "package-level variable "+g.Name()+" carries state across instances: "+strings.Join(dedupSorted(bad), "; "))
		case len(unk) > 0:
			r.Unknown(rule, key, pos, "package-level variable "+g.Name()+": "+strings.Join(dedupSorted(unk), "; "))
		default:
			d := fmt.Sprintf("assigned only by the package initialiser (%d store(s)), read %d time(s); its type (%s) cannot reference per-instance state", inits, loads, ssau.ShortType(elem))
			if len(notes) > 0 {
				d += "; " + strings.Join(notes, "; ")
			}
			r.OK(rule, key, pos, d)
		}
	}
	r.Floor(rule, "package-level variables inventoried", len(gs), 5)
	r.Floor(rule, "sync.Pool wrappers recognised", pools, 1)
}

func dedupSorted(in []string) []string {
	sort.Strings(in)
	return dedup(in)
}

// containsRef: the type is, or has a component that is, a pointer / map / slice / channel / function.
func containsRef(t types.Type, seen map[types.Type]bool) bool {
	if seen[t] {
		return false
	}
	seen[t] = true
	switch u := t.Underlying().(type) {
	case *types.Pointer, *types.Map, *types.Slice, *types.Chan, *types.Signature:
		return true
	case *types.Struct:
		for i := 0; i < u.NumFields(); i++ {
			if containsRef(u.Field(i).Type(), seen) {
				return true
			}
		}
	case *types.Array:
		return containsRef(u.Elem(), seen)
	}
	return false
}

func isRefType(t types.Type) bool {
	switch t.Underlying().(type) {
	case *types.Pointer, *types.Map, *types.Slice, *types.Chan, *types.Signature:
		return true
	}
	return false
}

// poolDiscipline checks the shape of the byte pool: *g points to a struct whose methods (the ones
// called on it) use the receiver only to reach a sync.Pool field and call Get/Put on it, and the
// pool's New function allocates a fresh item.
func poolDiscipline(p *load.Program, g *ssa.Global, methods []string) (bool, string) {
	pt, ok := g.Type().(*types.Pointer).Elem().(*types.Pointer)
	if !ok {
		return false, "the reference it holds is not a pointer to a pool wrapper"
	}
	named, ok := pt.Elem().(*types.Named)
	if !ok {
		return false, "the pointee is not a named type"
	}
	for _, mn := range methods {
		f := p.Func(named.Obj().Name() + "." + mn)
		if f == nil || len(f.Params) == 0 {
			return false, "method " + mn + " does not resolve"
		}
		recv := f.Params[0]
		for _, ref := range *recv.Referrers() {
			fa, isFA := ref.(*ssa.FieldAddr)
			if !isFA {
				if _, dbg := ref.(*ssa.DebugRef); dbg {
					continue
				}
				return false, "method " + mn + " uses its receiver other than to reach a field"
			}
			if !ssau.IsNamed(fa.Type().(*types.Pointer).Elem(), "sync", "Pool") {
				return false, "method " + mn + " touches a field that is not a sync.Pool"
			}
			for _, rr := range *fa.Referrers() {
				c, isC := rr.(*ssa.Call)
				if !isC {
					return false, "method " + mn + " uses the pool field other than by calling it"
				}
				if n := ssau.CalleeName(&c.Call); n != "(*sync.Pool).Get" && n != "(*sync.Pool).Put" {
					return false, "method " + mn + " calls " + n + " on the pool"
				}
			}
		}
	}
	// the New function
	init := p.SSAPkg.Func("init")
	if init == nil {
		return false, "package initialiser not found"
	}
	var newFn *ssa.Function
	for _, b := range init.Blocks {
		for _, in := range b.Instrs {
			st, ok := in.(*ssa.Store)
			if !ok {
				continue
			}
			fi, ok := fieldOf(st.Addr)
			if !ok || fi.Var.Name() != "New" || fi.Owner != "Pool" {
				continue
			}
			switch fv := st.Val.(type) {
			case *ssa.Function:
				newFn = fv
			case *ssa.MakeClosure:
				if len(fv.Bindings) > 0 {
					return false, "the pool's New function captures variables"
				}
				newFn, _ = fv.Fn.(*ssa.Function)
			}
		}
	}
	if newFn == nil {
		return false, "the pool's New function was not found in the initialiser"
	}
	var ops []*ssa.Value
	for _, b := range newFn.Blocks {
		for _, in := range b.Instrs {
			ops = in.Operands(ops[:0])
			for _, op := range ops {
				if op != nil && *op != nil {
					if _, isG := (*op).(*ssa.Global); isG {
						return false, "the pool's New function reads a package-level variable"
					}
				}
			}
			if st, ok := in.(*ssa.Store); ok {
				if isSlice(st.Val.Type()) {
					if fresh, _ := freshSlice(st.Val); !fresh {
						return false, "the pool's New function stores a slice that is not freshly made"
					}
				}
			}
		}
	}
	for _, ret := range ssau.Returns(newFn) {
		a, ok := ssau.StripIface(ret.Results[0]).(*ssa.Alloc)
		if !ok || !a.Heap {
			return false, "the pool's New function does not return a freshly allocated item"
		}
	}
	return true, ""
}
