package ownership

import (
	"fmt"
	"go/token"
	"go/types"
	"sort"
	"strings"

	"golang.org/x/tools/go/ssa"

	"astverif/load"
	"astverif/report"
	"astverif/ssau"
)

// AccumulatorAlias is C16 (c). Inductive invariant I: "the backing array of packetAccumulator.q
// has never been handed to a caller". I holds for a new accumulator (q is nil). It is preserved by
// add if on every path the returned slice ps is nil, or the value stored to q shares no root
// (allocation) with ps: then the array kept in q is either the old one (not handed out by I and not
// handed out now) or a fresh one. The only other reader of q hands it out and deletes the
// accumulator in the same step.
func AccumulatorAlias(p *load.Program, r *report.Report) {
	const rule = "accum"
	qVar := lookupField(p, "packetAccumulator", "q")
	add := p.Func("packetAccumulator.add")
	if qVar == nil || add == nil {
		r.Unknown(rule, "anchor/packetAccumulator", "", "packetAccumulator.q or (*packetAccumulator).add no longer resolves")
		return
	}
	// who reads / writes q
	writers, readers := map[string]bool{}, map[string]bool{}
	var dumpLoads []*ssa.UnOp
	for _, f := range p.SrcFuncs() {
		for _, b := range f.Blocks {
			for _, in := range b.Instrs {
				fa, ok := in.(*ssa.FieldAddr)
				if !ok {
					if fl, isF := in.(*ssa.Field); isF {
						if fi, _ := fieldOf(fl); fi.Var == qVar {
							readers[fname(f)] = true
						}
					}
					continue
				}
				if fi, _ := fieldOf(fa); fi.Var != qVar {
					continue
				}
				for _, ref := range *fa.Referrers() {
					switch x := ref.(type) {
					case *ssa.Store:
						if x.Addr == ssa.Value(fa) {
							writers[fname(f)] = true
						} else {
							writers[fname(f)+" (address of q stored)"] = true
						}
					case *ssa.UnOp:
						readers[fname(f)] = true
						if f != add {
							dumpLoads = append(dumpLoads, x)
						}
					case *ssa.DebugRef:
					default:
						writers[fname(f)+" (address of q used by "+instrKind(ref)+")"] = true
					}
				}
			}
		}
	}
	wl, rl := keys(writers), keys(readers)
	if len(wl) == 1 && wl[0] == fname(add) {
		r.OK(rule, "packetAccumulator.q/writers", p.Pos(add.Pos()), "q is stored to only in "+fname(add))
	} else {
		r.Bad(rule, "packetAccumulator.q/writers", p.Pos(add.Pos()), "q is written outside add: "+strings.Join(wl, ", ")+" — the aliasing invariant of add does not cover these writes")
	}
	// every read outside add must hand the slice out and drop the accumulator at the same time
	for _, ld := range dumpLoads {
		f := ld.Parent()
		key := fname(f) + "/q-read"
		if why := handedOutThenDeleted(ld); why != "" {
			r.Unknown(rule, key, p.Pos(ld.Pos()), "q is read outside add and "+why+": the accumulator may keep appending into an array that was handed out")
		} else {
			r.OK(rule, key, p.Pos(ld.Pos()), "q is read from the accumulator found under a map key and the same key is deleted from the same map in the same block: the accumulator (and with it the array it may reuse) is dropped when its slice is handed out")
		}
	}
	r.Count("accum_q_readers", len(rl))

	// the invariant inside add
	rets := ssau.Returns(add)
	npairs := 0
	for i, ret := range rets {
		key := fmt.Sprintf("%s/return#%d", fname(add), i+1)
		if len(ret.Results) != 1 {
			r.Unknown(rule, key, p.Pos(ret.Pos()), "add no longer returns exactly one value")
			continue
		}
		qvals, unchanged := reachingFieldStores(qVar, ret)
		var bad, unk, okd []string
		check := func(ps, q ssa.Value, qDesc string) {
			for _, pr := range jointPairs(ps, q) {
				npairs++
				verdict, why := pairVerdict(pr[0], pr[1], qVar)
				desc := fmt.Sprintf("ps=%s, q=%s", valDesc(pr[0], qVar), valDesc(pr[1], qVar))
				switch verdict {
				case 0:
					okd = append(okd, desc+" ("+why+")")
				case 1:
					bad = append(bad, desc+": "+why)
				default:
					unk = append(unk, desc+": "+why)
				}
			}
		}
		for _, st := range qvals {
			check(ret.Results[0], st.Val, "stored")
		}
		if unchanged {
			// q keeps its entry value: model it as the (first) load of q
			check(ret.Results[0], qEntry{}, "unchanged")
		}
		sort.Strings(okd)
		switch {
		case len(bad) > 0:
			r.Bad(rule, key, p.Pos(ret.Pos()), "the slice returned to the caller and the slice kept in q share a backing array on some path: "+strings.Join(bad, "; ")+" — a later add appends into (overwrites) an array the caller already holds")
		case len(unk) > 0:
			r.Unknown(rule, key, p.Pos(ret.Pos()), "cannot separate returned slice from kept slice: "+strings.Join(unk, "; "))
		default:
			r.OK(rule, key, p.Pos(ret.Pos()), "on every path ps is nil, q becomes nil, or q's allocation is disjoint from ps's: "+strings.Join(dedup(okd), "; "))
		}
	}
	r.Floor(rule, "return/store pairs examined in add", npairs, 4)

	// the queue slice is only lent to helpers that read it
	var seeds []ssa.Value
	for _, b := range add.Blocks {
		for _, in := range b.Instrs {
			if v, ok := in.(ssa.Value); ok {
				if fi, isL := loadedField(v); isL && fi.Var == qVar {
					seeds = append(seeds, v)
				} else if f, _ := freshSlice(v); f && types.Identical(v.Type(), qVar.Type()) {
					seeds = append(seeds, v)
				}
			}
		}
	}
	var unk []string
	lent := map[string]int{}
	seenP := map[*ssa.Parameter]bool{}
	var follow func(f *ssa.Function, seeds []ssa.Value, top bool)
	follow = func(f *ssa.Function, seeds []ssa.Value, top bool) {
		_, uses := aliasClosure(seeds)
		for _, u := range uses {
			at := " in " + fname(f) + " at " + p.Pos(u.Instr.Pos())
			switch u.Kind {
			case "elem-read", "len", "compare", "spill", "append-src":
			case "append-base", "return":
				if !top {
					unk = append(unk, "the queue slice is "+u.Kind+at)
				}
			case "store-field":
				if !(top && u.Field.Var == qVar) {
					unk = append(unk, "the queue slice is stored into "+u.Field.String()+at)
				}
			case "call-arg":
				fn := u.Fn
				if !inRoot(p, fn) || u.Common.IsInvoke() || u.Arg >= len(fn.Params) {
					unk = append(unk, "the queue slice is passed to "+calleeDesc(u.Callee)+at)
					continue
				}
				lent[fname(fn)]++
				if prm := fn.Params[u.Arg]; !seenP[prm] {
					seenP[prm] = true
					follow(fn, []ssa.Value{prm}, false)
				}
			default:
				unk = append(unk, "the queue slice is used by "+u.Kind+" "+u.Desc+at)
			}
		}
	}
	follow(add, seeds, true)
	if len(unk) > 0 {
		r.Unknown(rule, fname(add)+"/lent-read-only", p.Pos(add.Pos()), strings.Join(dedupSorted(unk), "; "))
	} else {
		r.OK(rule, fname(add)+"/lent-read-only", p.Pos(add.Pos()), "the queue slice is only stored to q, returned, appended to, or lent to helpers that read its length and elements: "+joinSorted(lent))
	}
}

func keys(m map[string]bool) []string {
	var out []string
	for k := range m {
		out = append(out, k)
	}
	sort.Strings(out)
	return out
}

func dedup(in []string) []string {
	var out []string
	for i, s := range in {
		if i == 0 || s != in[i-1] {
			out = append(out, s)
		}
	}
	return out
}

// qEntry is a pseudo value: "the value q had on entry" (used when no store reaches a return).
type qEntry struct{ ssa.Value }

func (qEntry) Name() string                  { return "q@entry" }
func (qEntry) String() string                { return "q@entry" }
func (qEntry) Type() types.Type              { return types.Typ[types.Invalid] }
func (qEntry) Referrers() *[]ssa.Instruction { return nil }
func (qEntry) Pos() token.Pos                { return token.NoPos }
func (qEntry) Parent() *ssa.Function         { return nil }

// reachingFieldStores finds the stores to field fv that may be the last one before instruction at.
func reachingFieldStores(fv *types.Var, at ssa.Instruction) (sts []*ssa.Store, entry bool) {
	seen := map[*ssa.BasicBlock]bool{}
	var walk func(b *ssa.BasicBlock, from int)
	walk = func(b *ssa.BasicBlock, from int) {
		for i := from; i >= 0; i-- {
			if st, ok := b.Instrs[i].(*ssa.Store); ok {
				if fi, isF := fieldOf(st.Addr); isF && fi.Var == fv {
					sts = append(sts, st)
					return
				}
			}
		}
		if len(b.Preds) == 0 {
			entry = true
			return
		}
		for _, pb := range b.Preds {
			if seen[pb] {
				continue
			}
			seen[pb] = true
			walk(pb, len(pb.Instrs)-1)
		}
	}
	walk(at.Block(), ssau.IndexOf(at)-1)
	return
}

// stripDeriv removes derivations that keep the backing array: slicing, append (base), type changes.
func stripDeriv(v ssa.Value) ssa.Value {
	for {
		switch x := v.(type) {
		case *ssa.Slice:
			if _, isAlloc := x.X.(*ssa.Alloc); isAlloc {
				return v // slice of a fresh array: a leaf
			}
			v = x.X
		case *ssa.ChangeType:
			v = x.X
		case *ssa.Call:
			if b, ok := x.Call.Value.(*ssa.Builtin); ok && b.Name() == "append" {
				v = x.Call.Args[0]
			} else {
				return v
			}
		default:
			return v
		}
	}
}

// jointPairs resolves (ps, q) into leaf pairs. Phis of the same block are resolved edge by edge
// (they select the same predecessor); all other combinations are over-approximated by the product.
func jointPairs(ps, q ssa.Value) [][2]ssa.Value {
	var out [][2]ssa.Value
	seen := map[[2]ssa.Value]bool{}
	var rec func(a, b ssa.Value)
	rec = func(a, b ssa.Value) {
		a, b = stripDeriv(a), stripDeriv(b)
		k := [2]ssa.Value{a, b}
		if seen[k] {
			return
		}
		seen[k] = true
		pa, aPhi := a.(*ssa.Phi)
		pb, bPhi := b.(*ssa.Phi)
		switch {
		case aPhi && bPhi && pa.Block() == pb.Block():
			for i := range pa.Edges {
				rec(pa.Edges[i], pb.Edges[i])
			}
		case aPhi:
			for _, e := range pa.Edges {
				rec(e, b)
			}
		case bPhi:
			for _, e := range pb.Edges {
				rec(a, e)
			}
		default:
			if la := spillLeaves(a); la != nil {
				for _, l := range la {
					rec(l, b)
				}
				return
			}
			if lb := spillLeaves(b); lb != nil {
				for _, l := range lb {
					rec(a, l)
				}
				return
			}
			out = append(out, k)
		}
	}
	rec(ps, q)
	return out
}

// spillLeaves resolves a load of a spill slot into the stored values (nil when v is not such a load).
func spillLeaves(v ssa.Value) []ssa.Value {
	u, ok := v.(*ssa.UnOp)
	if !ok || u.Op != token.MUL {
		return nil
	}
	a, ok := u.X.(*ssa.Alloc)
	if !ok || !ssau.SpillSlot(a) {
		return nil
	}
	vals, zero := ssau.ReachingStores(a, u)
	if zero {
		vals = append(vals, ssa.NewConst(nil, u.Type()))
	}
	return vals
}

// rootOf classifies a leaf: "nil", "fresh" (with its allocation), "qold", or "opaque".
func rootOf(v ssa.Value, qVar *types.Var) (kind string, id ssa.Value) {
	if _, ok := v.(qEntry); ok {
		return "qold", nil
	}
	if ssau.IsNilConst(v) {
		return "nil", nil
	}
	if ok, _ := freshSlice(v); ok {
		if s, isS := v.(*ssa.Slice); isS {
			return "fresh", s.X
		}
		return "fresh", v
	}
	if fi, ok := loadedField(v); ok && fi.Var == qVar {
		return "qold", nil
	}
	return "opaque", v
}

func valDesc(v ssa.Value, qVar *types.Var) string {
	k, _ := rootOf(v, qVar)
	switch k {
	case "nil":
		return "nil"
	case "fresh":
		return "fresh make"
	case "qold":
		return "old q array"
	}
	return v.Name()
}

// pairVerdict: 0 = separated, 1 = aliasing, 2 = unknown.
func pairVerdict(ps, q ssa.Value, qVar *types.Var) (int, string) {
	pk, pid := rootOf(ps, qVar)
	qk, qid := rootOf(q, qVar)
	switch {
	case pk == "nil":
		return 0, "nothing is handed out"
	case qk == "nil":
		return 0, "q is emptied"
	case pk == "opaque" || qk == "opaque":
		return 2, "a value of unknown provenance takes part"
	case pk == "qold" && qk == "qold":
		return 1, "the old q array is returned and kept"
	case pk == "fresh" && qk == "fresh" && pid == qid:
		return 1, "the same new array is returned and kept"
	}
	return 0, "different allocations"
}

// handedOutThenDeleted checks the dumpUnlocked shape: ld = *(&m[k].q), followed in the same block by
// delete(m', k') with m' a load of the same map field and k' the same key expression.
func handedOutThenDeleted(ld *ssa.UnOp) string {
	fa, ok := ld.X.(*ssa.FieldAddr)
	if !ok {
		return "the read is not a field load"
	}
	lk, ok := fa.X.(*ssa.Lookup)
	if !ok {
		return "the accumulator is not obtained from a map lookup"
	}
	mfi, ok := loadedField(lk.X)
	if !ok {
		return "the map is not a field"
	}
	b := ld.Block()
	for i := ssau.IndexOf(ld) + 1; i < len(b.Instrs); i++ {
		c, ok := b.Instrs[i].(*ssa.Call)
		if !ok {
			continue
		}
		bi, ok := c.Call.Value.(*ssa.Builtin)
		if !ok || bi.Name() != "delete" {
			continue
		}
		m2, ok := loadedField(c.Call.Args[0])
		if !ok || m2.Var != mfi.Var || m2.Base != mfi.Base {
			continue
		}
		if sameExpr(c.Call.Args[1], lk.Index) {
			return ""
		}
	}
	return "the accumulator is not deleted from its map under the same key right after"
}

// sameExpr: identical value, or the same pure conversion of the same operand.
func sameExpr(a, b ssa.Value) bool {
	if a == b {
		return true
	}
	ca, ok1 := a.(*ssa.Convert)
	cb, ok2 := b.(*ssa.Convert)
	if ok1 && ok2 && types.Identical(ca.Type(), cb.Type()) {
		return sameExpr(ca.X, cb.X)
	}
	return false
}

var _ = load.RootPath
