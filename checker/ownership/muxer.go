package ownership

import (
	"fmt"
	"go/token"
	"go/types"
	"sort"
	"strings"

	"golang.org/x/tools/go/ssa"

	"astverif/load"
	"astverif/report"
	"astverif/ssau"
)

// MuxerPayload is C16 (d): nothing reachable from (*Muxer).WriteData writes through an address derived
// from the caller's d.PES.Data, uses it as copy destination or as append base; the muxer's own
// scratch (m.buf.Bytes()) stored in the local packet flows only into writePacket, which only reads it.
func MuxerPayload(p *load.Program, r *report.Report) {
	const rule = "muxer"
	wd := p.Func("Muxer.WriteData")
	dataVar := lookupField(p, "PESData", "Data")
	payloadVar := lookupField(p, "Packet", "Payload")
	if wd == nil || dataVar == nil || payloadVar == nil {
		r.Unknown(rule, "anchor/WriteData", "", "(*Muxer).WriteData, PESData.Data or Packet.Payload no longer resolves")
		return
	}
	reach := reachable(p, []*ssa.Function{wd})
	funcs := sortedFuncs(reach)
	r.Count("muxer_reachable_funcs", len(funcs))

	// sources per function: loads of <field>; parameters that receive such values (fixpoint)
	run := func(field *types.Var, label string, inFuncs []*ssa.Function, floor int) {
		paramT := map[*ssa.Parameter]bool{}
		type res struct {
			bad, unk []string
			sum      map[string]int
			pos      token.Pos
			n        int
		}
		analyse := func(f *ssa.Function) (res, bool) {
			out := res{sum: map[string]int{}}
			changed := false
			var seeds []ssa.Value
			for _, prm := range f.Params {
				if paramT[prm] {
					seeds = append(seeds, prm)
				}
			}
			for _, b := range f.Blocks {
				for _, in := range b.Instrs {
					if v, ok := in.(ssa.Value); ok {
						if fi, isL := loadedField(v); isL && fi.Var == field {
							seeds = append(seeds, v)
							if out.pos == token.NoPos {
								out.pos = in.Pos()
							}
						}
					}
				}
			}
			out.n = len(seeds)
			if len(seeds) == 0 {
				return out, false
			}
			if out.pos == token.NoPos {
				out.pos = f.Pos()
			}
			_, uses := aliasClosure(seeds)
			for _, u := range uses {
				at := " at " + p.Pos(u.Instr.Pos())
				switch u.Kind {
				case "elem-read", "len", "copy-src", "append-src", "compare", "convert-string", "spill":
					out.sum[u.Kind]++
				case "elem-write":
					out.bad = append(out.bad, "an element is assigned"+at)
				case "copy-dst":
					out.bad = append(out.bad, "it is the destination of copy"+at)
				case "append-base":
					out.bad = append(out.bad, "it is the base of append (writes into its spare capacity)"+at)
				case "iface":
					ok := len(u.Consumers) > 0
					for _, c := range u.Consumers {
						if c.Kind != "call-arg" || ifaceReaders[c.Callee] == "" {
							ok = false
						}
					}
					if ok {
						out.sum["written through "+shortCallee(u.Consumers[0].Callee)+" (reads only)"]++
					} else {
						out.unk = append(out.unk, "converted to an interface value whose consumer is not a known reader"+at)
					}
				case "call-arg":
					if fn := u.Fn; inRoot(p, fn) && !u.Common.IsInvoke() && u.Arg < len(fn.Params) {
						if !paramT[fn.Params[u.Arg]] {
							paramT[fn.Params[u.Arg]] = true
							changed = true
						}
						out.sum["handed to "+fname(fn)+" (analysed there)"]++
						continue
					}
					allowed := false
					for _, ro := range readsOnly {
						if ro.callee == u.Callee && (ro.arg < 0 || ro.arg == u.Arg) && ro.callee != "io.ReadFull" && ro.callee != "iface:(io.Reader).Read" {
							allowed = true
							out.sum[shortCallee(u.Callee)+" (reads only)"]++
						}
					}
					if !allowed {
						out.unk = append(out.unk, "passed to "+calleeDesc(u.Callee)+" which is not known to leave the bytes alone"+at)
					}
				case "store-field":
					out.unk = append(out.unk, fmt.Sprintf("an alias is stored into field %s%s: writes through that alias are not tracked", u.Field, at))
				case "return":
					out.unk = append(out.unk, "an alias is returned"+at)
				default:
					out.unk = append(out.unk, u.Desc+at)
				}
			}
			return out, changed
		}
		for i := 0; i < 50; i++ {
			changed := false
			for _, f := range inFuncs {
				if _, ch := analyse(f); ch {
					changed = true
				}
			}
			if !changed {
				break
			}
		}
		total := 0
		for _, f := range inFuncs {
			res, _ := analyse(f)
			if res.n == 0 {
				continue
			}
			total += res.n
			key := fname(f) + "/" + label
			switch {
			case len(res.bad) > 0:
				sort.Strings(res.bad)
				r.Bad(rule, key, p.Pos(res.pos), "the caller's payload bytes are modified: "+strings.Join(res.bad, "; "))
			case len(res.unk) > 0:
				sort.Strings(res.unk)
				r.Unknown(rule, key, p.Pos(res.pos), "cannot show the payload is left untouched: "+strings.Join(res.unk, "; "))
			default:
				r.OK(rule, key, p.Pos(res.pos), fmt.Sprintf("%d value(s) aliasing %s, all uses read-only: %s", res.n, label, joinSorted(res.sum)))
			}
		}
		r.Floor(rule, "values aliasing "+label+" examined", total, floor)
	}
	run(dataVar, "PES.Data", funcs, 3)

	// the muxer's scratch: pkt.Payload = m.buf.Bytes() — the packet is local and only given to writePacket
	nScratch := 0
	for _, b := range wd.Blocks {
		for _, in := range b.Instrs {
			st, ok := in.(*ssa.Store)
			if !ok {
				continue
			}
			fi, ok := fieldOf(st.Addr)
			if !ok || fi.Var != payloadVar {
				continue
			}
			nScratch++
			key := fname(wd) + "/pkt.Payload"
			okv := true
			var why []string
			for _, l := range ssau.Leaves(st.Val) {
				c, isC := l.(*ssa.Call)
				if !isC || ssau.CalleeName(&c.Call) != "(*bytes.Buffer).Bytes" {
					okv = false
					why = append(why, "the stored payload is not the muxer's own bytes.Buffer")
					continue
				}
				if rf, isF := fieldOf(c.Call.Args[0]); !isF || rf.Owner != "Muxer" {
					okv = false
					why = append(why, "the buffer is not a field of the Muxer")
				}
			}
			a, isAlloc := fi.Base.(*ssa.Alloc)
			if !isAlloc {
				okv = false
				why = append(why, "the packet is not a local of WriteData")
			} else {
				for _, ref := range *a.Referrers() {
					switch x := ref.(type) {
					case *ssa.FieldAddr, *ssa.DebugRef:
					case *ssa.Store:
						if x.Val == ssa.Value(a) {
							okv = false
							why = append(why, "the local packet's address is stored at "+p.Pos(x.Pos()))
						}
					case ssa.CallInstruction:
						if n := ssau.CalleeName(x.Common()); n != load.RootPath+".writePacket" {
							// a helper of the package that only touches fields of the packet other than Payload and hands the
							// packet to nobody else is as good as the same statements in WriteData
							if cal := x.Common().StaticCallee(); cal != nil && packetHelperOK(p, cal, x.Common().Args, a, 0) {
								continue
							}
							okv = false
							why = append(why, "the local packet is passed to "+calleeDesc(n))
						}
					default:
						okv = false
						why = append(why, "the local packet is used by a "+instrKind(ref)+" at "+p.Pos(ref.Pos()))
					}
				}
			}
			if okv {
				r.OK(rule, key, p.Pos(st.Pos()), "the payload stored in the local packet is m.buf.Bytes() (the muxer's scratch); the packet is only passed to writePacket")
			} else {
				r.Unknown(rule, key, p.Pos(st.Pos()), strings.Join(why, "; "))
			}
		}
	}
	r.Floor(rule, "stores to the local packet's Payload in WriteData", nScratch, 1)
	if wp := p.Func("writePacket"); wp != nil {
		run(payloadVar, "Packet.Payload", []*ssa.Function{wp}, 1)
	} else {
		r.Unknown(rule, "anchor/writePacket", "", "writePacket no longer resolves")
	}

	// informational: caller-visible struct fields WriteData itself assigns (documented in the source)
	var fields []string
	bytesField := false
	for _, b := range wd.Blocks {
		for _, in := range b.Instrs {
			st, ok := in.(*ssa.Store)
			if !ok {
				continue
			}
			fi, ok := fieldOf(st.Addr)
			if !ok {
				continue
			}
			if rootParam(fi.Base) == nil || rootParam(fi.Base).Name() == "m" {
				continue
			}
			fields = append(fields, fi.String())
			if isSlice(fi.Var.Type()) {
				bytesField = true
			}
		}
	}
	sort.Strings(fields)
	fields = dedup(fields)
	if bytesField {
		r.Unknown(rule, fname(wd)+"/caller-struct-fields", p.Pos(wd.Pos()), "WriteData assigns a slice-typed field of the caller's data: "+strings.Join(fields, ", "))
	} else {
		r.OK(rule, fname(wd)+"/caller-struct-fields", p.Pos(wd.Pos()), "informational: WriteData assigns these scalar fields of the caller's structs (documented in the source; they are not payload bytes): "+strings.Join(fields, ", "))
	}
}

// rootParam follows field addresses and loads back to the parameter an address is rooted at; a
// local packet whose pointer field was copied from the caller's data counts as rooted at that data.
// packetHelperOK: callee (of the analysed package) receives the packet pkt as one of its arguments and uses that parameter
// only to address fields other than Payload, or to pass it on to writePacket / another such helper.
func packetHelperOK(p *load.Program, callee *ssa.Function, args []ssa.Value, pkt ssa.Value, depth int) bool {
	if depth > 3 || callee.Pkg != p.SSAPkg || len(callee.Blocks) == 0 {
		return false
	}
	for i, a := range args {
		if a != pkt || i >= len(callee.Params) {
			continue
		}
		prm := callee.Params[i]
		for _, ref := range *prm.Referrers() {
			switch x := ref.(type) {
			case *ssa.DebugRef:
			case *ssa.FieldAddr:
				if n, _ := ssau.FieldName(x); n == "Payload" {
					return false
				}
			case ssa.CallInstruction:
				if n := ssau.CalleeName(x.Common()); n == load.RootPath+".writePacket" {
					continue
				}
				cal := x.Common().StaticCallee()
				if cal == nil || !packetHelperOK(p, cal, x.Common().Args, prm, depth+1) {
					return false
				}
			default:
				return false
			}
		}
	}
	return true
}

func rootParam(v ssa.Value) *ssa.Parameter {
	seen := map[ssa.Value]bool{}
	for v != nil && !seen[v] {
		seen[v] = true
		switch x := v.(type) {
		case *ssa.Parameter:
			return x
		case *ssa.FieldAddr:
			v = x.X
		case *ssa.IndexAddr:
			v = x.X
		case *ssa.UnOp:
			if x.Op != token.MUL {
				return nil
			}
			// load of a field of a local: look at what was stored into that field
			if fa, ok := x.X.(*ssa.FieldAddr); ok {
				if a, isA := fa.X.(*ssa.Alloc); isA {
					for _, ref := range *a.Referrers() {
						fa2, ok := ref.(*ssa.FieldAddr)
						if !ok || fa2.Field != fa.Field {
							continue
						}
						for _, rr := range *fa2.Referrers() {
							if st, ok := rr.(*ssa.Store); ok && st.Addr == ssa.Value(fa2) {
								if prm := rootParam(st.Val); prm != nil {
									return prm
								}
							}
						}
					}
					return nil
				}
			}
			v = x.X
		case *ssa.Phi:
			for _, e := range x.Edges {
				if prm := rootParam(e); prm != nil {
					return prm
				}
			}
			return nil
		default:
			return nil
		}
	}
	return nil
}
