package ownership

import (
	"fmt"
	"go/token"

	"golang.org/x/tools/go/ssa"

	"astverif/load"
	"astverif/report"
	"astverif/ssau"
)

const (
	poolGet = "(*" + load.RootPath + ".bytesPooler).get"
	poolPut = "(*" + load.RootPath + ".bytesPooler).put"
)

// PoolPairing is rule S1 on the byte pool (C16 b): every get is released by a deferred put of the
// same item, the item pointer never leaves the function, and put hands the item to sync.Pool.Put only.
func PoolPairing(p *load.Program, r *report.Report) {
	const rule = "pool"
	gets, puts := 0, 0
	for _, f := range p.SrcFuncs() {
		ord := ordinals{}
		for _, ci := range ssau.Calls(f) {
			name := ssau.CalleeName(ci.Common())
			switch name {
			case poolGet:
				gets++
				key := fmt.Sprintf("%s/get#%d", fname(f), ord.next("get"))
				call, ok := ci.(*ssa.Call)
				if !ok {
					r.Bad(rule, key, p.Pos(ci.Pos()), "get is deferred or started as a goroutine: its result cannot be released")
					continue
				}
				checkGet(p, r, rule, key, f, call)
			case poolPut:
				puts++
				key := fmt.Sprintf("%s/put#%d", fname(f), ord.next("put"))
				if _, isDefer := ci.(*ssa.Defer); isDefer {
					r.OK(rule, key, p.Pos(ci.Pos()), "put runs as a deferred call: it executes after the last use of the item in this function")
				} else {
					r.Bad(rule, key, p.Pos(ci.Pos()), "put is called directly: uses of the item or of slices of its buffer after this point are not excluded (use after put)")
				}
			}
		}
	}
	r.Floor(rule, "bytesPool.get call sites", gets, 2)
	r.Floor(rule, "bytesPool.put call sites", puts, 1)

	// put: the item is only handed to sync.Pool.Put
	if put := p.Func("bytesPooler.put"); put == nil || len(put.Params) != 2 {
		r.Unknown(rule, "(*bytesPooler).put/body", "", "(*bytesPooler).put no longer resolves")
	} else {
		item := put.Params[1]
		ok, why := true, ""
		for _, ref := range *item.Referrers() {
			mi, isMI := ref.(*ssa.MakeInterface)
			if !isMI {
				if _, dbg := ref.(*ssa.DebugRef); dbg {
					continue
				}
				ok, why = false, "the item is used by a "+instrKind(ref)+" at "+p.Pos(ref.Pos())
				continue
			}
			for _, rr := range *mi.Referrers() {
				c, isC := rr.(*ssa.Call)
				if !isC || ssau.CalleeName(&c.Call) != "(*sync.Pool).Put" {
					ok, why = false, "the boxed item flows to something other than sync.Pool.Put at "+p.Pos(rr.Pos())
				}
			}
		}
		if ok {
			r.OK(rule, "(*bytesPooler).put/body", p.Pos(put.Pos()), "the item is only handed to sync.Pool.Put")
		} else {
			r.Bad(rule, "(*bytesPooler).put/body", p.Pos(put.Pos()), why)
		}
	}
	// get: the item comes from sync.Pool.Get and only its buffer field is touched before it is returned
	if get := p.Func("bytesPooler.get"); get == nil {
		r.Unknown(rule, "(*bytesPooler).get/body", "", "(*bytesPooler).get no longer resolves")
	} else {
		ok, why := true, ""
		nret := 0
		for _, ret := range ssau.Returns(get) {
			for _, l := range ssau.Leaves(ret.Results[0]) {
				nret++
				ta, isTA := l.(*ssa.TypeAssert)
				if !isTA {
					ok, why = false, "get returns something other than the pool's item"
					continue
				}
				c, isC := ta.X.(*ssa.Call)
				if !isC || ssau.CalleeName(&c.Call) != "(*sync.Pool).Get" {
					ok, why = false, "the returned item does not come from sync.Pool.Get"
					continue
				}
				for _, ref := range *ta.Referrers() {
					switch x := ref.(type) {
					case *ssa.FieldAddr, *ssa.Return, *ssa.DebugRef, *ssa.Phi:
					case *ssa.Store:
						if x.Val == ssa.Value(ta) {
							if a, isA := x.Addr.(*ssa.Alloc); !isA || !ssau.SpillSlot(a) {
								ok, why = false, "get stores the item pointer at "+p.Pos(x.Pos())
							}
						}
					default:
						ok, why = false, "get uses the item in a "+instrKind(ref)+" at "+p.Pos(ref.Pos())
					}
				}
			}
		}
		if ok && nret > 0 {
			r.OK(rule, "(*bytesPooler).get/body", p.Pos(get.Pos()), "the item comes from sync.Pool.Get, only its buffer field is resized, and it is handed to the caller alone")
		} else {
			r.Bad(rule, "(*bytesPooler).get/body", p.Pos(get.Pos()), why)
		}
	}
}

func checkGet(p *load.Program, r *report.Report, rule, key string, f *ssa.Function, call *ssa.Call) {
	var defers []*ssa.Defer
	for _, ref := range *call.Referrers() {
		switch x := ref.(type) {
		case *ssa.DebugRef:
		case *ssa.FieldAddr:
			// payload.s — the buffer itself is tracked by S3
		case *ssa.Defer:
			if ssau.CalleeName(&x.Call) == poolPut && len(x.Call.Args) == 2 && x.Call.Args[1] == ssa.Value(call) {
				defers = append(defers, x)
			} else {
				r.Bad(rule, key, p.Pos(x.Pos()), "the pool item is captured by a deferred call other than put")
				return
			}
		case *ssa.Store:
			if x.Val == ssa.Value(call) {
				if a, isA := x.Addr.(*ssa.Alloc); isA && ssau.SpillSlot(a) {
					r.Unknown(rule, key, p.Pos(x.Pos()), "the pool item is kept in the spilled local "+a.Comment+": the rule only follows the register form and cannot pair get with put here")
					return
				}
				r.Bad(rule, key, p.Pos(x.Pos()), "the pool item pointer is stored ("+storeDesc(x)+"): it may outlive the put")
				return
			}
		case *ssa.Return:
			r.Bad(rule, key, p.Pos(x.Pos()), "the pool item pointer is returned: it outlives the deferred put")
			return
		case *ssa.MakeClosure:
			r.Bad(rule, key, p.Pos(x.Pos()), "the pool item pointer is captured by a closure")
			return
		case *ssa.MakeInterface:
			r.Bad(rule, key, p.Pos(x.Pos()), "the pool item pointer is converted to an interface value")
			return
		case ssa.CallInstruction:
			if ssau.CalleeName(x.Common()) == poolPut {
				// a direct put is reported by its own obligation
				continue
			}
			r.Bad(rule, key, p.Pos(x.Pos()), "the pool item pointer is passed to "+calleeDesc(ssau.CalleeName(x.Common())))
			return
		default:
			r.Unknown(rule, key, p.Pos(ref.Pos()), "the pool item is used by a "+instrKind(ref)+" the rule does not interpret")
			return
		}
	}
	if len(defers) == 0 {
		r.Bad(rule, key, p.Pos(call.Pos()), "the item obtained from the pool is not released by a deferred put of the same value: the buffer is never recycled (or is released by other means the rule cannot pair)")
		return
	}
	// every path from the get to a function exit passes a defer of put
	isDefer := map[ssa.Instruction]bool{}
	for _, d := range defers {
		isDefer[d] = true
	}
	seen := map[*ssa.BasicBlock]bool{}
	var leak token.Pos
	var walk func(b *ssa.BasicBlock, from int) bool
	walk = func(b *ssa.BasicBlock, from int) bool {
		for i := from; i < len(b.Instrs); i++ {
			in := b.Instrs[i]
			if isDefer[in] {
				return true
			}
			switch in.(type) {
			case *ssa.Return, *ssa.RunDefers, *ssa.Panic:
				leak = in.Pos()
				return false
			}
		}
		for _, s := range b.Succs {
			if seen[s] {
				continue
			}
			seen[s] = true
			if !walk(s, 0) {
				return false
			}
		}
		return true
	}
	if !walk(call.Block(), ssau.IndexOf(call)+1) {
		r.Bad(rule, key, p.Pos(call.Pos()), "a path from get reaches a function exit at "+p.Pos(leak)+" before the put is deferred")
		return
	}
	r.OK(rule, key, p.Pos(call.Pos()), "released by a deferred put of the same value on every path; the item pointer is only used to reach its buffer field (no store, return, capture or call argument)")
}

func storeDesc(s *ssa.Store) string {
	if fi, ok := fieldOf(s.Addr); ok {
		return "into field " + fi.String()
	}
	if g, ok := s.Addr.(*ssa.Global); ok {
		return "into package-level variable " + g.Name()
	}
	return "through a pointer"
}
