package ownership

import (
	"fmt"
	"go/types"
	"sort"
	"strings"

	"golang.org/x/tools/go/ssa"

	"astverif/load"
	"astverif/report"
	"astverif/ssau"
)

// ResetOptions are the property's parameters for rule S4.
type ResetOptions struct {
	Struct  string   // "Demuxer"
	Reset   string   // "Demuxer.Rewind"
	Roots   []string // "Demuxer.NextPacket", "Demuxer.NextData"
	Keep    []string // fields deliberately kept across a rewind (documented by the property)
	Config  []string // immutable configuration: must never be written by the demux path
	Results []string // result types that must not be reachable from a kept field
}

type fieldWrite struct {
	owner string
	fv    *types.Var
	how   string
	fn    *ssa.Function
	in    ssa.Instruction
}

// fieldWrites lists the struct-field writes of f: direct stores, element stores through a slice/array
// held in a field, map updates and deletes on a map held in a field.
func fieldWrites(f *ssa.Function) []fieldWrite {
	var out []fieldWrite
	add := func(fi fieldInfo, how string, in ssa.Instruction) {
		out = append(out, fieldWrite{owner: fi.Owner, fv: fi.Var, how: how, fn: f, in: in})
	}
	for _, b := range f.Blocks {
		for _, in := range b.Instrs {
			switch x := in.(type) {
			case *ssa.Store:
				switch a := x.Addr.(type) {
				case *ssa.FieldAddr:
					if fi, ok := fieldOf(a); ok {
						add(fi, "assigned", in)
					}
				case *ssa.IndexAddr:
					if fi, ok := loadedField(a.X); ok {
						add(fi, "element assigned", in)
					} else if fa, ok := a.X.(*ssa.FieldAddr); ok { // array field
						if fi, ok := fieldOf(fa); ok {
							add(fi, "element assigned", in)
						}
					}
				}
			case *ssa.MapUpdate:
				if fi, ok := loadedField(x.Map); ok {
					add(fi, "map entry set", in)
				}
			case *ssa.Call:
				if bi, ok := x.Call.Value.(*ssa.Builtin); ok && bi.Name() == "delete" {
					if fi, ok := loadedField(x.Call.Args[0]); ok {
						add(fi, "map entry deleted", in)
					}
				}
			}
		}
	}
	return out
}

// ownersOf computes, for every named struct type of the root package reachable from the fields of
// the state struct, the set of state fields it is reachable from.
func ownersOf(st *types.Struct) map[string]map[string]bool {
	owners := map[string]map[string]bool{}
	for i := 0; i < st.NumFields(); i++ {
		f := st.Field(i)
		seen := map[types.Type]bool{}
		var walk func(t types.Type)
		walk = func(t types.Type) {
			if seen[t] {
				return
			}
			seen[t] = true
			if n, ok := t.(*types.Named); ok {
				if n.Obj().Pkg() == nil || n.Obj().Pkg().Path() != load.RootPath {
					return
				}
				if _, isStruct := n.Underlying().(*types.Struct); isStruct {
					if owners[n.Obj().Name()] == nil {
						owners[n.Obj().Name()] = map[string]bool{}
					}
					owners[n.Obj().Name()][f.Name()] = true
				}
			}
			switch u := t.Underlying().(type) {
			case *types.Pointer:
				walk(u.Elem())
			case *types.Slice:
				walk(u.Elem())
			case *types.Array:
				walk(u.Elem())
			case *types.Chan:
				walk(u.Elem())
			case *types.Map:
				walk(u.Key())
				walk(u.Elem())
			case *types.Struct:
				for j := 0; j < u.NumFields(); j++ {
					walk(u.Field(j).Type())
				}
			}
		}
		walk(f.Type())
	}
	return owners
}

// ResetCompleteness is rule S4 (C20 a, b). It returns the set R of fields reset by Rewind.
func ResetCompleteness(p *load.Program, r *report.Report, opt ResetOptions) map[string]bool {
	const rule = "reset"
	obj := p.Types.Scope().Lookup(opt.Struct)
	reset := p.Func(opt.Reset)
	if obj == nil || reset == nil || len(reset.Params) == 0 {
		r.Unknown(rule, "anchor/"+opt.Reset, "", opt.Struct+" or "+opt.Reset+" no longer resolves")
		return nil
	}
	st, ok := obj.Type().Underlying().(*types.Struct)
	if !ok {
		r.Unknown(rule, "anchor/"+opt.Struct, "", opt.Struct+" is not a struct")
		return nil
	}
	K, C := map[string]bool{}, map[string]bool{}
	for _, k := range opt.Keep {
		K[k] = true
	}
	for _, c := range opt.Config {
		C[c] = true
	}
	fieldNames := map[string]*types.Var{}
	for i := 0; i < st.NumFields(); i++ {
		fieldNames[st.Field(i).Name()] = st.Field(i)
	}
	for _, n := range append(append([]string{}, opt.Keep...), opt.Config...) {
		if fieldNames[n] == nil {
			r.Unknown(rule, "anchor/"+opt.Struct+"."+n, "", "the property names field "+n+" which no longer exists")
		}
	}

	// R: unconditional assignments of state fields in Rewind (through the receiver)
	recv := reset.Params[0]
	R := map[string]bool{}
	resetStores := map[string]*ssa.Store{}
	rets := ssau.Returns(reset)
	for _, b := range reset.Blocks {
		for _, in := range b.Instrs {
			s, ok := in.(*ssa.Store)
			if !ok {
				continue
			}
			fi, ok := fieldOf(s.Addr)
			if !ok || fi.Owner != opt.Struct || fi.Base != ssa.Value(recv) {
				continue
			}
			all := true
			for _, ret := range rets {
				if !(s.Block() == ret.Block() || s.Block().Dominates(ret.Block())) {
					all = false
				}
			}
			if !all {
				r.Bad(rule, "unconditional/"+opt.Struct+"."+fi.Var.Name(), p.Pos(s.Pos()), "the reset of "+fi.Var.Name()+" does not happen on every path through "+fname(reset)+": on the other paths the state of the previous pass survives")
				// reported here once; counted as reset below so that the same defect is not repeated per written field
			}
			R[fi.Var.Name()] = true
			resetStores[fi.Var.Name()] = s
		}
	}

	// W: fields written on the demux path
	var roots []*ssa.Function
	for _, k := range opt.Roots {
		f := p.Func(k)
		if f == nil {
			r.Unknown(rule, "anchor/"+k, "", k+" no longer resolves")
			return R
		}
		roots = append(roots, f)
	}
	reach := reachable(p, roots)
	owners := ownersOf(st)
	type wkey struct {
		owner string
		fv    *types.Var
	}
	W := map[wkey][]fieldWrite{}
	outside := map[string][]fieldWrite{}
	untracked := 0
	for _, f := range sortedFuncs(reach) {
		for _, w := range fieldWrites(f) {
			if w.owner != opt.Struct && owners[w.owner] == nil {
				untracked++
				outside[w.owner+"."+w.fv.Name()] = append(outside[w.owner+"."+w.fv.Name()], w)
				continue
			}
			W[wkey{w.owner, w.fv}] = append(W[wkey{w.owner, w.fv}], w)
		}
	}
	var wk []wkey
	for k := range W {
		wk = append(wk, k)
	}
	sort.Slice(wk, func(i, j int) bool {
		if wk[i].owner != wk[j].owner {
			return wk[i].owner < wk[j].owner
		}
		return wk[i].fv.Name() < wk[j].fv.Name()
	})
	nState := 0
	// problems are attributed to the Demuxer field through which the stale state stays reachable
	problems := map[string][]string{}
	problemPos := map[string]string{}
	for _, k := range wk {
		ws := W[k]
		key := k.owner + "." + k.fv.Name()
		where := map[string]int{}
		for _, w := range ws {
			where[fname(w.fn)+" ("+w.how+")"]++
		}
		wdesc := "written by " + joinSorted(where)
		pos := p.Pos(ws[0].in.Pos())
		if k.owner == opt.Struct {
			nState++
			n := k.fv.Name()
			switch {
			case C[n]:
				r.Bad(rule, key, pos, "configuration field "+n+" is "+wdesc+": it is neither reset nor meant to change between passes, so the pass after a Rewind runs with a different configuration than a fresh demuxer")
			case R[n]:
				r.OK(rule, key, pos, wdesc+"; assigned afresh on every path of "+fname(reset))
			case K[n]:
				r.OK(rule, key, pos, wdesc+"; deliberately kept across a rewind (the property says so)")
			default:
				problems[n] = append(problems[n], "the field itself is "+wdesc)
				if problemPos[n] == "" {
					problemPos[n] = pos
				}
			}
			continue
		}
		own := keys(owners[k.owner])
		var viaK, notReset []string
		for _, o := range own {
			switch {
			case K[o]:
				viaK = append(viaK, o)
			case R[o]:
			default:
				notReset = append(notReset, o)
			}
		}
		switch {
		case len(notReset) > 0:
			for _, o := range notReset {
				problems[o] = append(problems[o], key+" ("+wdesc+")")
				if problemPos[o] == "" {
					problemPos[o] = p.Pos(fieldNames[o].Pos())
				}
			}
		case len(viaK) > 0:
			r.OK(rule, key, pos, fmt.Sprintf("%s; a %s is reachable from the kept field(s) %s (deliberately kept) and otherwise only from fields that are replaced (%s)", wdesc, k.owner, strings.Join(viaK, ","), strings.Join(own, ",")))
		default:
			r.OK(rule, key, pos, fmt.Sprintf("%s; a %s is reachable from the %s only through %s, all replaced by %s", wdesc, k.owner, opt.Struct, strings.Join(own, ","), fname(reset)))
		}
	}
	for _, n := range keys2(problems) {
		ps := problems[n]
		more := ""
		if len(ps) > 6 {
			more = fmt.Sprintf(" … and %d more", len(ps)-6)
			ps = ps[:6]
		}
		what := "per-pass state survives Rewind through " + opt.Struct + "." + n
		if C[n] {
			what = "the demux path writes into objects reachable from the configuration field " + opt.Struct + "." + n
		}
		r.Bad(rule, opt.Struct+"."+n, problemPos[n], fmt.Sprintf("%s: %s does not assign it (and it is not in the keep-set {%s}), yet the demux path writes: %s%s — a pass after Rewind starts with residue of the previous one", what, fname(reset), strings.Join(opt.Keep, ","), strings.Join(ps, "; "), more))
	}
	r.Count("reset_untracked_field_writes", untracked)
	var on []string
	for k := range outside {
		on = append(on, k)
	}
	sort.Strings(on)
	for _, k := range on {
		w := outside[k][0]
		r.Trivial(rule, "outside/"+k, p.Pos(w.in.Pos()), "written by "+fname(w.fn)+" but no value of this type is reachable from a "+opt.Struct+": a temporary of one call, or the pooled scratch buffer whose lifetime is covered by C16 (b) and the package-level inventory")
	}
	r.Floor(rule, opt.Struct+" fields written on the demux path", nState, 2)
	r.Floor(rule, "owned-object fields written on the demux path", len(wk)-nState, 10)
	r.Floor(rule, "fields reset by "+fname(reset), len(R), 1)

	// partition of the struct's fields
	for i := 0; i < st.NumFields(); i++ {
		n := st.Field(i).Name()
		key := "partition/" + opt.Struct + "." + n
		_, written := W[wkey{opt.Struct, st.Field(i)}]
		switch {
		case R[n] && C[n]:
			r.Bad(rule, key, p.Pos(st.Field(i).Pos()), n+" is configuration but "+fname(reset)+" assigns it: the demuxer no longer behaves like a fresh one built with the same options")
		case R[n] && K[n]:
			r.Trivial(rule, key, p.Pos(st.Field(i).Pos()), "may be kept, but is reset as well")
		case R[n]:
			r.Trivial(rule, key, p.Pos(st.Field(i).Pos()), "reset")
		case K[n]:
			r.Trivial(rule, key, p.Pos(st.Field(i).Pos()), "kept (documented)")
		case C[n]:
			r.Trivial(rule, key, p.Pos(st.Field(i).Pos()), "configuration, never written on the demux path")
		case written || len(problems[n]) > 0:
			// reported above
		default:
			r.Trivial(rule, key, p.Pos(st.Field(i).Pos()), "not written on the demux path: carries no per-pass state")
		}
	}
	// kept fields must not give access to result objects or accumulators
	want := map[string]bool{}
	for _, t := range opt.Results {
		want[t] = true
	}
	for _, k := range opt.Keep {
		if fv := fieldNames[k]; fv != nil {
			if tn := typeReaches(fv.Type(), want, map[types.Type]bool{}); tn != "" {
				r.Bad(rule, "keep/"+opt.Struct+"."+k, p.Pos(fv.Pos()), "the kept field can reference "+tn+" objects of the previous pass")
			} else {
				r.OK(rule, "keep/"+opt.Struct+"."+k, p.Pos(fv.Pos()), "the kept object ("+ssau.ShortType(fv.Type())+") cannot reference packets, data or accumulators of the previous pass")
			}
		}
	}

	// (b) freshness of every reset value
	var rn []string
	for n := range resetStores {
		rn = append(rn, n)
	}
	sort.Strings(rn)
	for _, n := range rn {
		s := resetStores[n]
		key := opt.Struct + "." + n
		verdict, why := freshValue(p, s.Val, recv, opt, K, C)
		switch verdict {
		case 0:
			r.OK("fresh", key, p.Pos(s.Pos()), why)
		case 1:
			r.Bad("fresh", key, p.Pos(s.Pos()), why)
		default:
			r.Unknown("fresh", key, p.Pos(s.Pos()), why)
		}
	}
	return R
}

// recvPath follows loads and field addresses back to the receiver and returns the field path
// ("packetPool.b"); ok=false when v is not rooted at the receiver.
func recvPath(v ssa.Value, recv ssa.Value) (path []string, ok bool) {
	for i := 0; i < 16; i++ {
		if v == recv {
			return path, true
		}
		switch x := v.(type) {
		case *ssa.UnOp:
			v = x.X
		case *ssa.FieldAddr:
			fi, _ := fieldOf(x)
			path = append([]string{fi.Var.Name()}, path...)
			v = x.X
		case *ssa.Field:
			fi, _ := fieldOf(x)
			path = append([]string{fi.Var.Name()}, path...)
			v = x.X
		case *ssa.Slice:
			v = x.X
		case *ssa.IndexAddr:
			v = x.X
		case *ssa.Lookup:
			v = x.X
		default:
			return nil, false
		}
	}
	return nil, false
}

// freshValue: 0 fresh, 1 aliases old state, 2 unknown.
func freshValue(p *load.Program, v ssa.Value, recv ssa.Value, opt ResetOptions, K, C map[string]bool) (int, string) {
	return freshValueD(p, v, recv, opt, K, C, 0)
}

func freshValueD(p *load.Program, v ssa.Value, recv ssa.Value, opt ResetOptions, K, C map[string]bool, depth int) (int, string) {
	if ssau.IsNilConst(v) {
		return 0, "nil"
	}
	if ok, n := freshSlice(v); ok {
		if n == 0 {
			return 0, "a new empty slice"
		}
		return 0, "a newly made slice (zeroed)"
	}
	if path, ok := recvPath(v, recv); ok && len(path) > 0 {
		if _, isSl := v.(*ssa.Slice); isSl {
			return 1, "the new value is a re-slice of the old " + opt.Struct + "." + strings.Join(path, ".") + ": it keeps the previous backing array (old elements stay reachable through it and later appends write into an array the previous pass used) — the rule demands a value not derived from old state"
		}
		if len(path) == 1 && (K[path[0]] || C[path[0]]) && depth > 0 {
			return 0, "the kept/configuration field " + path[0]
		}
		return 1, "the new value is (part of) the old state " + opt.Struct + "." + strings.Join(path, ".")
	}
	switch x := v.(type) {
	case *ssa.MakeMap:
		return 0, "a new map"
	case *ssa.Const:
		return 0, "a constant"
	case *ssa.Alloc:
		if !x.Heap || depth > 3 {
			break
		}
		// composite literal: every field initialiser must itself be fresh or kept
		var parts []string
		for _, ref := range *x.Referrers() {
			fa, ok := ref.(*ssa.FieldAddr)
			if !ok {
				continue
			}
			for _, rr := range *fa.Referrers() {
				st, ok := rr.(*ssa.Store)
				if !ok || st.Addr != ssa.Value(fa) {
					continue
				}
				fi, _ := fieldOf(fa)
				code, why := freshValueD(p, st.Val, recv, opt, K, C, depth+1)
				if code != 0 {
					return code, "field " + fi.Var.Name() + " of the new object: " + why
				}
				parts = append(parts, fi.Var.Name()+" = "+why)
			}
		}
		sort.Strings(parts)
		return 0, "a newly allocated object {" + strings.Join(parts, "; ") + "}"
	case *ssa.Call:
		fn := staticRootCallee(p, &x.Call)
		if fn == nil {
			return 2, "the result of " + calleeDesc(ssau.CalleeName(&x.Call)) + " (not a constructor of this package)"
		}
		var shared []string
		for _, a := range x.Call.Args {
			if _, isC := a.(*ssa.Const); isC {
				continue
			}
			path, ok := recvPath(a, recv)
			if !ok || len(path) == 0 {
				return 2, "constructor argument " + a.Name() + " is not a constant or a field of the receiver"
			}
			if len(path) != 1 || (!K[path[0]] && !C[path[0]]) {
				return 1, "the constructor receives the old " + opt.Struct + "." + strings.Join(path, ".") + ", which is per-pass state"
			}
			shared = append(shared, path[0])
		}
		if ok, why := constructorFresh(fn); !ok {
			return 2, fname(fn) + ": " + why
		}
		return 0, fmt.Sprintf("%s returns a newly allocated object whose fields are new maps/slices, constants or its arguments; the only old state passed in is {%s} (kept/configuration)", fname(fn), strings.Join(shared, ","))
	}
	return 2, "value " + v.Name() + " of a shape the rule does not recognise"
}

// constructorFresh: every return is a fresh heap allocation; every field store into it is a fresh
// container, a constant or a parameter; no package-level variable is read.
func constructorFresh(fn *ssa.Function) (bool, string) {
	var ops []*ssa.Value
	for _, b := range fn.Blocks {
		for _, in := range b.Instrs {
			ops = in.Operands(ops[:0])
			for _, op := range ops {
				if op != nil && *op != nil {
					if _, isG := (*op).(*ssa.Global); isG {
						return false, "reads a package-level variable"
					}
				}
			}
			switch x := in.(type) {
			case *ssa.Store:
				v := x.Val
				okv := false
				if ssau.IsNilConst(v) {
					okv = true
				} else if f, _ := freshSlice(v); f {
					okv = true
				} else {
					switch v.(type) {
					case *ssa.MakeMap, *ssa.Const, *ssa.Parameter, *ssa.MakeSlice:
						okv = true
					}
				}
				if !okv {
					return false, "stores a value that is neither new, constant nor a parameter"
				}
			case ssa.CallInstruction:
				return false, "calls " + calleeDesc(ssau.CalleeName(x.Common()))
			}
		}
	}
	for _, ret := range ssau.Returns(fn) {
		for _, res := range ret.Results {
			for _, l := range ssau.Leaves(res) {
				a, ok := l.(*ssa.Alloc)
				if !ok || !a.Heap {
					return false, "does not return a newly allocated object"
				}
			}
		}
	}
	return true, ""
}

// RewindReader is C20 (c).
func RewindReader(p *load.Program, r *report.Report, opt ResetOptions) {
	const rule = "rewind"
	reset := p.Func(opt.Reset)
	rw := p.Func("rewind")
	rVar := lookupField(p, opt.Struct, "r")
	if reset == nil || rw == nil || rVar == nil {
		r.Unknown(rule, "anchor/rewind", "", "Rewind, rewind or "+opt.Struct+".r no longer resolves")
		return
	}
	var call *ssa.Call
	for _, ci := range ssau.Calls(reset) {
		if c, ok := ci.(*ssa.Call); ok && c.Call.StaticCallee() == rw {
			if call != nil {
				r.Unknown(rule, fname(reset)+"/call", p.Pos(c.Pos()), "rewind is called more than once")
				return
			}
			call = c
		}
	}
	key := fname(reset)
	if call == nil {
		r.Bad(rule, key+"/call", p.Pos(reset.Pos()), "Rewind does not call rewind on the reader: the stream position is left where it was")
		return
	}
	fi, ok := loadedField(call.Call.Args[0])
	domAll := true
	for _, ret := range ssau.Returns(reset) {
		if !(call.Block() == ret.Block() || call.Block().Dominates(ret.Block())) {
			domAll = false
		}
	}
	switch {
	case !ok || fi.Var != rVar || fi.Base != ssa.Value(reset.Params[0]):
		r.Bad(rule, key+"/call", p.Pos(call.Pos()), "rewind is not applied to the demuxer's own reader dmx.r")
	case !domAll:
		r.Bad(rule, key+"/call", p.Pos(call.Pos()), "rewind(dmx.r) is not executed on every path through Rewind")
	default:
		r.OK(rule, key+"/call", p.Pos(call.Pos()), "rewind(dmx.r) is executed on every path through Rewind")
	}
	// order: resets before the seek
	late := []string{}
	for _, b := range reset.Blocks {
		for _, in := range b.Instrs {
			if s, ok := in.(*ssa.Store); ok {
				if sfi, ok := fieldOf(s.Addr); ok && sfi.Owner == opt.Struct && !ssau.InstrBefore(s, call) {
					late = append(late, sfi.Var.Name())
				}
			}
		}
	}
	if len(late) == 0 {
		r.OK(rule, key+"/order", p.Pos(call.Pos()), "every state reset precedes the seek: a failing seek still leaves a clean demuxer")
	} else {
		r.Bad(rule, key+"/order", p.Pos(call.Pos()), "state is reset after (or not ordered with) the seek: "+strings.Join(late, ","))
	}
	// results: n passed through, error derived
	nRes := ssau.ResultValue(call, 0)
	eRes := ssau.ResultValue(call, 1)
	okRes, whyRes := len(nRes) == 1 && len(eRes) == 1, "rewind's results are not both used"
	if okRes {
		for _, ret := range ssau.Returns(reset) {
			for _, l := range ssau.Leaves(ret.Results[0]) {
				if l != nRes[0] {
					okRes, whyRes = false, "the offset returned by Rewind is not the one reported by rewind"
				}
			}
			if ok, why := errDerives(ret.Results[1], eRes[0], false); !ok {
				okRes, whyRes = false, why
			}
		}
	}
	if okRes {
		r.OK(rule, key+"/result", p.Pos(call.Pos()), "Rewind returns rewind's offset unchanged and its error (wrapped with %w on the failure edge)")
	} else {
		r.Bad(rule, key+"/result", p.Pos(call.Pos()), whyRes)
	}

	// inside rewind
	var ta *ssa.TypeAssert
	for _, ref := range *rw.Params[0].Referrers() {
		if t, ok := ref.(*ssa.TypeAssert); ok && ssau.IsNamed(t.AssertedType, "io", "Seeker") {
			ta = t
		}
	}
	if ta == nil {
		r.Unknown(rule, "rewind/Seek-args", p.Pos(rw.Pos()), "rewind no longer asserts its reader to io.Seeker")
		return
	}
	var seek *ssa.Call
	seekers := map[ssa.Value]bool{ta: true}
	if ta.CommaOk {
		for _, e := range extracts(ta, 0) {
			seekers[e] = true
		}
	}
	for _, ci := range ssau.Calls(rw) {
		c, ok := ci.(*ssa.Call)
		if ok && c.Call.IsInvoke() && c.Call.Method.Name() == "Seek" && seekers[c.Call.Value] {
			if seek != nil {
				r.Unknown(rule, "rewind/Seek-args", p.Pos(c.Pos()), "Seek is called more than once")
				return
			}
			seek = c
		}
	}
	if seek == nil {
		r.Bad(rule, "rewind/Seek-args", p.Pos(rw.Pos()), "rewind does not call Seek on the asserted io.Seeker")
		return
	}
	off, ok1 := ssau.ConstInt(seek.Call.Args[0])
	wh, ok2 := ssau.ConstInt(seek.Call.Args[1])
	if ok1 && ok2 && off == 0 && wh == 0 {
		r.OK(rule, "rewind/Seek-args", p.Pos(seek.Pos()), "Seek(0, 0): offset 0 relative to io.SeekStart (= 0), both constants")
	} else if ok1 && ok2 {
		r.Bad(rule, "rewind/Seek-args", p.Pos(seek.Pos()), fmt.Sprintf("Seek(%d, %d) does not position the reader at the first byte (want Seek(0, io.SeekStart))", off, wh))
	} else {
		r.Unknown(rule, "rewind/Seek-args", p.Pos(seek.Pos()), "Seek arguments are not constants")
	}
	sn, se := ssau.ResultValue(seek, 0), ssau.ResultValue(seek, 1)
	okE, whyE := true, ""
	okN, whyN := true, ""
	nSeekRets := 0
	for _, ret := range ssau.Returns(rw) {
		if !(seek.Block() == ret.Block() || seek.Block().Dominates(ret.Block())) {
			continue
		}
		nSeekRets++
		if len(se) != 1 {
			okE, whyE = false, "the error returned by Seek is discarded: a failed seek is reported as success"
		} else if ok, why := errDerives(ret.Results[1], se[0], ssau.NilAt(se[0], ret.Block())); !ok {
			// (a literal nil is fine where Seek's error is known to be nil)
			okE, whyE = false, "after Seek: "+why
		}
		if len(sn) != 1 {
			okN, whyN = false, "the offset returned by Seek is discarded"
		} else {
			for _, l := range ssau.Leaves(ret.Results[0]) {
				if l != sn[0] {
					okN, whyN = false, "the offset returned is not Seek's"
				}
			}
		}
	}
	if nSeekRets == 0 {
		okE, whyE = false, "no return follows the Seek"
	}
	if okE {
		r.OK(rule, "rewind/Seek-error", p.Pos(seek.Pos()), "every return after Seek carries Seek's error (itself or wrapped with %w)")
	} else {
		r.Bad(rule, "rewind/Seek-error", p.Pos(seek.Pos()), whyE)
	}
	if okN {
		r.OK(rule, "rewind/offset", p.Pos(seek.Pos()), "the offset reported by Seek is returned unchanged (0 on success by the io.Seeker contract)")
	} else {
		r.Bad(rule, "rewind/offset", p.Pos(seek.Pos()), whyN)
	}
}

// Redetect is C20 (e): the packet buffer (and with it the auto-detected packet size) is rebuilt
// after a rewind because NextPacket constructs it whenever the field is nil and Rewind sets it to nil.
func Redetect(p *load.Program, r *report.Report, opt ResetOptions, R map[string]bool) {
	const rule = "redetect"
	np := p.Func("Demuxer.NextPacket")
	npb := p.Func("newPacketBuffer")
	pbVar := lookupField(p, opt.Struct, "packetBuffer")
	if np == nil || npb == nil || pbVar == nil {
		r.Unknown(rule, "anchor/NextPacket", "", "NextPacket, newPacketBuffer or Demuxer.packetBuffer no longer resolves")
		return
	}
	key := fname(np) + "/construct-when-nil"
	var call *ssa.Call
	for _, ci := range ssau.Calls(np) {
		if c, ok := ci.(*ssa.Call); ok && c.Call.StaticCallee() == npb {
			call = c
		}
	}
	if call == nil {
		// the lazy construction may live in a helper NextPacket calls on its own receiver (`dmx.currentPacketBuffer()`)
		for _, ci := range ssau.Calls(np) {
			h := ci.Common().StaticCallee()
			if h == nil || h.Pkg != np.Pkg || len(h.Blocks) == 0 || len(ci.Common().Args) == 0 || len(np.Params) == 0 || ci.Common().Args[0] != ssa.Value(np.Params[0]) {
				continue
			}
			for _, hi := range ssau.Calls(h) {
				if c, ok := hi.(*ssa.Call); ok && c.Call.StaticCallee() == npb {
					call = c
				}
			}
		}
	}
	if call == nil {
		r.Unknown(rule, key, p.Pos(np.Pos()), "NextPacket no longer calls newPacketBuffer (directly or through a helper on its receiver)")
		return
	}
	guarded := false
	for _, e := range ssau.DominatingEdges(call.Block()) {
		nc, ok := ssau.AsNilCompare(e.If.Cond)
		if !ok {
			continue
		}
		nilSucc := 0
		if nc.Ne {
			nilSucc = 1
		}
		if fi, isL := loadedField(nc.X); isL && fi.Var == pbVar && e.Succ == nilSucc {
			guarded = true
		}
	}
	stored := false
	for _, v := range ssau.ResultValue(call, 0) {
		for _, ref := range *v.Referrers() {
			if s, ok := ref.(*ssa.Store); ok && s.Val == v {
				if fi, isF := fieldOf(s.Addr); isF && fi.Var == pbVar {
					stored = true
				}
			}
		}
	}
	switch {
	case !R["packetBuffer"]:
		r.Bad(rule, key, p.Pos(call.Pos()), "Rewind does not set dmx.packetBuffer to nil: the buffer (and the packet size detected in the previous pass, and its partly filled state) is reused")
	case !guarded:
		r.Bad(rule, key, p.Pos(call.Pos()), "newPacketBuffer is not called under the test dmx.packetBuffer == nil")
	case !stored:
		r.Bad(rule, key, p.Pos(call.Pos()), "the new packet buffer is not stored in dmx.packetBuffer")
	default:
		r.OK(rule, key, p.Pos(call.Pos()), "Rewind sets dmx.packetBuffer = nil; NextPacket builds a new packet buffer on the nil edge of `dmx.packetBuffer == nil` and stores it")
	}
	// the size handed to the constructor is the configured one; 0 triggers auto-detection
	key2 := fname(npb) + "/autodetect"
	cfg := false
	if len(call.Call.Args) >= 2 {
		if fi, ok := loadedField(call.Call.Args[1]); ok && fi.Owner == opt.Struct && fi.Var.Name() == "optPacketSize" {
			cfg = true
		}
	}
	psVar := lookupField(p, "packetBuffer", "packetSize")
	var ad *ssa.Call
	for _, ci := range ssau.Calls(npb) {
		if c, ok := ci.(*ssa.Call); ok && ssau.CalleeName(&c.Call) == load.RootPath+".autoDetectPacketSize" {
			ad = c
		}
	}
	switch {
	case !cfg:
		r.Unknown(rule, key2, p.Pos(call.Pos()), "the packet size given to newPacketBuffer is not the configured dmx.optPacketSize")
	case ad == nil || psVar == nil:
		r.Unknown(rule, key2, p.Pos(npb.Pos()), "newPacketBuffer no longer calls autoDetectPacketSize")
	default:
		zeroGuard, storedPS := false, false
		for _, e := range ssau.DominatingEdges(ad.Block()) {
			if b, ok := e.If.Cond.(*ssa.BinOp); ok {
				isSize := false
				if fi, isL := loadedField(b.X); isL && fi.Var == psVar {
					isSize = true
				}
				// the size as it was handed in (the parameter that receives dmx.optPacketSize), tested before the struct is built
				if prm, isP := b.X.(*ssa.Parameter); isP && len(call.Call.Args) >= 2 && len(npb.Params) >= 2 && prm == npb.Params[1] {
					isSize = true
				}
				if isSize {
					if k, isK := ssau.ConstInt(b.Y); isK && k == 0 && (b.Op.String() == "==" && e.Succ == 0 || b.Op.String() == "!=" && e.Succ == 1) {
						zeroGuard = true
					}
				}
			}
		}
		for _, v := range ssau.ResultValue(ad, 0) {
			for _, ref := range *v.Referrers() {
				if s, ok := ref.(*ssa.Store); ok && s.Val == v {
					if fi, isF := fieldOf(s.Addr); isF && fi.Var == psVar {
						storedPS = true
					}
				}
			}
			// or merged with the configured size before the struct is built (`packetBuffer{packetSize: packetSize}`)
			for _, b := range npb.Blocks {
				for _, in := range b.Instrs {
					if s, ok := in.(*ssa.Store); ok {
						if fi, isF := fieldOf(s.Addr); isF && fi.Var == psVar {
							for _, l := range ssau.Leaves(s.Val) {
								if l == v {
									storedPS = true
								}
							}
						}
					}
				}
			}
		}
		if zeroGuard && storedPS {
			r.OK(rule, key2, p.Pos(ad.Pos()), "the constructor receives dmx.optPacketSize (configuration); when it is 0 autoDetectPacketSize runs again on the rewound reader and its result becomes the new buffer's packetSize")
		} else {
			r.Unknown(rule, key2, p.Pos(ad.Pos()), "auto-detection is not (only) triggered by packetSize == 0 or its result is not stored in packetSize")
		}
	}
}
