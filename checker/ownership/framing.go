package ownership

import (
	"fmt"
	"go/token"
	"go/types"
	"sort"
	"strings"

	"golang.org/x/tools/go/ssa"

	"astverif/load"
	"astverif/report"
	"astverif/ssau"
)

// ReadFullSites counts the io.ReadFull call sites in functions reachable from the given roots
// (vacuity guard of C08 a: the reader path reads through io.ReadFull).
func ReadFullSites(p *load.Program, roots []string) int {
	var rs []*ssa.Function
	for _, k := range roots {
		if f := p.Func(k); f != nil {
			rs = append(rs, f)
		}
	}
	n := 0
	for f := range reachable(p, rs) {
		for _, ci := range ssau.Calls(f) {
			if ssau.CalleeName(ci.Common()) == "io.ReadFull" {
				n++
			}
		}
	}
	return n
}

func isIOReader(t types.Type) bool { return ssau.IsNamed(t, "io", "Reader") }

// ReaderTouch is C08 (b): the functions that operate on the demuxer's reader (method calls, type
// assertions, handing it to code outside the package) must be a subset of allowed; everybody else
// only stores it or passes it on.
func ReaderTouch(p *load.Program, r *report.Report, allowed []string) {
	const rule = "reader"
	homes := map[*types.Var]bool{}
	for _, tf := range [][2]string{{"Demuxer", "r"}, {"packetBuffer", "r"}} {
		fv := lookupField(p, tf[0], tf[1])
		if fv == nil {
			r.Unknown(rule, "anchor/"+tf[0]+"."+tf[1], "", "field no longer resolves")
			return
		}
		homes[fv] = true
	}
	allow := map[string]bool{}
	for _, a := range allowed {
		allow[a] = true
	}
	paramT := map[*ssa.Parameter]bool{}
	funcs := p.SrcFuncs()
	type res struct {
		n       int
		touches map[string]int
		passes  map[string]int
		unk     []string
		pos     token.Pos
	}
	analyse := func(f *ssa.Function) (res, bool) {
		out := res{touches: map[string]int{}, passes: map[string]int{}}
		changed := false
		derived := map[ssa.Value]bool{}
		var work []ssa.Value
		push := func(v ssa.Value) {
			if !derived[v] {
				derived[v] = true
				work = append(work, v)
				if out.pos == token.NoPos {
					out.pos = v.Pos()
				}
			}
		}
		for _, prm := range f.Params {
			if isIOReader(prm.Type()) || paramT[prm] {
				push(prm)
			}
		}
		for _, b := range f.Blocks {
			for _, in := range b.Instrs {
				if v, ok := in.(ssa.Value); ok {
					if fi, isL := loadedField(v); isL && homes[fi.Var] {
						push(v)
					}
				}
			}
		}
		for len(work) > 0 {
			v := work[len(work)-1]
			work = work[:len(work)-1]
			out.n++
			for _, ref := range *v.Referrers() {
				at := " at " + p.Pos(ref.Pos())
				switch x := ref.(type) {
				case *ssa.DebugRef:
				case *ssa.Phi, *ssa.ChangeInterface, *ssa.MakeInterface:
					push(x.(ssa.Value))
				case *ssa.TypeAssert:
					out.touches["type assertion to "+ssau.ShortType(x.AssertedType)]++
					if x.CommaOk {
						for _, e := range extracts(x, 0) {
							push(e)
						}
					} else {
						push(x)
					}
				case *ssa.Extract:
				case *ssa.BinOp:
					out.passes["nil comparison"]++
				case *ssa.Store:
					if x.Val != v {
						break
					}
					if fi, ok := fieldOf(x.Addr); ok && homes[fi.Var] {
						out.passes["stored into "+fi.String()]++
					} else if a, isA := x.Addr.(*ssa.Alloc); isA && ssau.SpillSlot(a) {
						for _, ar := range *a.Referrers() {
							if u, ok := ar.(*ssa.UnOp); ok && u.Op == token.MUL {
								push(u)
							}
						}
					} else {
						out.unk = append(out.unk, "the reader is stored "+storeDesc(x)+at)
					}
				case ssa.CallInstruction:
					cc := x.Common()
					if cc.IsInvoke() && cc.Value == v {
						out.touches["method "+cc.Method.Name()]++
						break
					}
					name := ssau.CalleeName(cc)
					for i, a := range cc.Args {
						if a != v {
							continue
						}
						if fn := staticRootCallee(p, cc); fn != nil && i < len(fn.Params) {
							if !paramT[fn.Params[i]] && !isIOReader(fn.Params[i].Type()) {
								paramT[fn.Params[i]] = true
								changed = true
							}
							out.passes["passed to "+fname(fn)]++
						} else if name == "" {
							out.unk = append(out.unk, "the reader is passed to a dynamically called function"+at)
						} else {
							out.touches[shortCallee(name)]++
						}
					}
				case *ssa.Return:
					out.unk = append(out.unk, "the reader is returned"+at)
				case *ssa.MakeClosure:
					out.unk = append(out.unk, "the reader is captured by a closure"+at)
				default:
					out.unk = append(out.unk, "the reader is used by a "+instrKind(ref)+at)
				}
			}
		}
		return out, changed
	}
	for i := 0; i < 20; i++ {
		changed := false
		for _, f := range funcs {
			if _, ch := analyse(f); ch {
				changed = true
			}
		}
		if !changed {
			break
		}
	}
	nTouch, nPass := 0, 0
	for _, f := range funcs {
		res, _ := analyse(f)
		if res.n == 0 {
			continue
		}
		key := fname(f)
		pos := p.Pos(res.pos)
		switch {
		case len(res.unk) > 0:
			r.Unknown(rule, key, pos, strings.Join(dedupSorted(res.unk), "; "))
		case len(res.touches) > 0 && !allow[fname(f)] && calledOnlyFromAllowed(p, f, allow, 0):
			nTouch++
			r.OK(rule, key, pos, "a helper of the framing functions (every call of it comes from one of them, it is never used as a value); operations on the reader: "+joinSorted(res.touches))
		case len(res.touches) > 0 && !allow[fname(f)]:
			r.Bad(rule, key, pos, fmt.Sprintf("%s operates on the demuxer's reader (%s) but is not one of the framing functions {%s}: bytes consumed here bypass the packet framing", fname(f), joinSorted(res.touches), strings.Join(allowed, ", ")))
		case len(res.touches) > 0:
			nTouch++
			r.OK(rule, key, pos, "framing function; operations on the reader: "+joinSorted(res.touches))
		default:
			nPass++
			r.OK(rule, key, pos, "only stores or forwards the reader: "+joinSorted(res.passes))
		}
	}
	r.Floor(rule, "framing functions operating on the reader", nTouch, 3)
	r.Floor(rule, "functions that only forward the reader", nPass, 3)
}

// ---- (c) packet size flow ------------------------------------------------------------------

// linear form: sum of coef*atom + c
type linform struct {
	coef map[ssa.Value]int64
	c    int64
}

func (a linform) add(b linform, sign int64) linform {
	out := linform{coef: map[ssa.Value]int64{}, c: a.c + sign*b.c}
	for k, v := range a.coef {
		out.coef[k] += v
	}
	for k, v := range b.coef {
		out.coef[k] += sign * v
	}
	for k, v := range out.coef {
		if v == 0 {
			delete(out.coef, k)
		}
	}
	return out
}

func (a linform) scale(n int64) linform {
	out := linform{coef: map[ssa.Value]int64{}, c: a.c * n}
	for k, v := range a.coef {
		if v*n != 0 {
			out.coef[k] = v * n
		}
	}
	return out
}

func (a linform) equal(b linform) bool {
	d := a.add(b, -1)
	return d.c == 0 && len(d.coef) == 0
}

func (a linform) String() string {
	var parts []string
	for k, v := range a.coef {
		parts = append(parts, fmt.Sprintf("%d·%s", v, k.Name()))
	}
	sort.Strings(parts)
	if a.c != 0 || len(parts) == 0 {
		parts = append(parts, fmt.Sprint(a.c))
	}
	return strings.Join(parts, " + ")
}

// linOf evaluates v over integer +,-,*const; everything else is an atom.
func linOf(v ssa.Value) linform { return linOfStop(v, nil) }

// linOfStop is linOf with a set of values that are kept as atoms even though they are sums.
func linOfStop(v ssa.Value, stop map[ssa.Value]bool) linform {
	if stop[v] {
		return linform{coef: map[ssa.Value]int64{v: 1}}
	}
	if n, ok := ssau.ConstInt(v); ok {
		return linform{coef: map[ssa.Value]int64{}, c: n}
	}
	switch x := v.(type) {
	case *ssa.BinOp:
		switch x.Op {
		case token.ADD:
			return linOfStop(x.X, stop).add(linOfStop(x.Y, stop), 1)
		case token.SUB:
			return linOfStop(x.X, stop).add(linOfStop(x.Y, stop), -1)
		case token.MUL:
			if n, ok := ssau.ConstInt(x.X); ok {
				return linOfStop(x.Y, stop).scale(n)
			}
			if n, ok := ssau.ConstInt(x.Y); ok {
				return linOfStop(x.X, stop).scale(n)
			}
		}
	case *ssa.Convert:
		if b, ok := x.X.Type().Underlying().(*types.Basic); ok && b.Info()&types.IsInteger != 0 {
			if b2, ok := x.Type().Underlying().(*types.Basic); ok && b2.Kind() == b.Kind() {
				return linOfStop(x.X, stop)
			}
		}
	}
	return linform{coef: map[ssa.Value]int64{v: 1}}
}

// onlyMerged: v is reached from src through phis only (the configured size merged with the detected one), no arithmetic.
func onlyMerged(v, src ssa.Value) bool {
	seen := map[ssa.Value]bool{}
	var rec func(x ssa.Value) bool
	rec = func(x ssa.Value) bool {
		if x == src {
			return true
		}
		if seen[x] {
			return false
		}
		seen[x] = true
		phi, ok := x.(*ssa.Phi)
		if !ok {
			return false
		}
		for _, e := range phi.Edges {
			if rec(e) {
				return true
			}
		}
		return false
	}
	return rec(v)
}

// isPacketStart: v is exactly Len() − 187 for one Len() call on the packet iterator.
func isPacketStart(v ssa.Value) bool {
	lf := linOf(v)
	want := linform{coef: map[ssa.Value]int64{}, c: -187}
	for src := range lf.coef {
		if c, isC := src.(*ssa.Call); isC && ssau.CalleeName(&c.Call) == iterRecv+"Len" {
			want.coef[src] = 1
		}
	}
	return lf.equal(want) && len(want.coef) == 1
}

// PacketSizeFlow is C08 (c).
func PacketSizeFlow(p *load.Program, r *report.Report) {
	const rule = "psize"
	psVar := lookupField(p, "packetBuffer", "packetSize")
	rbVar := lookupField(p, "packetBuffer", "packetReadBuffer")
	pp := p.Func("parsePacket")
	optVar := lookupField(p, "Demuxer", "optPacketSize")
	if psVar == nil || rbVar == nil || pp == nil || optVar == nil {
		r.Unknown(rule, "anchor/packetSize", "", "packetBuffer.packetSize, packetReadBuffer or parsePacket no longer resolves")
		return
	}
	paramT := map[*ssa.Parameter]string{}
	funcs := p.SrcFuncs()
	type src struct {
		key string
		val ssa.Value
		pos token.Pos
		why string
	}
	sourcesOf := func(f *ssa.Function) []src {
		var out []src
		ord := ordinals{}
		for _, prm := range f.Params {
			if w, ok := paramT[prm]; ok {
				out = append(out, src{"param:" + prm.Name(), prm, prm.Pos(), "receives a value derived from the packet size from " + w})
			}
		}
		for _, b := range f.Blocks {
			for _, in := range b.Instrs {
				v, ok := in.(ssa.Value)
				if !ok {
					continue
				}
				if fi, isL := loadedField(v); isL && fi.Var == psVar {
					out = append(out, src{fmt.Sprintf("packetSize#%d", ord.next("ps")), v, in.Pos(), "load of packetBuffer.packetSize"})
				}
				if fi, isL := loadedField(v); isL && fi.Var == optVar {
					out = append(out, src{fmt.Sprintf("optPacketSize#%d", ord.next("opt")), v, in.Pos(), "load of the configured packet size Demuxer.optPacketSize"})
				}
				if c, isC := v.(*ssa.Call); isC && f == pp && ssau.CalleeName(&c.Call) == iterRecv+"Len" {
					out = append(out, src{fmt.Sprintf("Len#%d", ord.next("len")), v, in.Pos(), "length of the packet iterator (= packet size)"})
				}
			}
		}
		return out
	}
	seekForms := 0
	judge := func(f *ssa.Function, s src) (ok []string, bad []string, unk []string, changed bool) {
		derived := map[ssa.Value]bool{s.val: true}
		work := []ssa.Value{s.val}
		for len(work) > 0 {
			v := work[len(work)-1]
			work = work[:len(work)-1]
			direct := v == s.val
			for _, ref := range *v.Referrers() {
				at := " at " + p.Pos(ref.Pos())
				switch x := ref.(type) {
				case *ssa.DebugRef:
				case *ssa.Phi, *ssa.Convert, *ssa.ChangeType:
					if !derived[x.(ssa.Value)] {
						derived[x.(ssa.Value)] = true
						work = append(work, x.(ssa.Value))
					}
				case *ssa.BinOp:
					switch x.Op {
					case token.EQL, token.NEQ, token.LSS, token.LEQ, token.GTR, token.GEQ:
						other := x.Y
						if other == v {
							other = x.X
						}
						if c, isC := other.(*ssa.Call); isC {
							if bi, isB := c.Call.Value.(*ssa.Builtin); isB && bi.Name() == "len" {
								if fi, isL := loadedField(c.Call.Args[0]); isL && fi.Var == rbVar && direct {
									ok = append(ok, "compared with len(packetReadBuffer)")
									continue
								}
							}
						}
						if n, isK := ssau.ConstInt(other); isK && n == 0 && direct && (x.Op == token.EQL || x.Op == token.NEQ) && fname(f) == "newPacketBuffer" {
							ok = append(ok, "tested against 0 to trigger auto-detection")
							continue
						}
						bad = append(bad, "a branch condition depends on the packet size"+at)
					default:
						if f == pp && isPacketStart(x) {
							// Len − 188 + 1 is the offset of the packet's sync byte: the very value i.Offset() returns after the Seek.
							// Held in a local it is used like that Offset() result (payload arithmetic); only the Seek is judged here.
							for _, rr := range *x.Referrers() {
								if ci, isCall := rr.(ssa.CallInstruction); isCall && ssau.CalleeName(ci.Common()) == iterRecv+"Seek" {
									seekForms++
									ok = append(ok, "Seek(Len − 188 + 1): skips the leading extra bytes")
								}
							}
							ok = append(ok, "Len − 188 + 1, the offset of the packet start")
							continue
						}
						if !derived[x] {
							derived[x] = true
							work = append(work, x)
						}
					}
				case *ssa.MakeSlice:
					stored := false
					for _, rr := range *x.Referrers() {
						if st, isS := rr.(*ssa.Store); isS && st.Val == ssa.Value(x) {
							if fi, isF := fieldOf(st.Addr); isF && fi.Var == rbVar {
								stored = true
							}
						}
					}
					if stored && direct {
						ok = append(ok, "length of the read buffer")
					} else {
						bad = append(bad, "an allocation other than the read buffer is sized by the packet size"+at)
					}
				case *ssa.MakeInterface:
					if errorfOnly(x) {
						ok = append(ok, "error message argument")
					} else {
						bad = append(bad, "the packet size is boxed into an interface used outside an error message"+at)
					}
				case *ssa.Store:
					if x.Val != v {
						bad = append(bad, "used as an address"+at)
						break
					}
					if a, isA := x.Addr.(*ssa.Alloc); isA && ssau.SpillSlot(a) {
						for _, ar := range *a.Referrers() {
							if u, isU := ar.(*ssa.UnOp); isU && u.Op == token.MUL && !derived[u] {
								derived[u] = true
								work = append(work, u)
							}
						}
						break
					}
					if fi, isF := fieldOf(x.Addr); isF && fi.Var == psVar && (direct || onlyMerged(v, s.val)) {
						ok = append(ok, "becomes packetBuffer.packetSize")
						break
					}
					bad = append(bad, "a value derived from the packet size is stored "+storeDesc(x)+at)
				case ssa.CallInstruction:
					cc := x.Common()
					name := ssau.CalleeName(cc)
					for i, a := range callArgs(cc) {
						if a != v {
							continue
						}
						if name == iterRecv+"Seek" && f == pp && i == 1 {
							lf := linOf(v)
							want := linform{coef: map[ssa.Value]int64{}, c: -187}
							for src := range lf.coef {
								if c, isC := src.(*ssa.Call); isC && ssau.CalleeName(&c.Call) == iterRecv+"Len" {
									want.coef[src] = 1
								}
							}
							if lf.equal(want) && len(want.coef) == 1 {
								seekForms++
								ok = append(ok, "Seek(Len − 188 + 1): skips the leading extra bytes")
							} else {
								bad = append(bad, "Seek argument "+lf.String()+" is not Len − 188 + 1"+at)
							}
							continue
						}
						if fn := staticRootCallee(p, cc); fn != nil && i < len(fn.Params) {
							if _, seen := paramT[fn.Params[i]]; !seen {
								paramT[fn.Params[i]] = fname(f)
								changed = true
							}
							ok = append(ok, "passed to "+fname(fn)+" (followed there)")
							continue
						}
						bad = append(bad, "passed to "+calleeDesc(name)+at)
					}
				case *ssa.Return:
					bad = append(bad, "a value derived from the packet size is returned from "+fname(f)+" and flows on into parsing"+at)
				case *ssa.IndexAddr, *ssa.Slice, *ssa.Index:
					bad = append(bad, "an index or slice bound depends on the packet size"+at)
				case *ssa.If:
					bad = append(bad, "a branch depends on the packet size"+at)
				default:
					unk = append(unk, "used by a "+instrKind(ref)+at)
				}
			}
		}
		return
	}
	for i := 0; i < 20; i++ {
		changed := false
		for _, f := range funcs {
			for _, s := range sourcesOf(f) {
				if _, _, _, ch := judge(f, s); ch {
					changed = true
				}
			}
		}
		if !changed {
			break
		}
	}
	seekForms = 0
	n, nLen := 0, 0
	for _, f := range funcs {
		for _, s := range sourcesOf(f) {
			n++
			if strings.HasPrefix(s.key, "Len#") {
				nLen++
			}
			okd, bad, unk, _ := judge(f, s)
			key := fname(f) + "/" + s.key
			switch {
			case len(bad) > 0:
				r.Bad(rule, key, p.Pos(s.pos), s.why+": "+strings.Join(dedupSorted(bad), "; ")+" — the packet size may influence parsing only through the read-buffer length and the leading-bytes skip")
			case len(unk) > 0:
				r.Unknown(rule, key, p.Pos(s.pos), s.why+": "+strings.Join(dedupSorted(unk), "; "))
			default:
				d := strings.Join(dedupSorted(okd), ", ")
				if d == "" {
					d = "unused"
				}
				r.OK(rule, key, p.Pos(s.pos), s.why+"; uses: "+d)
			}
		}
	}
	r.Floor(rule, "packet-size sources followed", n, 5)
	if nLen != 1 || seekForms != 1 {
		r.Bad(rule, "parsePacket/single-skip", p.Pos(pp.Pos()), fmt.Sprintf("parsePacket must consult the iterator length exactly once, for the single Seek(Len − 188 + 1); found %d Len() call(s) and %d matching Seek(s)", nLen, seekForms))
	} else {
		r.OK(rule, "parsePacket/single-skip", p.Pos(pp.Pos()), "the iterator length is consulted once and used only as Seek(Len − 188 + 1)")
	}
}

// errorfOnly: the boxed value is only placed in a variadic argument array of fmt.Errorf.
func errorfOnly(mi *ssa.MakeInterface) bool {
	n := 0
	for _, ref := range *mi.Referrers() {
		st, ok := ref.(*ssa.Store)
		if !ok || st.Val != ssa.Value(mi) {
			if _, dbg := ref.(*ssa.DebugRef); dbg {
				continue
			}
			return false
		}
		ia, ok := st.Addr.(*ssa.IndexAddr)
		if !ok {
			return false
		}
		a, ok := ia.X.(*ssa.Alloc)
		if !ok {
			return false
		}
		for _, ar := range *a.Referrers() {
			sl, ok := ar.(*ssa.Slice)
			if !ok {
				continue
			}
			for _, sr := range *sl.Referrers() {
				c, ok := sr.(*ssa.Call)
				if !ok || ssau.CalleeName(&c.Call) != "fmt.Errorf" {
					return false
				}
				n++
			}
		}
	}
	return n > 0
}

// calledOnlyFromAllowed: every use of f in the package is a static call from a function named in allow, or from a function of
// which the same holds.
func calledOnlyFromAllowed(p *load.Program, f *ssa.Function, allow map[string]bool, depth int) bool {
	if depth > 3 {
		return false
	}
	n := 0
	for _, g := range p.SrcFuncs() {
		for _, b := range g.Blocks {
			for _, in := range b.Instrs {
				for _, op := range in.Operands(nil) {
					if op == nil || *op != ssa.Value(f) {
						continue
					}
					ci, isCall := in.(ssa.CallInstruction)
					if !isCall || ci.Common().Value != ssa.Value(f) {
						return false // used as a value
					}
					if _, plain := in.(*ssa.Call); !plain {
						return false
					}
					n++
					if !allow[fname(g)] && (g == f || !calledOnlyFromAllowed(p, g, allow, depth+1)) {
						return false
					}
				}
			}
		}
	}
	return n > 0
}

// ---- (d) resync identity -------------------------------------------------------------------

// onEdge reports whether every path to block b passes the succ-th edge of an If on cond.
func onEdge(b *ssa.BasicBlock, cond ssa.Value, succ int) bool {
	for _, e := range ssau.DominatingEdges(b) {
		if e.If.Cond == cond && e.Succ == succ {
			return true
		}
	}
	return false
}

// ResyncIdentity is C08 (d).
func ResyncIdentity(p *load.Program, r *report.Report) {
	const rule = "resync"
	ad := p.Func("autoDetectPacketSize")
	pk := p.Func("peek")
	rw := p.Func("rewind")
	if ad == nil || pk == nil || rw == nil || len(ad.Params) == 0 || len(pk.Params) < 2 {
		r.Unknown(rule, "anchor/autoDetectPacketSize", "", "autoDetectPacketSize, peek or rewind no longer resolves")
		return
	}
	rd := ad.Params[0]
	var peekCall, rwCall *ssa.Call
	var readFulls []*ssa.Call
	for _, ci := range ssau.Calls(ad) {
		c, ok := ci.(*ssa.Call)
		if !ok {
			continue
		}
		switch {
		case c.Call.StaticCallee() == pk:
			peekCall = c
		case c.Call.StaticCallee() == rw:
			rwCall = c
		case ssau.CalleeName(&c.Call) == "io.ReadFull":
			readFulls = append(readFulls, c)
		}
	}
	key := fname(ad) + "/identity"
	// the rewind-or-resync part may live in a helper that is handed the reader: cf is the function holding it, hc the call of the
	// helper in autoDetectPacketSize (nil when it is autoDetectPacketSize itself)
	cf := ad
	var hc *ssa.Call
	if rwCall == nil {
		for _, ci := range ssau.Calls(ad) {
			c, ok := ci.(*ssa.Call)
			if !ok {
				continue
			}
			h := c.Call.StaticCallee()
			if h == nil || h.Pkg != ad.Pkg || len(h.Blocks) == 0 || h == pk || h == rw {
				continue
			}
			ri := -1
			for i, a := range c.Call.Args {
				if a == ssa.Value(rd) {
					ri = i
				}
			}
			if ri < 0 || ri >= len(h.Params) {
				continue
			}
			var hrw *ssa.Call
			var hreads []*ssa.Call
			for _, hi := range ssau.Calls(h) {
				if x, ok := hi.(*ssa.Call); ok {
					switch {
					case x.Call.StaticCallee() == rw:
						hrw = x
					case ssau.CalleeName(&x.Call) == "io.ReadFull":
						hreads = append(hreads, x)
					}
				}
			}
			if hrw == nil {
				continue
			}
			// the helper is this function's alone
			only := true
			for _, f := range p.SrcFuncs() {
				for _, oi := range ssau.Calls(f) {
					if oi.Common().StaticCallee() == h && (f != ad || oi != ssa.CallInstruction(c)) {
						only = false
					}
				}
			}
			if !only {
				r.Unknown(rule, key, p.Pos(c.Pos()), fname(h)+" rewinds the reader and is called from more than one place")
				return
			}
			cf, hc, rwCall, readFulls = h, c, hrw, hreads
			rd = h.Params[ri]
			break
		}
	}
	if peekCall == nil || rwCall == nil {
		r.Unknown(rule, key, p.Pos(ad.Pos()), "autoDetectPacketSize no longer calls peek and rewind (directly or through one helper that is handed the reader)")
		return
	}
	okFresh, l := freshSlice(peekCall.Call.Args[1])
	if !okFresh || l <= 0 || peekCall.Call.Args[0] != ssa.Value(ad.Params[0]) {
		r.Unknown(rule, key, p.Pos(peekCall.Pos()), "the peek buffer is not a fresh slice of constant length over the function's reader")
		return
	}
	// the non-seekable edge: rewind's offset == -1
	var edgeCond ssa.Value
	edgeSucc := 0
	for _, nv := range ssau.ResultValue(rwCall, 0) {
		for _, ref := range *nv.Referrers() {
			b, ok := ref.(*ssa.BinOp)
			if !ok || (b.Op != token.EQL && b.Op != token.NEQ) {
				continue
			}
			k, isK := ssau.ConstInt(b.Y)
			if !isK || k != -1 {
				continue
			}
			for _, rr := range *b.Referrers() {
				if _, ok := rr.(*ssa.If); ok {
					edgeCond = b
					if b.Op == token.NEQ {
						edgeSucc = 1
					}
				}
			}
		}
	}
	if edgeCond == nil {
		r.Unknown(rule, key, p.Pos(rwCall.Pos()), "no branch on `rewind(...) == -1` found: the non-seekable resync path cannot be identified")
		return
	}
	var resync *ssa.Call
	for _, c := range readFulls {
		if onEdge(c.Block(), edgeCond, edgeSucc) {
			if resync != nil {
				r.Unknown(rule, key, p.Pos(c.Pos()), "more than one read on the resync path")
				return
			}
			resync = c
		}
	}
	if resync == nil {
		r.Bad(rule, key, p.Pos(rwCall.Pos()), "on a non-seekable reader nothing is read to resynchronise after the 193 probe bytes were consumed: the reader is left in the middle of a packet")
		return
	}
	mk, ok := resync.Call.Args[1].(*ssa.MakeSlice)
	if !ok || resync.Call.Args[0] != ssa.Value(rd) {
		r.Unknown(rule, key, p.Pos(resync.Pos()), "the resync read does not read into a make([]byte, n) from the function's reader")
		return
	}
	// the packet size returned on the paths through the resync
	var size ssa.Value
	for _, ret := range ssau.Returns(ad) {
		if hc == nil && !onEdge(ret.Block(), edgeCond, edgeSucc) {
			continue
		}
		if hc != nil && ret.Block() != hc.Block() && !ssau.Reaches(hc.Block(), ret.Block()) {
			continue
		}
		if size != nil && size != ret.Results[0] {
			r.Unknown(rule, key, p.Pos(ret.Pos()), "different packet-size values are returned after the resync")
			return
		}
		size = ret.Results[0]
	}
	if size == nil {
		r.Unknown(rule, key, p.Pos(resync.Pos()), "no return follows the resync read")
		return
	}
	stop := map[ssa.Value]bool{size: true}
	ls := linOfStop(mk.Len, stop)
	if hc != nil {
		// the length is computed from the helper's parameters: put the call's arguments in their place
		pstop := map[ssa.Value]bool{}
		for _, prm := range cf.Params {
			pstop[prm] = true
		}
		inH := linOfStop(mk.Len, pstop)
		ls = linform{coef: map[ssa.Value]int64{}, c: inH.c}
		for v, k := range inH.coef {
			sub := linform{coef: map[ssa.Value]int64{v: 1}}
			for i, prm := range cf.Params {
				if v == ssa.Value(prm) && i < len(hc.Call.Args) {
					sub = linOfStop(hc.Call.Args[i], stop)
				}
			}
			ls = ls.add(sub, k)
		}
	}
	total := ls.add(linform{coef: map[ssa.Value]int64{}, c: l}, 1)
	want := linOfStop(size, stop).scale(2)
	if total.equal(want) {
		r.OK(rule, key, p.Pos(resync.Pos()), fmt.Sprintf("bytes consumed on the non-seekable path: l + ls = %d + (%s) = %s = 2·packetSize (packetSize = %s): after the resync exactly two packets have been consumed and the reader is packet-aligned", l, ls, total, size.Name()))
	} else {
		r.Bad(rule, key, p.Pos(resync.Pos()), fmt.Sprintf("bytes consumed on the non-seekable path: l + ls = %d + (%s) = %s, but 2·packetSize = %s: the reader is not packet-aligned after auto-detection, every following packet is mis-framed", l, ls, total, want))
	}

	// all consuming operations besides peek happen only when peek reported shouldRewind
	key2 := fname(ad) + "/no-consume-without-rewind"
	sr := ssau.ResultValue(peekCall, 0)
	okGuard, why := len(sr) == 1, "peek's shouldRewind result is not used"
	if okGuard {
		guarded := append([]*ssa.Call{rwCall}, readFulls...)
		if hc != nil {
			guarded = []*ssa.Call{hc} // the helper's calls are reached through this call only
		}
		for _, c := range guarded {
			if !onEdge(c.Block(), sr[0], 0) {
				okGuard, why = false, "the call at "+p.Pos(c.Pos())+" touches the reader on a path where peek did not consume anything (shouldRewind false)"
			}
		}
	}
	if okGuard {
		r.OK(rule, key2, p.Pos(peekCall.Pos()), "rewind and the resync read are executed only on the shouldRewind edge; on the bufio path autoDetectPacketSize does not touch the reader again")
	} else {
		r.Bad(rule, key2, p.Pos(peekCall.Pos()), why)
	}

	// peek: bufio branch consumes nothing, plain branch consumes exactly len(b)
	prd, pb := pk.Params[0], pk.Params[1]
	var ta *ssa.TypeAssert
	var plainOps []string
	plainOK := false
	for _, ref := range *prd.Referrers() {
		switch x := ref.(type) {
		case *ssa.DebugRef:
		case *ssa.TypeAssert:
			if pt, ok := x.AssertedType.(*types.Pointer); ok && ssau.IsNamed(pt, "bufio", "Reader") {
				ta = x
			} else {
				plainOps = append(plainOps, "type assertion to "+ssau.ShortType(x.AssertedType))
			}
		case *ssa.Call:
			if ssau.CalleeName(&x.Call) == "io.ReadFull" && x.Call.Args[0] == ssa.Value(prd) && x.Call.Args[1] == ssa.Value(pb) {
				plainOK = true
			} else {
				plainOps = append(plainOps, "call of "+calleeDesc(ssau.CalleeName(&x.Call))+" at "+p.Pos(x.Pos()))
			}
		default:
			plainOps = append(plainOps, instrKind(ref)+" at "+p.Pos(ref.Pos()))
		}
	}
	if plainOK && len(plainOps) == 0 {
		r.OK(rule, fname(pk)+"/plain-branch", p.Pos(pk.Pos()), "the only operation on a non-bufio reader is io.ReadFull(r, b): exactly len(b) bytes are consumed (or the stream ended)")
	} else {
		r.Bad(rule, fname(pk)+"/plain-branch", p.Pos(pk.Pos()), "peek does not consume exactly len(b) bytes through a single io.ReadFull(r, b): "+strings.Join(plainOps, "; "))
	}
	key3 := fname(pk) + "/bufio-branch"
	if ta == nil {
		r.Unknown(rule, key3, p.Pos(pk.Pos()), "peek no longer asserts its reader to *bufio.Reader")
		return
	}
	var bad []string
	peeks := 0
	brs := []ssa.Value{ta}
	if ta.CommaOk {
		brs = extracts(ta, 0)
	}
	for _, br := range brs {
		for _, ref := range *br.Referrers() {
			switch x := ref.(type) {
			case *ssa.DebugRef:
			case *ssa.Call:
				if ssau.CalleeName(&x.Call) == "(*bufio.Reader).Peek" && x.Call.Args[0] == br {
					peeks++
				} else {
					bad = append(bad, shortCallee(ssau.CalleeName(&x.Call))+" at "+p.Pos(x.Pos()))
				}
			default:
				bad = append(bad, instrKind(ref)+" at "+p.Pos(ref.Pos()))
			}
		}
	}
	// returns on the bufio edge report shouldRewind = false
	if ta.CommaOk {
		for _, okv := range extracts(ta, 1) {
			for _, ref := range *okv.Referrers() {
				if _, isIf := ref.(*ssa.If); !isIf {
					continue
				}
				for _, ret := range ssau.Returns(pk) {
					if onEdge(ret.Block(), okv, 0) {
						if b, isB := ssau.ConstBool(ret.Results[0]); !isB || b {
							bad = append(bad, "the bufio path may report shouldRewind = true at "+p.Pos(ret.Pos()))
						}
					}
				}
			}
		}
	}
	switch {
	case len(bad) > 0:
		r.Bad(rule, key3, p.Pos(ta.Pos()), "the *bufio.Reader is used for more than Peek: "+strings.Join(bad, "; ")+" — bytes consumed here are lost for the first packet")
	case peeks == 0:
		r.Unknown(rule, key3, p.Pos(ta.Pos()), "the *bufio.Reader is not peeked")
	default:
		r.OK(rule, key3, p.Pos(ta.Pos()), "the *bufio.Reader is only peeked (Peek consumes nothing) and the path reports shouldRewind = false")
	}
}

// ---- (e) exact read length ------------------------------------------------------------------

// ReadFullExact is C08 (e): the per-packet ReadFull fills a buffer whose length is packetSize.
func ReadFullExact(p *load.Program, r *report.Report) {
	const rule = "readfull"
	next := p.Func("packetBuffer.next")
	psVar := lookupField(p, "packetBuffer", "packetSize")
	rbVar := lookupField(p, "packetBuffer", "packetReadBuffer")
	rVar := lookupField(p, "packetBuffer", "r")
	if next == nil || psVar == nil || rbVar == nil || rVar == nil {
		r.Unknown(rule, "anchor/(*packetBuffer).next", "", "(*packetBuffer).next or its fields no longer resolve")
		return
	}
	// who writes packetSize / packetReadBuffer
	psW, rbW := map[string]bool{}, map[string]bool{}
	var rbStores []*ssa.Store
	for _, f := range p.SrcFuncs() {
		for _, w := range fieldWrites(f) {
			switch w.fv {
			case psVar:
				psW[fname(f)] = true
			case rbVar:
				rbW[fname(f)+" ("+w.how+")"] = true
				if st, ok := w.in.(*ssa.Store); ok && w.how == "assigned" {
					rbStores = append(rbStores, st)
				}
			}
		}
	}
	if ws := keys(psW); len(ws) == 1 && ws[0] == "newPacketBuffer" {
		r.OK(rule, "packetBuffer.packetSize/writers", p.Pos(next.Pos()), "packetSize is assigned only by the constructor newPacketBuffer: it is constant for the life of a packet buffer")
	} else {
		r.Bad(rule, "packetBuffer.packetSize/writers", p.Pos(next.Pos()), "packetSize is written by "+strings.Join(ws, ", ")+": the framing may change in the middle of a stream")
	}
	key := fname(next) + "/buffer-length"
	recv := next.Params[0]
	var rf *ssa.Call
	for _, ci := range ssau.Calls(next) {
		if c, ok := ci.(*ssa.Call); ok && ssau.CalleeName(&c.Call) == "io.ReadFull" {
			if rf != nil {
				r.Unknown(rule, key, p.Pos(c.Pos()), "more than one ReadFull in next")
				return
			}
			rf = c
		}
	}
	if rf == nil {
		r.Bad(rule, key, p.Pos(next.Pos()), "next does not read packets through io.ReadFull")
		return
	}
	rfi, ok1 := loadedField(rf.Call.Args[0])
	bfi, ok2 := loadedField(rf.Call.Args[1])
	if !ok1 || rfi.Var != rVar || rfi.Base != ssa.Value(recv) || !ok2 || bfi.Var != rbVar || bfi.Base != ssa.Value(recv) {
		r.Bad(rule, key, p.Pos(rf.Pos()), "ReadFull is not io.ReadFull(pb.r, pb.packetReadBuffer): a sub-slice or another buffer changes how many bytes one packet consumes")
		return
	}
	// the single assignment: make([]byte, pb.packetSize)
	if len(rbStores) != 1 || len(rbW) != 1 || rbStores[0].Parent() != next {
		r.Unknown(rule, key, p.Pos(rf.Pos()), "packetReadBuffer is written by "+strings.Join(keys(rbW), ", ")+": expected exactly one assignment, in next")
		return
	}
	st := rbStores[0]
	mk, ok := st.Val.(*ssa.MakeSlice)
	if !ok {
		r.Bad(rule, key, p.Pos(st.Pos()), "the read buffer is not allocated with make([]byte, pb.packetSize)")
		return
	}
	if lfi, ok := loadedField(mk.Len); !ok || lfi.Var != psVar || lfi.Base != ssa.Value(recv) {
		r.Bad(rule, key, p.Pos(st.Pos()), "the read buffer's length is "+linOf(mk.Len).String()+", not pb.packetSize: each ReadFull consumes a number of bytes different from the packet size and every later packet is mis-framed")
		return
	}
	// every path from entry to the ReadFull passes the allocation or the false edge of len(buf) != packetSize
	type edgeKey struct{ from, to *ssa.BasicBlock }
	cut := map[edgeKey]bool{}
	for _, b := range next.Blocks {
		if len(b.Instrs) == 0 {
			continue
		}
		iff, ok := b.Instrs[len(b.Instrs)-1].(*ssa.If)
		if !ok {
			continue
		}
		bo, ok := iff.Cond.(*ssa.BinOp)
		if !ok || (bo.Op != token.NEQ && bo.Op != token.EQL) {
			continue
		}
		isLen := func(v ssa.Value) bool {
			c, ok := v.(*ssa.Call)
			if !ok {
				return false
			}
			bi, ok := c.Call.Value.(*ssa.Builtin)
			if !ok || bi.Name() != "len" {
				return false
			}
			fi, ok := loadedField(c.Call.Args[0])
			return ok && fi.Var == rbVar && fi.Base == ssa.Value(recv)
		}
		isPS := func(v ssa.Value) bool {
			fi, ok := loadedField(v)
			return ok && fi.Var == psVar && fi.Base == ssa.Value(recv)
		}
		if (isLen(bo.X) && isPS(bo.Y)) || (isLen(bo.Y) && isPS(bo.X)) {
			if bo.Op == token.NEQ {
				cut[edgeKey{b, b.Succs[1]}] = true
			} else {
				cut[edgeKey{b, b.Succs[0]}] = true
			}
		}
	}
	seen := map[*ssa.BasicBlock]bool{}
	var reach func(b *ssa.BasicBlock) bool
	reach = func(b *ssa.BasicBlock) bool {
		if b == st.Block() {
			return false
		}
		if b == rf.Block() {
			return true
		}
		if seen[b] {
			return false
		}
		seen[b] = true
		for _, s := range b.Succs {
			if cut[edgeKey{b, s}] {
				continue
			}
			if reach(s) {
				return true
			}
		}
		return false
	}
	if len(cut) == 0 || reach(next.Blocks[0]) {
		r.Bad(rule, key, p.Pos(rf.Pos()), "a path reaches the ReadFull without (re)allocating the buffer and without the test len(pb.packetReadBuffer) == pb.packetSize: the buffer length may differ from the packet size")
		return
	}
	r.OK(rule, key, p.Pos(rf.Pos()), "io.ReadFull(pb.r, pb.packetReadBuffer): on every path the buffer was just allocated with make([]byte, pb.packetSize) or len(buffer) == packetSize was tested; the field has no other writer, so each call consumes exactly packetSize bytes (or fails)")
}
