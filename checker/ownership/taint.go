package ownership

import (
	"fmt"
	"go/token"
	"go/types"
	"sort"
	"strings"

	"golang.org/x/tools/go/ssa"

	"astverif/load"
	"astverif/report"
	"astverif/ssau"
)

// readsOnly is the table of callees outside the root package that may receive a borrowed byte
// slice: each only reads the bytes (or writes into OUR buffer) during the call and retains nothing.
// arg = -1 means any argument position.
var readsOnly = []struct {
	callee string
	arg    int
	reason string
}{
	{"(encoding/binary.bigEndian).Uint16", -1, "decodes 2 bytes into a scalar"},
	{"(encoding/binary.bigEndian).Uint32", -1, "decodes 4 bytes into a scalar"},
	{"(encoding/binary.bigEndian).Uint64", -1, "decodes 8 bytes into a scalar"},
	{"iface:(io.Writer).Write", 1, "io.Writer contract: Write must not modify or retain p"},
	{"(*bytes.Buffer).Write", 1, "copies p into the buffer's own storage"},
	{"io.ReadFull", 1, "destination buffer: the callee writes into our own buffer and retains nothing"},
	{"iface:(io.Reader).Read", 1, "destination buffer: io.Reader contract forbids retaining p"},
	{bitsWRecv + "WriteBytesN", 1, "astikit summary: emits the bytes to the io.Writer"},
}

// ifaceReaders: callees that may receive a borrowed slice boxed in an interface (astikit summary:
// Write(v) emits the bytes of a []byte and keeps no reference).
var ifaceReaders = map[string]string{
	bitsWRecv + "Write":                        "astikit summary: BitsWriter.Write([]byte) emits 8·len bits",
	"(*" + astikit + ".BitsWriterBatch).Write": "astikit summary: BitsWriterBatch.Write forwards to BitsWriter.Write",
}

// source is one origin of a borrowed value inside a function.
type source struct {
	Key   string // function-relative construct key
	Kind  string // nocopy pool readbuf peek param result iter-new iter-param
	Vals  []ssa.Value
	Pos   token.Pos
	Why   string
	IsItr bool
}

type taintState struct {
	p         *load.Program
	home      map[*types.Var]string // fields that are the home of a borrowed buffer
	poolS     *types.Var
	readBuf   *types.Var
	paramT    map[*ssa.Parameter]map[string]bool // borrowed byte-slice params -> who passes
	resultT   map[*ssa.Function]map[int]bool
	callSites map[*ssa.Function]int  // static call sites inside the root package
	addrTaken map[*ssa.Function]bool // referenced as a value
	funcs     []*ssa.Function
	owned     int // NextBytes / Dump sites
}

func newTaintState(p *load.Program) *taintState {
	t := &taintState{p: p, home: map[*types.Var]string{}, paramT: map[*ssa.Parameter]map[string]bool{},
		resultT: map[*ssa.Function]map[int]bool{}, callSites: map[*ssa.Function]int{}, addrTaken: map[*ssa.Function]bool{}}
	t.poolS = lookupField(p, "bytesPoolItem", "s")
	t.readBuf = lookupField(p, "packetBuffer", "packetReadBuffer")
	if t.poolS != nil {
		t.home[t.poolS] = "bytesPoolItem.s"
	}
	if t.readBuf != nil {
		t.home[t.readBuf] = "packetBuffer.packetReadBuffer"
	}
	t.funcs = p.SrcFuncs()
	var ops []*ssa.Value
	for _, f := range t.funcs {
		for _, b := range f.Blocks {
			for _, in := range b.Instrs {
				var callee ssa.Value
				if ci, ok := in.(ssa.CallInstruction); ok {
					if sf := ci.Common().StaticCallee(); sf != nil {
						t.callSites[sf]++
					}
					if !ci.Common().IsInvoke() {
						callee = ci.Common().Value
					}
				}
				ops = in.Operands(ops[:0])
				for _, op := range ops {
					if op == nil || *op == nil || *op == callee {
						continue
					}
					switch x := (*op).(type) {
					case *ssa.Function:
						t.addrTaken[x] = true
					case *ssa.MakeClosure:
						if fn, ok := x.Fn.(*ssa.Function); ok && ssa.Value(x) != callee {
							t.addrTaken[fn] = true
						}
					}
				}
			}
		}
	}
	return t
}

// sources enumerates the borrowed origins of f under the current interprocedural state.
func (t *taintState) sources(f *ssa.Function, count bool) []source {
	var out []source
	ord := ordinals{}
	for _, prm := range f.Params {
		if isIterPtr(prm.Type()) {
			out = append(out, source{Key: "iter:" + prm.Name(), Kind: "iter-param", Vals: []ssa.Value{prm}, Pos: prm.Pos(), IsItr: true,
				Why: "an iterator received as a parameter is assumed to wrap a borrowed buffer"})
		}
		if who := t.paramT[prm]; len(who) > 0 {
			var ws []string
			for w := range who {
				ws = append(ws, w)
			}
			sort.Strings(ws)
			out = append(out, source{Key: "param:" + prm.Name(), Kind: "param", Vals: []ssa.Value{prm}, Pos: prm.Pos(),
				Why: "borrowed value passed by " + strings.Join(ws, ", ")})
		}
	}
	for _, b := range f.Blocks {
		for _, in := range b.Instrs {
			switch x := in.(type) {
			case *ssa.Call:
				name := ssau.CalleeName(&x.Call)
				switch name {
				case iterRecv + "NextBytesNoCopy":
					out = append(out, source{Key: fmt.Sprintf("NextBytesNoCopy#%d", ord.next("nc")), Kind: "nocopy", Vals: ssau.ResultValue(x, 0), Pos: x.Pos(),
						Why: "astikit summary: NextBytesNoCopy returns a sub-slice of the iterator's buffer"})
				case iterRecv + "NextBytes":
					n := ord.next("nb")
					if count {
						t.owned++
						out = append(out, source{Key: fmt.Sprintf("NextBytes#%d", n), Kind: "owned", Pos: x.Pos(), Why: "astikit summary: NextBytes returns a copy"})
					}
				case iterRecv + "Dump":
					n := ord.next("dump")
					if count {
						t.owned++
						out = append(out, source{Key: fmt.Sprintf("Dump#%d", n), Kind: "owned", Pos: x.Pos(), Why: "astikit summary: Dump returns a copy of the rest"})
					}
				case "(*bufio.Reader).Peek":
					out = append(out, source{Key: fmt.Sprintf("Peek#%d", ord.next("peek")), Kind: "peek", Vals: ssau.ResultValue(x, 0), Pos: x.Pos(),
						Why: "bufio.Reader.Peek returns a view of the reader's internal buffer"})
				case astikit + ".NewBytesIterator":
					out = append(out, source{Key: fmt.Sprintf("NewBytesIterator#%d", ord.next("ni")), Kind: "iter-new", Vals: []ssa.Value{x}, Pos: x.Pos(), IsItr: true,
						Why: "iterator over a buffer (borrowed container)"})
				default:
					if sf := staticRootCallee(t.p, &x.Call); sf != nil {
						idxs := t.resultT[sf]
						var is []int
						for i := range idxs {
							is = append(is, i)
						}
						sort.Ints(is)
						for _, i := range is {
							out = append(out, source{Key: fmt.Sprintf("result:%s#%d", fname(sf), ord.next("res:"+fname(sf))), Kind: "result",
								Vals: ssau.ResultValue(x, i), Pos: x.Pos(), Why: fname(sf) + " returns a borrowed slice"})
						}
					}
				}
			case *ssa.UnOp:
				if fi, ok := loadedField(x); ok && x.Op == token.MUL {
					if h, isHome := t.home[fi.Var]; isHome {
						kind := "pool"
						if fi.Var == t.readBuf {
							kind = "readbuf"
						}
						out = append(out, source{Key: fmt.Sprintf("%s#%d", h, ord.next(h)), Kind: kind, Vals: []ssa.Value{x}, Pos: x.Pos(),
							Why: "load of the reused buffer " + h})
					}
				}
			}
		}
	}
	return out
}

type verdict struct {
	sinks    []string
	unknowns []string
	summary  map[string]int
	sinkPos  token.Pos
}

func exportedAPI(f *ssa.Function) bool {
	if f.Parent() != nil {
		return false
	}
	o := f.Object()
	if o == nil || !o.Exported() {
		return false
	}
	if recv := f.Signature.Recv(); recv != nil {
		t := recv.Type()
		if pt, ok := t.(*types.Pointer); ok {
			t = pt.Elem()
		}
		if n, ok := t.(*types.Named); ok {
			return n.Obj().Exported()
		}
	}
	return true
}

// judge applies the escape policy to the uses of one source and records interprocedural hand-offs.
func (t *taintState) judge(f *ssa.Function, s source, uses []use) (v verdict, changed bool) {
	v.summary = map[string]int{}
	sink := func(u use, msg string) {
		v.sinks = append(v.sinks, msg+" at "+t.p.Pos(u.Instr.Pos()))
		if v.sinkPos == token.NoPos {
			v.sinkPos = u.Instr.Pos()
		}
	}
	unk := func(u use, msg string) {
		v.unknowns = append(v.unknowns, msg+" at "+t.p.Pos(u.Instr.Pos()))
	}
	handParam := func(u use) bool {
		fn := u.Fn
		if !inRoot(t.p, fn) || u.Common.IsInvoke() {
			return false
		}
		if u.Arg >= len(fn.Params) {
			// variadic packing never happens for a byte slice passed as such
			return false
		}
		prm := fn.Params[u.Arg]
		if s.IsItr {
			v.summary["handed to "+fname(fn)]++
			return true
		}
		if t.paramT[prm] == nil {
			t.paramT[prm] = map[string]bool{}
		}
		if !t.paramT[prm][fname(f)] {
			t.paramT[prm][fname(f)] = true
			changed = true
		}
		v.summary[fmt.Sprintf("handed to %s (param %s, analysed there)", fname(fn), prm.Name())]++
		return true
	}
	for _, u := range uses {
		switch u.Kind {
		case "elem-read":
			v.summary["element read (scalar)"]++
		case "elem-write":
			v.summary["element write into the buffer itself"]++
		case "len":
			v.summary["len/cap"]++
		case "copy-src":
			v.summary["copy source"]++
		case "copy-dst":
			v.summary["copy destination (fills the buffer)"]++
		case "append-src":
			v.summary["append source (bytes copied)"]++
		case "append-base":
			v.summary["append base (result tracked)"]++
		case "compare":
			v.summary["comparison"]++
		case "convert-string":
			v.summary["string conversion (copy)"]++
		case "spill":
			v.summary["local variable"]++
		case "store-field":
			if h, ok := t.home[u.Field.Var]; ok && !s.IsItr {
				v.summary["stored back into its home "+h]++
			} else {
				sink(u, fmt.Sprintf("stored into field %s", u.Field))
			}
		case "store-index", "store-other", "map-update", "send", "closure", "elem-addr":
			sink(u, u.Desc)
		case "iface":
			ok := len(u.Consumers) > 0
			for _, c := range u.Consumers {
				if c.Kind != "call-arg" || ifaceReaders[c.Callee] == "" {
					ok = false
				}
			}
			if ok && !s.IsItr {
				v.summary["written through "+shortCallee(u.Consumers[0].Callee)]++
			} else {
				sink(u, "converted to an interface value (escapes to code that may retain it)")
			}
		case "call-arg":
			if s.IsItr {
				if strings.HasPrefix(u.Callee, iterRecv) && u.Arg == 0 {
					v.summary["iterator method "+strings.TrimPrefix(u.Callee, iterRecv)]++
					continue
				}
				if handParam(u) {
					continue
				}
				sink(u, "iterator passed to "+calleeDesc(u.Callee))
				continue
			}
			if u.Callee == astikit+".NewBytesIterator" {
				v.summary["wrapped by NewBytesIterator (iterator tracked as borrowed container)"]++
				continue
			}
			if handParam(u) {
				continue
			}
			allowed := false
			for _, ro := range readsOnly {
				if ro.callee == u.Callee && (ro.arg < 0 || ro.arg == u.Arg) {
					allowed = true
					v.summary[shortCallee(u.Callee)+" ("+ro.reason+")"]++
				}
			}
			if !allowed {
				sink(u, "passed to "+calleeDesc(u.Callee)+" which is not in the reads-only table")
			}
		case "return":
			if exportedAPI(f) {
				sink(u, "returned from the exported function "+fname(f))
			} else if t.addrTaken[f] || t.callSites[f] == 0 {
				sink(u, "returned from "+fname(f)+" whose callers are not statically known")
			} else {
				if s.IsItr {
					unk(u, "iterator returned from "+fname(f))
					continue
				}
				if t.resultT[f] == nil {
					t.resultT[f] = map[int]bool{}
				}
				if !t.resultT[f][u.Result] {
					t.resultT[f][u.Result] = true
					changed = true
				}
				v.summary[fmt.Sprintf("returned as result #%d (tracked at every call site)", u.Result)]++
			}
		default:
			unk(u, "construct not interpreted: "+u.Desc)
		}
	}
	return v, changed
}

func calleeDesc(n string) string {
	if n == "" {
		return "a dynamically called function value"
	}
	return shortCallee(n)
}

// BorrowTaint is rule S3 (C16 a). It returns the number of iterator fetch sites classified.
func BorrowTaint(p *load.Program, r *report.Report) int {
	const rule = "S3"
	t := newTaintState(p)
	if t.poolS == nil || t.readBuf == nil {
		r.Unknown(rule, "anchor/home-fields", "", "bytesPoolItem.s or packetBuffer.packetReadBuffer no longer resolves: the borrowed-buffer sources cannot be enumerated")
		return 0
	}
	// interprocedural fixpoint over parameter / result taint
	for iter := 0; ; iter++ {
		changed := false
		for _, f := range t.funcs {
			for _, s := range t.sources(f, false) {
				if len(s.Vals) == 0 {
					continue
				}
				_, uses := aliasClosure(s.Vals)
				if _, ch := t.judge(f, s, uses); ch {
					changed = true
				}
			}
		}
		if !changed {
			break
		}
		if iter > 50 {
			r.Unknown(rule, "fixpoint", "", "interprocedural taint did not stabilise in 50 rounds")
			return 0
		}
	}
	counts := map[string]int{}
	tainted := map[ssa.Value]bool{}
	for _, f := range t.funcs {
		for _, s := range t.sources(f, true) {
			counts[s.Kind]++
			key := fname(f) + "/" + s.Key
			if s.Kind == "owned" {
				r.Trivial(rule, key, p.Pos(s.Pos), s.Why+": the result is owned by the caller")
				continue
			}
			if len(s.Vals) == 0 {
				r.Trivial(rule, key, p.Pos(s.Pos), s.Why+"; the result is discarded")
				continue
			}
			d, uses := aliasClosure(s.Vals)
			if !s.IsItr {
				for v := range d {
					tainted[v] = true
				}
			}
			v, _ := t.judge(f, s, uses)
			switch {
			case len(v.sinks) > 0:
				sort.Strings(v.sinks)
				r.Bad(rule, key, p.Pos(s.Pos), fmt.Sprintf("%s; it escapes: %s — the retained value aliases a buffer that is overwritten by later calls", s.Why, strings.Join(v.sinks, "; ")))
			case len(v.unknowns) > 0:
				sort.Strings(v.unknowns)
				r.Unknown(rule, key, p.Pos(s.Pos), fmt.Sprintf("%s; %s", s.Why, strings.Join(v.unknowns, "; ")))
			default:
				det := joinSorted(v.summary)
				if det == "" {
					det = "no use"
				}
				r.OK(rule, key, p.Pos(s.Pos), s.Why+"; all uses are transient: "+det)
			}
		}
	}
	t.retained(r, tainted)
	for k, n := range counts {
		r.Count("s3_sources_"+k, n)
	}
	fetch := counts["nocopy"] + counts["owned"]
	r.Floor(rule, "iterator fetch sites classified (NextBytesNoCopy/NextBytes/Dump)", fetch, 60)
	r.Floor(rule, "NextBytesNoCopy sites", counts["nocopy"], 20)
	r.Floor(rule, "loads of the pooled buffer bytesPoolItem.s", counts["pool"], 3)
	r.Floor(rule, "loads of the per-demuxer read buffer", counts["readbuf"], 2)
	r.Floor(rule, "iterator containers tracked", counts["iter-new"]+counts["iter-param"], 40)
	return fetch
}

// retained is the converse inventory: every byte slice stored into a struct field (other than the
// buffers' homes) by the demux path, with the origin of the stored value.
func (t *taintState) retained(r *report.Report, tainted map[ssa.Value]bool) {
	p := t.p
	var roots []*ssa.Function
	for _, k := range []string{"Demuxer.NextPacket", "Demuxer.NextData"} {
		if f := p.Func(k); f != nil {
			roots = append(roots, f)
		}
	}
	reach := reachable(p, roots)
	n := 0
	for _, f := range sortedFuncs(reach) {
		ord := ordinals{}
		for _, b := range f.Blocks {
			for _, in := range b.Instrs {
				st, ok := in.(*ssa.Store)
				if !ok || !isByteSlice(st.Val.Type()) {
					continue
				}
				fa, ok := st.Addr.(*ssa.FieldAddr)
				if !ok {
					continue
				}
				fi, _ := fieldOf(fa)
				if _, isHome := t.home[fi.Var]; isHome {
					continue
				}
				name := fi.String()
				key := fmt.Sprintf("retain/%s/%s", fname(f), name)
				if k := ord.next(name); k > 1 {
					key = fmt.Sprintf("%s#%d", key, k)
				}
				if tainted[st.Val] {
					// reported by the source obligation that reaches this store
					continue
				}
				n++
				r.OK("S3", key, p.Pos(st.Pos()), "retained byte slice originates from: "+strings.Join(origins(st.Val), ", ")+" — none is borrowed")
			}
		}
	}
	r.Floor("S3", "retained byte-slice fields with an owned origin", n, 15)
}

// origins describes where a slice value comes from (looking through slicing, phis, spill slots).
func origins(v ssa.Value) []string {
	set := map[string]bool{}
	seen := map[ssa.Value]bool{}
	var rec func(v ssa.Value)
	rec = func(v ssa.Value) {
		for _, l := range ssau.Leaves(v) {
			if l == nil || ssau.IsNilConst(l) {
				set["nil"] = true
				continue
			}
			if seen[l] {
				continue
			}
			seen[l] = true
			if ok, _ := freshSlice(l); ok {
				set["fresh make"] = true
				continue
			}
			switch x := l.(type) {
			case *ssa.Slice:
				rec(x.X)
			case *ssa.Convert:
				rec(x.X)
			case *ssa.Extract:
				if c, ok := x.Tuple.(*ssa.Call); ok {
					set[describeCall(c)] = true
				} else {
					set["tuple element"] = true
				}
			case *ssa.Call:
				if b, ok := x.Call.Value.(*ssa.Builtin); ok && b.Name() == "append" {
					set["append (copies the appended bytes)"] = true
					rec(x.Call.Args[0])
				} else {
					set[describeCall(x)] = true
				}
			case *ssa.Parameter:
				set["parameter "+x.Name()+" (not borrowed at any call site)"] = true
			case *ssa.UnOp:
				if fi, ok := loadedField(x); ok {
					set["field "+fi.String()] = true
				} else {
					set["load"] = true
				}
			default:
				set[l.Name()] = true
			}
		}
	}
	rec(v)
	var out []string
	for k := range set {
		out = append(out, k)
	}
	sort.Strings(out)
	return out
}

func describeCall(c *ssa.Call) string {
	n := ssau.CalleeName(&c.Call)
	switch n {
	case iterRecv + "NextBytes":
		return "NextBytes (copy)"
	case iterRecv + "Dump":
		return "Dump (copy)"
	case "":
		return "dynamic call"
	}
	return "result of " + shortCallee(n)
}
