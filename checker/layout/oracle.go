package layout

// Guided composition: instead of enumerating every path of a parser and refuting almost all of them against each
// writer layout (compose.go — quadratic, and hopeless for the PES optional header whose independent optional
// sections multiply to tens of thousands of paths), the parser's abstract interpretation is run once per source
// with the source's abstract stream as the content of its iterator. Flag bits the writer decided are constants, so
// the interpreter follows the one matching parser path; bits the writer left open stay symbolic (atoms of the
// written fields) and reach the parsed fields unchanged. Nothing is executed concretely and no solver is involved:
// it is the same abstract domain (linear forms + GF(2)-affine bit vectors), applied to an abstract input.

import (
	"fmt"
	"go/types"
	"sort"
	"strings"

	"astverif/bitdom"
	"astverif/lin"
	"astverif/pathint"

	"golang.org/x/tools/go/ssa"
)

type oracle struct {
	c        *Checker
	src      *Source
	it       string
	k        *composer // helper for stream lookups (uses the current path state)
	assumed  map[string]bool
	problems []string
}

func (o *oracle) helper(st *pathint.State) *composer {
	return &composer{c: o.c, src: o.src, st: st, it: o.it, atoms: map[bitdom.Atom]bitdom.Form{}, linMap: map[string]lin.Form{},
		blobs: map[string]string{}, po: &pathint.Outcome{}, assumed: o.assumed, cache: map[string]cached{}, noFitFacts: true, guided: true}
}

// Byte implements pathint.FetchOracle.
func (o *oracle) Byte(st *pathint.State, it *pathint.Obj, off lin.Form, sym string) (pathint.Val, bool) {
	if it.ID != o.it {
		return pathint.Val{}, false
	}
	k := o.helper(st)
	if !off.IsConst() {
		off = st.SolveEqualities(o.c.IP.SimplifyForm(off, st))
	}
	pos := off.Scale(8)
	vec, whole, found := k.srcBits(pos, 8)
	if !found {
		if ch := k.blobCovering(pos); ch != nil {
			name := fmt.Sprintf("%s@%s", ch.Blob, pos.Sub(ch.Pos))
			o.c.IP.SetBounds(name, 0, 255)
			return pathint.Val{K: pathint.KInt, F: lin.Sym(name), Bits: o.c.IP.SymVec(name, 8)}, true
		}
		if o.src.TotalOK && st.ProveSimplified(pos.Sub(o.src.Total)) {
			o.problems = append(o.problems, fmt.Sprintf("the parser reads byte %s, beyond the %s bits that were written [path: %s]", off, o.src.Total, clip(st.PathDesc(), 200)))
		} else {
			o.problems = append(o.problems, fmt.Sprintf("the parser reads byte %s: no emitted field starts there [path: %s]", off, clip(st.PathDesc(), 200)))
		}
		if composeDebug {
			fmt.Printf("ORACLE miss src=%s off=%s total=%s srcfacts=%v\n", clip(o.src.Name, 3000), off, o.src.Total, o.src.St.Facts)
		}
		st.Abort()
		return pathint.Val{}, false
	}
	vec = k.applyPreds(vec)
	v := pathint.Val{K: pathint.KInt, Bits: vec}
	switch {
	case whole != nil:
		v.F = *whole
	default:
		if f, ok := k.linOfVec(vec); ok {
			v.F = f
		} else {
			o.c.IP.SetBounds(sym, 0, 255)
			v.F = lin.Sym(sym)
			st.SetDef(sym, vec)
		}
	}
	if cv, isC := vec.IsConst(); isC {
		v.F = lin.Const(int64(cv))
	}
	return v, true
}

// Bytes implements pathint.FetchOracle.
func (o *oracle) Bytes(st *pathint.State, it *pathint.Obj, off, n lin.Form) (string, bool) {
	if it.ID != o.it {
		return "", false
	}
	k := o.helper(st)
	if !off.IsConst() {
		off = st.SolveEqualities(o.c.IP.SimplifyForm(off, st))
	}
	if !n.IsConst() {
		n = st.SolveEqualities(o.c.IP.SimplifyForm(n, st))
	}
	if ch := k.chunkAt(off.Scale(8)); ch != nil && ch.Kind == CBlob {
		d := ch.Len.Sub(n)
		if (d.IsConst() && d.C == 0) || (st.ProveSimplified(d) && st.ProveSimplified(d.Scale(-1))) {
			return ch.Blob, true
		}
		return "", n.IsConst()
	}
	return "", n.IsConst()
}

// linOfBits is installed as Interp.LinOfBits during a guided run.
func (o *oracle) linOfBits(st *pathint.State, v bitdom.Vec) (lin.Form, bool) {
	k := o.helper(st)
	f, ok := k.linOfVec(k.applyPreds(v))
	if !ok {
		return lin.Form{}, false
	}
	for _, s := range f.Syms() {
		if strings.Contains(s, "%") {
			return lin.Form{}, false // still speaks about parser-local symbols
		}
	}
	return f, true
}

// Guided composes the source with the parser by guided interpretation.
func (c *Checker) Guided(src *Source, parser *ssa.Function, it string, root string, rootPtr bool, opts ComposeOpts) *Composition {
	res := &Composition{Source: src}
	res.Problems = append(res.Problems, src.Problems...)
	ip := c.IP
	o := &oracle{c: c, src: src, it: it, assumed: map[string]bool{}}
	savedO, savedL, savedI, savedP, savedW := ip.Oracle, ip.LinOfBits, ip.InlineCalls, ip.MaxPaths, ip.StrictWrap
	ip.Oracle, ip.LinOfBits, ip.InlineCalls, ip.MaxPaths, ip.StrictWrap = o, o.linOfBits, true, 400, true
	defer func() {
		ip.Oracle, ip.LinOfBits, ip.InlineCalls, ip.MaxPaths, ip.StrictWrap = savedO, savedL, savedI, savedP, savedW
	}()
	var rt types.Type
	if r := parser.Signature.Results(); r.Len() > 0 {
		rt = r.At(0).Type()
	}
	ln := "σlen"
	ip.SetBounds(ln, 0, lin.PosInf)
	nret := 0
	sum := ip.Explore(parser, func(st *pathint.State) {
		st.Facts = append(st.Facts, src.St.Facts...)
		st.NE = append(st.NE, src.St.NE...)
		for k, v := range src.St.Preds {
			st.Preds[k] = v
		}
		st.SetMem(it+".#cur", pathint.IntVal(lin.Const(opts.Start)))
		for k, v := range opts.Preds {
			st.Preds[k] = v
		}
		for name, f := range opts.Params {
			if !st.BindParam(parser, name, pathint.IntVal(f)) {
				res.Problems = append(res.Problems, "parser has no parameter "+name)
			}
		}
		st.SetMem(it+".#len", pathint.IntVal(lin.Sym(ln)))
		if src.TotalOK {
			if div8(src.Total) {
				st.Facts = append(st.Facts, lin.Fact{F: lin.Sym(ln).Sub(scaleDown8(src.Total))})
				if opts.ExactLen {
					st.Facts = append(st.Facts, lin.Fact{F: scaleDown8(src.Total).Sub(lin.Sym(ln))})
				}
			} else {
				st.Facts = append(st.Facts, lin.Fact{F: lin.Sym(ln).Scale(8).Sub(src.Total)})
			}
		}
	}, func(st *pathint.State, vals []pathint.Val) {
		nret++
		po := st.Outcome(parser, vals)
		cond := ""
		if extra := len(st.Facts) - len(src.St.Facts); extra > 0 {
			// path assumptions beyond the source's own facts are reported with the verdicts
			var cs []string
			for _, ft := range st.Facts[len(src.St.Facts):] {
				if mentionsIter(ft.F, it) || onlySym(ft.F, ln) {
					continue
				}
				cs = append(cs, ft.String())
			}
			if len(cs) > 0 {
				cond = " [when " + clip(strings.Join(cs, " & "), 300) + "]"
			}
		}
		if opts.ExpectReject {
			if po.ErrNil == pathint.No {
				res.Rejections++
			} else {
				res.Problems = append(res.Problems, "the parser can return without error on this malformed stream"+cond+" [path: "+clip(st.PathDesc(), 300)+"]")
			}
			return
		}
		if po.ErrNil == pathint.No {
			res.Problems = append(res.Problems, "the parser can reject this stream"+cond+" [path: "+clip(st.PathDesc(), 300)+"]")
			return
		}
		if po.ErrNil == pathint.Maybe && len(vals) > 0 {
			// an error that may or may not be nil: the path did not decide it
			res.Problems = append(res.Problems, "the parser's error result is undetermined on this stream"+cond)
		}
		res.Outcomes++
		k := &composer{c: c, src: src, st: st, it: it, atoms: map[bitdom.Atom]bitdom.Form{}, linMap: map[string]lin.Form{}, blobs: map[string]string{},
			po: po, assumed: o.assumed, cache: map[string]cached{}, guided: true}
		if rt != nil && len(vals) > 0 {
			k.compare(res, rt, vals[0], root, rootPtr, "", cond, opts)
		}
		if cv, ok := st.Mem(it + ".#cur"); ok && cv.K == pathint.KInt {
			res.Consumed, res.ConsumedOK = ip.SimplifyForm(cv.F, st), true
			if opts.Consumed != nil {
				d := ip.SimplifyForm(res.Consumed.Sub(*opts.Consumed), st)
				if !(d.IsConst() && d.C == 0) && !(st.ProveSimplified(d) && st.ProveSimplified(d.Scale(-1))) {
					res.ConsumedBad = append(res.ConsumedBad, fmt.Sprintf("the parser consumes %s bytes, %s were written%s", res.Consumed, opts.Consumed, cond))
				}
			}
		} else if opts.Consumed != nil {
			res.ConsumedBad = append(res.ConsumedBad, "the parser's final cursor is unknown"+cond)
		}
	})
	if opts.ExpectReject {
		if sum.Truncated {
			res.Problems = append(res.Problems, "path budget exceeded while interpreting the parser on this stream")
		}
		if res.Rejections == 0 && len(res.Problems) == 0 {
			res.Problems = append(res.Problems, "no rejecting path of the parser was reached on this malformed stream")
		}
		return res
	}
	res.Problems = append(res.Problems, o.problems...)
	if sum.Truncated {
		res.Problems = append(res.Problems, "path budget exceeded while interpreting the parser on this stream")
	}
	for a := range o.assumed {
		res.Assumed = append(res.Assumed, a)
	}
	sort.Strings(res.Assumed)
	if res.Outcomes == 0 && len(res.Problems) == 0 {
		res.Problems = append(res.Problems, "the parser does not return on this stream (every path panics or loops)")
	}
	return res
}

func onlySym(f lin.Form, s string) bool {
	syms := f.Syms()
	return len(syms) == 1 && syms[0] == s
}
