package layout

// Layout agreement (rules A3/A4): a *source* is an abstract bit stream — what a writer emits on one of its
// outcomes, or what a specification table prescribes for one guard valuation — whose bits are GF(2)-affine
// forms over the fields of the written structure. A parser summary (computed independently) says which stream
// bits it fetches and how the fields of its result depend on them. Composing the two by aligning fetches with
// emitted chunks gives every result field as a function of the written fields; the rule demands the identity.
// No code is run and no solver is used: alignment is equality of linear forms, bit values are affine forms.

import (
	"fmt"
	"go/types"
	"os"
	"sort"
	"strings"

	"astverif/bitdom"
	"astverif/lin"
	"astverif/pathint"

	"golang.org/x/tools/go/ssa"
)

// ChunkKind enumerates stream chunks.
type ChunkKind int

const (
	CBits   ChunkKind = iota // W bits, most significant first, of value Bits (little-endian vector)
	CBlob                    // Len bytes with identity Blob
	CRepeat                  // Len repetitions of Body
	COpaque                  // Len bits of unknown content
)

// Chunk is one contiguous piece of a stream.
type Chunk struct {
	Kind  ChunkKind
	W     int
	Bits  bitdom.Vec
	Lin   *lin.Form
	Blob  string
	Len   lin.Form
	Body  []Chunk
	Pos   lin.Form // bit offset from the start of the stream
	PosOK bool
	What  string
}

func (c Chunk) widthBits() (lin.Form, bool) {
	switch c.Kind {
	case CBits:
		return lin.Const(int64(c.W)), true
	case CBlob:
		return c.Len.Scale(8), true
	case COpaque:
		return c.Len, true
	case CRepeat:
		bw := lin.Const(0)
		for _, b := range c.Body {
			w, ok := b.widthBits()
			if !ok {
				return lin.Form{}, false
			}
			bw = bw.Add(w)
		}
		if bw.IsConst() {
			return c.Len.Scale(bw.C), true
		}
		return lin.Form{}, false
	}
	return lin.Form{}, false
}

// Source is an abstract stream with the conditions under which it is produced.
type Source struct {
	Name     string
	Chunks   []Chunk
	St       *pathint.State // facts and predicates of the producing path
	Total    lin.Form       // bits
	TotalOK  bool
	Emitted  map[bitdom.Atom]bool
	Computed []string // assumptions made for computed values
	Problems []string
}

func (s *Source) place() {
	pos := lin.Const(0)
	ok := true
	s.Emitted = map[bitdom.Atom]bool{}
	for i := range s.Chunks {
		s.Chunks[i].Pos, s.Chunks[i].PosOK = pos, ok
		if w, wok := s.Chunks[i].widthBits(); wok && ok {
			pos = pos.Add(w)
		} else {
			ok = false
		}
		if s.Chunks[i].Kind == CBits {
			for _, f := range s.Chunks[i].Bits {
				if f.Top {
					continue // arithmetic on the way (a computed length): not a transmitted field bit
				}
				for _, a := range f.Atoms {
					s.Emitted[a] = true
				}
			}
		}
	}
	s.Total, s.TotalOK = pos, ok
}

// OwnState returns a prover state holding only the producing path's own facts (without the identities introduced
// for computed values, whose "no wrap-around" assumption must not be used to prove that a length fits).
func (c *Checker) OwnState(s *Source) *pathint.State {
	n := c.IP.Harness(s.St.Fn)
	for _, ft := range s.St.Facts {
		own := true
		for _, sy := range ft.F.Syms() {
			if strings.HasPrefix(sy, "val(") {
				own = false
			}
		}
		if own {
			n.Facts = append(n.Facts, ft)
		}
	}
	n.NE = append(n.NE, s.St.NE...)
	for k, v := range s.St.Preds {
		n.Preds[k] = v
	}
	return n
}

// Replace recomputes positions after the chunk list was edited.
func (s *Source) Replace() { s.place() }

// Describe renders the stream for evidence and diagnostics.
func (s *Source) Describe() string {
	var sb strings.Builder
	for _, c := range s.Chunks {
		switch c.Kind {
		case CBits:
			fmt.Fprintf(&sb, "[%d:%s]", c.W, vecMSB(c.Bits, c.W))
		case CBlob:
			fmt.Fprintf(&sb, "[bytes %s ×%s]", c.Blob, c.Len)
		case CRepeat:
			inner := Source{Chunks: c.Body}
			fmt.Fprintf(&sb, "[repeat ×%s {%s}]", c.Len, inner.Describe())
		case COpaque:
			fmt.Fprintf(&sb, "[? %s bits]", c.Len)
		}
	}
	return sb.String()
}

func vecMSB(v bitdom.Vec, w int) string {
	if c, ok := v.Resize(w).IsConst(); ok {
		return fmt.Sprintf("0x%x", c)
	}
	// contiguous run of one symbol
	if w > 0 && w <= len(v) && !v[0].Top && len(v[0].Atoms) == 1 && !v[0].C {
		src := v[0].Atoms[0].Src
		lo := v[0].Atoms[0].Bit
		run := true
		for i := 0; i < w; i++ {
			f := v[i]
			if f.Top || f.C || len(f.Atoms) != 1 || f.Atoms[0].Src != src || f.Atoms[0].Bit != lo+i {
				run = false
				break
			}
		}
		if run {
			if w == 1 {
				return fmt.Sprintf("%s.%d", src, lo)
			}
			return fmt.Sprintf("%s[%d..%d]", src, lo+w-1, lo)
		}
	}
	parts := make([]string, w)
	for i := 0; i < w; i++ {
		parts[w-1-i] = v[i].String()
	}
	return strings.Join(parts, ",")
}

// SourceFromOutcome builds the stream a writer outcome emits to the writer object named w.
func (c *Checker) SourceFromOutcome(f *ssa.Function, o *pathint.Outcome, w string, name string) *Source {
	s := &Source{Name: name, St: c.outcomeState(f, o)}
	s.Chunks = c.chunksOf(o.Events, w, s)
	c.nameComputed(s.Chunks, s)
	s.place()
	return s
}

// nameComputed gives an identity to emitted values that went through arithmetic (computed lengths): their bits are
// not affine in the written fields, but the value is a known linear form L. The chunk becomes the bits of a fresh
// symbol val(L) with val(L) = L (no wrap-around in the emitted width: recorded as an assumption), so that a parser
// that reassembles the value from several bytes gets L back.
func (c *Checker) nameComputed(chs []Chunk, s *Source) {
	for i := range chs {
		ch := &chs[i]
		if ch.Kind == CRepeat {
			c.nameComputed(ch.Body, s)
			continue
		}
		if ch.Kind != CBits || ch.Lin == nil || !ch.Bits.HasTop() || ch.W < 2 || ch.W > 32 {
			continue
		}
		name := "val(" + ch.Lin.String() + ")"
		c.IP.SetBounds(name, 0, (int64(1)<<uint(ch.W))-1)
		ch.Bits = c.IP.SymVec(name, ch.W)
		d := lin.Sym(name).Sub(*ch.Lin)
		s.St.Facts = append(s.St.Facts, lin.Fact{F: d}, lin.Fact{F: d.Scale(-1)})
		s.Computed = append(s.Computed, fmt.Sprintf("%s fits the %d bits it is emitted in", ch.Lin.String(), ch.W))
	}
}

func (c *Checker) chunksOf(evs []pathint.Event, w string, s *Source) []Chunk {
	var out []Chunk
	for _, e := range evs {
		switch e.Kind {
		case "emit":
			if e.Obj != w {
				continue
			}
			what := c.P.Pos(e.Pos)
			if e.Val.K == pathint.KSlice {
				out = append(out, Chunk{Kind: CBlob, Blob: e.Val.S.ID, Len: e.Val.S.Len, What: what})
				if !e.Width.Equal(e.Val.S.Len.Scale(8)) {
					// WriteBytesN: n bytes, padded / truncated
					out[len(out)-1] = Chunk{Kind: CBlob, Blob: "padded:" + e.Val.S.ID, Len: lin.Form{C: 0}.Add(scaleDown8(e.Width)), What: what}
				}
				continue
			}
			if !e.Width.IsConst() || e.Width.C < 0 || e.Width.C > 64 {
				out = append(out, Chunk{Kind: COpaque, Len: e.Width, What: what})
				continue
			}
			bv, ok := e.Val.Bits.(bitdom.Vec)
			if !ok {
				out = append(out, Chunk{Kind: COpaque, Len: e.Width, What: what})
				continue
			}
			ch := Chunk{Kind: CBits, W: int(e.Width.C), Bits: bv.Resize(int(e.Width.C)), What: what}
			if e.Val.K == pathint.KInt {
				f := e.Val.F
				ch.Lin = &f
			}
			out = append(out, ch)
		case "loop":
			var bodies [][]Chunk
			for _, b := range e.Body {
				if bc := c.chunksOf(b, w, s); len(bc) > 0 {
					bodies = append(bodies, bc)
				}
			}
			switch len(bodies) {
			case 0:
			case 1:
				out = append(out, Chunk{Kind: CRepeat, Len: e.Width, Body: bodies[0], What: c.P.Pos(e.Pos)})
			default:
				s.Problems = append(s.Problems, c.P.Pos(e.Pos)+": loop with several emitting body paths is not laid out")
				out = append(out, Chunk{Kind: COpaque, Len: lin.Sym("?loop"), What: c.P.Pos(e.Pos)})
			}
		case "call":
			if e.Obj == w {
				out = append(out, Chunk{Kind: COpaque, Len: e.Width, What: c.P.Pos(e.Pos) + " " + e.Type})
			}
		}
	}
	return out
}

// Div8 reports whether every coefficient of f is a multiple of 8.
func Div8(f lin.Form) bool { return div8(f) }

// ScaleDown8 divides f by 8.
func ScaleDown8(f lin.Form) lin.Form { return scaleDown8(f) }

func div8(f lin.Form) bool {
	if f.C%8 != 0 {
		return false
	}
	for _, s := range f.Syms() {
		if f.Coef(s)%8 != 0 {
			return false
		}
	}
	return true
}

func scaleDown8(f lin.Form) lin.Form {
	r := lin.Const(f.C / 8)
	for _, s := range f.Syms() {
		r = r.Add(lin.Sym(s).Scale(f.Coef(s) / 8))
	}
	return r
}

// ---- composition

// FieldResult is the verdict for one leaf field of the parsed structure.
type FieldResult struct {
	Path   string
	OK     bool
	Skip   bool // not transmitted on this valuation and left at its zero value
	Detail string
}

// Composition is the result of composing one source with a parser summary.
type Composition struct {
	Source      *Source
	Outcomes    int // feasible parser outcomes
	Rejections  int // rejecting parser outcomes (ExpectReject)
	Fields      []FieldResult
	Assumed     []string
	Problems    []string
	Consumed    lin.Form // bytes the parser consumed
	ConsumedOK  bool
	ConsumedBad []string
}

type composer struct {
	c          *Checker
	src        *Source
	st         *pathint.State // clone of the source state, extended with assumptions
	it         string         // parser-side iterator object id ("$i")
	atoms      map[bitdom.Atom]bitdom.Form
	linMap     map[string]lin.Form
	blobs      map[string]string // parser fetch event -> source blob
	po         *pathint.Outcome
	assumed    map[string]bool
	probs      []string
	cond       []string
	fetchSyms  map[string]bool
	doneFact   []bool
	doneNE     []bool
	guided     bool // values are already expressed over the source (oracle run)
	noFitFacts bool
	dirty      bool // the state has assumptions beyond the source's own facts
	cache      map[string]cached
}

type cached struct {
	t pathint.Tri
	g lin.Form
}

// srcBits reads n bits (n <= 64) at bit position pos of the source. The result is little-endian with respect to
// stream order reversed: result[j] is the stream bit pos+n-1-j (so a fetched byte's bit 7 is the first bit).
func (k *composer) srcBits(pos lin.Form, n int) (bitdom.Vec, *lin.Form, bool) {
	out := make(bitdom.Vec, n)
	filled := 0
	var whole *lin.Form
	for ci := range k.src.Chunks {
		ch := &k.src.Chunks[ci]
		if !ch.PosOK || ch.Kind != CBits {
			continue
		}
		d := pos.AddC(int64(filled)).Sub(ch.Pos)
		if !d.IsConst() {
			d = k.c.IP.SimplifyForm(d, k.st)
		}
		if !d.IsConst() && k.guided {
			d = k.st.SolveEqualities(d)
		}
		if !d.IsConst() || d.C < 0 || d.C >= int64(ch.W) {
			continue
		}
		// stream bit t of the chunk (0 = first) is value bit W-1-t
		for t := int(d.C); t < ch.W && filled < n; t++ {
			out[n-1-filled] = ch.Bits[ch.W-1-t]
			filled++
		}
		if d.C == 0 && ch.W == n && filled == n && ch.Lin != nil {
			whole = ch.Lin
		}
		if filled == n {
			return out, whole, true
		}
	}
	return nil, nil, false
}

// blobAt finds a blob / repeat chunk starting at bit position pos.
func (k *composer) chunkAt(pos lin.Form) *Chunk {
	for ci := range k.src.Chunks {
		ch := &k.src.Chunks[ci]
		if !ch.PosOK {
			continue
		}
		d := k.c.IP.SimplifyForm(pos.Sub(ch.Pos), k.st)
		if !d.IsConst() && k.guided {
			d = k.st.SolveEqualities(d)
		}
		if d.IsConst() && d.C == 0 {
			if w, ok := ch.widthBits(); ok && w.IsConst() && w.C == 0 {
				continue // empty chunk
			}
			return ch
		}
		if !d.IsConst() && k.st.ProveSimplified(d) && k.st.ProveSimplified(d.Scale(-1)) {
			return ch
		}
	}
	return nil
}

func (k *composer) note(a string) {
	if !k.assumed[a] {
		k.assumed[a] = true
	}
}

// vecOfSym: bits of a parser-side symbol in terms of source atoms.
func (k *composer) vecOfSym(s string) bitdom.Vec {
	var v bitdom.Vec
	if d, ok := k.po.Defs[s]; ok {
		v = d
	} else {
		v = k.c.IP.SymVec(s, 64)
	}
	return k.subst(v)
}

func (k *composer) subst(v bitdom.Vec) bitdom.Vec {
	return v.Subst(func(a bitdom.Atom) (bitdom.Form, bool) {
		if f, ok := k.atoms[a]; ok {
			return f, true
		}
		if strings.HasPrefix(a.Src, "p:") {
			if tv, ok := k.st.Pred(a.Src[2:]); ok {
				return bitdom.Bit(tv), true
			}
			return bitdom.Form{}, false
		}
		// a parser symbol that is itself defined by bits
		if d, ok := k.po.Defs[a.Src]; ok && a.Bit >= 0 {
			if a.Bit >= len(d) {
				return bitdom.Zero(), true
			}
			return k.subst(bitdom.Vec{d[a.Bit]})[0], true
		}
		return bitdom.Form{}, false
	})
}

// applyPreds replaces predicate atoms the source path has decided.
func (k *composer) applyPreds(v bitdom.Vec) bitdom.Vec {
	return v.Subst(func(a bitdom.Atom) (bitdom.Form, bool) {
		if strings.HasPrefix(a.Src, "p:") {
			if tv, ok := k.st.Pred(a.Src[2:]); ok {
				return bitdom.Bit(tv), true
			}
		}
		return bitdom.Form{}, false
	})
}

// linOfVec reads a vector as a linear form over source symbols: a sum of shifted whole symbols, single
// predicate bits and constants. ok is false when a bit is not of that shape.
func (k *composer) linOfVec(v bitdom.Vec) (lin.Form, bool) {
	ip := k.c.IP
	res := lin.Const(0)
	for i := 0; i < len(v); {
		f := v[i]
		if f.Top {
			return lin.Form{}, false
		}
		if len(f.Atoms) == 0 {
			if f.C {
				if i >= 62 {
					return lin.Form{}, false
				}
				res = res.AddC(1 << uint(i))
			}
			i++
			continue
		}
		if f.C || len(f.Atoms) != 1 {
			return lin.Form{}, false
		}
		a := f.Atoms[0]
		if strings.HasPrefix(a.Src, "p:") {
			name := "[" + a.Src[2:] + "]"
			ip.SetBounds(name, 0, 1)
			if i >= 62 {
				return lin.Form{}, false
			}
			res = res.Add(lin.Sym(name).Scale(1 << uint(i)))
			i++
			continue
		}
		if a.Bit != 0 {
			return lin.Form{}, false
		}
		// run of consecutive bits of a.Src starting at its bit 0
		j := i
		for j < len(v) && !v[j].Top && !v[j].C && len(v[j].Atoms) == 1 && v[j].Atoms[0].Src == a.Src && v[j].Atoms[0].Bit == j-i {
			j++
		}
		run := j - i
		if k.src.Emitted[bitdom.Atom{Src: a.Src, Bit: run}] {
			return lin.Form{}, false // a bit of the symbol that is in the stream is not part of the value
		}
		hi := ip.Hi(a.Src)
		if lo := ip.Lo(a.Src); lo < 0 || hi >= lin.PosInf || bitLen64(hi) > run {
			// the symbol may have bits above the run: they are cut off
			bound := lin.Const((int64(1) << uint(run)) - 1).Sub(lin.Sym(a.Src))
			if !(k.st.ProveSimplified(bound) && k.st.ProveSimplified(lin.Sym(a.Src))) {
				if run >= 62 {
					return lin.Form{}, false
				}
				k.note(fmt.Sprintf("%s fits %d bits (0 <= value < 2^%d)", a.Src, run, run))
				if !k.guided && !k.noFitFacts {
					k.st.Facts = append(k.st.Facts, lin.Fact{F: bound}, lin.Fact{F: lin.Sym(a.Src)})
					k.dirty = true
				}
			}
		}
		if i >= 62 {
			return lin.Form{}, false
		}
		res = res.Add(lin.Sym(a.Src).Scale(1 << uint(i)))
		i = j
	}
	return res, true
}

func bitLen64(x int64) int {
	n := 0
	for x > 0 {
		n++
		x >>= 1
	}
	return n
}

// trSym translates one parser-side symbol into a source-side linear form.
func (k *composer) trSym(s string) lin.Form {
	if f, ok := k.linMap[s]; ok {
		return f
	}
	if !strings.HasPrefix(s, "%") && !strings.HasPrefix(s, "<") {
		return lin.Sym(s) // not a parser-local symbol
	}
	v := k.applyPreds(k.vecOfSym(s))
	if f, ok := k.linOfVec(v); ok {
		// the translation is only meaningful when no parser atom is left
		clean := true
		for _, sy := range f.Syms() {
			if _, isParser := k.po.Defs[sy]; isParser || sy == s {
				clean = false
			}
		}
		if clean || !f.Equal(lin.Sym(s)) {
			k.linMap[s] = f
			return f
		}
	}
	n := "σ(" + s + ")"
	k.c.IP.SetBounds(n, k.c.IP.Lo(s), k.c.IP.Hi(s))
	k.linMap[s] = lin.Sym(n)
	return lin.Sym(n)
}

func (k *composer) tr(f lin.Form) lin.Form {
	sub := map[string]lin.Form{}
	for _, s := range f.Syms() {
		sub[s] = k.trSym(s)
	}
	return f.Subst(sub)
}

// run aligns the fetches of the parser outcome with the source one by one. Before each fetch the part of the path
// condition that only depends on what has been fetched so far is decided: a refuted outcome is dropped silently
// (No); a fetch that cannot be placed on a path not refuted so far is a problem. The result is the feasibility of
// the whole outcome; placed reports whether every fetch was placed.
func (k *composer) run() (feas pathint.Tri, placed bool) {
	k.fetchSyms = map[string]bool{}
	for _, e := range k.po.Events {
		if e.Kind == "fetch" && e.Obj == k.it {
			k.fetchSyms[e.ID] = true
		}
	}
	k.doneFact = make([]bool, len(k.po.Facts))
	k.doneNE = make([]bool, len(k.po.NE))
	feas = pathint.Yes
	placed = true
	for _, e := range k.po.Events {
		if e.Kind != "fetch" || e.Obj != k.it {
			continue
		}
		switch k.decide(false) {
		case pathint.No:
			return pathint.No, placed
		case pathint.Maybe:
			feas = pathint.Maybe
		}
		if !k.alignOne(e) {
			placed = false
			return feas, false
		}
	}
	switch k.decide(true) {
	case pathint.No:
		return pathint.No, placed
	case pathint.Maybe:
		feas = pathint.Maybe
	}
	return feas, placed
}

// resolved: the symbol's value is determined by the fetches placed so far.
func (k *composer) resolved(s string, depth int) bool {
	if _, ok := k.linMap[s]; ok {
		return true
	}
	if depth > 8 {
		return false
	}
	base := s
	if i := strings.LastIndex(s, ".["); i >= 0 && strings.HasSuffix(s, "]") {
		base = s[:i]
	}
	if k.fetchSyms[base] {
		_, ok := k.atoms[bitdom.Atom{Src: s, Bit: 0}]
		return ok
	}
	if d, ok := k.po.Defs[s]; ok {
		for _, f := range d {
			for _, a := range f.Atoms {
				if strings.HasPrefix(a.Src, "p:") {
					continue
				}
				if !k.resolved(a.Src, depth+1) {
					return false
				}
			}
		}
	}
	return true
}

// onlyIter: the form speaks about the iterator alone (room for a fetch): decided last, once the flag bits have
// refuted most outcomes.
func (k *composer) onlyIter(f lin.Form) bool {
	for _, s := range f.Syms() {
		if !strings.HasPrefix(s, k.it+"#") {
			return false
		}
	}
	return true
}

func (k *composer) formResolved(f lin.Form) bool {
	for _, s := range f.Syms() {
		if !k.resolved(s, 0) {
			return false
		}
	}
	return true
}

// decide evaluates the not yet evaluated facts of the outcome that are resolved (all of them when final). Facts
// that translate to constants are evaluated first: most outcomes are refuted by a flag bit without any proof.
func (k *composer) decide(final bool) pathint.Tri {
	res := pathint.Yes
	type pend struct {
		i int
		g lin.Form
	}
	var later []pend
	for i, ft := range k.po.Facts {
		if k.doneFact[i] || (!final && (!k.formResolved(ft.F) || k.onlyIter(ft.F))) {
			continue
		}
		k.doneFact[i] = true
		g := k.tr(ft.F)
		if composeDebug {
			fmt.Printf("      fact %s  =>  %s\n", ft.F, g)
		}
		if g.IsConst() {
			if g.C < 0 {
				return pathint.No
			}
			continue
		}
		later = append(later, pend{i, g})
	}
	var laterNE []lin.Form
	for i, ne := range k.po.NE {
		if k.doneNE[i] || (!final && !k.formResolved(ne)) {
			continue
		}
		k.doneNE[i] = true
		g := k.tr(ne)
		if g.IsConst() {
			if g.C == 0 {
				return pathint.No
			}
			continue
		}
		laterNE = append(laterNE, g)
	}
	for _, p := range later {
		g := p.g
		key := ""
		if !k.dirty {
			key = g.String()
			if v, ok := k.cache[key]; ok {
				switch v.t {
				case pathint.Yes:
					continue
				case pathint.No:
					return pathint.No
				}
				g = v.g
				res = pathint.Maybe
				k.cond = append(k.cond, g.String()+" >= 0")
				k.st.Facts = append(k.st.Facts, lin.Fact{F: g})
				k.dirty = true
				continue
			}
		}
		verdict := pathint.Maybe
		if k.st.Prove(g) {
			verdict = pathint.Yes
		} else {
			g = k.c.IP.SimplifyForm(g, k.st)
			if k.st.ProveSimplified(g) {
				verdict = pathint.Yes
			} else if k.st.ProveSimplified(g.Scale(-1).AddC(-1)) {
				verdict = pathint.No
			}
		}
		if key != "" {
			k.cache[key] = cached{verdict, g}
		}
		switch verdict {
		case pathint.Yes:
			continue
		case pathint.No:
			return pathint.No
		}
		res = pathint.Maybe
		k.cond = append(k.cond, g.String()+" >= 0")
		k.st.Facts = append(k.st.Facts, lin.Fact{F: g})
		k.dirty = true
	}
	for _, g := range laterNE {
		g = k.c.IP.SimplifyForm(g, k.st)
		if g.IsConst() {
			if g.C == 0 {
				return pathint.No
			}
			continue
		}
		if k.st.ProveSimplified(g) && k.st.ProveSimplified(g.Scale(-1)) {
			return pathint.No
		}
		if k.st.ProveSimplified(g.AddC(-1)) || k.st.ProveSimplified(g.Scale(-1).AddC(-1)) {
			continue
		}
		res = pathint.Maybe
		k.cond = append(k.cond, g.String()+" != 0")
		k.st.NE = append(k.st.NE, g)
		k.dirty = true
	}
	return res
}

// alignOne places one fetch.
func (k *composer) alignOne(e pathint.Event) bool {
	ok := true
	off, n := k.tr(e.Off), k.tr(e.Width)
	if !off.IsConst() {
		off = k.c.IP.SimplifyForm(off, k.st)
	}
	if !n.IsConst() {
		n = k.c.IP.SimplifyForm(n, k.st)
	}
	if n.IsConst() && n.C >= 0 && n.C <= 64 {
		for b := int64(0); b < n.C; b++ {
			sym := e.ID
			if e.Val.K == pathint.KSlice {
				sym = fmt.Sprintf("%s.[%d]", e.ID, b)
			}
			pos := off.AddC(b).Scale(8)
			vec, whole, found := k.srcBits(pos, 8)
			if !found {
				if ch := k.blobCovering(pos); ch != nil {
					// a byte inside a byte string: opaque content
					for j := 0; j < 8; j++ {
						k.atoms[bitdom.Atom{Src: sym, Bit: j}] = bitdom.AtomForm(bitdom.Atom{Src: fmt.Sprintf("%s@%s", ch.Blob, off.AddC(b).Scale(8).Sub(ch.Pos)), Bit: j})
					}
					continue
				}
				if k.st.ProveSimplified(pos.Sub(k.src.Total)) && k.src.TotalOK {
					// beyond what was written: whatever follows in the stream
					for j := 0; j < 8; j++ {
						k.atoms[bitdom.Atom{Src: sym, Bit: j}] = bitdom.AtomForm(bitdom.Atom{Src: "after:" + sym, Bit: j})
					}
					continue
				}
				k.probs = append(k.probs, fmt.Sprintf("fetch %s at byte %s: no emitted field starts there", sym, off.AddC(b)))
				ok = false
				continue
			}
			for j := 0; j < 8; j++ {
				k.atoms[bitdom.Atom{Src: sym, Bit: j}] = vec[j]
			}
			if whole != nil {
				k.linMap[sym] = *whole
			}
		}
		if e.Val.K == pathint.KSlice {
			if ch := k.chunkAt(off.Scale(8)); ch != nil && ch.Kind == CBlob {
				if d := k.c.IP.SimplifyForm(ch.Len.Sub(n), k.st); d.IsConst() && d.C == 0 {
					k.blobs[e.ID] = ch.Blob
				}
			}
		}
		return ok
	}
	ch := k.chunkAt(off.Scale(8))
	if ch == nil {
		k.probs = append(k.probs, fmt.Sprintf("fetch %s of %s bytes at byte %s: no emitted field starts there", e.ID, n, off))
		return false
	}
	switch ch.Kind {
	case CBlob:
		d := ch.Len.Sub(n)
		if !(k.st.ProveSimplified(d) && k.st.ProveSimplified(d.Scale(-1))) {
			k.probs = append(k.probs, fmt.Sprintf("fetch %s reads %s bytes where %s bytes of %s were written", e.ID, n, ch.Len, ch.Blob))
			return false
		}
		k.blobs[e.ID] = ch.Blob
	default:
		k.probs = append(k.probs, fmt.Sprintf("fetch %s of %s bytes lands on a field that is not a byte string (%s)", e.ID, n, ch.What))
		return false
	}
	return true
}

func (k *composer) blobCovering(pos lin.Form) *Chunk {
	for ci := range k.src.Chunks {
		ch := &k.src.Chunks[ci]
		if !ch.PosOK || ch.Kind != CBlob {
			continue
		}
		d := pos.Sub(ch.Pos)
		end := ch.Pos.Add(ch.Len.Scale(8)).Sub(pos).AddC(-8)
		if k.st.ProveSimplified(d) && k.st.ProveSimplified(end) {
			return ch
		}
	}
	return nil
}

func mentionsIter(f lin.Form, it string) bool {
	for _, s := range f.Syms() {
		if strings.HasPrefix(s, it+"#") {
			return true
		}
	}
	return false
}

// Compose composes the source with every feasible success outcome of the parser and compares the fields of the
// parsed structure with the fields of the written one. root is the source-side name of the written structure
// ("$af"), it the parser's iterator parameter ("$i").
func (c *Checker) Compose(src *Source, parser *ssa.Function, sum *pathint.Summary, it string, root string, rootPtr bool, opts ComposeOpts) *Composition {
	res := &Composition{Source: src}
	res.Problems = append(res.Problems, src.Problems...)
	var rt types.Type
	if r := parser.Signature.Results(); r.Len() > 0 {
		rt = r.At(0).Type()
	}
	cache := map[string]cached{}
	for oi := range sum.Outcomes {
		po := &sum.Outcomes[oi]
		k := &composer{cache: cache, c: c, src: src, st: cloneHarness(c, src.St), it: it, atoms: map[bitdom.Atom]bitdom.Form{}, linMap: map[string]lin.Form{},
			blobs: map[string]string{}, po: po, assumed: map[string]bool{}}
		k.linMap[it+"#cur"] = lin.Const(0)
		ln := "σlen"
		c.IP.SetBounds(ln, 0, lin.PosInf)
		k.linMap[it+"#len"] = lin.Sym(ln)
		if src.TotalOK {
			if div8(src.Total) {
				k.st.Facts = append(k.st.Facts, lin.Fact{F: lin.Sym(ln).Sub(scaleDown8(src.Total))})
			} else {
				k.st.Facts = append(k.st.Facts, lin.Fact{F: lin.Sym(ln).Scale(8).Sub(src.Total)})
			}
		}
		if composeDebug {
			fmt.Printf("    parser outcome %d err=%d\n", oi, po.ErrNil)
		}
		fe, placed := k.run()
		if composeDebug {
			fmt.Printf("    => feasible=%d placed=%v probs=%v\n", fe, placed, k.probs)
		}
		if fe == pathint.No {
			continue
		}
		cond := ""
		if fe == pathint.Maybe {
			cond = " [when " + strings.Join(k.cond, " & ") + "]"
		}
		if po.ErrNil == pathint.No {
			// a failure outcome the source does not exclude: the parser rejects (some of) what was written
			res.Problems = append(res.Problems, fmt.Sprintf("the parser can reject this stream: failure outcome #%d is not excluded%s", oi, cond))
			continue
		}
		if !placed {
			for _, p := range k.probs {
				res.Problems = append(res.Problems, p+cond)
			}
			continue
		}
		res.Outcomes++
		if rt != nil && len(po.Results) > 0 {
			k.compare(res, rt, po.Results[0], root, rootPtr, "", cond, opts)
		}
		// consumption (judged under this outcome's own assumptions)
		if cv, ok := po.Mem[it+".#cur"]; ok && cv.K == pathint.KInt {
			res.Consumed, res.ConsumedOK = c.IP.SimplifyForm(k.tr(cv.F), k.st), true
			if opts.Consumed != nil {
				d := c.IP.SimplifyForm(res.Consumed.Sub(*opts.Consumed), k.st)
				if !(d.IsConst() && d.C == 0) && !(k.st.ProveSimplified(d) && k.st.ProveSimplified(d.Scale(-1))) {
					res.ConsumedBad = append(res.ConsumedBad, fmt.Sprintf("the parser consumes %s bytes, %s were written%s", res.Consumed, opts.Consumed, cond))
				}
			}
		} else if opts.Consumed != nil {
			res.ConsumedBad = append(res.ConsumedBad, "the parser's final cursor is unknown"+cond)
		}
		for a := range k.assumed {
			res.Assumed = append(res.Assumed, a)
		}
	}
	sort.Strings(res.Assumed)
	res.Assumed = dedupStrings(res.Assumed)
	if res.Outcomes == 0 && len(res.Problems) == 0 {
		res.Problems = append(res.Problems, "no success outcome of the parser is compatible with this stream")
	}
	return res
}

func dedupStrings(s []string) []string {
	var out []string
	for i, x := range s {
		if i == 0 || x != s[i-1] {
			out = append(out, x)
		}
	}
	return out
}

func cloneHarness(c *Checker, st *pathint.State) *pathint.State {
	n := c.IP.Harness(st.Fn)
	n.Facts = append(n.Facts, st.Facts...)
	n.NE = append(n.NE, st.NE...)
	for k, v := range st.Preds {
		n.Preds[k] = v
	}
	return n
}

var composeDebug = os.Getenv("ASTVERIF_COMPOSE_DEBUG") != ""

// ComposeOpts configures the field comparison.
type ComposeOpts struct {
	// Computed: leaf paths (relative to the root, "." separated) whose parsed value is derived from the stream
	// layout rather than copied from the written structure; value = the expected source-side linear form, or nil
	// when the field is exempt (reason in Why).
	Computed map[string]*lin.Form
	Why      map[string]string
	// Consumed: the number of bytes the parser is expected to consume (nil: not checked).
	Consumed *lin.Form
	// Start: initial cursor of the parser (bytes).
	Start int64
	// Preds: boolean facts about the parser's other parameters (e.g. "nil:$s": true).
	Preds map[string]bool
	// ExactLen: the iterator holds exactly the emitted bytes (not a longer buffer).
	ExactLen bool
	// Params: integer parameters of the parser given by its caller (name without $ -> value).
	Params map[string]lin.Form
	// ExpectReject: the stream is malformed in a way the parser must answer with an error: a path on which it may return
	// without error is the violation; nothing else is compared.
	ExpectReject bool
}

// compare walks the parsed structure type and compares every leaf with the written structure's field.
func (k *composer) compare(res *Composition, t types.Type, pv pathint.Val, exp string, expPtr bool, path string, cond string, opts ComposeOpts) {
	if want, isComputed := opts.Computed[path]; isComputed && want == nil {
		res.Fields = append(res.Fields, FieldResult{Path: path, OK: true, Skip: true, Detail: "exempt: " + opts.Why[path]})
		return
	}
	if p, ok := t.Underlying().(*types.Pointer); ok {
		switch pv.K {
		case pathint.KNilPtr:
			// nothing parsed here: every field below is absent; acceptable only if the source did not transmit it
			k.absent(res, p.Elem(), exp, true, path, cond, opts)
			return
		case pathint.KPtr:
			if pv.O == nil {
				res.Fields = append(res.Fields, FieldResult{Path: path, Detail: "parsed pointer is unknown" + cond})
				return
			}
			st, isStruct := p.Elem().Underlying().(*types.Struct)
			if !isStruct {
				// pointer to a plain value (e.g. *[]byte): compare what it points to
				cell, ok := k.po.Mem[joinKey(pv.O.ID, pv.Sym)]
				if !ok {
					cell = zeroOf(p.Elem())
				}
				target := exp
				if strings.Contains(target, ".") {
					target = strings.ReplaceAll(target, ".", "/")
				}
				k.compare(res, p.Elem(), cell, target, false, path, cond, opts)
				return
			}
			for i := 0; i < st.NumFields(); i++ {
				f := st.Field(i)
				ckey := joinKey(pv.O.ID, joinKey(pv.Sym, f.Name()))
				cell, ok := k.po.Mem[ckey]
				if !ok {
					if _, isSt := f.Type().Underlying().(*types.Struct); isSt {
						// a struct stored by value is kept as its leaf cells
						sub := map[string]pathint.Val{}
						for mk, mv := range k.po.Mem {
							if strings.HasPrefix(mk, ckey+".") {
								sub[mk[len(ckey)+1:]] = mv
							}
						}
						cell = pathint.Val{K: pathint.KStruct, Fields: sub}
					} else {
						cell = zeroOf(f.Type())
					}
				}
				k.compare(res, f.Type(), cell, fieldName(exp, true, f.Name()), isPtr(f.Type()), joinKey(path, f.Name()), cond, opts)
			}
			return
		}
		res.Fields = append(res.Fields, FieldResult{Path: path, Detail: "parsed value is not a pointer" + cond})
		return
	}
	if st, ok := t.Underlying().(*types.Struct); ok {
		if pv.K != pathint.KStruct {
			res.Fields = append(res.Fields, FieldResult{Path: path, Detail: "parsed struct value unknown" + cond})
			return
		}
		for i := 0; i < st.NumFields(); i++ {
			f := st.Field(i)
			cell, ok := pv.Fields[f.Name()]
			if !ok {
				// nested struct fields are flattened with dotted names
				sub := map[string]pathint.Val{}
				for fk, fv := range pv.Fields {
					if strings.HasPrefix(fk, f.Name()+".") {
						sub[fk[len(f.Name())+1:]] = fv
					}
				}
				if len(sub) > 0 {
					cell = pathint.Val{K: pathint.KStruct, Fields: sub}
				} else {
					cell = zeroOf(f.Type())
				}
			}
			k.compare(res, f.Type(), cell, fieldName(exp, expPtr, f.Name()), isPtr(f.Type()), joinKey(path, f.Name()), cond, opts)
		}
		return
	}
	if sl, ok := t.Underlying().(*types.Slice); ok && !isByteType(sl.Elem()) {
		k.sliceOf(res, sl, pv, exp, path, cond, opts)
		return
	}
	k.leaf(res, t, pv, exp, path, cond, opts)
}

func isByteType(t types.Type) bool {
	b, ok := t.Underlying().(*types.Basic)
	return ok && (b.Kind() == types.Uint8 || b.Kind() == types.Byte)
}

// sliceOf compares a parsed list of structures with the written list, element by element (lists are explored for
// the small lengths the writer's loops were unrolled to).
func (k *composer) sliceOf(res *Composition, sl *types.Slice, pv pathint.Val, exp string, path string, cond string, opts ComposeOpts) {
	ln := lin.Sym("len(" + exp + ")")
	lp := path + "[#]"
	if pv.K != pathint.KSlice || pv.S == nil {
		res.Fields = append(res.Fields, FieldResult{Path: lp, Detail: "parsed list is not tracked" + cond})
		return
	}
	got := k.c.IP.SimplifyForm(pv.S.Len, k.st)
	if got.IsConst() && got.C == 0 && !k.mentioned(exp) {
		if k.st.ProveSimplified(ln.Scale(-1)) {
			res.Fields = append(res.Fields, FieldResult{Path: lp, OK: true, Detail: "empty list"})
		} else {
			res.Fields = append(res.Fields, FieldResult{Path: lp, OK: true, Skip: true, Detail: "not transmitted"})
		}
		return
	}
	d := got.Sub(ln)
	if !(k.st.ProveSimplified(d) && k.st.ProveSimplified(d.Scale(-1))) {
		res.Fields = append(res.Fields, FieldResult{Path: lp, Detail: fmt.Sprintf("parsed list has %s elements, written list has %s%s", got, ln, cond)})
		return
	}
	if got.IsConst() && got.C == 0 {
		res.Fields = append(res.Fields, FieldResult{Path: lp, OK: true, Detail: "empty list"})
		return
	}
	if pv.S.Elems == nil || !got.IsConst() || int64(len(pv.S.Elems)) != got.C {
		res.Fields = append(res.Fields, FieldResult{Path: lp, Detail: "the elements of the parsed list are not tracked" + cond})
		return
	}
	res.Fields = append(res.Fields, FieldResult{Path: lp, OK: true, Detail: fmt.Sprintf("%d elements", got.C)})
	for i, ev := range pv.S.Elems {
		elemExp := strings.ReplaceAll(fmt.Sprintf("%s.[%d]", exp, i), ".", "/")
		if _, isPtr := sl.Elem().Underlying().(*types.Pointer); !isPtr {
			elemExp = fmt.Sprintf("%s.[%d]", exp, i)
		}
		k.compare(res, sl.Elem(), ev, elemExp, true, path+"[]", cond, opts)
	}
}

func isPtr(t types.Type) bool { _, ok := t.Underlying().(*types.Pointer); return ok }

func joinKey(a, b string) string {
	if a == "" {
		return b
	}
	if b == "" {
		return a
	}
	return a + "." + b
}

// fieldName: the source-side name of field f of the structure named base. Cells of an object reached through a
// pointer are "obj.f"; the object a pointer field designates is named by its cell with '.' replaced by '/'.
func fieldName(base string, basePtrField bool, f string) string {
	if basePtrField && strings.Contains(base, ".") {
		base = strings.ReplaceAll(base, ".", "/")
	}
	return base + "." + f
}

func zeroOf(t types.Type) pathint.Val {
	switch u := t.Underlying().(type) {
	case *types.Basic:
		if u.Info()&types.IsBoolean != 0 {
			return pathint.BoolConst(false)
		}
		if u.Info()&types.IsInteger != 0 {
			return pathint.IntVal(lin.Const(0))
		}
	case *types.Pointer:
		return pathint.Val{K: pathint.KNilPtr}
	case *types.Slice:
		return pathint.Val{K: pathint.KSlice, S: &pathint.SliceV{ID: "nil", IsNil: pathint.Yes}}
	}
	return pathint.Val{K: pathint.KUnknown, Sym: "zero"}
}

// absent: the parser produced nothing below path; fine iff the source transmitted none of those fields.
func (k *composer) absent(res *Composition, t types.Type, exp string, expPtr bool, path string, cond string, opts ComposeOpts) {
	st, ok := t.Underlying().(*types.Struct)
	if !ok {
		return
	}
	for i := 0; i < st.NumFields(); i++ {
		f := st.Field(i)
		name := fieldName(exp, expPtr, f.Name())
		p := joinKey(path, f.Name())
		if pt, ok := f.Type().Underlying().(*types.Pointer); ok {
			if _, isStruct := pt.Elem().Underlying().(*types.Struct); isStruct {
				k.absent(res, pt.Elem(), name, true, p, cond, opts)
				continue
			}
		}
		if sl, ok := f.Type().Underlying().(*types.Slice); ok && !isByteType(sl.Elem()) {
			ln := lin.Sym("len(" + name + ")")
			if k.st.ProveSimplified(ln.Scale(-1)) || !k.mentioned(name) {
				res.Fields = append(res.Fields, FieldResult{Path: p + "[#]", OK: true, Skip: true, Detail: "not transmitted"})
			} else {
				res.Fields = append(res.Fields, FieldResult{Path: p + "[#]", Detail: "a list is written to the stream but the parser leaves the enclosing pointer nil" + cond})
			}
			continue
		}
		if k.transmitted(name) {
			res.Fields = append(res.Fields, FieldResult{Path: p, Detail: "written to the stream but the parser leaves the enclosing pointer nil" + cond})
		} else {
			res.Fields = append(res.Fields, FieldResult{Path: p, OK: true, Skip: true, Detail: "not transmitted"})
		}
	}
}

// mentioned: some emitted bit or byte string belongs to the structure below name.
func (k *composer) mentioned(name string) bool {
	pre := strings.ReplaceAll(name, ".", "/") + "/"
	for a := range k.src.Emitted {
		if strings.HasPrefix(strings.TrimPrefix(a.Src, "p:"), pre) {
			return true
		}
	}
	for _, ch := range k.src.Chunks {
		if ch.Kind == CBlob && strings.HasPrefix(strings.TrimPrefix(ch.Blob, "padded:"), pre) {
			return true
		}
	}
	return false
}

func (k *composer) transmitted(name string) bool {
	for a := range k.src.Emitted {
		if a.Src == name || a.Src == "p:"+name {
			return true
		}
	}
	for _, ch := range k.src.Chunks {
		if ch.Kind == CBlob && (ch.Blob == name || ch.Blob == "padded:"+name) {
			return true
		}
	}
	return false
}

func (k *composer) leaf(res *Composition, t types.Type, pv pathint.Val, exp string, path string, cond string, opts ComposeOpts) {
	if want, isComputed := opts.Computed[path]; isComputed {
		if want == nil {
			res.Fields = append(res.Fields, FieldResult{Path: path, OK: true, Skip: true, Detail: "exempt: " + opts.Why[path]})
			return
		}
		if pv.K == pathint.KInt {
			got := k.c.IP.SimplifyForm(k.tr(pv.F), k.st)
			d := got.Sub(*want)
			if k.st.ProveSimplified(d) && k.st.ProveSimplified(d.Scale(-1)) {
				res.Fields = append(res.Fields, FieldResult{Path: path, OK: true, Detail: "computed: " + want.String()})
				return
			}
			// the value as a whole through its bits (bytes recombined by a library call have no linear translation one by one)
			if bv, ok := pv.Bits.(bitdom.Vec); ok {
				if f, ok := k.linOfVec(k.applyPreds(k.subst(bv))); ok {
					g2 := k.c.IP.SimplifyForm(f, k.st)
					d2 := g2.Sub(*want)
					if k.st.ProveSimplified(d2) && k.st.ProveSimplified(d2.Scale(-1)) {
						res.Fields = append(res.Fields, FieldResult{Path: path, OK: true, Detail: "computed: " + want.String() + " (through its bits)"})
						return
					}
				}
			}
			res.Fields = append(res.Fields, FieldResult{Path: path, Detail: fmt.Sprintf("computed field: parsed %s, expected %s%s", got, want, cond)})
			return
		}
	}
	w, _, isNum := k.c.IP.BitWidth(t)
	switch {
	case isNum && w == 1 && pv.K == pathint.KBool:
		var got bitdom.Form
		if bv, ok := pv.Bits.(bitdom.Vec); ok && len(bv) == 1 {
			got = k.applyPreds(k.subst(bv))[0]
		} else {
			got = k.applyPreds(bitdom.Vec{pathint.CondBit(pv.B)})[0]
		}
		want := k.applyPreds(bitdom.Vec{bitdom.AtomForm(pathint.PredAtom(exp))})[0]
		if got.Top && pv.B != nil {
			// a condition on values: decide it under the source's facts
			switch k.decideCond(pv.B) {
			case pathint.Yes:
				got = bitdom.One()
			case pathint.No:
				got = bitdom.Zero()
			}
		}
		if got.Equal(want) {
			res.Fields = append(res.Fields, FieldResult{Path: path, OK: true, Detail: got.String()})
			return
		}
		_, wantDecided := want.IsConst()
		if !k.transmitted(exp) && !wantDecided {
			if v, isC := got.IsConst(); isC && !v {
				res.Fields = append(res.Fields, FieldResult{Path: path, OK: true, Skip: true, Detail: "not transmitted"})
				return
			}
		}
		res.Fields = append(res.Fields, FieldResult{Path: path, Detail: fmt.Sprintf("parsed %s, written %s%s", got, want, cond)})
	case isNum && pv.K == pathint.KInt:
		var got bitdom.Vec
		if bv, ok := pv.Bits.(bitdom.Vec); ok {
			got = k.applyPreds(k.subst(bv.Resize(w)))
		} else {
			got = k.applyPreds(k.subst(k.c.IP.FormVec(pv.F, w)))
		}
		if !k.transmitted(exp) {
			if v, isC := got.IsConst(); isC && v == 0 {
				res.Fields = append(res.Fields, FieldResult{Path: path, OK: true, Skip: true, Detail: "not transmitted"})
				return
			}
			if gl := k.c.IP.SimplifyForm(k.tr(pv.F), k.st); gl.IsConst() && gl.C == 0 {
				res.Fields = append(res.Fields, FieldResult{Path: path, OK: true, Skip: true, Detail: "not transmitted"})
				return
			}
		}
		bad := ""
		fits := -1
		for i := 0; i < w; i++ {
			want := bitdom.Atom{Src: exp, Bit: i}
			switch {
			case got[i].Equal(bitdom.AtomForm(want)):
			case got[i].IsZero() && !k.src.Emitted[want]:
				if fits < 0 {
					fits = i
				}
			default:
				if bad == "" {
					bad = fmt.Sprintf("bit %d is %s", i, got[i])
				}
			}
		}
		if bad == "" {
			if fits >= 0 && fits < w {
				hi := k.c.IP.Hi(exp)
				if lo := k.c.IP.Lo(exp); lo < 0 || hi >= lin.PosInf || bitLen64(hi) > fits {
					k.note(fmt.Sprintf("%s fits the %d bits the stream has for it", exp, fits))
				}
			}
			res.Fields = append(res.Fields, FieldResult{Path: path, OK: true, Detail: vecMSB(got, w)})
			return
		}
		// arithmetic on the way: compare as linear forms
		gl := k.c.IP.SimplifyForm(k.tr(pv.F), k.st)
		d := gl.Sub(lin.Sym(exp))
		if k.st.ProveSimplified(d) && k.st.ProveSimplified(d.Scale(-1)) {
			res.Fields = append(res.Fields, FieldResult{Path: path, OK: true, Detail: "= " + exp + " (linear)"})
			return
		}
		res.Fields = append(res.Fields, FieldResult{Path: path, Detail: fmt.Sprintf("parsed value differs from the written field: %s (parsed bits %s)%s", bad, vecMSB(got, w), cond)})
	case pv.K == pathint.KSlice:
		if pv.S != nil && pv.S.Event != "" {
			b, ok := k.blobs[pv.S.Event]
			if pv.S.Blob != "" {
				b, ok = pv.S.Blob, true
			}
			if !ok {
				// a sub-slice of a larger fetch: does it coincide with one written byte string?
				for _, e := range k.po.Events {
					if e.Kind != "fetch" || e.ID != pv.S.Event {
						continue
					}
					pos := k.c.IP.SimplifyForm(k.tr(e.Off).Add(k.tr(pv.S.Off)), k.st).Scale(8)
					if ch := k.chunkAt(pos); ch != nil && ch.Kind == CBlob {
						d := k.c.IP.SimplifyForm(ch.Len.Sub(k.tr(pv.S.Len)), k.st)
						if (d.IsConst() && d.C == 0) || (k.st.ProveSimplified(d) && k.st.ProveSimplified(d.Scale(-1))) {
							b, ok = ch.Blob, true
						}
					}
				}
			}
			if ok {
				if b == "padded:"+exp {
					k.note("len(" + exp + ") equals the fixed size of its field (it is padded / cut to that size)")
					b = exp
				}
				if b == exp {
					res.Fields = append(res.Fields, FieldResult{Path: path, OK: true, Detail: "bytes " + b})
				} else {
					res.Fields = append(res.Fields, FieldResult{Path: path, Detail: fmt.Sprintf("parsed bytes are those of %s, expected %s%s", b, exp, cond)})
				}
				return
			}
		}
		if !k.transmitted(exp) || k.zeroLen(exp) {
			res.Fields = append(res.Fields, FieldResult{Path: path, OK: true, Skip: true, Detail: "not transmitted / empty"})
			return
		}
		res.Fields = append(res.Fields, FieldResult{Path: path, Detail: fmt.Sprintf("written bytes %s are not what the parser returns (parsed: %s blob=%q event=%q)%s", exp, pv, pv.S.Blob, pv.S.Event, cond)})
	default:
		if !k.transmitted(exp) {
			res.Fields = append(res.Fields, FieldResult{Path: path, OK: true, Skip: true, Detail: "not transmitted"})
			return
		}
		res.Fields = append(res.Fields, FieldResult{Path: path, Detail: "field of unsupported kind is transmitted" + cond})
	}
}

// decideCond decides a parser-side condition under the source's facts.
func (k *composer) decideCond(c *pathint.Cond) pathint.Tri {
	switch c.Op {
	case pathint.CConst:
		if c.V {
			return pathint.Yes
		}
		return pathint.No
	case pathint.CGE, pathint.CEQ:
		return k.st.Decide(&pathint.Cond{Op: c.Op, F: k.c.IP.SimplifyForm(k.tr(c.F), k.st)})
	case pathint.CNot:
		switch k.decideCond(c.X) {
		case pathint.Yes:
			return pathint.No
		case pathint.No:
			return pathint.Yes
		}
	case pathint.CPred:
		if v, ok := k.st.Pred(c.Key); ok {
			if v {
				return pathint.Yes
			}
			return pathint.No
		}
	}
	return pathint.Maybe
}

func (k *composer) zeroLen(exp string) bool {
	ln := lin.Sym("len(" + exp + ")")
	return k.st.ProveSimplified(ln.Scale(-1))
}
