package layout

import (
	"fmt"
	"os"
	"sort"
	"strings"
	"time"

	"astverif/lin"
	"astverif/load"
	"astverif/pathint"
	"astverif/report"

	"golang.org/x/tools/go/ssa"
)

// RTPair is one writer ↔ parser pair of the same structure (rule A3).
type RTPair struct {
	Name      string
	Writer    *ssa.Function
	Parser    *ssa.Function
	WriterObj string // the writer parameter ("$w")
	It        string // the parser's iterator parameter ("$i")
	Root      string // the written structure ("$af")
	RootPtr   bool
	// Computed: leaf paths whose parsed value is derived from the layout; the function gives the expected
	// source-side value for a source, or nil when the field is exempt on that source (reason in Why).
	Computed map[string]func(src *Source) *lin.Form
	Why      map[string]string
	// NotWritten: leaf paths the writer never transmits (library design); they must stay untransmitted.
	NotWritten map[string]string
	// Consumed: expected number of bytes the parser consumes (default: everything the writer emitted).
	Consumed func(src *Source) lin.Form
	// ConsumedSkip: sources on which the parser's consumption is not claimed.
	ConsumedSkip func(src *Source) bool
	// MinSources: floor on the number of writer outcomes composed.
	MinSources int
	// WriterPreds / WriterEq restrict the writer outcomes explored to one valuation of boolean cells / integer
	// cells (used where a structure embeds another one that has its own pair).
	WriterPreds map[string]bool
	WriterEq    map[string]int64
	// SkipParamConds: writer outcomes under these parameter conditions are outside the documented input domain
	// (reason in SkipWhy); they are not composed.
	SkipParamConds map[string]bool
	SkipWhy        string
	// ElsewherePrefix: fields below this path that this pair never transmits are decided by another pair (named in
	// ElsewhereWhy).
	ElsewherePrefix string
	ElsewhereWhy    string
	// ParserParams: integer parameters of the parser that its caller derives from the stream (name -> value for a
	// source), e.g. the end offset of a section.
	ParserParams map[string]func(src *Source) lin.Form
	// Sources: specification sources (rule A4p) used instead of a writer's outcomes.
	Sources func(c *Checker) []*Source
	// ParserPreds: boolean facts about the parser's other parameters.
	ParserPreds map[string]bool
	// SourceRule: an extra obligation evaluated on every source (key suffix, ok detail); a non-empty bad string is a
	// violation on that source.
	SourceRuleKey string
	SourceRule    func(c *Checker, src *Source) (bad string)
	// SkipSource: sources outside the situation this pair is about (reason returned); they are not composed.
	SkipSource func(src *Source) string
	// ExactLen: the parser's iterator holds exactly the emitted bytes.
	ExactLen bool
	// Start: byte offset at which the parser starts reading (bytes before it are consumed by its caller).
	Start int64
	// Guided: compose by interpreting the parser once per writer outcome (oracle.go) instead of refuting a flat
	// parser summary against it (compose.go).
	Guided bool
	// RejectSource: specification sources that are malformed on purpose: the parser must answer them with an error.
	RejectSource func(src *Source) bool
}

type fieldAgg struct {
	ok, skip, bad int
	detail        string
	example       string
}

// A3 composes every success outcome of each pair's writer with the pair's parser summary.
func (c *Checker) A3(r *report.Report, pairs []RTPair) {
	for _, p := range pairs {
		c.a3(r, p)
	}
}

func (c *Checker) a3(r *report.Report, p RTPair) {
	if os.Getenv("ASTVERIF_PROGRESS") != "" {
		t0 := time.Now()
		fmt.Fprintf(os.Stderr, "A3 %s start\n", p.Name)
		defer func() { fmt.Fprintf(os.Stderr, "A3 %s done in %s\n", p.Name, time.Since(t0)) }()
	}
	if (p.Writer == nil && p.Sources == nil) || p.Parser == nil {
		r.Unknown("A3", p.Name+"/anchors", "", "writer or parser function not found")
		return
	}
	if p.Sources != nil {
		c.a4p(r, p)
		return
	}
	pos := c.P.Pos(p.Parser.Pos())
	var ws *pathint.Summary
	if len(p.WriterPreds) > 0 || len(p.WriterEq) > 0 {
		ws = &pathint.Summary{Fn: p.Writer}
		sum := c.IP.Explore(p.Writer, func(st *pathint.State) {
			for k, v := range p.WriterPreds {
				st.Preds[k] = v
			}
			for k, v := range p.WriterEq {
				st.Facts = append(st.Facts, lin.Fact{F: lin.Sym(k).AddC(-v)}, lin.Fact{F: lin.Sym(k).Scale(-1).AddC(v)})
			}
		}, func(st *pathint.State, res []pathint.Val) {
			ws.Outcomes = append(ws.Outcomes, *st.Outcome(p.Writer, res))
		})
		ws.Truncated = sum.Truncated
	} else {
		ws = c.IP.Summarize(p.Writer)
	}
	if os.Getenv("ASTVERIF_PROGRESS") != "" {
		fmt.Fprintf(os.Stderr, "A3 %s writer outcomes=%d\n", p.Name, len(ws.Outcomes))
	}
	ps := &pathint.Summary{}
	if !p.Guided {
		ps = c.IP.Summarize(p.Parser)
	}
	if ws.Truncated || ws.Opaque || ps.Truncated || ps.Opaque {
		r.Unknown("A3", p.Name+"/summaries", pos, "writer or parser could not be summarised (path budget / recursion)")
		return
	}
	fields := map[string]*fieldAgg{}
	var order []string
	nsrc, ncomp := 0, 0
	var accBad, consBad, ruleBad []string
	assumed := map[string]bool{}
	deadline := time.Now().Add(4 * time.Minute)
	for i := range ws.Outcomes {
		o := &ws.Outcomes[i]
		if o.ErrNil == pathint.No {
			continue
		}
		if time.Now().After(deadline) {
			r.Unknown("A3", p.Name+"/budget", pos, fmt.Sprintf("time budget exceeded after %d of %d writer outcomes (the parser's interpretation forks on these streams: they are not the streams it expects)", nsrc, len(ws.Outcomes)))
			break
		}
		if readsThroughNil(o) {
			continue
		}
		if p.RootPtr && o.ParamConds["nil:"+p.Root] {
			continue // nothing is written for a nil structure
		}
		skip := false
		for k, v := range p.SkipParamConds {
			if got, ok := o.ParamConds[k]; ok && got == v {
				skip = true
			}
		}
		if skip {
			r.Assume(p.Name + ": " + p.SkipWhy)
			continue
		}
		src := c.SourceFromOutcome(p.Writer, o, p.WriterObj, fmt.Sprintf("%s when{%s}", load.FuncName(p.Writer), guardOf(o)))
		if p.SkipSource != nil {
			if why := p.SkipSource(src); why != "" {
				r.Assume(p.Name + ": " + why)
				continue
			}
		}
		// the valuation the writer was explored under holds on every one of its outcomes
		for k, v := range p.WriterEq {
			d := lin.Sym(k).AddC(-v)
			src.St.Facts = append(src.St.Facts, lin.Fact{F: d}, lin.Fact{F: d.Scale(-1)})
		}
		for k, v := range p.WriterPreds {
			src.St.Preds[k] = v
		}
		if os.Getenv("ASTVERIF_PROGRESS") != "" {
			fmt.Fprintf(os.Stderr, "A3 %s source facts=%v eq=%v\n", p.Name, src.St.Facts, p.WriterEq)
		}
		if p.SourceRule != nil {
			if bad := p.SourceRule(c, src); bad != "" {
				ruleBad = append(ruleBad, src.Name+": "+bad)
			}
		}
		nsrc++
		for _, a := range src.Computed {
			assumed[a] = true
		}
		opts := ComposeOpts{Computed: map[string]*lin.Form{}, Why: map[string]string{}}
		for path, fn := range p.Computed {
			opts.Computed[path] = fn(src)
			opts.Why[path] = p.Why[path]
		}
		if p.ConsumedSkip != nil && p.ConsumedSkip(src) {
			// no consumption claim on this source
		} else if p.Consumed != nil {
			w := p.Consumed(src)
			opts.Consumed = &w
		} else if src.TotalOK && div8(src.Total) {
			w := scaleDown8(src.Total)
			opts.Consumed = &w
		} else {
			consBad = append(consBad, src.Name+": the emitted length is not a whole number of bytes / unknown")
		}
		var comp *Composition
		if p.Guided {
			opts.Start = p.Start
			opts.ExactLen = p.ExactLen
			opts.Preds = p.ParserPreds
			opts.Params = map[string]lin.Form{}
			for name, fn := range p.ParserParams {
				opts.Params[name] = fn(src)
			}
			comp = c.Guided(src, p.Parser, p.It, p.Root, p.RootPtr, opts)
			ncomp++
		} else {
			comp = c.Compose(src, p.Parser, ps, p.It, p.Root, p.RootPtr, opts)
			ncomp += len(ps.Outcomes)
		}
		for _, a := range comp.Assumed {
			assumed[a] = true
		}
		if len(comp.Problems) > 0 {
			accBad = append(accBad, src.Name+": "+comp.Problems[0])
		}
		for _, b := range comp.ConsumedBad {
			consBad = append(consBad, src.Name+": "+b)
		}
		for _, f := range comp.Fields {
			a := fields[f.Path]
			if a == nil {
				a = &fieldAgg{}
				fields[f.Path] = a
				order = append(order, f.Path)
			}
			switch {
			case !f.OK:
				a.bad++
				if a.detail == "" {
					a.detail = f.Detail
					a.example = src.Name
				}
			case f.Skip:
				a.skip++
			default:
				a.ok++
			}
		}
	}
	key := p.Name
	r.Floor("A3", key+": writer outcomes composed", nsrc, p.MinSources)
	if len(accBad) == 0 {
		r.OK("A3", key+"/accepted", pos, fmt.Sprintf("every stream the writer emits (%d outcomes) is accepted by exactly the matching parser path; no failure path of the parser is reachable on them", nsrc))
	} else {
		sort.Strings(accBad)
		r.Bad("A3", key+"/accepted", pos, fmt.Sprintf("%d of %d writer outcomes: %s", len(accBad), nsrc, clip(accBad[0], 2500)))
	}
	if p.SourceRule != nil {
		if len(ruleBad) == 0 {
			r.OK("A3", key+"/"+p.SourceRuleKey, pos, fmt.Sprintf("holds on all %d writer outcomes", nsrc))
		} else {
			sort.Strings(ruleBad)
			r.Bad("A3", key+"/"+p.SourceRuleKey, pos, fmt.Sprintf("%d of %d writer outcomes: %s", len(ruleBad), nsrc, clip(ruleBad[0], 900)))
		}
	}
	if len(consBad) == 0 {
		r.OK("A3", key+"/consumed", pos, "the parser consumes exactly what the writer emitted (or the declared part of it)")
	} else {
		sort.Strings(consBad)
		r.Bad("A3", key+"/consumed", pos, fmt.Sprintf("%d of %d writer outcomes: %s", len(consBad), nsrc, clip(consBad[0], 600)))
	}
	sort.Strings(order)
	for _, path := range order {
		a := fields[path]
		k := key + "/field/" + path
		switch {
		case a.bad > 0:
			r.Bad("A3", k, pos, fmt.Sprintf("%d of %d valuations: %s [%s]", a.bad, a.ok+a.skip+a.bad, clip(a.detail, 500), clip(a.example, 300)))
		case a.ok == 0:
			if why, ok := p.NotWritten[path]; ok {
				r.OK("A3", k, pos, "never transmitted by the writer (declared asymmetry: "+why+"); the parser leaves it at zero on every writer outcome")
			} else if p.ElsewherePrefix != "" && strings.HasPrefix(path, p.ElsewherePrefix) {
				r.OK("A3", k, pos, "not transmitted on the valuation fixed for this pair; "+p.ElsewhereWhy)
			} else if _, isComputed := p.Computed[path]; isComputed {
				r.OK("A3", k, pos, "exempt on every writer outcome: "+p.Why[path])
			} else {
				r.Bad("A3", k, pos, "the field is never transmitted by the writer and the asymmetry is not declared")
			}
		default:
			if why, ok := p.NotWritten[path]; ok {
				r.Bad("A3", k, pos, "declared as never written ("+why+") but the writer transmits it: the asymmetry table is stale")
			} else {
				r.OK("A3", k, pos, fmt.Sprintf("parse∘write is the identity on this field on %d valuations (not transmitted on %d)", a.ok, a.skip))
			}
		}
	}
	for a := range c.IP.BitAssumptions {
		assumed[a] = true
	}
	var as []string
	for a := range assumed {
		as = append(as, a)
	}
	sort.Strings(as)
	for _, a := range as {
		r.Assume(clean(a))
	}
	r.Count("a3_"+strings.ReplaceAll(p.Name, "-", "_")+"_compositions", ncomp)
}

func clip(s string, n int) string {
	s = clean(s)
	if len(s) > n {
		return s[:n] + "…"
	}
	return s
}

// A5 reports the bit operations whose result is constant although their operand is not.
func (c *Checker) A5(r *report.Report, funcs []*ssa.Function) {
	// a separate interpreter with fully symbolic inputs and per-function summaries (callees are not inlined: each
	// function body is judged on its own)
	c5 := NewBits(c.P)
	c5.IP.InlineCalls = false
	c5.IP.MaxOut = 64
	for _, f := range funcs {
		if f != nil {
			c5.IP.Summarize(f)
		}
	}
	c = c5
	var ps []string
	for p, op := range c.IP.DeadOps {
		ps = append(ps, c.P.Pos(p)+"\x00"+op)
	}
	sort.Strings(ps)
	for _, e := range ps {
		i := strings.IndexByte(e, 0)
		r.Bad("A5", "dead-bit-operation@"+e[:i], e[:i], fmt.Sprintf("operator %s yields a constant although its operand carries stream or field bits: every variable bit is shifted or masked away", e[i+1:]))
	}
	r.OK("A5", "dead-bit-operations", "", fmt.Sprintf("%d functions interpreted at bit level; %d operations discard their whole operand", len(funcs), len(ps)))
}

// a4p runs the parser on specification sources (rule A4, parser side).
func (c *Checker) a4p(r *report.Report, p RTPair) {
	pos := c.P.Pos(p.Parser.Pos())
	fields := map[string]*fieldAgg{}
	var order []string
	var accBad, consBad []string
	assumed := map[string]bool{}
	srcs := p.Sources(c)
	nreject := 0
	var rejBad []string
	for _, src := range srcs {
		opts := ComposeOpts{Computed: map[string]*lin.Form{}, Why: map[string]string{}, Start: p.Start, Params: map[string]lin.Form{}, ExactLen: p.ExactLen}
		for path, fn := range p.Computed {
			opts.Computed[path] = fn(src)
			opts.Why[path] = p.Why[path]
		}
		for name, fn := range p.ParserParams {
			opts.Params[name] = fn(src)
		}
		opts.Preds = p.ParserPreds
		if p.RejectSource != nil && p.RejectSource(src) {
			opts.ExpectReject = true
			nreject++
		}
		if opts.ExpectReject || (p.ConsumedSkip != nil && p.ConsumedSkip(src)) {
			// no consumption claim on this instance
		} else if p.Consumed != nil {
			w := p.Consumed(src)
			opts.Consumed = &w
		} else if src.TotalOK && div8(src.Total) {
			w := scaleDown8(src.Total).AddC(p.Start)
			opts.Consumed = &w
		}
		comp := c.Guided(src, p.Parser, p.It, p.Root, p.RootPtr, opts)
		for _, a := range comp.Assumed {
			assumed[a] = true
		}
		if opts.ExpectReject {
			if len(comp.Problems) > 0 {
				rejBad = append(rejBad, src.Name+": "+strings.Join(comp.Problems, " | "))
			}
			continue
		}
		if len(comp.Problems) > 0 {
			accBad = append(accBad, src.Name+": "+comp.Problems[0])
		}
		for _, b := range comp.ConsumedBad {
			consBad = append(consBad, src.Name+": "+b)
		}
		for _, f := range comp.Fields {
			a := fields[f.Path]
			if a == nil {
				a = &fieldAgg{}
				fields[f.Path] = a
				order = append(order, f.Path)
			}
			switch {
			case !f.OK:
				a.bad++
				if a.detail == "" {
					a.detail, a.example = f.Detail, src.Name
				}
			case f.Skip:
				a.skip++
			default:
				a.ok++
			}
		}
	}
	key := p.Name
	r.Floor("A4", key+": specification instances", len(srcs), p.MinSources)
	if len(accBad) == 0 {
		r.OK("A4", key+"/accepted", pos, fmt.Sprintf("every reference encoding (%d instances) is accepted by the parser", len(srcs)-nreject))
	} else {
		sort.Strings(accBad)
		r.Bad("A4", key+"/accepted", pos, fmt.Sprintf("%d of %d instances: %s", len(accBad), len(srcs)-nreject, clip(accBad[0], 2500)))
	}
	if p.RejectSource != nil {
		if len(rejBad) == 0 && nreject > 0 {
			r.OK("A4", key+"/rejected", pos, fmt.Sprintf("every malformed instance (%d) is answered with an error on every path", nreject))
		} else if nreject == 0 {
			r.Unknown("A4", key+"/rejected", pos, "no malformed instance was built")
		} else {
			sort.Strings(rejBad)
			r.Bad("A4", key+"/rejected", pos, fmt.Sprintf("%d of %d malformed instances: %s", len(rejBad), nreject, clip(strings.Join(rejBad, " || "), 2500)))
		}
	}
	if len(consBad) == 0 {
		r.OK("A4", key+"/consumed", pos, "the parser consumes exactly the reference encoding")
	} else {
		sort.Strings(consBad)
		r.Bad("A4", key+"/consumed", pos, fmt.Sprintf("%d of %d instances: %s", len(consBad), len(srcs), clip(consBad[0], 600)))
	}
	sort.Strings(order)
	for _, path := range order {
		a := fields[path]
		k := key + "/field/" + path
		switch {
		case a.bad > 0:
			r.Bad("A4", k, pos, fmt.Sprintf("%d of %d instances: %s [%s]", a.bad, a.ok+a.skip+a.bad, clip(a.detail, 500), clip(a.example, 200)))
		case a.ok == 0:
			if why, ok := p.NotWritten[path]; ok {
				r.OK("A4", k, pos, "not part of the table ("+why+")")
			} else if p.ElsewherePrefix != "" && strings.HasPrefix(path, p.ElsewherePrefix) {
				r.OK("A4", k, pos, "not carried by these reference encodings; "+p.ElsewhereWhy)
			} else if _, isComputed := p.Computed[path]; isComputed {
				r.OK("A4", k, pos, "exempt: "+p.Why[path])
			} else {
				r.Bad("A4", k, pos, "the field is carried by no reference encoding and is not declared as such")
			}
		default:
			r.OK("A4", k, pos, fmt.Sprintf("the parser reads this field from the bits the standard's table puts it in (%d instances)", a.ok))
		}
	}
	var as []string
	for a := range assumed {
		as = append(as, a)
	}
	sort.Strings(as)
	for _, a := range as {
		r.Assume(clean(a))
	}
}
