package layout

// Specification sources (rule A4, parser side): an abstract stream built from a table of the standard instead of
// from a writer. The builder below is a declarative reference encoder: each call appends one syntax element of the
// standard's table (name, width, the structure field it carries). The resulting Source is given to the parser's
// abstract interpretation exactly like a writer's layout.

import (
	"fmt"
	"regexp"
	"sort"
	"strconv"
	"strings"
	"sync"

	"astverif/bitdom"
	"astverif/lin"
	"astverif/pathint"
	"astverif/report"
)

// SpecBuilder accumulates the syntax elements of one structure instance.
type SpecBuilder struct {
	c       *Checker
	name    string
	chunks  []Chunk
	st      *pathint.State
	pending []int // indices of LengthOfRest chunks
	ends    []int // index one past the last chunk each of them counts (-1: to the end)
}

// NewSpec starts a specification source.
func (c *Checker) NewSpec(name string) *SpecBuilder {
	return &SpecBuilder{c: c, name: name, st: c.IP.Harness(nil)}
}

// Field: w bits carrying the integer field sym (most significant bit first).
func (b *SpecBuilder) Field(w int, sym string) *SpecBuilder {
	registerSpecWidth(sym, w)
	b.c.IP.SetBounds(sym, 0, (int64(1)<<uint(w))-1)
	f := lin.Sym(sym)
	b.chunks = append(b.chunks, Chunk{Kind: CBits, W: w, Bits: b.c.IP.SymVec(sym, w), Lin: &f, What: "spec " + b.name + ": " + sym})
	return b
}

// Flag: one bit carrying the boolean field key.
func (b *SpecBuilder) Flag(key string) *SpecBuilder {
	b.chunks = append(b.chunks, Chunk{Kind: CBits, W: 1, Bits: bitdom.Vec{bitdom.AtomForm(pathint.PredAtom(key))}, What: "spec " + b.name + ": " + key})
	return b
}

// FlagIs: one bit carrying the boolean field key, whose value is fixed to v in this instance.
func (b *SpecBuilder) FlagIs(key string, v bool) *SpecBuilder {
	b.st.Preds[key] = v
	return b.Flag(key)
}

// Const: w bits with a fixed value (reserved bits, markers, computed lengths of empty loops).
func (b *SpecBuilder) Const(w int, v uint64) *SpecBuilder {
	f := lin.Const(int64(v))
	b.chunks = append(b.chunks, Chunk{Kind: CBits, W: w, Bits: bitdom.Const(w, v), Lin: &f, What: fmt.Sprintf("spec %s: constant %d bits", b.name, w)})
	return b
}

// Opaque: w bits whose value is not interpreted here (fields that go through calendar / BCD arithmetic).
func (b *SpecBuilder) Opaque(w int, sym string) *SpecBuilder {
	b.c.IP.SetBounds(sym, 0, lin.PosInf)
	for w > 0 {
		n := w
		if n > 32 {
			n = 32
		}
		part := fmt.Sprintf("%s@%d", sym, w)
		b.c.IP.SetBounds(part, 0, (int64(1)<<uint(n))-1)
		f := lin.Sym(part)
		b.chunks = append(b.chunks, Chunk{Kind: CBits, W: n, Bits: b.c.IP.SymVec(part, n), Lin: &f, What: "spec " + b.name + ": opaque " + sym})
		w -= n
	}
	return b
}

// Slice: bits hi..lo of the integer field sym (a field split over several syntax elements, e.g. a 33-bit time
// stamp written as 3 + 15 + 15 bits around marker bits).
func (b *SpecBuilder) Slice(sym string, hi, lo int) *SpecBuilder {
	v := make(bitdom.Vec, hi-lo+1)
	for i := range v {
		v[i] = bitdom.AtomForm(bitdom.Atom{Src: sym, Bit: lo + i})
	}
	b.chunks = append(b.chunks, Chunk{Kind: CBits, W: hi - lo + 1, Bits: v, What: fmt.Sprintf("spec %s: %s[%d..%d]", b.name, sym, hi, lo)})
	return b
}

// Blob: the bytes of the byte-string field cell (their number is len(cell)).
func (b *SpecBuilder) Blob(cell string) *SpecBuilder {
	ln := "len(" + cell + ")"
	b.c.IP.SetBounds(ln, 0, lin.PosInf)
	b.chunks = append(b.chunks, Chunk{Kind: CBlob, Blob: cell, Len: lin.Sym(ln), What: "spec " + b.name + ": " + cell})
	return b
}

// BlobN: the bytes of the byte-string field cell, which has exactly n bytes.
func (b *SpecBuilder) BlobN(cell string, n int64) *SpecBuilder {
	ln := "len(" + cell + ")"
	b.c.IP.SetBounds(ln, 0, lin.PosInf)
	b.chunks = append(b.chunks, Chunk{Kind: CBlob, Blob: cell, Len: lin.Const(n), What: "spec " + b.name + ": " + cell})
	return b.Fix(ln, n)
}

// MinLen states that the byte string cell has at least n bytes.
func (b *SpecBuilder) MinLen(cell string, n int64) *SpecBuilder {
	b.st.Facts = append(b.st.Facts, lin.Fact{F: lin.Sym("len(" + cell + ")").AddC(-n)})
	return b
}

// LenField: w bits carrying the number of bytes of the byte string cell.
func (b *SpecBuilder) LenField(w int, cell string) *SpecBuilder {
	ln := "len(" + cell + ")"
	b.c.IP.SetBounds(ln, 0, lin.PosInf)
	f := lin.Sym(ln)
	b.chunks = append(b.chunks, Chunk{Kind: CBits, W: w, Bits: b.c.IP.SymVec(ln, 64).Resize(w), Lin: &f, What: "spec " + b.name + ": length of " + cell})
	return b
}

// Stuffing: n bytes 0xFF, n being the integer symbol sym.
func (b *SpecBuilder) Stuffing(sym string) *SpecBuilder {
	b.c.IP.SetBounds(sym, 0, lin.PosInf)
	one := lin.Const(0xff)
	b.chunks = append(b.chunks, Chunk{Kind: CRepeat, Len: lin.Sym(sym), Body: []Chunk{{Kind: CBits, W: 8, Bits: bitdom.Const(8, 0xff), Lin: &one}}, What: "spec " + b.name + ": stuffing"})
	return b
}

// LengthOfRest: w bits carrying the number of bytes that follow this element up to the end of the structure (or up
// to the matching EndLength).
func (b *SpecBuilder) LengthOfRest(w int) *SpecBuilder {
	b.chunks = append(b.chunks, Chunk{Kind: CBits, W: w, What: "spec " + b.name + ": length of what follows"})
	b.pending = append(b.pending, len(b.chunks)-1)
	b.ends = append(b.ends, -1)
	return b
}

// EndLength closes the innermost open LengthOfRest.
func (b *SpecBuilder) EndLength() *SpecBuilder {
	for i := len(b.ends) - 1; i >= 0; i-- {
		if b.ends[i] < 0 {
			b.ends[i] = len(b.chunks)
			break
		}
	}
	return b
}

// EmptyList states that the list field named cell has no element.
func (b *SpecBuilder) EmptyList(cell string) *SpecBuilder {
	ln := lin.Sym("len(" + cell + ")")
	b.c.IP.SetBounds("len("+cell+")", 0, lin.PosInf)
	b.st.Facts = append(b.st.Facts, lin.Fact{F: ln}, lin.Fact{F: ln.Scale(-1)})
	return b
}

// ListLen states the number of elements of the list field named cell.
func (b *SpecBuilder) ListLen(cell string, n int) *SpecBuilder {
	ln := lin.Sym("len(" + cell + ")").AddC(int64(-n))
	b.c.IP.SetBounds("len("+cell+")", 0, lin.PosInf)
	b.st.Facts = append(b.st.Facts, lin.Fact{F: ln}, lin.Fact{F: ln.Scale(-1)})
	return b
}

// Fix states the value of an integer field.
func (b *SpecBuilder) Fix(sym string, v int64) *SpecBuilder {
	d := lin.Sym(sym).AddC(-v)
	b.st.Facts = append(b.st.Facts, lin.Fact{F: d}, lin.Fact{F: d.Scale(-1)})
	return b
}

// Elem names element k of the list of pointers stored in cell (the interpreter's naming of such objects).
func Elem(cell string, k int) string {
	s := fmt.Sprintf("%s.[%d]", cell, k)
	out := make([]byte, 0, len(s))
	for i := 0; i < len(s); i++ {
		if s[i] == '.' {
			out = append(out, '/')
		} else {
			out = append(out, s[i])
		}
	}
	return string(out)
}

// Source finishes the builder.
func (b *SpecBuilder) Source() *Source {
	for k, idx := range b.pending {
		end := b.ends[k]
		if end < 0 {
			end = len(b.chunks)
		}
		bits := lin.Const(0)
		for _, ch := range b.chunks[idx+1 : end] {
			if w, ok := ch.widthBits(); ok {
				bits = bits.Add(w)
			}
		}
		ln := scaleDown8(bits)
		w := b.chunks[idx].W
		b.chunks[idx].Lin = &ln
		if ln.IsConst() {
			b.chunks[idx].Bits = bitdom.Const(w, uint64(ln.C))
		} else {
			name := "val(" + ln.String() + ")"
			b.c.IP.SetBounds(name, 0, (int64(1)<<uint(w))-1)
			b.chunks[idx].Bits = b.c.IP.SymVec(name, w)
			d := lin.Sym(name).Sub(ln)
			b.st.Facts = append(b.st.Facts, lin.Fact{F: d}, lin.Fact{F: d.Scale(-1)})
		}
	}
	s := &Source{Name: "spec " + b.name, St: b.st, Chunks: b.chunks}
	s.place()
	return s
}

// specWidths: width in bits that the transcribed syntax tables give to each plain field symbol ("af.SpliceCountdown" -> 8),
// collected while the reference sources are built. When one symbol is registered with several widths the smallest is kept.
var (
	specWidthMu sync.Mutex
	specWidths  = map[string]int{}
)

func registerSpecWidth(sym string, w int) {
	k := strings.ReplaceAll(sym, "$", "")
	specWidthMu.Lock()
	defer specWidthMu.Unlock()
	if old, ok := specWidths[k]; !ok || w < old {
		specWidths[k] = w
	}
}

var fitsRe = regexp.MustCompile(`^(\S+) fits (?:the )?(\d+) bits`)

// SpecWidthRule closes the gap that the "value fits the emitted width" assumptions of A3 leave open: the composition
// parse∘write is judged on the bits the WRITER emits, so a writer that narrows a field (4-bit splice_type written through
// a helper that keeps 2 bits) only weakens the assumption. Every such assumption about a symbol that one of the
// transcribed syntax tables of this run also contains must grant at least the table's width.
// One obligation W1/spec-width/<symbol> per symbol that has both.
func SpecWidthRule(r *report.Report) {
	specWidthMu.Lock()
	defer specWidthMu.Unlock()
	if len(specWidths) == 0 {
		return
	}
	least := map[string]int{}
	for _, a := range r.Assumptions {
		// assumptions are prefixed by nothing or by "<pair>: "
		txt := a
		m := fitsRe.FindStringSubmatch(txt)
		if m == nil {
			continue
		}
		n, _ := strconv.Atoi(m[2])
		if old, ok := least[m[1]]; !ok || n < old {
			least[m[1]] = n
		}
	}
	var syms []string
	for s := range least {
		if _, ok := specWidths[s]; ok {
			syms = append(syms, s)
		}
	}
	sort.Strings(syms)
	for _, s := range syms {
		w, n := specWidths[s], least[s]
		r.Check(n >= w, "W1", "spec-width/"+s, "", fmt.Sprintf("%s is emitted in %d bits, the syntax table gives it %d", s, n, w),
			fmt.Sprintf("the writer keeps only %d bits of %s where the syntax table has %d: values that the standard allows are truncated on the way out (parse∘write was judged on the narrower width)", n, s, w))
	}
}
