package layout

// Specification sources (rule A4, parser side): an abstract stream built from a table of the standard instead of
// from a writer. The builder below is a declarative reference encoder: each call appends one syntax element of the
// standard's table (name, width, the structure field it carries). The resulting Source is given to the parser's
// abstract interpretation exactly like a writer's layout.

import (
	"fmt"

	"astverif/bitdom"
	"astverif/lin"
	"astverif/pathint"
)

// SpecBuilder accumulates the syntax elements of one structure instance.
type SpecBuilder struct {
	c      *Checker
	name   string
	chunks []Chunk
	st     *pathint.State
}

// NewSpec starts a specification source.
func (c *Checker) NewSpec(name string) *SpecBuilder {
	return &SpecBuilder{c: c, name: name, st: c.IP.Harness(nil)}
}

// Field: w bits carrying the integer field sym (most significant bit first).
func (b *SpecBuilder) Field(w int, sym string) *SpecBuilder {
	b.c.IP.SetBounds(sym, 0, (int64(1)<<uint(w))-1)
	f := lin.Sym(sym)
	b.chunks = append(b.chunks, Chunk{Kind: CBits, W: w, Bits: b.c.IP.SymVec(sym, w), Lin: &f, What: "spec " + b.name + ": " + sym})
	return b
}

// Flag: one bit carrying the boolean field key.
func (b *SpecBuilder) Flag(key string) *SpecBuilder {
	b.chunks = append(b.chunks, Chunk{Kind: CBits, W: 1, Bits: bitdom.Vec{bitdom.AtomForm(pathint.PredAtom(key))}, What: "spec " + b.name + ": " + key})
	return b
}

// Const: w bits with a fixed value (reserved bits, markers, computed lengths of empty loops).
func (b *SpecBuilder) Const(w int, v uint64) *SpecBuilder {
	f := lin.Const(int64(v))
	b.chunks = append(b.chunks, Chunk{Kind: CBits, W: w, Bits: bitdom.Const(w, v), Lin: &f, What: fmt.Sprintf("spec %s: constant %d bits", b.name, w)})
	return b
}

// Opaque: w bits whose value is not interpreted here (fields that go through calendar / BCD arithmetic).
func (b *SpecBuilder) Opaque(w int, sym string) *SpecBuilder {
	b.c.IP.SetBounds(sym, 0, lin.PosInf)
	for w > 0 {
		n := w
		if n > 32 {
			n = 32
		}
		part := fmt.Sprintf("%s@%d", sym, w)
		b.c.IP.SetBounds(part, 0, (int64(1)<<uint(n))-1)
		f := lin.Sym(part)
		b.chunks = append(b.chunks, Chunk{Kind: CBits, W: n, Bits: b.c.IP.SymVec(part, n), Lin: &f, What: "spec " + b.name + ": opaque " + sym})
		w -= n
	}
	return b
}

// EmptyList states that the list field named cell has no element.
func (b *SpecBuilder) EmptyList(cell string) *SpecBuilder {
	ln := lin.Sym("len(" + cell + ")")
	b.c.IP.SetBounds("len("+cell+")", 0, lin.PosInf)
	b.st.Facts = append(b.st.Facts, lin.Fact{F: ln}, lin.Fact{F: ln.Scale(-1)})
	return b
}

// ListLen states the number of elements of the list field named cell.
func (b *SpecBuilder) ListLen(cell string, n int) *SpecBuilder {
	ln := lin.Sym("len(" + cell + ")").AddC(int64(-n))
	b.c.IP.SetBounds("len("+cell+")", 0, lin.PosInf)
	b.st.Facts = append(b.st.Facts, lin.Fact{F: ln}, lin.Fact{F: ln.Scale(-1)})
	return b
}

// Fix states the value of an integer field.
func (b *SpecBuilder) Fix(sym string, v int64) *SpecBuilder {
	d := lin.Sym(sym).AddC(-v)
	b.st.Facts = append(b.st.Facts, lin.Fact{F: d}, lin.Fact{F: d.Scale(-1)})
	return b
}

// Elem names element k of the list of pointers stored in cell (the interpreter's naming of such objects).
func Elem(cell string, k int) string {
	s := fmt.Sprintf("%s.[%d]", cell, k)
	out := make([]byte, 0, len(s))
	for i := 0; i < len(s); i++ {
		if s[i] == '.' {
			out = append(out, '/')
		} else {
			out = append(out, s[i])
		}
	}
	return string(out)
}

// Source finishes the builder.
func (b *SpecBuilder) Source() *Source {
	s := &Source{Name: "spec " + b.name, St: b.st, Chunks: b.chunks}
	s.place()
	return s
}
