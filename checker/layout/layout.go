// Package layout is engine A: bit-layout and length rules for writers, calculators and parsers, built on
// the path-sensitive interpreter (loop summation, emission modelling).
package layout

import (
	"fmt"
	"go/types"
	"sort"
	"strings"

	"astverif/lin"
	"astverif/load"
	"astverif/pathint"
	"astverif/report"
	"astverif/ssau"

	"golang.org/x/tools/go/ssa"
)

// Checker drives engine A.
type Checker struct {
	P  *load.Program
	IP *pathint.Interp
	// API-type rule: emissions whose width the BitsWriter cannot determine (run-time "invalid type")
	badEmit map[string]string
	emits   int
	ord     map[ssa.Instruction]string
	narrow  map[string]string
	// Unroll / UnrollFor: trip counts explored for loops over lists of structures (bit-level mode)
	Unroll    []int
	UnrollFor func(f *ssa.Function, elem types.Type) []int

	batchParamsDone bool
}

// New creates the engine.
func New(p *load.Program) *Checker {
	c := &Checker{P: p, badEmit: map[string]string{}, ord: map[ssa.Instruction]string{}}
	c.IP = pathint.New(p, c)
	c.IP.SumLoops = true
	c.IP.MergeIfs = true
	c.IP.KeyGuards = true
	// documented domains of redundant integer fields: pointer_field is an unsigned byte in the stream
	c.IP.SuffixLo = map[string]int64{".PointerField": 0, ".StuffingLength": 0}
	c.IP.AssumeNoTruncation = true
	c.IP.MaxOut = 9000
	c.IP.MaxPaths = 2000000
	return c
}

// NewBits creates the engine in bit-tracking mode: branches are never merged (a merged value is not an affine
// function of the input bits), every value carries its exact bits, fetches and emissions are recorded.
func NewBits(p *load.Program) *Checker {
	c := New(p)
	c.IP.MergeIfs = false
	c.IP.TrackBits = true
	// callees are interpreted in the caller's path: a writer that first calls its length calculator and then its
	// sub-writers would otherwise pair every calculator outcome with every sub-writer outcome
	c.IP.InlineCalls = true
	c.IP.MaxOut = 40000
	// loops over lists of structures are explored by exact unrolling for the lengths in Unroll (their bodies are
	// then checked on symbolic elements); byte-counting loops (stuffing, padding) stay summarised
	c.Unroll = []int{0, 1, 2}
	c.IP.UnrollCount = func(f *ssa.Function, bound ssa.Value) []int {
		call, ok := bound.(*ssa.Call)
		if !ok {
			return nil
		}
		if b, isB := call.Call.Value.(*ssa.Builtin); !isB || b.Name() != "len" || len(call.Call.Args) != 1 {
			return nil
		}
		sl, isSl := call.Call.Args[0].Type().Underlying().(*types.Slice)
		if !isSl || isByteType(sl.Elem()) {
			return nil
		}
		if c.UnrollFor != nil {
			return c.UnrollFor(f, sl.Elem())
		}
		return c.Unroll
	}
	return c
}

// --- hooks (only emissions matter here)

func (c *Checker) IterCall(*pathint.State, ssa.CallInstruction, string, *pathint.Obj, lin.Form, *pathint.Val) {
}
func (c *Checker) Index(*pathint.State, ssa.Instruction, lin.Form, lin.Form, bool)        {}
func (c *Checker) Slice(*pathint.State, *ssa.Slice, lin.Form, lin.Form, lin.Form)         {}
func (c *Checker) MakeSlice(*pathint.State, *ssa.MakeSlice, lin.Form)                     {}
func (c *Checker) BackEdge(*pathint.State, *ssa.BasicBlock, *ssa.BasicBlock)              {}
func (c *Checker) Call(*pathint.State, ssa.CallInstruction, string, []pathint.Val)        {}
func (c *Checker) Return(*pathint.State, *ssa.Return, []pathint.Val)                      {}
func (c *Checker) Deref(*pathint.State, ssa.Instruction, pathint.Val)                     {}
func (c *Checker) Publish(*pathint.State, *ssa.Store, *pathint.Obj, string, *pathint.Obj) {}

func (c *Checker) keyOf(in ssa.Instruction) string {
	if k, ok := c.ord[in]; ok {
		return k
	}
	f := in.Parent()
	n := map[string]int{}
	for _, b := range f.Blocks {
		for _, i := range b.Instrs {
			ci, ok := i.(ssa.CallInstruction)
			if !ok {
				continue
			}
			cal := ci.Common().StaticCallee()
			if cal == nil || cal.Signature.Recv() == nil {
				continue
			}
			rt := cal.Signature.Recv().Type()
			if !ssau.IsNamed(rt, load.AstikitPath, "BitsWriter") && !ssau.IsNamed(rt, load.AstikitPath, "BitsWriterBatch") {
				continue
			}
			n[cal.Name()]++
			c.ord[i] = fmt.Sprintf("%s/%s#%d", load.FuncName(f), cal.Name(), n[cal.Name()])
		}
	}
	return c.ord[in]
}

// Emit implements the API-type rule.
func (c *Checker) Emit(st *pathint.State, call ssa.CallInstruction, w *pathint.Obj, width lin.Form, known bool, val pathint.Val, t types.Type, method string) {
	c.emits++
	if known {
		if method == "WriteN" && width.IsConst() {
			if b, ok := t.Underlying().(*types.Basic); ok {
				bits := int64(0)
				switch b.Kind() {
				case types.Uint8:
					bits = 8
				case types.Uint16:
					bits = 16
				case types.Uint32:
					bits = 32
				case types.Uint64:
					bits = 64
				}
				if width.C > bits || width.C < 0 {
					c.badEmit[c.keyOf(call)] = fmt.Sprintf("%s: WriteN of %d bits from a %s operand (only %d bits exist)", c.P.Pos(call.Pos()), width.C, b.Name(), bits)
				}
			}
		}
		return
	}
	c.badEmit[c.keyOf(call)] = fmt.Sprintf("%s: %s with operand type %s: the BitsWriter accepts only bool, uint8/16/32/64, []byte and string (fails at run time with \"invalid type\"), WriteN needs an unsigned operand and a constant width", c.P.Pos(call.Pos()), method, types.TypeString(t, nil))
}

// NarrowArith implements rule A2w: a length computed by + or * in a narrow unsigned type and then widened
// must provably fit the narrow type, otherwise it wraps although every operand fits its own field.
func (c *Checker) NarrowArith(st *pathint.State, conv *ssa.Convert, value lin.Form, max int64) {
	f := conv.Parent()
	n := 0
	key := ""
	for _, b := range f.Blocks {
		for _, in := range b.Instrs {
			if cv, ok := in.(*ssa.Convert); ok {
				if _, isBin := cv.X.(*ssa.BinOp); isBin {
					n++
					if cv == conv {
						key = fmt.Sprintf("%s/widened-narrow-arithmetic#%d", load.FuncName(f), n)
					}
				}
			}
		}
	}
	if key == "" {
		key = load.FuncName(f) + "/widened-narrow-arithmetic"
	}
	if c.narrow == nil {
		c.narrow = map[string]string{}
	}
	if st.ProveSimplified(lin.Const(max).Sub(value)) {
		if _, bad := c.narrow[key]; !bad {
			c.narrow[key] = ""
		}
		return
	}
	c.narrow[key] = fmt.Sprintf("%s: %s is computed in a %d-bit unsigned type and only then widened: it wraps above %d although the destination could hold it", c.P.Pos(conv.Pos()), clean(value.String()), bitsOf(max), max)
}

func bitsOf(max int64) int {
	n := 0
	for max > 0 {
		n++
		max >>= 1
	}
	return n
}

// ReportAPI emits the API-type obligations collected so far.
func (c *Checker) ReportAPI(r *report.Report) {
	var ks []string
	for k := range c.badEmit {
		ks = append(ks, k)
	}
	sort.Strings(ks)
	for _, k := range ks {
		r.Bad("A0", k, "", c.badEmit[k])
	}
	r.Count("emission_visits", c.emits)
	c.ReportNarrow(r)
}

// ReportNarrow emits the A2w obligations collected so far.
func (c *Checker) ReportNarrow(r *report.Report) {
	var nk []string
	for k := range c.narrow {
		nk = append(nk, k)
	}
	sort.Strings(nk)
	for _, k := range nk {
		if c.narrow[k] == "" {
			r.OK("A2w", k, "", "the narrow sum provably fits its type")
		} else {
			r.Bad("A2w", k, "", c.narrow[k])
		}
	}
}

func writerParam(f *ssa.Function) string {
	for _, p := range f.Params {
		if pt, ok := p.Type().(*types.Pointer); ok && ssau.IsNamed(pt.Elem(), load.AstikitPath, "BitsWriter") {
			return "$" + p.Name()
		}
	}
	return ""
}

// WriterFuncs lists the functions of the package that take a *astikit.BitsWriter and return a byte
// count and an error.
func (c *Checker) WriterFuncs() []*ssa.Function {
	var out []*ssa.Function
	for _, f := range c.P.SrcFuncs() {
		if f.Parent() != nil || writerParam(f) == "" {
			continue
		}
		res := f.Signature.Results()
		if res.Len() < 2 || !ssau.IsErrorType(res.At(res.Len()-1).Type()) {
			continue
		}
		if b, ok := res.At(0).Type().Underlying().(*types.Basic); !ok || b.Kind() != types.Int {
			continue
		}
		out = append(out, f)
	}
	return out
}

func guardOf(o *pathint.Outcome) string {
	var gs []string
	for k, v := range o.ParamConds {
		if strings.HasPrefix(k, "nil:") && !v {
			continue
		}
		gs = append(gs, fmt.Sprintf("%s=%v", strings.TrimPrefix(k, "$"), v))
	}
	for _, f := range o.Facts {
		onlyParam := true
		for _, s := range f.F.Syms() {
			if !strings.HasPrefix(s, "$") && !strings.HasPrefix(s, "len($") {
				onlyParam = false
			}
		}
		if onlyParam {
			gs = append(gs, strings.ReplaceAll(f.String(), "$", ""))
		}
	}
	for _, f := range o.NE {
		gs = append(gs, strings.ReplaceAll(f.String(), "$", "")+" != 0")
	}
	sort.Strings(gs)
	return strings.Join(gs, " & ")
}

// A1 — declared count = emitted bits: on every success path of every writer function the returned byte
// count times 8 equals the number of bits handed to the BitsWriter.
// BatchParams: a function that is handed both a *BitsWriter and a *BitsWriterBatch writes through the batch as if it wrapped that
// writer (the interpreter attributes the batch's emissions to the writer parameter). Every static call site must make that true:
// the batch argument is the address of a local whose only stored value is NewBitsWriterBatch(x), x being the value passed as the
// writer. One obligation per call site; none when the package has no such function.
func (c *Checker) BatchParams(r *report.Report) {
	p := c.P
	isNamedPtr := func(t types.Type, name string) bool {
		pt, ok := t.(*types.Pointer)
		return ok && ssau.IsNamed(pt.Elem(), load.AstikitPath, name)
	}
	for _, g := range p.SrcFuncs() {
		wi, bi := -1, -1
		for i, prm := range g.Params {
			switch {
			case isNamedPtr(prm.Type(), "BitsWriter"):
				if wi >= 0 {
					wi = -2
				} else if wi == -1 {
					wi = i
				}
			case isNamedPtr(prm.Type(), "BitsWriterBatch"):
				bi = i
			}
		}
		if bi < 0 {
			continue
		}
		for _, f := range p.SrcFuncs() {
			for _, ci := range ssau.Calls(f) {
				if ci.Common().StaticCallee() != g {
					continue
				}
				key := "batch-param/" + load.FuncName(g) + "/called-from/" + load.FuncName(f)
				pos := p.Pos(ci.Pos())
				args := ci.Common().Args
				if wi == -1 {
					continue // the batch is the callee's only way to the writer: nothing to agree with
				}
				if wi < 0 || bi >= len(args) || wi >= len(args) {
					r.Unknown("A1", key, pos, load.FuncName(g)+" takes a BitsWriterBatch but not exactly one BitsWriter: which writer the batch wraps is not known")
					continue
				}
				al, ok := args[bi].(*ssa.Alloc)
				why := ""
				if !ok {
					why = "the batch argument is not the address of a local variable"
				} else {
					n := 0
					for _, rf := range *al.Referrers() {
						st, isSt := rf.(*ssa.Store)
						if !isSt || st.Addr != ssa.Value(al) {
							continue
						}
						n++
						mk, isCall := st.Val.(*ssa.Call)
						if !isCall || ssau.CalleeName(&mk.Call) != load.AstikitPath+".NewBitsWriterBatch" || len(mk.Call.Args) != 1 {
							why = "the batch is assigned something other than astikit.NewBitsWriterBatch(w)"
						} else if mk.Call.Args[0] != args[wi] {
							why = "the batch was created over " + mk.Call.Args[0].Name() + " but the writer passed along is " + args[wi].Name()
						}
					}
					if n != 1 && why == "" {
						why = fmt.Sprintf("the batch variable is assigned %d times", n)
					}
				}
				r.Check(why == "", "A1", key, pos, "the batch passed to "+load.FuncName(g)+" was created by NewBitsWriterBatch over the very writer passed with it: what the callee writes through the batch goes to that writer", why)
			}
		}
	}
}

func (c *Checker) A1(r *report.Report) {
	c.BatchParams(r)
	fs := c.WriterFuncs()
	n := 0
	for _, f := range fs {
		w := writerParam(f)
		sum := c.IP.Summarize(f)
		name := load.FuncName(f)
		if sum.Truncated || sum.Opaque {
			r.Unknown("A1", name, c.P.Pos(f.Pos()), "function could not be summarised (path budget / recursion)")
			continue
		}
		n++
		in := lin.Sym(w + "#bits")
		bad := map[string]string{}
		ok := 0
		for i := range sum.Outcomes {
			o := &sum.Outcomes[i]
			if o.ErrNil == pathint.No {
				continue
			}
			delta := lin.Const(0)
			if bv, has := o.Mem[w+".#bits"]; has {
				if bv.K != pathint.KInt {
					bad["?"] = "emitted bit count lost (merged paths disagree)"
					continue
				}
				delta = bv.F.Sub(in)
			}
			if len(o.Results) == 0 || o.Results[0].K != pathint.KInt {
				bad["?"] = "returned count is not an integer form"
				continue
			}
			cnt := o.Results[0].F
			if readsThroughNil(o, delta, cnt) {
				continue
			}
			hs := c.outcomeState(f, o)
			same, d2, _ := c.sameUnder(hs, delta, cnt.Scale(8))
			if same {
				ok++
				continue
			}
			delta, cnt = d2, c.IP.SimplifyForm(cnt, hs)
			g := guardOf(o)
			bad[g] = fmt.Sprintf("8 × returned count differs from the bits emitted: %s", diffForms(cnt.Scale(8), delta))
		}
		if len(bad) == 0 {
			r.OK("A1", name, c.P.Pos(f.Pos()), fmt.Sprintf("%d success outcomes (%d paths): 8 × returned count = bits emitted", ok, sum.Paths))
			continue
		}
		var gs []string
		for g := range bad {
			gs = append(gs, g)
		}
		sort.Strings(gs)
		for _, g := range gs {
			r.Bad("A1", name+"/when{"+g+"}", c.P.Pos(f.Pos()), bad[g])
		}
	}
	r.Count("writer_functions", n)
}

// sameUnder: a == b syntactically, after indicator simplification, or provably under the state's facts.
func (c *Checker) sameUnder(st *pathint.State, a, b lin.Form) (bool, lin.Form, lin.Form) {
	if a.Equal(b) {
		return true, a, b
	}
	a2, b2 := c.IP.SimplifyForm(a, st), c.IP.SimplifyForm(b, st)
	if a2.Equal(b2) {
		return true, a2, b2
	}
	if st.ProveSimplified(a2.Sub(b2)) && st.ProveSimplified(b2.Sub(a2)) {
		return true, a2, b2
	}
	if c.IP.ProveZeroSplit(st, a2.Sub(b2), 3) {
		return true, a2, b2
	}
	return false, a2, b2
}

// readsThroughNil: the outcome assumes pointer X nil yet its forms mention cells below X — the function
// dereferenced X on that path, which panics: not a way the function returns.
func readsThroughNil(o *pathint.Outcome, forms ...lin.Form) bool {
	for k, v := range o.ParamConds {
		if !v || !strings.HasPrefix(k, "nil:$") {
			continue
		}
		x := k[4:]
		for _, f := range forms {
			for _, s := range f.Syms() {
				if strings.Contains(s, x+".") || strings.Contains(s, x+"/") {
					return true
				}
			}
		}
	}
	return false
}

// outcomeState builds a state that knows exactly the guard of an outcome.
func (c *Checker) outcomeState(f *ssa.Function, o *pathint.Outcome) *pathint.State {
	st := c.IP.Harness(f)
	st.Facts = append(st.Facts, o.Facts...)
	st.NE = append(st.NE, o.NE...)
	for k, v := range o.ParamConds {
		st.Preds[k] = v
		if v && strings.HasPrefix(k, "nil:$") {
			// a nil slice has length zero
			ln := lin.Sym("len(" + k[4:] + ")")
			st.Facts = append(st.Facts, lin.Fact{F: ln}, lin.Fact{F: ln.Scale(-1)})
		}
	}
	for k, v := range o.Preds {
		st.Preds[k] = v
	}
	return st
}

// diffForms explains how two forms differ: symbols (with coefficients) present on one side only; for
// Σ symbols the differing parts.
func diffForms(a, b lin.Form) string {
	var out []string
	d := a.Sub(b)
	if d.C != 0 {
		out = append(out, fmt.Sprintf("constant differs by %d", d.C))
	}
	var onlyA, onlyB []string
	for _, s := range d.Syms() {
		if d.Coef(s) > 0 {
			onlyA = append(onlyA, s)
		} else {
			onlyB = append(onlyB, s)
		}
	}
	parts := func(s string) map[string]bool {
		m := map[string]bool{}
		i := strings.Index(s, ": ")
		if !strings.HasPrefix(s, "Σ{") || i < 0 {
			return m
		}
		for _, p := range strings.Split(s[i+2:len(s)-1], " | ") {
			m[p] = true
		}
		return m
	}
	if len(onlyA) == 1 && len(onlyB) == 1 {
		pa, pb := parts(onlyA[0]), parts(onlyB[0])
		if len(pa) > 0 && len(pb) > 0 {
			for p := range pa {
				if !pb[p] {
					out = append(out, "left only: "+p)
				}
			}
			for p := range pb {
				if !pa[p] {
					out = append(out, "right only: "+p)
				}
			}
			sort.Strings(out)
			return clean(strings.Join(out, " ;; "))
		}
	}
	for _, s := range onlyA {
		out = append(out, fmt.Sprintf("left has %d×%s", d.Coef(s), short(s)))
	}
	for _, s := range onlyB {
		out = append(out, fmt.Sprintf("right has %d×%s", -d.Coef(s), short(s)))
	}
	return clean(strings.Join(out, " ;; "))
}

func short(s string) string {
	if len(s) > 300 {
		return s[:300] + "…"
	}
	return s
}

func clean(s string) string {
	s = strings.ReplaceAll(s, "$", "")
	return s
}

// Pair relates a length calculator to the writer whose emission it must equal.
type Pair struct {
	Name       string
	Calc       *ssa.Function
	CalcResult int
	Writer     *ssa.Function
	// ArgMap[i] = index of the writer parameter passed as calculator parameter i
	ArgMap []int
	// ExtraBits are emitted by the writer but not counted by the calculator (e.g. the tag/length header)
	ExtraBits int64
	// Assume are parameter-rooted boolean cells fixed for the comparison (documented preconditions)
	Assume map[string]bool
	// AssumeGE are facts "cell >= k" fixed for the comparison
	AssumeGE map[string]int64
}

// A2 — calculator = writer, for every compatible pair of success outcomes.
func (c *Checker) A2(r *report.Report, pairs []Pair) {
	if !c.batchParamsDone {
		c.batchParamsDone = true
		c.BatchParams(r)
	}
	for _, pr := range pairs {
		if pr.Calc == nil || pr.Writer == nil {
			r.Unknown("A2", pr.Name, "", "calculator or writer function not found")
			continue
		}
		w := writerParam(pr.Writer)
		if w == "" {
			r.Unknown("A2", pr.Name, c.P.Pos(pr.Writer.Pos()), "writer has no *astikit.BitsWriter parameter")
			continue
		}
		st := c.IP.Harness(pr.Writer)
		var wargs []pathint.Val
		for _, p := range pr.Writer.Params {
			v := st.Symbolic(p.Type(), "$"+p.Name())
			wargs = append(wargs, v)
			if v.K == pathint.KPtr {
				st.Preds["nil:$"+p.Name()] = false
			}
		}
		for k, v := range pr.Assume {
			st.Preds[k] = v
		}
		for k, v := range pr.AssumeGE {
			st.Facts = append(st.Facts, lin.Fact{F: lin.Sym(k).AddC(-v)})
		}
		var cargs []pathint.Val
		for _, wi := range pr.ArgMap {
			cargs = append(cargs, wargs[wi])
		}
		in := st.Bits(wargs[paramIndex(pr.Writer, w)].O)
		bad := map[string]string{}
		nOK, nPairs := 0, 0
		csum, wsum := c.IP.Summarize(pr.Calc), c.IP.Summarize(pr.Writer)
		if csum.Truncated || wsum.Truncated || csum.Opaque || wsum.Opaque {
			r.Unknown("A2", pr.Name, c.P.Pos(pr.Writer.Pos()), "calculator or writer could not be summarised")
			continue
		}
		for _, ca := range st.Apply(pr.Calc, cargs, "<calc>") {
			if pr.CalcResult >= len(ca.Results) || ca.Results[pr.CalcResult].K != pathint.KInt {
				bad["?calc"] = "calculator result is not an integer form"
				continue
			}
			cv := ca.Results[pr.CalcResult].F
			for _, wa := range ca.St.Apply(pr.Writer, wargs, "<write>") {
				if wa.Outcome.ErrNil == pathint.No {
					continue
				}
				nPairs++
				delta := wa.St.Bits(wargs[paramIndex(pr.Writer, w)].O).Sub(in)
				want := cv.Scale(8).AddC(pr.ExtraBits)
				if readsThroughNil(wa.Outcome, delta) || readsThroughNil(ca.Outcome, delta) {
					continue
				}
				for k, v := range ca.Outcome.ParamConds {
					if v && strings.HasPrefix(k, "nil:$") {
						ln := lin.Sym("len(" + k[4:] + ")")
						wa.St.Facts = append(wa.St.Facts, lin.Fact{F: ln}, lin.Fact{F: ln.Scale(-1)})
					}
				}
				same, d2, _ := c.sameUnder(wa.St, delta, want)
				if same {
					nOK++
					continue
				}
				delta = d2
				cv = c.IP.SimplifyForm(cv, wa.St)
				g := guardOf(wa.Outcome)
				if g2 := guardOf(ca.Outcome); g2 != "" && g2 != g {
					g = g + " ; calc: " + g2
				}
				bad[g] = fmt.Sprintf("calculator gives %s bytes (+%d header bits) but the writer emits %s bits", clean(cv.String()), pr.ExtraBits, clean(delta.String()))
			}
		}
		pos := c.P.Pos(pr.Writer.Pos())
		if nPairs == 0 && len(bad) == 0 {
			r.Unknown("A2", pr.Name, pos, "no compatible pair of calculator/writer outcomes found")
			continue
		}
		if len(bad) == 0 {
			r.OK("A2", pr.Name, pos, fmt.Sprintf("%d compatible outcome pairs: 8 × %s(…) + %d = bits emitted by %s", nOK, pr.Calc.Name(), pr.ExtraBits, pr.Writer.Name()))
			continue
		}
		var gs []string
		for g := range bad {
			gs = append(gs, g)
		}
		sort.Strings(gs)
		for _, g := range gs {
			r.Bad("A2", pr.Name+"/when{"+g+"}", pos, bad[g])
		}
	}
}

func paramIndex(f *ssa.Function, name string) int {
	for i, p := range f.Params {
		if "$"+p.Name() == name {
			return i
		}
	}
	return 0
}

// ExactSize — every success return of fn returns exactly the value of its parameter `param` (writePacket:
// the packet is padded to, and never exceeds, the target size), and the first thing it emits is the
// constant first (the sync byte).
func (c *Checker) ExactSize(r *report.Report, fnKey, param string, first int64) {
	f := c.P.Func(fnKey)
	if f == nil {
		r.Unknown("A1b", fnKey+"/exact-size", "", "anchor function not found")
		return
	}
	found := false
	for _, p := range f.Params {
		if p.Name() == param {
			found = true
		}
	}
	if !found {
		r.Unknown("A1b", fnKey+"/exact-size", c.P.Pos(f.Pos()), "the function no longer has a parameter named "+param)
		return
	}
	sum := c.IP.Summarize(f)
	want := lin.Sym("$" + param)
	bad := map[string]string{}
	n, nFirst, badFirst := 0, 0, ""
	for i := range sum.Outcomes {
		o := &sum.Outcomes[i]
		if o.ErrNil == pathint.No {
			continue
		}
		if len(o.Results) == 0 || o.Results[0].K != pathint.KInt {
			bad["?"] = "returned count is not an integer form"
			continue
		}
		hs := c.outcomeState(f, o)
		if same, got, _ := c.sameUnder(hs, o.Results[0].F, want); !same {
			bad[guardOf(o)] = fmt.Sprintf("returns %s instead of %s", clean(got.String()), param)
			continue
		}
		n++
		if len(o.Events) > 0 {
			e := o.Events[0]
			if e.Kind == "emit" && e.Width.IsConst() && e.Width.C == 8 && e.Val.K == pathint.KInt && e.Val.F.IsConst() && e.Val.F.C == first {
				nFirst++
			} else {
				badFirst = fmt.Sprintf("first event is %s of %s bits, value %s", e.Kind, e.Width.String(), e.Val.String())
			}
		}
	}
	pos := c.P.Pos(f.Pos())
	if len(bad) == 0 && n > 0 {
		r.OK("A1b", fnKey+"/exact-size", pos, fmt.Sprintf("%d success outcomes all return exactly %s", n, param))
	} else if n == 0 && len(bad) == 0 {
		r.Unknown("A1b", fnKey+"/exact-size", pos, "no success outcome found")
	}
	var gs []string
	for g := range bad {
		gs = append(gs, g)
	}
	sort.Strings(gs)
	for _, g := range gs {
		r.Bad("A1b", fnKey+"/exact-size/when{"+g+"}", pos, bad[g])
	}
	switch {
	case badFirst != "":
		r.Bad("A1b", fnKey+"/first-emission", pos, badFirst)
	case nFirst > 0:
		r.OK("A1b", fnKey+"/first-emission", pos, fmt.Sprintf("the first emission is the constant %#x on %d outcomes", first, nFirst))
	default:
		r.Unknown("A1b", fnKey+"/first-emission", pos, "emission events were not retained for any outcome")
	}
}

// NoEmitBeforeLocalError — S5 validate-before-emit: inside fn no emission (a Write* on a bits writer, or a
// call to a function that emits) can be followed by a return whose error is constructed locally
// (fmt.Errorf / errors.New / package sentinel): a rejected argument leaves nothing in the output.
func (c *Checker) NoEmitBeforeLocalError(r *report.Report, fnKey string) {
	f := c.P.Func(fnKey)
	if f == nil {
		r.Unknown("S5", fnKey+"/validate-before-emit", "", "anchor function not found")
		return
	}
	writers := map[*ssa.Function]bool{}
	for _, w := range c.WriterFuncs() {
		writers[w] = true
	}
	var emits []ssa.Instruction
	for _, ci := range ssau.Calls(f) {
		cal := ci.Common().StaticCallee()
		if cal == nil {
			continue
		}
		if cal.Signature.Recv() != nil {
			rt := cal.Signature.Recv().Type()
			if (ssau.IsNamed(rt, load.AstikitPath, "BitsWriter") || ssau.IsNamed(rt, load.AstikitPath, "BitsWriterBatch")) && strings.HasPrefix(cal.Name(), "Write") {
				emits = append(emits, ci)
			}
		}
		if writers[cal] || writerParam(cal) != "" {
			emits = append(emits, ci)
		}
	}
	ei := ssau.ErrorResultIndex(f.Signature)
	nLocal := 0
	var bad []string
	for _, ret := range ssau.Returns(f) {
		if ei < 0 {
			continue
		}
		local := false
		for _, l := range ssau.Leaves(ret.Results[ei]) {
			if l != nil && (ssau.IsErrorConstructor(l) || ssau.IsSentinelLoad(l)) {
				// a wrap of a callee's error is not a local rejection
				if call, ok := l.(*ssa.Call); ok && wrapsAnotherError(call) {
					continue
				}
				local = true
			}
		}
		if !local {
			continue
		}
		nLocal++
		for _, e := range emits {
			if e.Block() == ret.Block() || ssau.Reaches(e.Block(), ret.Block()) {
				bad = append(bad, fmt.Sprintf("the rejection at %s is reachable after the emission at %s", c.P.Pos(ret.Pos()), c.P.Pos(e.Pos())))
				break
			}
		}
	}
	pos := c.P.Pos(f.Pos())
	if len(bad) > 0 {
		r.Bad("S5", fnKey+"/validate-before-emit", pos, strings.Join(bad, "; ")+": a rejected call has already put part of a packet into the output")
		return
	}
	r.OK("S5", fnKey+"/validate-before-emit", pos, fmt.Sprintf("%d locally constructed error returns, none reachable from any of the %d emission sites", nLocal, len(emits)))
}

func wrapsAnotherError(call *ssa.Call) bool {
	if ssau.CalleeName(&call.Call) != "fmt.Errorf" || len(call.Call.Args) != 2 {
		return false
	}
	vals, ok := ssau.VarargValues(call.Call.Args[1])
	if !ok {
		return false
	}
	for _, v := range vals {
		if ssau.IsErrorType(ssau.StripIface(v).Type()) {
			return true
		}
	}
	return false
}

// MadeSize is a composition rule: the structure returned by maker(n) (an int → *T constructor, n >= minN) is
// written by writer in exactly n bytes, on every outcome of both. (newStuffingAdaptationField(n) must produce an
// adaptation field that occupies n bytes — otherwise WriteData's packets are not exactly filled.)
func (c *Checker) MadeSize(r *report.Report, name string, maker, writer *ssa.Function, minN int64) {
	if maker == nil || writer == nil {
		r.Unknown("A2", name, "", "maker or writer function not found")
		return
	}
	w := writerParam(writer)
	if w == "" || len(maker.Params) < 1 {
		r.Unknown("A2", name, c.P.Pos(writer.Pos()), "unexpected signatures")
		return
	}
	st := c.IP.Harness(writer)
	// the size parameter is the maker's integer parameter; any other parameter (a receiver holding state) is arbitrary
	var n pathint.Val
	var margs []pathint.Val
	nInt := 0
	for _, mp := range maker.Params {
		v := st.Symbolic(mp.Type(), "$"+mp.Name())
		if v.K == pathint.KInt {
			n = v
			nInt++
		}
		margs = append(margs, v)
	}
	if nInt != 1 {
		r.Unknown("A2", name, c.P.Pos(maker.Pos()), "the maker does not have exactly one integer parameter")
		return
	}
	st.Facts = append(st.Facts, lin.Fact{F: n.F.AddC(-minN)})
	var wv pathint.Val
	for _, p := range writer.Params {
		if "$"+p.Name() == w {
			wv = st.Symbolic(p.Type(), w)
		}
	}
	in := st.Bits(wv.O)
	bad := map[string]string{}
	pairs, okN := 0, 0
	for _, ma := range st.Apply(maker, margs, "<make>") {
		if len(ma.Results) == 0 {
			continue
		}
		var wargs []pathint.Val
		for _, p := range writer.Params {
			if "$"+p.Name() == w {
				wargs = append(wargs, wv)
			} else {
				wargs = append(wargs, ma.Results[0])
			}
		}
		for _, wa := range ma.St.Apply(writer, wargs, "<write>") {
			if wa.Outcome.ErrNil == pathint.No {
				continue
			}
			pairs++
			delta := wa.St.Bits(wv.O).Sub(in)
			same, d2, _ := c.sameUnder(wa.St, delta, n.F.Scale(8))
			if same {
				okN++
				continue
			}
			bad[guardOf(ma.Outcome)] = fmt.Sprintf("%s(n) is written in %s bits, not 8·n", maker.Name(), clean(d2.String()))
		}
	}
	pos := c.P.Pos(maker.Pos())
	switch {
	case pairs == 0:
		r.Unknown("A2", name, pos, "no compatible maker/writer outcome pair")
	case len(bad) == 0:
		r.OK("A2", name, pos, fmt.Sprintf("%d outcome pairs: %s(n) occupies exactly n bytes when written by %s (n >= %d)", okN, maker.Name(), writer.Name(), minN))
	default:
		var gs []string
		for g := range bad {
			gs = append(gs, g)
		}
		sort.Strings(gs)
		for _, g := range gs {
			r.Bad("A2", name+"/when{"+g+"}", pos, bad[g])
		}
	}
}
