// Package load type-checks the repository under analysis (current working tree of /repo,
// optionally with an in-memory overlay) and builds go/ssa for it.
package load

import (
	"fmt"
	"go/ast"
	"go/token"
	"go/types"
	"os"
	"path/filepath"
	"sort"
	"strings"

	"golang.org/x/tools/go/packages"
	"golang.org/x/tools/go/ssa"
	"golang.org/x/tools/go/ssa/ssautil"
)

// RootPath is the import path of the library under analysis.
const RootPath = "github.com/asticode/go-astits"

// AstikitPath is the import path of the helper library whose behaviour is summarised.
const AstikitPath = "github.com/asticode/go-astikit"

// Program is the loaded, type-checked, SSA-built root package.
type Program struct {
	Dir    string
	Fset   *token.FileSet
	Pkg    *packages.Package
	Types  *types.Package
	Info   *types.Info
	Files  []*ast.File
	SSA    *ssa.Program
	SSAPkg *ssa.Package
	GOARCH string

	decls map[string]*ast.FuncDecl
}

// Options control loading.
type Options struct {
	Dir     string            // repository root (default /repo)
	Overlay map[string][]byte // absolute file path -> content
	GOARCH  string            // "" = host
	NoSSA   bool
}

// RepoDir returns the directory to analyse (env VERIF_REPO overrides /repo; used by self-tests only).
func RepoDir() string {
	if d := os.Getenv("VERIF_REPO"); d != "" {
		return d
	}
	return "/repo"
}

// Load loads the root package of the repository.
func Load(o Options) (*Program, error) {
	if o.Dir == "" {
		o.Dir = RepoDir()
	}
	env := []string{}
	for _, e := range os.Environ() {
		if strings.HasPrefix(e, "GOWORK=") || strings.HasPrefix(e, "GOFLAGS=") || strings.HasPrefix(e, "GOPROXY=") ||
			strings.HasPrefix(e, "GOSUMDB=") || strings.HasPrefix(e, "GOTOOLCHAIN=") || strings.HasPrefix(e, "GOARCH=") {
			continue
		}
		env = append(env, e)
	}
	env = append(env, "GOWORK=off", "GOFLAGS=-mod=mod", "GOPROXY=off", "GOSUMDB=off", "GOTOOLCHAIN=local")
	if o.GOARCH != "" {
		env = append(env, "GOARCH="+o.GOARCH, "CGO_ENABLED=0")
	}
	fset := token.NewFileSet()
	cfg := &packages.Config{
		Mode: packages.NeedName | packages.NeedFiles | packages.NeedCompiledGoFiles | packages.NeedImports |
			packages.NeedDeps | packages.NeedTypes | packages.NeedSyntax | packages.NeedTypesInfo | packages.NeedTypesSizes,
		Dir:     o.Dir,
		Env:     env,
		Fset:    fset,
		Overlay: o.Overlay,
		Tests:   false,
	}
	pkgs, err := packages.Load(cfg, ".")
	if err != nil {
		return nil, fmt.Errorf("load: %w", err)
	}
	if len(pkgs) != 1 {
		return nil, fmt.Errorf("load: expected exactly one root package, got %d", len(pkgs))
	}
	root := pkgs[0]
	var errs []string
	packages.Visit(pkgs, nil, func(p *packages.Package) {
		for _, e := range p.Errors {
			errs = append(errs, p.PkgPath+": "+e.Error())
		}
	})
	if len(errs) > 0 {
		return nil, fmt.Errorf("load: type errors:\n  %s", strings.Join(errs, "\n  "))
	}
	if root.PkgPath != RootPath {
		return nil, fmt.Errorf("load: root package is %q, want %q", root.PkgPath, RootPath)
	}
	if len(root.Syntax) == 0 {
		return nil, fmt.Errorf("load: no syntax for root package")
	}
	p := &Program{Dir: o.Dir, Fset: fset, Pkg: root, Types: root.Types, Info: root.TypesInfo, Files: root.Syntax, GOARCH: o.GOARCH}
	p.decls = map[string]*ast.FuncDecl{}
	for _, f := range p.Files {
		for _, d := range f.Decls {
			if fd, ok := d.(*ast.FuncDecl); ok {
				p.decls[DeclKey(fd)] = fd
			}
		}
	}
	if !o.NoSSA {
		prog, spkgs := ssautil.AllPackages(pkgs, ssa.InstantiateGenerics)
		p.SSA = prog
		for i, sp := range spkgs {
			if pkgs[i] == root {
				p.SSAPkg = sp
			}
		}
		if p.SSAPkg == nil {
			return nil, fmt.Errorf("load: no SSA package for root")
		}
		// only the root package's function bodies are needed: callees in other packages are
		// handled through summaries
		p.SSAPkg.Build()
	}
	return p, nil
}

// DeclKey returns "Recv.Name" or "Name".
func DeclKey(fd *ast.FuncDecl) string {
	if fd.Recv != nil && len(fd.Recv.List) == 1 {
		t := fd.Recv.List[0].Type
		if s, ok := t.(*ast.StarExpr); ok {
			t = s.X
		}
		if id, ok := t.(*ast.Ident); ok {
			return id.Name + "." + fd.Name.Name
		}
	}
	return fd.Name.Name
}

// Decl returns the declaration of a function ("name") or method ("Type.name").
func (p *Program) Decl(key string) *ast.FuncDecl { return p.decls[key] }

// DeclKeys lists all declared functions, sorted.
func (p *Program) DeclKeys() []string {
	var ks []string
	for k := range p.decls {
		ks = append(ks, k)
	}
	sort.Strings(ks)
	return ks
}

// Func returns the SSA function for a declaration key ("name" or "Type.name").
func (p *Program) Func(key string) *ssa.Function {
	if i := strings.IndexByte(key, '.'); i >= 0 {
		tn, mn := key[:i], key[i+1:]
		obj := p.Types.Scope().Lookup(tn)
		if obj == nil {
			return nil
		}
		named, ok := obj.Type().(*types.Named)
		if !ok {
			return nil
		}
		for i := 0; i < named.NumMethods(); i++ {
			m := named.Method(i)
			if m.Name() == mn {
				return p.SSA.FuncValue(m)
			}
		}
		return nil
	}
	return p.SSAPkg.Func(key)
}

// FuncOf returns the SSA function of a types.Func declared in the root package.
func (p *Program) FuncOf(f *types.Func) *ssa.Function { return p.SSA.FuncValue(f) }

// SrcFuncs lists all source-level functions of the root package (including methods and
// anonymous functions), sorted by position.
func (p *Program) SrcFuncs() []*ssa.Function {
	var out []*ssa.Function
	seen := map[*ssa.Function]bool{}
	var add func(f *ssa.Function)
	add = func(f *ssa.Function) {
		if f == nil || seen[f] || f.Synthetic != "" && f.Syntax() == nil {
			return
		}
		seen[f] = true
		if f.Blocks != nil {
			out = append(out, f)
		}
		for _, a := range f.AnonFuncs {
			add(a)
		}
	}
	for _, m := range p.SSAPkg.Members {
		switch m := m.(type) {
		case *ssa.Function:
			add(m)
		case *ssa.Type:
			named, ok := m.Type().(*types.Named)
			if !ok {
				continue
			}
			for i := 0; i < named.NumMethods(); i++ {
				add(p.SSA.FuncValue(named.Method(i)))
			}
		}
	}
	sort.Slice(out, func(i, j int) bool { return out[i].Pos() < out[j].Pos() })
	return out
}

// Pos renders a position relative to the repository root.
func (p *Program) Pos(pos token.Pos) string {
	if !pos.IsValid() {
		return "-"
	}
	ps := p.Fset.Position(pos)
	rel, err := filepath.Rel(p.Dir, ps.Filename)
	if err != nil {
		rel = ps.Filename
	}
	return fmt.Sprintf("%s:%d", rel, ps.Line)
}

// IsTestFile reports whether pos lies in a _test.go file.
func (p *Program) IsTestFile(pos token.Pos) bool {
	return strings.HasSuffix(p.Fset.Position(pos).Filename, "_test.go")
}

// FuncName is a stable, human-readable name of an SSA function ("(*T).m", "f", "f$1").
func FuncName(f *ssa.Function) string {
	if f == nil {
		return "<nil>"
	}
	if f.Parent() != nil {
		return FuncName(f.Parent()) + "$" + strings.TrimPrefix(f.Name(), f.Parent().Name()+"$")
	}
	if recv := f.Signature.Recv(); recv != nil {
		t := recv.Type()
		ptr := ""
		if pt, ok := t.(*types.Pointer); ok {
			t = pt.Elem()
			ptr = "*"
		}
		if n, ok := t.(*types.Named); ok {
			return "(" + ptr + n.Obj().Name() + ")." + f.Name()
		}
	}
	return f.Name()
}
