package muxstate

import (
	"fmt"
	"go/types"
	"sort"
	"strings"

	"astverif/load"
	"astverif/report"
	"astverif/ssau"

	"golang.org/x/tools/go/ssa"
)

// Rule names of the continuity-counter property.
const (
	RuleS1ES     = "S1-es"     // pairing inc -> writePacket in WriteData
	RuleS1Tables = "S1-tables" // pairing generator side effects -> m.w.Write in WriteTables
	RuleCCSource = "CC-source" // where PacketHeader.ContinuityCounter comes from
	RuleWidth    = "width"     // constructor constants of the wrapping counters
	RuleCCSites  = "CC-sites"  // inc is called only where a packet is built, once per packet
)

// anchors bundles the objects the muxer rules refer to.
type anchors struct {
	p *load.Program

	inc, get, newWC, writePacket, writePSIData, newEsContext *ssa.Function

	fESContexts, fBitsWriter, fW, fPmt, fPm, fPmUpdated, fPmtUpdated, fNextPID *types.Var
	fPatCC, fPmtCC, fPatVersion, fPmtVersion                                   *types.Var
	fCounter, fPeriod, fPacketSize                                             *types.Var
	fCtxCC, fCtxES                                                             *types.Var
	fHdr, fHdrCC, fHdrPID, fPktAF, fPktPayload                                 *types.Var
	fDataPID, fDataAF, fAFRAI                                                  *types.Var
	fPMTStreams, fPMTPCRPID, fPMTProgramNumber, fESPID                         *types.Var
	fSynDataPMT, fSynDataPAT, fSynHdrVersion, fSynHdrTIDExt                    *types.Var

	missing []string

	fwd map[*ssa.Function]ssau.Forwarder // functions that only pass a packet on to writePacket
}

// writePacketCall normalises a call that ends in writePacket: writePacket(w, pkt, size) itself, or a call of a function whose whole
// body passes its arguments on to it (ssau.Forwarders). It returns the call, the writer and the packet as values of the calling
// function; recvWriter reports that the writer is not an argument but the bitsWriter field of the forwarder's receiver, which
// is then the call's first argument.
func (a *anchors) writePacketCall(in ssa.Instruction) (c *ssa.Call, writer ssa.Value, recvWriter bool, pkt ssa.Value, ok bool) {
	if d, isW := callTo(in, a.writePacket); isW {
		if len(d.Call.Args) < 2 {
			return nil, nil, false, nil, false
		}
		return d, d.Call.Args[0], false, d.Call.Args[1], true
	}
	cc, isCall := in.(*ssa.Call)
	if !isCall {
		return nil, nil, false, nil, false
	}
	if a.fwd == nil {
		a.fwd = ssau.Forwarders(a.writePacket)
	}
	g := cc.Call.StaticCallee()
	fw, isFw := a.fwd[g]
	if !isFw || len(fw.Map) < 2 || fw.Map[1] < 0 || fw.Map[1] >= len(cc.Call.Args) || fw.Inner.Call.StaticCallee() != a.writePacket {
		return nil, nil, false, nil, false
	}
	switch {
	case fw.Map[0] >= 0 && fw.Map[0] < len(cc.Call.Args):
		return cc, cc.Call.Args[fw.Map[0]], false, cc.Call.Args[fw.Map[1]], true
	case len(g.Params) > 0 && len(cc.Call.Args) > 0 && isLoadOf(fw.Inner.Call.Args[0], g.Params[0], a.fBitsWriter):
		return cc, cc.Call.Args[0], true, cc.Call.Args[fw.Map[1]], true
	}
	return nil, nil, false, nil, false
}

// writePacketCalls lists the calls of f that end in writePacket (see writePacketCall).
func (a *anchors) writePacketCalls(f *ssa.Function) []*ssa.Call {
	var out []*ssa.Call
	for _, b := range f.Blocks {
		for _, in := range b.Instrs {
			if c, _, _, _, ok := a.writePacketCall(in); ok {
				out = append(out, c)
			}
		}
	}
	return out
}

// packetWriteOf: in serialises a packet to m's output — writePacket(m.bitsWriter, pkt, …) itself, or a call on m of a method whose
// whole body is that call on its own receiver (m.writeTSPacket(pkt)). It returns the call and the packet argument.
func (a *anchors) packetWriteOf(in ssa.Instruction, m ssa.Value) (*ssa.Call, ssa.Value, bool) {
	c, w, recvW, pkt, ok := a.writePacketCall(in)
	if !ok {
		return nil, nil, false
	}
	if recvW {
		if w != m {
			return nil, nil, false
		}
		return c, pkt, true
	}
	if !isLoadOf(w, m, a.fBitsWriter) {
		return nil, nil, false
	}
	return c, pkt, true
}

func getAnchors(p *load.Program) *anchors {
	a := &anchors{p: p}
	fn := func(key string) *ssa.Function {
		f := p.Func(key)
		if f == nil {
			a.missing = append(a.missing, "func "+key)
		}
		return f
	}
	fld := func(t, n string) *types.Var {
		v := StructField(p, t, n)
		if v == nil {
			a.missing = append(a.missing, "field "+t+"."+n)
		}
		return v
	}
	a.inc, a.get, a.newWC = fn("wrappingCounter.inc"), fn("wrappingCounter.get"), fn("newWrappingCounter")
	a.writePacket, a.writePSIData, a.newEsContext = fn("writePacket"), fn("writePSIData"), fn("newEsContext")
	a.fESContexts, a.fBitsWriter, a.fW = fld("Muxer", "esContexts"), fld("Muxer", "bitsWriter"), fld("Muxer", "w")
	a.fPmt, a.fPm = fld("Muxer", "pmt"), fld("Muxer", "pm")
	a.fPmUpdated, a.fPmtUpdated, a.fNextPID = fld("Muxer", "pmUpdated"), fld("Muxer", "pmtUpdated"), fld("Muxer", "nextPID")
	a.fPatCC, a.fPmtCC = fld("Muxer", "patCC"), fld("Muxer", "pmtCC")
	a.fPatVersion, a.fPmtVersion = fld("Muxer", "patVersion"), fld("Muxer", "pmtVersion")
	a.fCounter, a.fPeriod = fld("Muxer", "tablesRetransmitCounter"), fld("Muxer", "tablesRetransmitPeriod")
	a.fPacketSize = fld("Muxer", "packetSize")
	a.fCtxCC, a.fCtxES = fld("esContext", "cc"), fld("esContext", "es")
	a.fHdr, a.fPktAF, a.fPktPayload = fld("Packet", "Header"), fld("Packet", "AdaptationField"), fld("Packet", "Payload")
	a.fHdrCC, a.fHdrPID = fld("PacketHeader", "ContinuityCounter"), fld("PacketHeader", "PID")
	a.fDataPID, a.fDataAF = fld("MuxerData", "PID"), fld("MuxerData", "AdaptationField")
	a.fAFRAI = fld("PacketAdaptationField", "RandomAccessIndicator")
	a.fPMTStreams, a.fPMTPCRPID = fld("PMTData", "ElementaryStreams"), fld("PMTData", "PCRPID")
	a.fPMTProgramNumber, a.fESPID = fld("PMTData", "ProgramNumber"), fld("PMTElementaryStream", "ElementaryPID")
	a.fSynDataPMT, a.fSynDataPAT = fld("PSISectionSyntaxData", "PMT"), fld("PSISectionSyntaxData", "PAT")
	a.fSynHdrVersion, a.fSynHdrTIDExt = fld("PSISectionSyntaxHeader", "VersionNumber"), fld("PSISectionSyntaxHeader", "TableIDExtension")
	return a
}

// ok reports missing anchors as one undecided obligation.
func (a *anchors) ok(r *report.Report, rule string) bool {
	if len(a.missing) == 0 {
		return true
	}
	r.Unknown(rule, "anchor", "-", "anchor(s) no longer resolve: "+strings.Join(a.missing, ", "))
	return false
}

// recv returns the receiver parameter of a method.
func recv(f *ssa.Function) ssa.Value {
	if f == nil || f.Signature.Recv() == nil || len(f.Params) == 0 {
		return nil
	}
	return f.Params[0]
}

// counterClass classifies a wrappingCounter field by its role.
func counterClass(f *types.Var) string {
	if f == nil {
		return ""
	}
	n := f.Name()
	switch {
	case n == "cc" || strings.HasSuffix(n, "CC"):
		return "cc"
	case strings.HasSuffix(n, "Version"):
		return "version"
	}
	return ""
}

// incSite is one call of (*wrappingCounter).inc.
type incSite struct {
	call  *ssa.Call
	fn    *ssa.Function
	path  Path // access path of the receiver
	field *types.Var
}

func (a *anchors) incSites() []incSite {
	var out []incSite
	for _, f := range nonTestFuncs(a.p) {
		cs, other := callsTo(f, a.inc)
		for _, c := range cs {
			ap := AddrPath(c.Call.Args[0])
			out = append(out, incSite{call: c, fn: f, path: ap, field: ap.Last()})
		}
		for _, o := range other {
			out = append(out, incSite{fn: f, call: nil, path: Path{Root: nil}, field: nil})
			_ = o
		}
	}
	return out
}

// ccStoreOf follows the result of an inc call through conversions to the stores that receive it.
// packets lists the roots (allocations) of the Packet/PacketHeader values whose
// Header.ContinuityCounter receives the value; otherUses counts uses that are anything else.
func (a *anchors) ccStoreOf(call *ssa.Call) (stores []*ssa.Store, roots []ssa.Value, otherUses []string) {
	seen := map[ssa.Value]bool{}
	var follow func(v ssa.Value)
	follow = func(v ssa.Value) {
		if seen[v] {
			return
		}
		seen[v] = true
		for _, ref := range *v.Referrers() {
			switch x := ref.(type) {
			case *ssa.DebugRef:
			case *ssa.Convert:
				follow(x)
			case *ssa.ChangeType:
				follow(x)
			case *ssa.Store:
				ap := AddrPath(x.Addr)
				if x.Val == v && ap.Last() == a.fHdrCC {
					stores = append(stores, x)
					roots = append(roots, ap.Root)
				} else {
					otherUses = append(otherUses, "store to "+ap.String())
				}
			default:
				otherUses = append(otherUses, strings.TrimPrefix(fmt.Sprintf("%T", ref), "*ssa."))
			}
		}
	}
	follow(call)
	return
}

// ESPairing is C05(a): every inc on an elementary stream's counter in WriteData is followed, on
// every path to the next iteration or to a non-failing return, by writePacket of the packet that
// carries the value.
func ESPairing(p *load.Program, r *report.Report) {
	a := getAnchors(p)
	if !a.ok(r, RuleS1ES) {
		return
	}
	f := p.Func("Muxer.WriteData")
	if f == nil {
		r.Unknown(RuleS1ES, "anchor/(*Muxer).WriteData", "-", "(*Muxer).WriteData not found")
		return
	}
	fname := load.FuncName(f)
	m := recv(f)
	n := 0
	for _, s := range a.incSites() {
		if s.fn != f || s.call == nil || s.field != a.fCtxCC {
			continue
		}
		n++
		base := fname + "/cc.inc->writePacket"
		pos := instrPos(p, s.call)
		// receiver: the cc of the context looked up in m.esContexts
		if !a.isESContextLookup(s.path, m) {
			r.Unknown(RuleS1ES, base+"/receiver", pos, "the counter "+s.path.String()+" is not the cc field of a context obtained from m.esContexts[...]")
			continue
		}
		stores, roots, _ := a.ccStoreOf(s.call)
		if len(stores) == 0 {
			r.Bad(RuleS1ES, base+"/unpaired", pos, "the value returned by inc() is never stored into a packet header: a counter value is consumed without any packet")
			continue
		}
		if len(stores) > 1 {
			r.Unknown(RuleS1ES, base+"/multiple-packets", pos, fmt.Sprintf("the value returned by inc() is stored into %d headers", len(stores)))
			continue
		}
		pkt := roots[0]
		isRelease := func(in ssa.Instruction) bool {
			_, parg, ok := a.packetWriteOf(in, m)
			if !ok {
				return false
			}
			for _, l := range ssau.Leaves(parg) {
				if l != pkt {
					return false
				}
			}
			return true
		}
		feasible := ConstFieldPruner(f)
		res := MustReach(f, s.call, Flow{
			Stop: isRelease,
			Bad: func(in ssa.Instruction) string {
				if ret, ok := in.(*ssa.Return); ok && !ExemptReturn(ret) {
					return "return"
				}
				return ""
			},
			Feasible: feasible,
		})
		if res.OK() {
			r.OK(RuleS1ES, base, pos, "every path from "+s.path.String()+".inc() to the next iteration or to a return without error passes writePacket(m.bitsWriter, &"+Describe(pkt)+", …); error returns are exempt")
			continue
		}
		if !res.CanStop {
			t := res.Terminals[0]
			r.Bad(RuleS1ES, base+"/no-release", pos, fmt.Sprintf("no call writePacket(m.bitsWriter, &%s, …) is reachable after inc(); path to %s at %s: %s", Describe(pkt), t.Kind, instrPos(p, t.Instr), PathString(p, t.Path)))
			continue
		}
		for _, e := range res.Escapes {
			if h := ConsistentHead(f, s.call, e, res.Open, feasible); h != nil {
				e.Head = h
			}
			r.Bad(RuleS1ES, base+"/escape["+DescribeEscape(e)+"]", instrPos(p, e.From.Instrs[len(e.From.Instrs)-1]),
				fmt.Sprintf("a counter value consumed by %s.inc() is withheld: on the edge %s control leaves the region that writes packet %s and reaches %s at %s without writePacket; path: %s",
					s.path.String(), DescribeEscape(e), Describe(pkt), e.Term.Kind, instrPos(p, e.Term.Instr), PathString(p, e.Path())))
		}
		if len(res.Escapes) == 0 {
			t := res.Terminals[0]
			r.Bad(RuleS1ES, base+"/escape[?]", pos, fmt.Sprintf("path to %s at %s without writePacket: %s", t.Kind, instrPos(p, t.Instr), PathString(p, t.Path)))
		}
	}
	r.Floor(RuleS1ES, "inc sites on esContext.cc in WriteData", n, 1)
}

// isESContextLookup: path = (m.esContexts[k]).cc
func (a *anchors) isESContextLookup(ap Path, m ssa.Value) bool {
	if len(ap.Fields) != 1 || ap.Fields[0] != a.fCtxCC {
		return false
	}
	_, ok := a.esLookup(ap.Root, m)
	return ok
}

// esLookup recognises v = m.esContexts[key] (plain or comma-ok) and returns the Lookup.
func (a *anchors) esLookup(v ssa.Value, m ssa.Value) (*ssa.Lookup, bool) {
	if e, ok := v.(*ssa.Extract); ok && e.Index == 0 {
		v = e.Tuple
	}
	lk, ok := v.(*ssa.Lookup)
	if !ok {
		return nil, false
	}
	if !isLoadOf(lk.X, m, a.fESContexts) {
		return nil, false
	}
	return lk, true
}

// ---------------------------------------------------------------------------------------------
// C05(b): side-effect summaries of the table generators and the interprocedural pairing
// ---------------------------------------------------------------------------------------------

// Effect is one state change of a generator that must be matched by an emission.
type Effect struct {
	Name  string // "patCC.inc()", "pmUpdated=false"
	Instr ssa.Instruction
	Field *types.Var
}

// Exit is one return of a summarised function.
type Exit struct {
	Ret    *ssa.Return
	Class  string // success | error | unknown
	Source string // where the error comes from ("writePSIData", "ErrPCRPIDInvalid")
	May    []Effect
}

// Summary of a generator.
type Summary struct {
	Fn      *ssa.Function
	Effects []Effect
	Exits   []Exit
	OutBuf  *types.Var // the Muxer buffer field the generated packet is written into
	OutNote string
}

// Summarize computes the side-effect summary of a Muxer method.
func (a *anchors) Summarize(f *ssa.Function) Summary {
	s := Summary{Fn: f}
	m := recv(f)
	if m == nil {
		return s
	}
	for _, b := range f.Blocks {
		for _, in := range b.Instrs {
			if c, ok := callTo(in, a.inc); ok {
				ap := AddrPath(c.Call.Args[0])
				if ap.Root == m && len(ap.Fields) == 1 && ap.Fields[0] != nil {
					s.Effects = append(s.Effects, Effect{Name: ap.Fields[0].Name() + ".inc()", Instr: in, Field: ap.Fields[0]})
				}
				continue
			}
			if st, ok := in.(*ssa.Store); ok {
				if v, isB := ssau.ConstBool(st.Val); isB && !v {
					ap := AddrPath(st.Addr)
					if ap.Root == m && len(ap.Fields) == 1 && ap.Fields[0] != nil {
						s.Effects = append(s.Effects, Effect{Name: ap.Fields[0].Name() + "=false", Instr: in, Field: ap.Fields[0]})
					}
				}
			}
		}
	}
	for _, ret := range ssau.Returns(f) {
		e := Exit{Ret: ret}
		v := errResult(ret)
		switch {
		case v == nil || ssau.IsNilConst(v):
			e.Class, e.Source = "success", "return-nil"
		case ssau.NonNilOnAllEdges(v, ret.Block()):
			e.Class = "error"
		default:
			e.Class = "unknown"
		}
		if v != nil && !ssau.IsNilConst(v) {
			names, _, _ := errSources(v)
			e.Source = strings.Join(names, "|")
		}
		for _, ef := range s.Effects {
			if ssau.Reaches(ef.Instr.Block(), ret.Block()) {
				e.May = append(e.May, ef)
			}
		}
		s.Exits = append(s.Exits, e)
	}
	// output buffer: writePacket(w, …) with w = NewBitsWriter(BitsWriterOptions{Writer: &m.<buf>})
	bufs := map[*types.Var]bool{}
	for _, c := range a.writePacketCalls(f) {
		_, w, recvW, _, _ := a.writePacketCall(c)
		if recvW {
			continue // the muxer's output writer, not a table buffer
		}
		bf, note := a.writerBuffer(w, m)
		if bf == nil {
			s.OutNote = note
			bufs[nil] = true
			continue
		}
		bufs[bf] = true
	}
	if len(bufs) == 1 {
		for k := range bufs {
			s.OutBuf = k
		}
	} else if len(bufs) > 1 {
		s.OutNote = "packets are written into more than one buffer"
	} else {
		s.OutNote = "no writePacket call"
	}
	return s
}

// writerBuffer resolves w = astikit.NewBitsWriter(BitsWriterOptions{Writer: &m.<field>}) to the field.
func (a *anchors) writerBuffer(w ssa.Value, m ssa.Value) (*types.Var, string) {
	c, ok := w.(*ssa.Call)
	if !ok || ssau.CalleeName(&c.Call) != load.AstikitPath+".NewBitsWriter" || len(c.Call.Args) != 1 {
		return nil, "writer " + Describe(w) + " is not a direct astikit.NewBitsWriter(...) result"
	}
	lp, ok := LoadPath(c.Call.Args[0])
	if !ok || len(lp.Fields) != 0 {
		return nil, "options of NewBitsWriter are not a local literal"
	}
	opts, ok := lp.Root.(*ssa.Alloc)
	if !ok {
		return nil, "options of NewBitsWriter are not a local literal"
	}
	var found *types.Var
	for _, ref := range *opts.Referrers() {
		fa, ok := ref.(*ssa.FieldAddr)
		if !ok {
			continue
		}
		if n, _ := ssau.FieldName(fa); n != "Writer" {
			continue
		}
		for _, rr := range *fa.Referrers() {
			st, ok := rr.(*ssa.Store)
			if !ok || st.Addr != fa {
				continue
			}
			ap := AddrPath(ssau.StripIface(st.Val))
			if ap.Root == m && len(ap.Fields) == 1 {
				found = ap.Fields[0]
			} else {
				return nil, "Writer option is " + Describe(st.Val) + ", not the address of a Muxer buffer"
			}
		}
	}
	if found == nil {
		return nil, "Writer option of NewBitsWriter not set"
	}
	return found, ""
}

// isWriterWrite recognises m.w.Write(x); returns the buffer field when x = m.<buf>.Bytes().
func (a *anchors) isWriterWrite(in ssa.Instruction, m ssa.Value) (isWrite bool, buf *types.Var) {
	c, ok := in.(*ssa.Call)
	if !ok || !c.Call.IsInvoke() || c.Call.Method.Name() != "Write" || len(c.Call.Args) != 1 {
		return false, nil
	}
	if !isLoadOf(c.Call.Value, m, a.fW) {
		return false, nil
	}
	bc, ok := c.Call.Args[0].(*ssa.Call)
	if !ok || ssau.CalleeName(&bc.Call) != "(*bytes.Buffer).Bytes" || len(bc.Call.Args) != 1 {
		return true, nil
	}
	ap := AddrPath(bc.Call.Args[0])
	if ap.Root == m && len(ap.Fields) == 1 {
		return true, ap.Fields[0]
	}
	return true, nil
}

// genCall is one call site of a table generator.
type genCall struct {
	caller *ssa.Function
	call   *ssa.Call
}

// TablePairing is C05(b).
func TablePairing(p *load.Program, r *report.Report) {
	a := getAnchors(p)
	if !a.ok(r, RuleS1Tables) {
		return
	}
	// generators = Muxer methods with effects (inc on a Muxer counter / clearing a Muxer flag)
	gens, sums := a.generators()
	u := a.newUndoCtx(gens, sums)
	callers := map[*ssa.Function][]genCall{}
	for _, f := range nonTestFuncs(p) {
		for _, g := range gens {
			calls, other := callsTo(f, g)
			for range other {
				r.Unknown(RuleS1Tables, load.FuncName(f)+"/"+g.Name()+"/deferred-or-go", funcPos(p, f), g.Name()+" is called through defer/go: ordering cannot be decided")
			}
			for _, c := range calls {
				callers[g] = append(callers[g], genCall{f, c})
			}
		}
	}
	// undoneByCallers: every caller restores field fv on the failure edge of its call of g
	undoneByCallers := func(g *ssa.Function, fv *types.Var) (bool, string) {
		if len(callers[g]) == 0 {
			return false, "no caller"
		}
		for _, gc := range callers[g] {
			m := recv(gc.caller)
			if m == nil || gc.call.Call.Args[0] != m {
				return false, "called on another Muxer in " + load.FuncName(gc.caller)
			}
			fails, _, checked := failureSuccs(gc.call)
			if !checked {
				return false, load.FuncName(gc.caller) + " does not test the error"
			}
			for _, fb := range fails {
				res := MustReachBlock(gc.caller, fb, Flow{
					Stop: func(in ssa.Instruction) bool { return u.isRestore(in, m, fv, gc.call) },
					Bad: func(in ssa.Instruction) string {
						if _, ok := in.(*ssa.Return); ok {
							return "return"
						}
						return ""
					},
				})
				if !res.OK() {
					return false, load.FuncName(gc.caller) + " returns at " + instrPos(p, res.Terminals[0].Instr) + " without restoring m." + fv.Name()
				}
			}
		}
		return true, ""
	}

	nCC, nFlag := 0, 0
	for _, g := range gens {
		s := sums[g]
		gname := load.FuncName(g)
		m := recv(g)
		for _, ef := range s.Effects {
			switch {
			case strings.HasSuffix(ef.Name, ".inc()") && counterClass(ef.Field) == "cc":
				nCC++
			case strings.HasSuffix(ef.Name, "=false"):
				nFlag++
			}
			// part 1: effects kept on failing exits of the generator itself
			ef := ef
			res := MustReach(g, ef.Instr, Flow{
				Stop: func(in ssa.Instruction) bool { return u.isRestore(in, m, ef.Field, ef.Instr) },
				Bad: func(in ssa.Instruction) string {
					ret, ok := in.(*ssa.Return)
					if !ok {
						return ""
					}
					for _, ex := range s.Exits {
						if ex.Ret == ret && ex.Class != "success" {
							return ex.Class + ":" + ex.Source
						}
					}
					return ""
				},
			})
			nBad := 0
			for _, t := range res.Terminals {
				if t.Kind == "next-iteration" {
					continue
				}
				nBad++
				class, src, _ := strings.Cut(t.Kind, ":")
				key := fmt.Sprintf("%s/%s/kept-on[%s]", gname, ef.Name, src)
				if class == "unknown" {
					r.Unknown(RuleS1Tables, key, instrPos(p, t.Instr), fmt.Sprintf("%s may have happened when %s returns at %s, and the returned error (%s) is neither nil nor provably non-nil", ef.Name, gname, instrPos(p, t.Instr), src))
					continue
				}
				if ok, _ := undoneByCallers(g, ef.Field); ok {
					r.OK(RuleS1Tables, key, instrPos(p, ef.Instr), fmt.Sprintf("%s survives the failing return at %s, but every caller restores m.%s (saved before the call) on the failure edge", ef.Name, instrPos(p, t.Instr), ef.Field.Name()))
					continue
				}
				_, why := undoneByCallers(g, ef.Field)
				r.Bad(RuleS1Tables, key, instrPos(p, ef.Instr), fmt.Sprintf("%s (at %s) is not undone when %s afterwards fails with the error of %s (return at %s; %s): nothing is emitted for the consumed value / cleared flag, the next successful generation skips it; path: %s",
					ef.Name, instrPos(p, ef.Instr), gname, src, instrPos(p, t.Instr), why, PathString(p, t.Path)))
			}
			if nBad == 0 {
				r.OK(RuleS1Tables, fmt.Sprintf("%s/%s/no-failing-exit-after", gname, ef.Name), instrPos(p, ef.Instr), "no error return of "+gname+" is reachable after "+ef.Name+" without the field being restored")
			}
		}
	}
	r.Floor(RuleS1Tables, "continuity-counter inc effects in table generators", nCC, 2)
	r.Floor(RuleS1Tables, "dirty-flag clears in table generators", nFlag, 2)

	// part 2: every caller of a generator emits the generated packet (or undoes the effect)
	nCallers := 0
	for _, g := range gens {
		s := sums[g]
		gname := g.Name()
		for _, gc := range callers[g] {
			f, c := gc.caller, gc.call
			m := recv(f)
			fname := load.FuncName(f)
			nCallers++
			pos := instrPos(p, c)
			if m == nil || len(c.Call.Args) == 0 || c.Call.Args[0] != m {
				r.Unknown(RuleS1Tables, fname+"/"+gname+"/receiver", pos, gname+" is called on a Muxer other than the caller's receiver")
				continue
			}
			if s.OutBuf == nil {
				r.Unknown(RuleS1Tables, fname+"/"+gname+"/output-buffer", pos, "cannot determine the buffer "+gname+" writes its packet into: "+s.OutNote)
				continue
			}
			// effects present when g returns without error
			var effs []Effect
			seen := map[ssa.Instruction]bool{}
			for _, ex := range s.Exits {
				if ex.Class == "error" {
					continue
				}
				for _, e := range ex.May {
					if !seen[e.Instr] {
						seen[e.Instr] = true
						effs = append(effs, e)
					}
				}
			}
			allWritten := a.writeAllLoops(f, m)
			for _, ef := range effs {
				ef := ef
				res := MustReach(f, c, Flow{
					Stop: func(in ssa.Instruction) bool {
						if w, buf := a.isWriterWrite(in, m); w && buf == s.OutBuf {
							return true
						}
						if allWritten[in][s.OutBuf] {
							return true // the exit of a loop that has written every buffer of an array literal
						}
						return u.isRestore(in, m, ef.Field, c)
					},
					Bad: func(in ssa.Instruction) string {
						ret, ok := in.(*ssa.Return)
						if !ok {
							return ""
						}
						v := errResult(ret)
						if v == nil || ssau.IsNilConst(v) {
							return "return-nil"
						}
						names, calls, pure := errSources(v)
						src := strings.Join(names, "|")
						if !ssau.NonNilOnAllEdges(v, ret.Block()) {
							return "maybe-nil:" + src
						}
						if pure {
							own, writer := true, true
							for _, cv := range calls {
								if cv != ssa.Value(c) {
									own = false
								}
								ci, _ := cv.(ssa.Instruction)
								if w, _ := a.isWriterWrite(ci, m); !w {
									writer = false
								}
							}
							if own || writer {
								// the generator itself failed (accounted for by its kept-on obligations), or the
								// output writer failed: the call fails as a whole because of the writer
								return ""
							}
						}
						return src
					},
				})
				key := fmt.Sprintf("%s/%s:%s", fname, gname, ef.Name)
				if res.OK() {
					r.OK(RuleS1Tables, key+"->Write("+s.OutBuf.Name()+")", pos, fmt.Sprintf("after %s returns, every path to a return of %s passes m.w.Write(m.%s.Bytes()) or restores m.%s, or returns the error of %s itself / of m.w.Write", gname, fname, s.OutBuf.Name(), ef.Field.Name(), gname))
					continue
				}
				for _, t := range res.Terminals {
					r.Bad(RuleS1Tables, key+"/lost-on["+t.Kind+"]", instrPos(p, t.Instr),
						fmt.Sprintf("%s has taken effect in %s (at %s) but %s returns at %s (%s) without m.w.Write(m.%s.Bytes()) and without restoring m.%s: the consumed value / cleared flag belongs to a packet that is never emitted; path: %s",
							ef.Name, gname, instrPos(p, ef.Instr), fname, instrPos(p, t.Instr), t.Kind, s.OutBuf.Name(), ef.Field.Name(), PathString(p, t.Path)))
				}
			}
		}
	}
	r.Floor(RuleS1Tables, "call sites of table generators", nCallers, 2)
}

// ---------------------------------------------------------------------------------------------
// C05(c): source of PacketHeader.ContinuityCounter
// ---------------------------------------------------------------------------------------------

// muxFuncs: functions of the mux path that may build packets (declared in muxer.go or methods of Muxer).
func muxFuncs(p *load.Program) []*ssa.Function {
	var out []*ssa.Function
	for _, f := range nonTestFuncs(p) {
		if inFile(p, f, "muxer.go") || recvNamed(f) == "Muxer" {
			out = append(out, f)
		}
	}
	return out
}

// CCSource is C05(c).
func CCSource(p *load.Program, r *report.Report) {
	a := getAnchors(p)
	if !a.ok(r, RuleCCSource) {
		return
	}
	pidPAT, okPAT := PkgConstInt(p, "PIDPAT")
	pidPMT, okPMT := PkgConstInt(p, "pmtStartPID")
	if !okPAT || !okPMT {
		r.Unknown(RuleCCSource, "anchor/constants", "-", "constants PIDPAT / pmtStartPID not found")
		return
	}
	n := 0
	kinds := map[string]int{}
	for _, f := range muxFuncs(p) {
		fname := load.FuncName(f)
		m := recv(f)
		for _, b := range f.Blocks {
			for _, in := range b.Instrs {
				st, ok := in.(*ssa.Store)
				if !ok {
					continue
				}
				// whole-struct stores of a header / packet are outside the accepted idioms
				if pt, ok := st.Addr.Type().Underlying().(*types.Pointer); ok {
					if ssau.IsNamed(pt.Elem(), load.RootPath, "PacketHeader") || ssau.IsNamed(pt.Elem(), load.RootPath, "Packet") {
						if _, isConst := st.Val.(*ssa.Const); !isConst {
							r.Unknown(RuleCCSource, fname+"/whole-struct-store", instrPos(p, st), "a whole "+ssau.ShortType(pt.Elem())+" value is stored to "+AddrPath(st.Addr).String()+": the origin of its ContinuityCounter cannot be followed")
						}
						continue
					}
				}
				ap := AddrPath(st.Addr)
				if ap.Last() != a.fHdrCC {
					continue
				}
				n++
				key := fname + "/Header.ContinuityCounter"
				pos := instrPos(p, st)
				conv, ok := st.Val.(*ssa.Convert)
				var call *ssa.Call
				if ok {
					call, _ = conv.X.(*ssa.Call)
				}
				if call == nil || call.Call.StaticCallee() != a.inc {
					r.Bad(RuleCCSource, key, pos, "the value stored to "+ap.String()+" is "+Describe(st.Val)+", not uint8(<counter>.inc())")
					continue
				}
				if b, ok := conv.Type().Underlying().(*types.Basic); !ok || b.Kind() != types.Uint8 {
					r.Bad(RuleCCSource, key, pos, "the inc() result is converted to "+ssau.ShortType(conv.Type())+", not uint8")
					continue
				}
				cp := AddrPath(call.Call.Args[0])
				// header = ap without the last field; PID stores on the same header
				hdr := Path{Root: ap.Root, Fields: ap.Fields[:len(ap.Fields)-1]}
				pidVals, pidNote := a.pidStores(f, hdr)
				if pidNote != "" {
					r.Unknown(RuleCCSource, key, pos, pidNote)
					continue
				}
				switch {
				case m != nil && cp.Is(m, a.fPatCC), m != nil && cp.Is(m, a.fPmtCC):
					want, wantName := pidPAT, "PIDPAT"
					if cp.Last() == a.fPmtCC {
						want, wantName = pidPMT, "pmtStartPID"
					}
					okPID := true
					desc := "0 (never assigned)"
					if len(pidVals) == 0 {
						okPID = want == 0
					}
					for _, v := range pidVals {
						desc = Describe(v)
						c, isC := ssau.ConstInt(v)
						if !isC || c != want {
							okPID = false
						}
					}
					kinds[cp.Last().Name()]++
					r.Check(okPID, RuleCCSource, key, pos,
						fmt.Sprintf("uint8(m.%s.inc()) on the packet whose PID is the constant %s (%d)", cp.Last().Name(), wantName, want),
						fmt.Sprintf("counter m.%s is used for a packet whose Header.PID is %s; m.%s belongs to PID %s = %d", cp.Last().Name(), desc, cp.Last().Name(), wantName, want))
				case len(cp.Fields) == 1 && cp.Fields[0] == a.fCtxCC:
					lk, isLk := a.esLookup(cp.Root, m)
					if !isLk {
						r.Unknown(RuleCCSource, key, pos, "the counter "+cp.String()+" does not come from a lookup in m.esContexts")
						continue
					}
					kp, okK := LoadPath(stripConv(lk.Index))
					bad := ""
					if !okK || len(kp.Fields) == 0 {
						bad = "the esContexts key " + Describe(lk.Index) + " is not a field load"
					} else if len(pidVals) != 1 {
						bad = fmt.Sprintf("Header.PID of the packet is assigned %d times", len(pidVals))
					} else if pp, okP := LoadPath(pidVals[0]); !okP || !samePath(pp, kp) {
						bad = "the esContexts key is " + Describe(lk.Index) + " but the packet's Header.PID is " + Describe(pidVals[0])
					} else if _, isParam := kp.Root.(*ssa.Parameter); !isParam {
						bad = "the PID is not read from a parameter: " + kp.String()
					} else if w := a.storesTo(f, kp); len(w) > 0 {
						bad = kp.String() + " is modified inside the function at " + strings.Join(w, ",")
					} else if esc := paramEscapes(kp.Root); esc != "" {
						bad = Describe(kp.Root) + " is passed on (" + esc + "): " + kp.String() + " may change between the lookup and the header"
					}
					kinds["cc"]++
					if bad != "" {
						r.Bad(RuleCCSource, key, pos, bad)
					} else {
						r.OK(RuleCCSource, key, pos, "uint8(ctx.cc.inc()) with ctx = m.esContexts["+Describe(lk.Index)+"] and Header.PID = "+Describe(pidVals[0])+": same field, not modified in between")
					}
				default:
					r.Bad(RuleCCSource, key, pos, "the counter "+cp.String()+" is not a per-PID continuity counter (esContext.cc, Muxer.patCC, Muxer.pmtCC)")
				}
			}
		}
	}
	r.Floor(RuleCCSource, "stores to PacketHeader.ContinuityCounter on the mux path", n, 3)
	for _, k := range []string{"cc", "patCC", "pmtCC"} {
		r.Floor(RuleCCSource, "headers fed by "+k, kinds[k], 1)
	}
}

// pidStores returns the values stored to <hdr>.PID inside f.
func (a *anchors) pidStores(f *ssa.Function, hdr Path) (vals []ssa.Value, note string) {
	want := Path{Root: hdr.Root, Fields: append(append([]*types.Var{}, hdr.Fields...), a.fHdrPID)}
	for _, b := range f.Blocks {
		for _, in := range b.Instrs {
			st, ok := in.(*ssa.Store)
			if !ok {
				continue
			}
			if samePath(AddrPath(st.Addr), want) {
				vals = append(vals, st.Val)
			}
		}
	}
	return vals, ""
}

// storesTo lists positions of stores to the given access path inside f.
func (a *anchors) storesTo(f *ssa.Function, ap Path) []string {
	var out []string
	for _, b := range f.Blocks {
		for _, in := range b.Instrs {
			if st, ok := in.(*ssa.Store); ok && samePath(AddrPath(st.Addr), ap) {
				out = append(out, instrPos(a.p, st))
			}
		}
	}
	return out
}

// paramEscapes reports a use of a pointer parameter other than field selection.
func paramEscapes(v ssa.Value) string {
	for _, ref := range *v.Referrers() {
		switch ref.(type) {
		case *ssa.FieldAddr, *ssa.DebugRef:
		default:
			return strings.TrimPrefix(fmt.Sprintf("%T", ref), "*ssa.")
		}
	}
	return ""
}

// ---------------------------------------------------------------------------------------------
// C05(d) / C17(e): constructor constants
// ---------------------------------------------------------------------------------------------

// CounterWidths checks every newWrappingCounter(c) call whose result initialises a field of the
// given classes ("cc" -> 15, "version" -> 31).
func CounterWidths(p *load.Program, r *report.Report, classes map[string]int64, floors map[string]int) {
	a := getAnchors(p)
	if !a.ok(r, RuleWidth) {
		return
	}
	have := map[string]int{}
	for _, f := range nonTestFuncs(p) {
		calls, other := callsTo(f, a.newWC)
		fname := load.FuncName(f)
		for range other {
			r.Unknown(RuleWidth, fname+"/deferred", funcPos(p, f), "newWrappingCounter called through defer/go")
		}
		for _, c := range calls {
			pos := instrPos(p, c)
			var fields []*types.Var
			otherUse := false
			for _, ref := range *c.Referrers() {
				switch x := ref.(type) {
				case *ssa.DebugRef:
				case *ssa.Store:
					if fa, ok := x.Addr.(*ssa.FieldAddr); ok && x.Val == ssa.Value(c) {
						fields = append(fields, fieldVar(fa))
					} else {
						otherUse = true
					}
				default:
					otherUse = true
				}
			}
			if len(fields) != 1 || otherUse {
				r.Unknown(RuleWidth, fname+"/newWrappingCounter", pos, "the result of newWrappingCounter is not stored directly into exactly one struct field: its role cannot be classified")
				continue
			}
			cls := counterClass(fields[0])
			want, tracked := classes[cls]
			key := fname + "/" + ownerName(p, fields[0])
			if cls == "" {
				r.Unknown(RuleWidth, key, pos, "field "+fields[0].Name()+" is neither a continuity counter (cc/*CC) nor a version counter (*Version)")
				continue
			}
			if !tracked {
				continue
			}
			have[cls]++
			v, isC := ssau.ConstInt(c.Call.Args[0])
			if !isC {
				r.Unknown(RuleWidth, key, pos, "wrapAt argument "+Describe(c.Call.Args[0])+" is not a constant")
				continue
			}
			r.Check(v == want, RuleWidth, key, pos, fmt.Sprintf("%s counter constructed with wrapAt = %d", cls, v),
				fmt.Sprintf("%s counter %s constructed with wrapAt = %d, want %d", cls, fields[0].Name(), v, want))
		}
	}
	var cl []string
	for c := range classes {
		cl = append(cl, c)
	}
	sort.Strings(cl)
	for _, c := range cl {
		r.Floor(RuleWidth, c+" counters constructed", have[c], floors[c])
	}
}

// ---------------------------------------------------------------------------------------------
// C05(f): inc call sites
// ---------------------------------------------------------------------------------------------

// IncSites is C05(f): every call of inc on a continuity counter feeds exactly one packet header,
// once per constructed packet.
func IncSites(p *load.Program, r *report.Report) {
	a := getAnchors(p)
	if !a.ok(r, RuleCCSites) {
		return
	}
	per := map[string]int{}
	for _, s := range a.incSites() {
		fname := load.FuncName(s.fn)
		if s.call == nil {
			r.Unknown(RuleCCSites, fname+"/inc/deferred-or-go", funcPos(p, s.fn), "inc is called through defer/go")
			continue
		}
		pos := instrPos(p, s.call)
		if s.field == nil {
			r.Unknown(RuleCCSites, fname+"/inc/receiver", pos, "inc is called on "+s.path.String()+", which is not a struct field: the counter cannot be classified")
			continue
		}
		cls := counterClass(s.field)
		if cls == "version" {
			continue // version counters: C17(e)
		}
		key := fname + "/" + ownerName(p, s.field) + ".inc"
		if cls != "cc" {
			r.Unknown(RuleCCSites, key, pos, "inc on a counter that is neither a continuity counter nor a version counter")
			continue
		}
		per[ownerName(p, s.field)]++
		stores, _, others := a.ccStoreOf(s.call)
		switch {
		case len(stores) == 0:
			r.Bad(RuleCCSites, key+"/feeds-one-header", pos, "inc() is called but its value is not stored into a PacketHeader.ContinuityCounter (other uses: "+strings.Join(others, ", ")+"): the value is consumed without a packet")
			continue
		case len(stores) > 1 || len(others) > 0:
			r.Bad(RuleCCSites, key+"/feeds-one-header", pos, fmt.Sprintf("the inc() value reaches %d header stores and %d other uses (%s); exactly one header must receive it", len(stores), len(others), strings.Join(others, ", ")))
			continue
		}
		r.OK(RuleCCSites, key+"/feeds-one-header", pos, "the only use of the value is uint8(…) stored into "+AddrPath(stores[0].Addr).String())
		ib, sb := s.call.Block(), stores[0].Block()
		ok := ib == sb || (ib.Dominates(sb) && !onCycleAvoiding(sb, ib) && !onCycleAvoiding(ib, sb))
		r.Check(ok, RuleCCSites, key+"/once-per-packet", pos,
			"inc() and the header store execute together (same block, or neither can repeat without the other)",
			fmt.Sprintf("inc() at %s and the header store at %s are not executed one-for-one (one is inside a loop the other is not part of): several packets share a value or values are skipped", pos, instrPos(p, stores[0])))
	}
	for _, k := range []string{"esContext.cc", "Muxer.patCC", "Muxer.pmtCC"} {
		r.Floor(RuleCCSites, "inc sites on "+k, per[k], 1)
	}
}
