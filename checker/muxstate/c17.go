package muxstate

import (
	"fmt"
	"go/token"
	"go/types"
	"sort"
	"strings"

	"astverif/load"
	"astverif/report"
	"astverif/ssau"

	"golang.org/x/tools/go/ssa"
)

// Rule names of the table-scheduling property.
const (
	RuleFirst    = "first"
	RulePeriodic = "periodic"
	RuleForce    = "force"
	RuleCurrent  = "current"
	RuleVersion  = "version"
	RuleAutoPID  = "autopid"
)

// ---------------------------------------------------------------------------------------------
// C17(a) First
// ---------------------------------------------------------------------------------------------

// First checks the ordering rules that make the tables precede the first PES packet.
func First(p *load.Program, r *report.Report) {
	a := getAnchors(p)
	if !a.ok(r, RuleFirst) {
		return
	}
	a.firstNewMuxer(r)
	a.firstWriteData(r)
}

func (a *anchors) firstNewMuxer(r *report.Report) {
	p := a.p
	f := p.Func("NewMuxer")
	if f == nil {
		r.Unknown(RuleFirst, "anchor/NewMuxer", "-", "NewMuxer not found")
		return
	}
	key := "NewMuxer/counter-init-after-options"
	// option applications: dynamic calls of a function value read from a variadic/slice parameter
	var optCalls []*ssa.Call
	for _, b := range f.Blocks {
		for _, in := range b.Instrs {
			c, ok := in.(*ssa.Call)
			if !ok || c.Call.IsInvoke() || c.Call.StaticCallee() != nil {
				continue
			}
			if _, isB := c.Call.Value.(*ssa.Builtin); isB {
				continue
			}
			for _, l := range ssau.Leaves(c.Call.Value) {
				if l == nil {
					continue
				}
				if lp, ok := LoadPath(l); ok {
					if _, isParam := lp.Root.(*ssa.Parameter); isParam {
						optCalls = append(optCalls, c)
						break
					}
				}
				if _, isParam := l.(*ssa.Parameter); isParam {
					optCalls = append(optCalls, c)
					break
				}
			}
		}
	}
	if !r.Floor(RuleFirst, "option applications in NewMuxer", len(optCalls), 1) {
		return
	}
	var stores []*ssa.Store
	for _, s := range WhoWrites(p, "Muxer", "tablesRetransmitCounter") {
		if st, ok := s.Instr.(*ssa.Store); ok && s.Fn == f {
			stores = append(stores, st)
		}
	}
	// final stores: those no other store can follow (earlier ones are overwritten)
	var finals []*ssa.Store
	for _, s := range stores {
		last := true
		for _, t := range stores {
			if t != s && reachesInstr(s, t) {
				last = false
			}
		}
		if last {
			finals = append(finals, s)
		}
	}
	if len(finals) != 1 {
		r.Check(false, RuleFirst, key, funcPos(p, f), "", fmt.Sprintf("NewMuxer has %d final stores to tablesRetransmitCounter (want exactly one, after the options): the first WriteData would not emit the tables", len(finals)))
		return
	}
	st := finals[0]
	pos := instrPos(p, st)
	root := AddrPath(st.Addr).Root
	lp, ok := LoadPath(st.Val)
	if !ok || !lp.Is(root, a.fPeriod) {
		r.Bad(RuleFirst, key, pos, "tablesRetransmitCounter is initialised from "+Describe(st.Val)+", not from the same Muxer's tablesRetransmitPeriod")
		return
	}
	ld := st.Val.(*ssa.UnOp)
	var problems []string
	for _, oc := range optCalls {
		if reachesInstr(st, oc) {
			problems = append(problems, "the store can be followed by the option call at "+instrPos(p, oc))
		}
		if reachesInstr(ld, oc) {
			problems = append(problems, "the period is read before the option call at "+instrPos(p, oc))
		}
	}
	for _, ret := range ssau.Returns(f) {
		if !(st.Block() == ret.Block() || st.Block().Dominates(ret.Block())) {
			problems = append(problems, "the return at "+instrPos(p, ret)+" is reachable without the store")
		}
	}
	r.Check(len(problems) == 0, RuleFirst, key, pos,
		fmt.Sprintf("m.tablesRetransmitCounter = m.tablesRetransmitPeriod is executed on every path to the return and no option call (%d site(s)) can run after the period is read", len(optCalls)),
		"an option changing the period is not honoured for the first emission: "+strings.Join(problems, "; "))
}

func (a *anchors) firstWriteData(r *report.Report) {
	p := a.p
	f := p.Func("Muxer.WriteData")
	rt := p.Func("Muxer.retransmitTables")
	if f == nil || rt == nil {
		r.Unknown(RuleFirst, "anchor/(*Muxer).WriteData", "-", "WriteData or retransmitTables not found")
		return
	}
	m := recv(f)
	calls, other := callsTo(f, rt)
	if len(calls) != 1 || len(other) > 0 {
		r.Check(false, RuleFirst, "(*Muxer).WriteData/retransmitTables-call", funcPos(p, f), "", fmt.Sprintf("WriteData calls retransmitTables %d times (%d deferred); exactly one plain call is expected", len(calls), len(other)))
		return
	}
	c := calls[0]
	pos := instrPos(p, c)
	// every emission of a PES packet comes after it
	var wps []*ssa.Call
	for _, b := range f.Blocks {
		for _, in := range b.Instrs {
			if w, _, ok := a.packetWriteOf(in, recv(f)); ok {
				wps = append(wps, w)
			}
		}
	}
	r.Floor(RuleFirst, "writePacket calls in WriteData", len(wps), 1)
	var late []string
	for _, w := range wps {
		if !ssau.InstrBefore(c, w) {
			late = append(late, instrPos(p, w))
		}
	}
	r.Check(len(late) == 0, RuleFirst, "(*Muxer).WriteData/retransmitTables-dominates-writePacket", pos,
		fmt.Sprintf("the call m.retransmitTables(...) dominates all %d writePacket call(s)", len(wps)),
		"writePacket at "+strings.Join(late, ", ")+" can run without / before retransmitTables: PES packets may precede the tables")
	// and it is itself only reached when the PID lookup succeeded
	key := "(*Muxer).WriteData/PID-check-dominates-retransmitTables"
	found := false
	detail := "no dominating test of the comma-ok result of m.esContexts[...]"
	for _, e := range ssau.DominatingEdges(c.Block()) {
		cond, neg := stripNot(e.If.Cond), false
		for v := e.If.Cond; ; {
			u, ok := v.(*ssa.UnOp)
			if !ok || u.Op != token.NOT {
				break
			}
			neg = !neg
			v = u.X
		}
		ex, ok := cond.(*ssa.Extract)
		if !ok || ex.Index != 1 {
			continue
		}
		lk, ok := ex.Tuple.(*ssa.Lookup)
		if !ok || !lk.CommaOk || !isLoadOf(lk.X, m, a.fESContexts) {
			continue
		}
		okSucc := 0
		if neg {
			okSucc = 1
		}
		if e.Succ != okSucc {
			detail = "retransmitTables is on the NOT-found edge of the lookup"
			continue
		}
		// the other edge must return a non-nil error without doing anything
		fail := e.If.Block().Succs[1-okSucc]
		ret, isRet := fail.Instrs[len(fail.Instrs)-1].(*ssa.Return)
		clean := isRet && ExemptReturn(ret)
		for _, in := range fail.Instrs {
			if _, isCall := in.(ssa.CallInstruction); isCall {
				clean = false
			}
		}
		if !clean {
			detail = "the not-found edge does not return a non-nil error immediately"
			continue
		}
		found = true
	}
	r.Check(found, RuleFirst, key, pos,
		"retransmitTables is only reached on the found edge of `ctx, ok := m.esContexts[...]`; the other edge returns a non-nil error without any call: a rejected WriteData neither counts nor emits",
		"a WriteData call for an unknown PID can count towards / trigger a table emission: "+detail)
}

// ---------------------------------------------------------------------------------------------
// C17(b) Periodic
// ---------------------------------------------------------------------------------------------

// Periodic checks retransmitTables and the who-may-write set of the retransmit counter.
func Periodic(p *load.Program, r *report.Report) {
	a := getAnchors(p)
	if !a.ok(r, RulePeriodic) {
		return
	}
	f := p.Func("Muxer.retransmitTables")
	wt := p.Func("Muxer.WriteTables")
	if f == nil || wt == nil {
		r.Unknown(RulePeriodic, "anchor/(*Muxer).retransmitTables", "-", "retransmitTables or WriteTables not found")
		return
	}
	fname := load.FuncName(f)
	m := recv(f)
	if len(f.Params) != 2 || !isBool(f.Params[1].Type()) {
		r.Unknown(RulePeriodic, fname+"/signature", funcPos(p, f), "retransmitTables no longer takes exactly one bool argument")
		return
	}
	force := f.Params[1]

	// who-may-write
	sites := WhoWrites(p, "Muxer", "tablesRetransmitCounter")
	writers := WriterFuncs(sites)
	allowed := map[string]bool{"NewMuxer": true, fname: true}
	var extra []string
	for _, w := range writers {
		if !allowed[w] {
			extra = append(extra, w)
		}
	}
	if esc := AddressEscapes(p, a.fCounter); len(esc) > 0 {
		r.Unknown(RulePeriodic, "who-may-write/Muxer.tablesRetransmitCounter", "-", "the address of the counter is taken at "+strings.Join(esc, ", ")+": writers cannot be enumerated")
	} else {
		r.Check(len(extra) == 0 && len(writers) == 2, RulePeriodic, "who-may-write/Muxer.tablesRetransmitCounter", funcPos(p, f),
			"stores to the counter occur exactly in "+strings.Join(writers, ", ")+" (an explicit WriteTables leaves the schedule alone)",
			"tablesRetransmitCounter is written in {"+strings.Join(writers, ", ")+"}, want exactly {NewMuxer, "+fname+"}")
	}

	// classify the stores in retransmitTables
	var incs, resets, others []*ssa.Store
	for _, s := range sites {
		st, ok := s.Instr.(*ssa.Store)
		if !ok || s.Fn != f {
			continue
		}
		if !AddrPath(st.Addr).Is(m, a.fCounter) {
			others = append(others, st)
			continue
		}
		if bo, ok := st.Val.(*ssa.BinOp); ok && bo.Op == token.ADD {
			if c, isC := ssau.ConstInt(bo.Y); isC && c == 1 && isLoadOf(bo.X, m, a.fCounter) {
				incs = append(incs, st)
				continue
			}
			if c, isC := ssau.ConstInt(bo.X); isC && c == 1 && isLoadOf(bo.Y, m, a.fCounter) {
				incs = append(incs, st)
				continue
			}
		}
		if c, isC := ssau.ConstInt(st.Val); isC && c == 0 {
			resets = append(resets, st)
			continue
		}
		others = append(others, st)
	}
	for _, o := range others {
		r.Bad(RulePeriodic, fname+"/other-store", instrPos(p, o), "tablesRetransmitCounter is assigned "+Describe(o.Val)+": neither the +1 step nor the reset to 0")
	}
	// b1: exactly one unconditional increment, first
	key := fname + "/one-unconditional-increment-first"
	if len(incs) != 1 {
		r.Bad(RulePeriodic, key, funcPos(p, f), fmt.Sprintf("%d increments of tablesRetransmitCounter per call, want exactly one", len(incs)))
		return
	}
	inc := incs[0]
	{
		var problems []string
		if inc.Block() != f.Blocks[0] {
			problems = append(problems, "the increment is not in the entry block (it is conditional)")
		} else {
			for _, in := range f.Blocks[0].Instrs[:ssau.IndexOf(inc)] {
				switch in.(type) {
				case *ssa.FieldAddr, *ssa.UnOp, *ssa.BinOp, *ssa.DebugRef, *ssa.Alloc:
				case *ssa.Store:
					if a, ok := in.(*ssa.Store).Addr.(*ssa.Alloc); ok && ssau.SpillSlot(a) {
						continue
					}
					problems = append(problems, "a store precedes the increment")
				default:
					problems = append(problems, fmt.Sprintf("%s precedes the increment", strings.TrimPrefix(fmt.Sprintf("%T", in), "*ssa.")))
				}
			}
		}
		if onCycleAvoiding(inc.Block(), nil) {
			problems = append(problems, "the increment is inside a loop")
		}
		r.Check(len(problems) == 0, RulePeriodic, key, instrPos(p, inc), "m.tablesRetransmitCounter++ is the first effect of every call, executed exactly once", strings.Join(problems, "; "))
	}

	// b2: the early return is taken iff !force && counter < period (truth table over the CFG)
	wtCalls, _ := callsTo(f, wt)
	if len(wtCalls) != 1 {
		r.Bad(RulePeriodic, fname+"/WriteTables-call", funcPos(p, f), fmt.Sprintf("retransmitTables calls WriteTables %d times, want once", len(wtCalls)))
		return
	}
	wc := wtCalls[0]
	var cmpLoads []*ssa.UnOp
	atomize := func(v ssa.Value) (string, bool, bool) {
		if v == ssa.Value(force) {
			return "force", false, true
		}
		bo, ok := v.(*ssa.BinOp)
		if !ok {
			return "", false, false
		}
		cx, px := isLoadOf(bo.X, m, a.fCounter), isLoadOf(bo.X, m, a.fPeriod)
		cy, py := isLoadOf(bo.Y, m, a.fCounter), isLoadOf(bo.Y, m, a.fPeriod)
		var id string
		var neg bool
		switch {
		case cx && py:
			switch bo.Op {
			case token.LSS:
				id = "counter<period"
			case token.GEQ:
				id, neg = "counter<period", true
			default:
				return "", false, false
			}
			cmpLoads = append(cmpLoads, bo.X.(*ssa.UnOp))
		case px && cy:
			switch bo.Op {
			case token.GTR:
				id = "counter<period"
			case token.LEQ:
				id, neg = "counter<period", true
			default:
				return "", false, false
			}
			cmpLoads = append(cmpLoads, bo.Y.(*ssa.UnOp))
		default:
			return "", false, false
		}
		return id, neg, true
	}
	isStop := func(b *ssa.BasicBlock) bool {
		if b == wc.Block() {
			return true
		}
		_, isRet := b.Instrs[len(b.Instrs)-1].(*ssa.Return)
		return isRet
	}
	var earlyRet *ssa.Return
	rows, atoms, err := TruthTable(atomize, []string{"force", "counter<period"}, func(s *Sim) (string, error) {
		b, err := s.WalkUntil(f.Blocks[0], isStop)
		if err != nil {
			return "", err
		}
		if b == nil {
			return "end", nil
		}
		if b == wc.Block() {
			return "emit", nil
		}
		ret := b.Instrs[len(b.Instrs)-1].(*ssa.Return)
		earlyRet = ret
		ev := errResult(ret)
		n, isC := ssau.ConstInt(ret.Results[0])
		if ev != nil && ssau.IsNilConst(ev) && isC && n == 0 {
			return "skip", nil
		}
		return "other-return(" + Describe(ret.Results[0]) + "," + Describe(ev) + ")", nil
	})
	key = fname + "/early-return-iff-not-forced-and-below-period"
	if err != nil {
		r.Unknown(RulePeriodic, key, funcPos(p, f), "cannot extract the boolean structure of the guard: "+err.Error())
	} else {
		var wrong []string
		for _, row := range rows {
			want := "emit"
			if !row.Val["force"] && row.Val["counter<period"] {
				want = "skip"
			}
			if row.Out != want {
				wrong = append(wrong, fmt.Sprintf("[%s] -> %s, want %s", valString(atoms, row.Val), row.Out, want))
			}
		}
		pos := funcPos(p, f)
		if earlyRet != nil {
			pos = instrPos(p, earlyRet)
		}
		// the compared counter value is the incremented one
		for _, ld := range cmpLoads {
			if !ssau.InstrBefore(inc, ld) {
				wrong = append(wrong, "the counter is compared before it is incremented (off by one)")
				break
			}
		}
		if len(atoms) > 2 {
			wrong = append(wrong, "the guard depends on further conditions: "+strings.Join(atoms[2:], ", "))
		}
		r.Check(len(wrong) == 0, RulePeriodic, key, pos,
			fmt.Sprintf("truth table over {force, counter<period} (%d rows, CFG simulated): `return 0, nil` before WriteTables iff !force && counter < period; the counter is read after the increment", len(rows)),
			"the schedule differs from `skip iff !force && counter < period`: "+strings.Join(wrong, "; "))
	}

	// b3: reset only on the success edge of WriteTables, and on every success return
	key = fname + "/reset-on-success-only"
	var problems []string
	if len(resets) == 0 {
		problems = append(problems, "the counter is never reset to 0 after an emission: after the first period every WriteData re-emits the tables")
	}
	for _, rs := range resets {
		if !onSuccessEdgeOf(rs.Block(), wc) {
			problems = append(problems, "the reset at "+instrPos(p, rs)+" is not confined to the err == nil edge of WriteTables")
		}
	}
	for _, ret := range ssau.Returns(f) {
		ev := errResult(ret)
		if ev == nil || !ssau.IsNilConst(ev) || !onSuccessEdgeOf(ret.Block(), wc) {
			continue
		}
		covered := false
		for _, rs := range resets {
			if rs.Block() == ret.Block() || rs.Block().Dominates(ret.Block()) {
				covered = true
			}
		}
		if !covered && len(resets) > 0 {
			problems = append(problems, "the success return at "+instrPos(p, ret)+" is reachable without the reset")
		}
	}
	pos := funcPos(p, f)
	if len(resets) > 0 {
		pos = instrPos(p, resets[0])
	}
	r.Check(len(problems) == 0, RulePeriodic, key, pos, "m.tablesRetransmitCounter = 0 happens exactly on the success edge of WriteTables and precedes every success return", strings.Join(problems, "; "))
}

// ---------------------------------------------------------------------------------------------
// C17(c) RAP forcing
// ---------------------------------------------------------------------------------------------

// Force checks that the force argument of retransmitTables is the conjunction of the three atoms.
func Force(p *load.Program, r *report.Report) {
	a := getAnchors(p)
	if !a.ok(r, RuleForce) {
		return
	}
	f := p.Func("Muxer.WriteData")
	rt := p.Func("Muxer.retransmitTables")
	if f == nil || rt == nil || len(f.Params) != 2 {
		r.Unknown(RuleForce, "anchor/(*Muxer).WriteData", "-", "WriteData(d) or retransmitTables not found")
		return
	}
	m, d := f.Params[0], f.Params[1]
	calls, _ := callsTo(f, rt)
	r.Floor(RuleForce, "retransmitTables calls in WriteData", len(calls), 1)
	const aAF, aRAI, aPCR = "d.AdaptationField!=nil", "d.AdaptationField.RandomAccessIndicator", "d.PID==m.pmt.PCRPID"
	atomize := func(v ssa.Value) (string, bool, bool) {
		if isLoadOf(v, d, a.fDataAF, a.fAFRAI) {
			return aRAI, false, true
		}
		bo, ok := v.(*ssa.BinOp)
		if !ok || (bo.Op != token.EQL && bo.Op != token.NEQ) {
			return "", false, false
		}
		neg := bo.Op == token.NEQ
		if nc, ok := ssau.AsNilCompare(bo); ok && isLoadOf(nc.X, d, a.fDataAF) {
			return aAF, !nc.Ne, true
		}
		if (isLoadOf(bo.X, d, a.fDataPID) && isLoadOf(bo.Y, m, a.fPmt, a.fPMTPCRPID)) ||
			(isLoadOf(bo.Y, d, a.fDataPID) && isLoadOf(bo.X, m, a.fPmt, a.fPMTPCRPID)) {
			return aPCR, neg, true
		}
		return "", false, false
	}
	for _, c := range calls {
		key := load.FuncName(f) + "/force=AF!=nil&&RAI&&PID==PCRPID"
		pos := instrPos(p, c)
		if len(c.Call.Args) != 2 {
			r.Unknown(RuleForce, key, pos, "unexpected argument list of retransmitTables")
			continue
		}
		arg := c.Call.Args[1]
		rows, atoms, err := TruthTable(atomize, []string{aAF, aRAI, aPCR}, func(s *Sim) (string, error) {
			b, err := s.Eval(arg)
			return fmt.Sprint(b), err
		})
		if err != nil {
			r.Unknown(RuleForce, key, pos, "the force argument "+Describe(arg)+" has a shape outside the accepted idioms: "+err.Error())
			continue
		}
		var wrong []string
		depends := map[string]bool{}
		for _, row := range rows {
			want := row.Val[aAF] && row.Val[aRAI] && row.Val[aPCR]
			if row.Out != fmt.Sprint(want) {
				wrong = append(wrong, fmt.Sprintf("[%s] -> %s", valString(atoms, row.Val), row.Out))
			}
		}
		// which atoms does the value depend on?
		for i, at := range atoms {
			for _, r1 := range rows {
				for _, r2 := range rows {
					same := true
					for j, o := range atoms {
						if j != i && r1.Val[o] != r2.Val[o] {
							same = false
						}
					}
					if same && r1.Val[at] != r2.Val[at] && r1.Out != r2.Out {
						depends[at] = true
					}
				}
			}
		}
		var missing, extra []string
		for _, at := range []string{aAF, aRAI, aPCR} {
			if !depends[at] {
				missing = append(missing, at)
			}
		}
		for _, at := range atoms[3:] {
			if depends[at] {
				extra = append(extra, strings.TrimPrefix(at, "?"))
			}
		}
		msg := ""
		if len(missing) > 0 {
			msg += "missing atom(s): " + strings.Join(missing, ", ") + "; "
		}
		if len(extra) > 0 {
			msg += "additional atom(s): " + strings.Join(extra, ", ") + "; "
		}
		if len(wrong) > 4 {
			wrong = append(wrong[:4], "…")
		}
		r.Check(len(wrong) == 0, RuleForce, key, pos,
			fmt.Sprintf("truth table of the argument over its %d atoms equals AdaptationField != nil && RandomAccessIndicator && PID == pmt.PCRPID (short-circuit blocks and phi walked)", len(atoms)),
			"the force argument is not the conjunction of the three conditions: "+msg+"differing rows: "+strings.Join(wrong, " "))
	}
}

// ---------------------------------------------------------------------------------------------
// C17(d) Current
// ---------------------------------------------------------------------------------------------

// Current checks that the PMT is serialised from live state and that every mutation is flagged
// and mirrored in esContexts.
func Current(p *load.Program, r *report.Report) {
	a := getAnchors(p)
	if !a.ok(r, RuleCurrent) {
		return
	}
	a.liveTables(r)
	a.mustFlag(r)
	a.pairwise(r)
}

// containsAlloc: does the object graph built inside f from root (stores of local allocations
// into fields / elements) contain target?
func containsAlloc(f *ssa.Function, root, target ssa.Value) bool {
	seen := map[ssa.Value]bool{}
	var rec func(v ssa.Value) bool
	rec = func(v ssa.Value) bool {
		if v == target {
			return true
		}
		if seen[v] {
			return false
		}
		seen[v] = true
		for _, b := range f.Blocks {
			for _, in := range b.Instrs {
				st, ok := in.(*ssa.Store)
				if !ok || AddrPath(st.Addr).Root != v {
					continue
				}
				val := st.Val
				if sl, ok := val.(*ssa.Slice); ok {
					val = sl.X
				}
				if _, isAlloc := val.(*ssa.Alloc); isAlloc && rec(val) {
					return true
				}
			}
		}
		return false
	}
	return rec(root)
}

func (a *anchors) liveTables(r *report.Report) {
	p := a.p
	type inst struct {
		fn    string
		field *types.Var
		okVal func(f *ssa.Function, v ssa.Value) (bool, string)
	}
	insts := []inst{
		{"Muxer.generatePMT", a.fSynDataPMT, func(f *ssa.Function, v ssa.Value) (bool, string) {
			fa, ok := v.(*ssa.FieldAddr)
			if ok && AddrPath(fa).Is(recv(f), a.fPmt) {
				return true, "&m.pmt"
			}
			return false, Describe(v)
		}},
		{"Muxer.generatePAT", a.fSynDataPAT, func(f *ssa.Function, v ssa.Value) (bool, string) {
			c, ok := v.(*ssa.Call)
			tp := p.Func("programMap.toPATDataUnlocked")
			if ok && tp != nil && c.Call.StaticCallee() == tp && len(c.Call.Args) == 1 {
				if lp, ok := LoadPath(c.Call.Args[0]); ok && lp.Is(recv(f), a.fPm) {
					return true, "m.pm.toPATDataUnlocked()"
				}
			}
			return false, Describe(v)
		}},
	}
	for _, in := range insts {
		f := p.Func(in.fn)
		if f == nil {
			r.Unknown(RuleCurrent, "anchor/"+in.fn, "-", in.fn+" not found")
			continue
		}
		fname := load.FuncName(f)
		key := fname + "/serialises-live-" + in.field.Name()
		var stores []*ssa.Store
		for _, b := range f.Blocks {
			for _, i := range b.Instrs {
				if st, ok := i.(*ssa.Store); ok && AddrPath(st.Addr).Last() == in.field {
					stores = append(stores, st)
				}
			}
		}
		if len(stores) == 0 {
			r.Unknown(RuleCurrent, key, funcPos(p, f), "no store to PSISectionSyntaxData."+in.field.Name()+" in "+fname)
			continue
		}
		wcalls, _ := callsTo(f, a.writePSIData)
		// a helper that serialises and packetises what it is handed: every return of it that can succeed is dominated by
		// writePSIData(…, <its parameter>) and by writePacket. A call of it stands for both calls, on the argument passed.
		wp0 := p.Func("writePacket")
		var helperCalls []*ssa.Call
		helperData := map[*ssa.Call]ssa.Value{}
		for _, ci := range ssau.Calls(f) {
			c, isCall := ci.(*ssa.Call)
			if !isCall {
				continue
			}
			h := c.Call.StaticCallee()
			if h == nil || h.Pkg != f.Pkg || len(h.Blocks) == 0 || h == a.writePSIData || h == wp0 || wp0 == nil {
				continue
			}
			hw, _ := callsTo(h, a.writePSIData)
			hp, _ := callsTo(h, wp0)
			k := -1
			for _, w := range hw {
				for i, prm := range h.Params {
					if len(w.Call.Args) == 2 && w.Call.Args[1] == ssa.Value(prm) {
						k = i
					}
				}
			}
			if k < 0 || len(hp) == 0 || k >= len(c.Call.Args) {
				continue
			}
			good, nret := true, 0
			for _, ret := range ssau.Returns(h) {
				ei := ssau.ErrorResultIndex(h.Signature)
				if ei >= 0 && ssau.ProvablyNonNilError(ret.Results[ei], ret.Block()) {
					continue
				}
				nret++
				dom := func(cs []*ssa.Call) bool {
					for _, x := range cs {
						if (x.Block() == ret.Block() && ssau.InstrBefore(x, ret)) || (x.Block() != ret.Block() && x.Block().Dominates(ret.Block())) {
							return true
						}
					}
					return false
				}
				if !dom(hw) || !dom(hp) {
					good = false
				}
			}
			if good && nret > 0 {
				helperCalls = append(helperCalls, c)
				helperData[c] = c.Call.Args[k]
			}
		}
		for _, st := range stores {
			ok, desc := in.okVal(f, st.Val)
			pos := instrPos(p, st)
			if !ok {
				r.Bad(RuleCurrent, key, pos, "PSISectionSyntaxData."+in.field.Name()+" is "+desc+", not the muxer's live state: the emitted table can be stale")
				continue
			}
			// the section data object is what writePSIData receives
			linked := false
			for _, wc := range wcalls {
				if len(wc.Call.Args) == 2 && containsAlloc(f, wc.Call.Args[1], AddrPath(st.Addr).Root) {
					linked = true
				}
			}
			for _, hc := range helperCalls {
				if containsAlloc(f, helperData[hc], AddrPath(st.Addr).Root) {
					linked = true
				}
			}
			if !linked {
				r.Unknown(RuleCurrent, key, pos, "cannot link the PSISectionSyntaxData literal to the argument of writePSIData")
				continue
			}
			r.OK(RuleCurrent, key, pos, "PSISectionSyntaxData."+in.field.Name()+" = "+desc+" (live state at generation time), and that literal is reachable from the PSIData passed to writePSIData")
		}
		// every successful return regenerated the table: it is dominated by the serialisation of the live state and by the
		// packetisation of its bytes (a shortcut that re-emits cached bytes would announce a stale stream list / PCR PID)
		rkey := fname + "/regenerates-on-every-success"
		wp := p.Func("writePacket")
		var pcalls []*ssa.Call
		if wp != nil {
			pcalls = a.writePacketCalls(f)
		}
		domAny := func(cs []*ssa.Call, ret *ssa.Return) bool {
			for _, c := range cs {
				if c.Block() == ret.Block() && ssau.InstrBefore(c, ret) {
					return true
				}
				if c.Block() != ret.Block() && c.Block().Dominates(ret.Block()) {
					return true
				}
			}
			return false
		}
		var bad []string
		nsucc := 0
		for _, ret := range ssau.Returns(f) {
			if len(ret.Results) != 1 || ssau.ProvablyNonNilError(ret.Results[0], ret.Block()) {
				continue
			}
			nsucc++
			if domAny(helperCalls, ret) {
				continue // serialised and packetised by the helper
			}
			if !domAny(wcalls, ret) {
				bad = append(bad, "the return at "+instrPos(p, ret)+" can succeed without writePSIData having serialised the live table")
			} else if !domAny(pcalls, ret) {
				bad = append(bad, "the return at "+instrPos(p, ret)+" can succeed without writePacket having packetised the serialised table")
			}
		}
		switch {
		case nsucc == 0:
			r.Unknown(RuleCurrent, rkey, funcPos(p, f), "no return that can carry a nil error found in "+fname)
		case len(bad) > 0:
			r.Bad(RuleCurrent, rkey, funcPos(p, f), strings.Join(bad, "; "))
		default:
			r.OK(RuleCurrent, rkey, funcPos(p, f), fmt.Sprintf("%d return(s) that can carry a nil error, each dominated by writePSIData(live table) and by writePacket", nsucc))
		}
	}
}

// flagStoreTrue recognises `<root>.flag = true`.
func flagStoreTrue(in ssa.Instruction, root ssa.Value, flag *types.Var) bool {
	st, ok := in.(*ssa.Store)
	if !ok {
		return false
	}
	b, isB := ssau.ConstBool(st.Val)
	return isB && b && AddrPath(st.Addr).Is(root, flag)
}

// checkFlagged: after mutation `site` in f every path to a non-failing return stores true to flag
// (or the flag was set before, unconditionally, and is not cleared in f).
func (a *anchors) checkFlagged(r *report.Report, f *ssa.Function, site ssa.Instruction, root ssa.Value, flag *types.Var, what string) {
	p := a.p
	fname := load.FuncName(f)
	key := fmt.Sprintf("who-must-flag/%s/%s->%s", fname, what, flag.Name())
	pos := instrPos(p, site)
	res := MustReach(f, site, Flow{
		Stop: func(in ssa.Instruction) bool { return flagStoreTrue(in, root, flag) },
		Bad: func(in ssa.Instruction) string {
			if ret, ok := in.(*ssa.Return); ok && !ExemptReturn(ret) {
				return "return"
			}
			return ""
		},
	})
	// re-executing the mutation (loop) before flagging is fine as long as the flag follows: ignore "next-iteration"
	var bad []Terminal
	for _, t := range res.Terminals {
		if t.Kind != "next-iteration" {
			bad = append(bad, t)
		}
	}
	if len(bad) == 0 {
		r.OK(RuleCurrent, key, pos, fmt.Sprintf("every path from the write of %s to a return without error passes %s = true", what, flag.Name()))
		return
	}
	// alternative: flag set before the write on every path, never cleared in f
	before, cleared := false, false
	for _, b := range f.Blocks {
		for _, in := range b.Instrs {
			if flagStoreTrue(in, root, flag) && ssau.InstrBefore(in, site) {
				before = true
			}
			if st, ok := in.(*ssa.Store); ok && AddrPath(st.Addr).Last() == flag && !flagStoreTrue(in, root, flag) {
				cleared = true
			}
		}
	}
	if before && !cleared {
		r.OK(RuleCurrent, key, pos, flag.Name()+" = true dominates the write and the flag is not cleared in "+fname)
		return
	}
	t := bad[0]
	r.Bad(RuleCurrent, key, pos, fmt.Sprintf("%s is changed at %s but %s returns at %s without setting %s: the next table is emitted with the old version number (or the change is versioned late); path: %s",
		what, pos, fname, instrPos(p, t.Instr), flag.Name(), PathString(p, t.Path)))
}

func (a *anchors) mustFlag(r *report.Report) {
	p := a.p
	n := 0
	for _, fp := range []string{"pmt.ElementaryStreams", "pmt.PCRPID"} {
		for _, s := range WhoWrites(p, "Muxer", fp) {
			if s.Fresh && !s.Exact {
				continue // some other PMTData under construction (the demuxer's parser)
			}
			if s.Fresh {
				r.Trivial(RuleCurrent, fmt.Sprintf("who-must-flag/%s/%s/initialisation", load.FuncName(s.Fn), fp), instrPos(p, s.Instr), "store into an object under construction (fresh allocation)")
				continue
			}
			n++
			if !s.Exact || len(s.Path.Fields) != 2 || s.Path.Root != recv(s.Fn) {
				r.Unknown(RuleCurrent, fmt.Sprintf("who-must-flag/%s/%s", load.FuncName(s.Fn), fp), instrPos(p, s.Instr), "store to "+s.Path.String()+" through a pointer whose origin is not the method receiver: cannot tell whether the muxer's PMT is changed")
				continue
			}
			a.checkFlagged(r, s.Fn, s.Instr, s.Path.Root, a.fPmtUpdated, fp)
		}
	}
	r.Floor(RuleCurrent, "mutations of Muxer.pmt.{ElementaryStreams,PCRPID}", n, 3)
	// program map: setUnlocked / unsetUnlocked on m.pm
	nPM := 0
	set, unset := p.Func("programMap.setUnlocked"), p.Func("programMap.unsetUnlocked")
	for _, f := range nonTestFuncs(p) {
		for _, mut := range []*ssa.Function{set, unset} {
			if mut == nil {
				continue
			}
			calls, _ := callsTo(f, mut)
			for _, c := range calls {
				lp, ok := LoadPath(c.Call.Args[0])
				if st := ssau.StoredInField(c.Call.Args[0], load.RootPath, "Muxer", "pm"); st != nil {
					// the map is filled before it is put into the Muxer literal: the mutation is one of that muxer's pm
					nPM++
					a.checkFlagged(r, f, c, st.Addr.(*ssa.FieldAddr).X, a.fPmUpdated, "pm."+mut.Name())
					continue
				}
				if !ok || lp.Last() != a.fPm {
					continue // a programMap that is not a Muxer's (the demuxer has its own)
				}
				nPM++
				if len(lp.Fields) != 1 {
					r.Unknown(RuleCurrent, fmt.Sprintf("who-must-flag/%s/pm", load.FuncName(f)), instrPos(p, c), "program map reached through "+lp.String())
					continue
				}
				a.checkFlagged(r, f, c, lp.Root, a.fPmUpdated, "pm."+mut.Name())
			}
		}
	}
	r.Floor(RuleCurrent, "mutations of Muxer.pm", nPM, 1)
	// direct element writes to programMap.p outside programMap's own methods
	for _, s := range WhoWrites(p, "programMap", "p") {
		if recvNamed(s.Fn) == "programMap" || s.Fresh {
			continue
		}
		r.Unknown(RuleCurrent, fmt.Sprintf("who-must-flag/%s/programMap.p", load.FuncName(s.Fn)), instrPos(p, s.Instr), "programMap.p is written outside programMap's methods: cannot attribute the write to a muxer")
	}
}

// pairwise: esContexts and pmt.ElementaryStreams change in the same functions, with the same PID,
// and the list keeps insertion order.
func (a *anchors) pairwise(r *report.Report) {
	p := a.p
	listSites := map[*ssa.Function][]WriteSite{}
	mapSites := map[*ssa.Function][]WriteSite{}
	for _, s := range WhoWrites(p, "Muxer", "pmt.ElementaryStreams") {
		if !s.Fresh {
			listSites[s.Fn] = append(listSites[s.Fn], s)
		}
	}
	for _, s := range WhoWrites(p, "Muxer", "esContexts") {
		if s.Kind == "store" && s.Fresh {
			continue // initial empty map
		}
		mapSites[s.Fn] = append(mapSites[s.Fn], s)
	}
	names := func(m map[*ssa.Function][]WriteSite) []string {
		var out []string
		for f := range m {
			out = append(out, load.FuncName(f))
		}
		sort.Strings(out)
		return out
	}
	ln, mn := names(listSites), names(mapSites)
	r.Check(strings.Join(ln, ",") == strings.Join(mn, ",") && len(ln) > 0, RuleCurrent, "pairwise/esContexts<->pmt.ElementaryStreams/functions", "-",
		"both are modified in exactly {"+strings.Join(ln, ", ")+"}",
		"pmt.ElementaryStreams is modified in {"+strings.Join(ln, ", ")+"} but esContexts in {"+strings.Join(mn, ", ")+"}: WriteData would accept PIDs the PMT does not list (or reject listed ones)")
	r.Floor(RuleCurrent, "functions modifying pmt.ElementaryStreams", len(ln), 2)

	var fs []*ssa.Function
	for f := range listSites {
		fs = append(fs, f)
	}
	sort.Slice(fs, func(i, j int) bool { return fs[i].Pos() < fs[j].Pos() })
	for _, f := range fs {
		fname := load.FuncName(f)
		m := recv(f)
		for _, ls := range listSites[f] {
			st, ok := ls.Instr.(*ssa.Store)
			pos := instrPos(p, ls.Instr)
			okey := "order/" + fname + "/pmt.ElementaryStreams"
			pkey := "pairwise/" + fname + "/same-PID"
			if !ok || m == nil || !ls.Path.Is(m, a.fPmt, a.fPMTStreams) {
				r.Unknown(RuleCurrent, okey, pos, "unrecognised write to the stream list: "+ls.Path.String())
				continue
			}
			ap, isAppend := isBuiltinCall(asInstr(st.Val), "append")
			if !isAppend {
				// removal in place: copy(list[i:], list[i+1:]); list = list[:len(list)-1]
				if idx, ok := a.copyDownRemoval(f, m, st); ok {
					r.OK(RuleCurrent, okey, pos, "removal is copy(list[i:], list[i+1:]) followed by list[:len(list)-1] with i = "+Describe(idx)+": the remaining streams keep their order")
					a.pairShrink(r, f, st, idx, mapSites[f], pkey)
					continue
				}
				r.Bad(RuleCurrent, okey, pos, "the stream list is assigned "+Describe(st.Val)+": neither a tail append nor the two-slice removal — insertion order is not evidently preserved")
				continue
			}
			base, tail := ap.Call.Args[0], ap.Call.Args[1]
			if isLoadOf(base, m, a.fPmt, a.fPMTStreams) {
				// growth: append(list, &es)
				elems, okV := ssau.VarargValues(tail)
				if !okV || len(elems) != 1 {
					r.Unknown(RuleCurrent, okey, pos, "append to the stream list with an argument list that is not a single element")
					continue
				}
				es := elems[0]
				r.OK(RuleCurrent, okey, pos, "growth is append(m.pmt.ElementaryStreams, "+Describe(es)+"): one element at the tail")
				a.pairGrow(r, f, st, es, mapSites[f], pkey)
				continue
			}
			// removal: append(list[:i], list[i+1:]...)
			s1, ok1 := base.(*ssa.Slice)
			s2, ok2 := tail.(*ssa.Slice)
			if !ok1 || !ok2 || !isLoadOf(s1.X, m, a.fPmt, a.fPMTStreams) || !isLoadOf(s2.X, m, a.fPmt, a.fPMTStreams) ||
				s1.Low != nil || s1.High == nil || s2.High != nil || s2.Low == nil || s1.Max != nil || s2.Max != nil {
				r.Bad(RuleCurrent, okey, pos, "the stream list is rebuilt as "+Describe(st.Val)+": not append(list[:i], list[i+1:]...) — order or content may change")
				continue
			}
			idx := s1.High
			plus, okPlus := s2.Low.(*ssa.BinOp)
			c1, isC := int64(0), false
			if okPlus {
				c1, isC = ssau.ConstInt(plus.Y)
			}
			if !okPlus || plus.Op != token.ADD || plus.X != idx || !isC || c1 != 1 {
				r.Bad(RuleCurrent, okey, pos, "removal slices are [:"+Describe(s1.High)+"] and ["+Describe(s2.Low)+":]: not the same index i and i+1")
				continue
			}
			r.OK(RuleCurrent, okey, pos, "removal is append(list[:i], list[i+1:]...) with i = "+Describe(idx)+": the remaining streams keep their order")
			a.pairShrink(r, f, st, idx, mapSites[f], pkey)
		}
	}
}

// copyDownRemoval: st stores L[:len(L)-1] where L is one load of m.pmt.ElementaryStreams, and a call copy(L[i:], L[i+1:]) on that
// same L dominates the store: element i is overwritten by its successors, order kept, the last slot dropped. It returns i.
func (a *anchors) copyDownRemoval(f *ssa.Function, m ssa.Value, st *ssa.Store) (ssa.Value, bool) {
	sl, ok := st.Val.(*ssa.Slice)
	if !ok || sl.Low != nil || sl.High == nil || sl.Max != nil || !isLoadOf(sl.X, m, a.fPmt, a.fPMTStreams) {
		return nil, false
	}
	L := sl.X
	sub, ok := sl.High.(*ssa.BinOp)
	if !ok || sub.Op != token.SUB {
		return nil, false
	}
	if k, isC := ssau.ConstInt(sub.Y); !isC || k != 1 {
		return nil, false
	}
	ln, isLen := isBuiltinCall(asInstr(sub.X), "len")
	if !isLen || len(ln.Call.Args) != 1 || ln.Call.Args[0] != L {
		return nil, false
	}
	for _, b := range f.Blocks {
		for _, in := range b.Instrs {
			cp, isCopy := isBuiltinCall(in, "copy")
			if !isCopy || len(cp.Call.Args) != 2 {
				continue
			}
			d, ok1 := cp.Call.Args[0].(*ssa.Slice)
			s, ok2 := cp.Call.Args[1].(*ssa.Slice)
			if !ok1 || !ok2 || d.X != L || s.X != L || d.Low == nil || s.Low == nil || d.High != nil || s.High != nil || d.Max != nil || s.Max != nil {
				continue
			}
			plus, okPlus := s.Low.(*ssa.BinOp)
			if !okPlus || plus.Op != token.ADD || plus.X != d.Low {
				continue
			}
			if k, isC := ssau.ConstInt(plus.Y); !isC || k != 1 {
				continue
			}
			if !(cp.Block() == st.Block() && ssau.IndexOf(cp) < ssau.IndexOf(st)) && !(cp.Block() != st.Block() && cp.Block().Dominates(st.Block())) {
				continue
			}
			return d.Low, true
		}
	}
	return nil, false
}

func asInstr(v ssa.Value) ssa.Instruction {
	in, _ := v.(ssa.Instruction)
	return in
}

// pairGrow: the map update of the same function uses uint32(es.ElementaryPID) of the appended es.
func (a *anchors) pairGrow(r *report.Report, f *ssa.Function, listStore *ssa.Store, es ssa.Value, msites []WriteSite, key string) {
	p := a.p
	pos := instrPos(p, listStore)
	var ups []*ssa.MapUpdate
	for _, s := range msites {
		if mu, ok := s.Instr.(*ssa.MapUpdate); ok {
			ups = append(ups, mu)
		}
	}
	if len(ups) != 1 {
		r.Bad(RuleCurrent, key, pos, fmt.Sprintf("the append to the stream list is accompanied by %d insertions into esContexts, want exactly one", len(ups)))
		return
	}
	mu := ups[0]
	var problems []string
	kp, ok := LoadPath(stripConv(mu.Key))
	if !ok || !kp.Is(es, a.fESPID) {
		problems = append(problems, "the esContexts key is "+Describe(mu.Key)+", not uint32(<appended stream>.ElementaryPID)")
	}
	if c, ok := mu.Value.(*ssa.Call); !ok || c.Call.StaticCallee() != a.newEsContext || len(c.Call.Args) != 1 || c.Call.Args[0] != es {
		problems = append(problems, "the stored context is "+Describe(mu.Value)+", not newEsContext(<appended stream>)")
	}
	// both happen together
	first, second := ssa.Instruction(listStore), ssa.Instruction(mu)
	if !ssau.InstrBefore(first, second) {
		first, second = second, first
	}
	if !ssau.InstrBefore(first, second) {
		problems = append(problems, "the list append and the map insertion are on different branches")
	} else {
		res := MustReach(f, first, Flow{
			Stop: func(in ssa.Instruction) bool { return in == second },
			Bad: func(in ssa.Instruction) string {
				if ret, ok := in.(*ssa.Return); ok && !ExemptReturn(ret) {
					return "return"
				}
				return ""
			},
		})
		if !res.OK() {
			problems = append(problems, "a return without error is reachable between the two updates")
		}
	}
	// the PID of the stream is not changed after either update
	for _, b := range f.Blocks {
		for _, in := range b.Instrs {
			if st, ok := in.(*ssa.Store); ok && AddrPath(st.Addr).Is(es, a.fESPID) {
				if reachesInstr(first, st) {
					problems = append(problems, "ElementaryPID of the stream is assigned at "+instrPos(p, st)+" after it was registered")
				}
			}
		}
	}
	r.Check(len(problems) == 0, RuleCurrent, key, pos,
		"append(…, &es) and m.esContexts[uint32(es.ElementaryPID)] = newEsContext(&es) use the same es, happen together, and the PID is not reassigned afterwards",
		strings.Join(problems, "; "))
}

// pairShrink: delete(m.esContexts, uint32(pid)) with pid the value compared against the element
// at the removed index.
func (a *anchors) pairShrink(r *report.Report, f *ssa.Function, listStore *ssa.Store, idx ssa.Value, msites []WriteSite, key string) {
	p := a.p
	m := recv(f)
	pos := instrPos(p, listStore)
	var dels []*ssa.Call
	for _, s := range msites {
		if c, ok := s.Instr.(*ssa.Call); ok && s.Kind == "delete" {
			dels = append(dels, c)
		}
	}
	if len(dels) != 1 {
		r.Bad(RuleCurrent, key, pos, fmt.Sprintf("the removal from the stream list is accompanied by %d deletions from esContexts, want exactly one", len(dels)))
		return
	}
	del := dels[0]
	pid := stripConv(del.Call.Args[1])
	var problems []string
	// the search: an equality test of pid with list[j].ElementaryPID whose true edge feeds idx = j
	matched := false
	var why []string
	for _, b := range f.Blocks {
		for _, in := range b.Instrs {
			bo, ok := in.(*ssa.BinOp)
			if !ok || (bo.Op != token.EQL && bo.Op != token.NEQ) {
				continue
			}
			eqSucc := 0 // successor taken when the two PIDs are equal
			if bo.Op == token.NEQ {
				eqSucc = 1
			}
			var elem ssa.Value
			switch {
			case bo.X == pid:
				elem = bo.Y
			case bo.Y == pid:
				elem = bo.X
			default:
				continue
			}
			_, j, ok := a.streamElemPID(elem, m)
			if !ok {
				continue
			}
			// idx takes the value j exactly on the true edge of this comparison
			okIdx := false
			switch x := idx.(type) {
			case *ssa.Phi:
				okIdx = true
				nJ := 0
				for i, e := range x.Edges {
					if c, isC := ssau.ConstInt(e); isC && c < 0 {
						continue
					}
					if e != j {
						okIdx = false
						continue
					}
					nJ++
					pred := x.Block().Preds[i]
					dom := false
					for _, de := range append(ssau.DominatingEdges(pred), edgeInto(pred, x.Block())...) {
						if de.If.Cond == ssa.Value(bo) && de.Succ == eqSucc {
							dom = true
						}
					}
					if !dom {
						okIdx = false
					}
				}
				okIdx = okIdx && nJ > 0
			default:
				okIdx = idx == j && dominatedByEdge(listStore.Block(), bo, eqSucc)
			}
			if !okIdx {
				why = append(why, "the removed index "+Describe(idx)+" is not the index at which the comparison succeeded")
				continue
			}
			matched = true
		}
	}
	if !matched {
		problems = append(problems, "delete(m.esContexts, "+Describe(del.Call.Args[1])+"): the key is not the PID compared with m.pmt.ElementaryStreams[i].ElementaryPID for the removed index i"+suffix(why))
	}
	// the removal only happens when something was found (idx != -1 edge)
	if ph, ok := idx.(*ssa.Phi); ok {
		hasNeg := false
		for _, e := range ph.Edges {
			if c, isC := ssau.ConstInt(e); isC && c < 0 {
				hasNeg = true
			}
		}
		if hasNeg && !guardedNonNegative(listStore.Block(), idx) {
			problems = append(problems, "the removal is not guarded by the index being found (i != -1)")
		}
	}
	if !(ssau.InstrBefore(listStore, del) || ssau.InstrBefore(del, listStore)) {
		problems = append(problems, "the list removal and the map deletion are on different branches")
	}
	r.Check(len(problems) == 0, RuleCurrent, key, pos,
		"delete(m.esContexts, uint32(pid)) uses the pid that matched m.pmt.ElementaryStreams[i].ElementaryPID for the removed index i; removal guarded by i != -1",
		strings.Join(problems, "; "))
}

func suffix(why []string) string {
	if len(why) == 0 {
		return ""
	}
	return " (" + strings.Join(why, "; ") + ")"
}

// streamElemPID recognises v = m.pmt.ElementaryStreams[j].ElementaryPID and returns the load of
// the list and the index j.
func (a *anchors) streamElemPID(v ssa.Value, m ssa.Value) (list *ssa.UnOp, idx ssa.Value, ok bool) {
	lp, isLoad := LoadPath(v)
	if !isLoad || lp.Root != m || len(lp.Fields) != 4 || lp.Fields[0] != a.fPmt || lp.Fields[1] != a.fPMTStreams || lp.Fields[2] != nil || lp.Fields[3] != a.fESPID {
		return nil, nil, false
	}
	var cur ssa.Value = v.(*ssa.UnOp).X
	for {
		switch x := cur.(type) {
		case *ssa.FieldAddr:
			cur = x.X
		case *ssa.UnOp:
			cur = x.X
		case *ssa.IndexAddr:
			l, isL := x.X.(*ssa.UnOp)
			if !isL {
				return nil, nil, false
			}
			return l, x.Index, true
		default:
			return nil, nil, false
		}
	}
}

// edgeInto returns the conditional edge pred->succ when pred ends in an If.
func edgeInto(pred, succ *ssa.BasicBlock) []ssau.Edge {
	if len(pred.Instrs) == 0 {
		return nil
	}
	iff, ok := pred.Instrs[len(pred.Instrs)-1].(*ssa.If)
	if !ok || pred.Succs[0] == pred.Succs[1] {
		return nil
	}
	var out []ssau.Edge
	for i, s := range pred.Succs {
		if s == succ {
			out = append(out, ssau.Edge{If: iff, Succ: i})
		}
	}
	return out
}

func dominatedByEdge(b *ssa.BasicBlock, cond *ssa.BinOp, succ int) bool {
	for _, e := range ssau.DominatingEdges(b) {
		if e.If.Cond == ssa.Value(cond) && e.Succ == succ {
			return true
		}
	}
	return false
}

// guardedNonNegative: block b is dominated by an edge establishing idx != -1 / idx >= 0.
func guardedNonNegative(b *ssa.BasicBlock, idx ssa.Value) bool {
	for _, e := range ssau.DominatingEdges(b) {
		bo, ok := e.If.Cond.(*ssa.BinOp)
		if !ok || bo.X != idx {
			continue
		}
		c, isC := ssau.ConstInt(bo.Y)
		if !isC {
			continue
		}
		switch {
		case bo.Op == token.EQL && c == -1 && e.Succ == 1,
			bo.Op == token.NEQ && c == -1 && e.Succ == 0,
			bo.Op == token.LSS && c == 0 && e.Succ == 1,
			bo.Op == token.GEQ && c == 0 && e.Succ == 0,
			bo.Op == token.GTR && c == -1 && e.Succ == 0,
			bo.Op == token.LEQ && c == -1 && e.Succ == 1:
			return true
		}
	}
	return false
}

// ---------------------------------------------------------------------------------------------
// C17(e) Versions
// ---------------------------------------------------------------------------------------------

// Versions checks the dirty-flag/version discipline of the two generators and the PAT→PMT mapping.
func Versions(p *load.Program, r *report.Report) {
	a := getAnchors(p)
	if !a.ok(r, RuleVersion) {
		return
	}
	type gen struct {
		fn      string
		version *types.Var
		flag    *types.Var
	}
	gens := []gen{{"Muxer.generatePAT", a.fPatVersion, a.fPmUpdated}, {"Muxer.generatePMT", a.fPmtVersion, a.fPmtUpdated}}
	for _, g := range gens {
		f := p.Func(g.fn)
		if f == nil {
			r.Unknown(RuleVersion, "anchor/"+g.fn, "-", g.fn+" not found")
			continue
		}
		fname := load.FuncName(f)
		m := recv(f)
		// e1: every inc on the version counter is in the generator, under the dirty flag
		nInc := 0
		for _, s := range a.incSites() {
			if s.field != g.version || s.call == nil {
				continue
			}
			nInc++
			key := fmt.Sprintf("%s/%s.inc-under-%s", load.FuncName(s.fn), g.version.Name(), g.flag.Name())
			pos := instrPos(p, s.call)
			if s.fn != f || !s.path.Is(m, g.version) {
				r.Bad(RuleVersion, key, pos, g.version.Name()+".inc() is called outside "+fname+": the version changes without a table being generated")
				continue
			}
			under := false
			for _, e := range ssau.DominatingEdges(s.call.Block()) {
				cond, neg := e.If.Cond, false
				for {
					u, ok := cond.(*ssa.UnOp)
					if !ok || u.Op != token.NOT {
						break
					}
					cond, neg = u.X, !neg
				}
				if bo, ok := cond.(*ssa.BinOp); ok && (bo.Op == token.EQL || bo.Op == token.NEQ) {
					if c, isC := ssau.ConstBool(bo.Y); isC {
						cond = bo.X
						if c != (bo.Op == token.EQL) {
							neg = !neg
						}
					}
				}
				if !isLoadOf(cond, m, g.flag) {
					continue
				}
				trueSucc := 0
				if neg {
					trueSucc = 1
				}
				if e.Succ == trueSucc {
					under = true
				}
			}
			r.Check(under, RuleVersion, key, pos,
				g.version.Name()+".inc() is dominated by the true edge of `if m."+g.flag.Name()+"`: the version advances only when the content changed",
				g.version.Name()+".inc() is not confined to the branch where m."+g.flag.Name()+" is true: the version changes although nothing was added/removed/set (or not when it was)")
		}
		r.Floor(RuleVersion, "inc sites on "+g.version.Name(), nInc, 1)
		// e1b: the emitted version is the counter's value
		for _, b := range f.Blocks {
			for _, in := range b.Instrs {
				st, ok := in.(*ssa.Store)
				if !ok || AddrPath(st.Addr).Last() != a.fSynHdrVersion {
					continue
				}
				good := true
				var srcs []string
				for _, l := range ssau.Leaves(stripConv(st.Val)) {
					c, ok := l.(*ssa.Call)
					if !ok || (c.Call.StaticCallee() != a.get && c.Call.StaticCallee() != a.inc) || !AddrPath(c.Call.Args[0]).Is(m, g.version) {
						good = false
					}
					srcs = append(srcs, Describe(l))
				}
				r.Check(good, RuleVersion, fname+"/VersionNumber-source", instrPos(p, st),
					"VersionNumber = uint8("+strings.Join(srcs, " | ")+")",
					"VersionNumber is "+strings.Join(srcs, " | ")+", not the get()/inc() value of m."+g.version.Name())
			}
		}
		// e2: the flag is cleared only in the generator, after the last call that can fail
		nClr := 0
		for _, s := range WhoWrites(p, "Muxer", g.flag.Name()) {
			st, ok := s.Instr.(*ssa.Store)
			if !ok || s.Fresh {
				continue
			}
			if b, isB := ssau.ConstBool(st.Val); isB && b {
				continue
			}
			// non-constant stores (rollback of a saved value) are judged by UndoStores: rule undo[...]
			if _, isConst := st.Val.(*ssa.Const); !isConst {
				continue
			}
			nClr++
			key := fmt.Sprintf("%s/%s=false/after-last-failing-call", load.FuncName(s.Fn), g.flag.Name())
			pos := instrPos(p, st)
			if _, isB := ssau.ConstBool(st.Val); !isB {
				r.Unknown(RuleVersion, key, pos, g.flag.Name()+" is assigned the non-constant "+Describe(st.Val))
				continue
			}
			if s.Fn != f {
				r.Bad(RuleVersion, key, pos, g.flag.Name()+" is cleared outside "+fname+": a pending change would never be versioned")
				continue
			}
			var problems []string
			nFail := 0
			for _, ci := range ssau.Calls(f) {
				c, ok := ci.(*ssa.Call)
				if !ok || ssau.ErrorResultIndex(c.Call.Signature()) < 0 {
					continue
				}
				nFail++
				name := shortCallee(&c.Call)
				if reachesInstr(st, c) {
					problems = append(problems, name+" (at "+instrPos(p, c)+") can still fail after the flag was cleared")
					continue
				}
				if !reachesInstr(c, st) {
					continue
				}
				fails, _, checked := failureSuccs(c)
				if !checked {
					problems = append(problems, "the error of "+name+" is not tested before the flag is cleared")
					continue
				}
				for _, fb := range fails {
					if ssau.Reaches(fb, st.Block()) {
						problems = append(problems, "the flag is cleared also when "+name+" failed")
					}
				}
			}
			r.Check(len(problems) == 0, RuleVersion, key, pos,
				fmt.Sprintf("m.%s = false is reached only through the success edges of the %d error-returning calls of %s, none of which can run afterwards", g.flag.Name(), nFail, fname),
				strings.Join(problems, "; ")+": after a failed generation the change would be emitted later under an unchanged version")
		}
		r.Floor(RuleVersion, "clears of "+g.flag.Name(), nClr, 1)
	}
	a.patMapsProgram(r)
}

// patMapsProgram: PAT maps programNumberStart to pmtStartPID, PMT goes out on pmtStartPID with
// TableIDExtension = ProgramNumber = programNumberStart.
func (a *anchors) patMapsProgram(r *report.Report) {
	p := a.p
	pmtPID, ok1 := PkgConstInt(p, "pmtStartPID")
	progNo, ok2 := PkgConstInt(p, "programNumberStart")
	nm, gp := p.Func("NewMuxer"), p.Func("Muxer.generatePMT")
	set, toPAT := p.Func("programMap.setUnlocked"), p.Func("programMap.toPATDataUnlocked")
	if !ok1 || !ok2 || nm == nil || gp == nil || set == nil || toPAT == nil {
		r.Unknown(RuleVersion, "anchor/pat-mapping", "-", "pmtStartPID, programNumberStart, NewMuxer, generatePMT, setUnlocked or toPATDataUnlocked not found")
		return
	}
	// NewMuxer: m.pm.setUnlocked(pmtStartPID, programNumberStart)
	calls, _ := callsTo(nm, set)
	good := 0
	var seenArgs []string
	for _, c := range calls {
		if lp, ok := LoadPath(c.Call.Args[0]); (!ok || lp.Last() != a.fPm) && ssau.StoredInField(c.Call.Args[0], load.RootPath, "Muxer", "pm") == nil {
			continue
		}
		x, okx := ssau.ConstInt(c.Call.Args[1])
		y, oky := ssau.ConstInt(c.Call.Args[2])
		seenArgs = append(seenArgs, Describe(c.Call.Args[1])+","+Describe(c.Call.Args[2]))
		if okx && oky && x == pmtPID && y == progNo {
			good++
		}
	}
	r.Check(good == 1 && len(seenArgs) == 1, RuleVersion, "NewMuxer/pm.setUnlocked(pmtStartPID,programNumberStart)", funcPos(p, nm),
		fmt.Sprintf("the only program registered is setUnlocked(%d, %d) = (pmtStartPID, programNumberStart)", pmtPID, progNo),
		fmt.Sprintf("NewMuxer registers programs (%s); want exactly one: (%d,%d)", strings.Join(seenArgs, "; "), pmtPID, progNo))
	// setUnlocked stores number under key pid; toPATDataUnlocked emits key as ProgramMapID, value as ProgramNumber
	{
		okSet := false
		for _, b := range set.Blocks {
			for _, in := range b.Instrs {
				if mu, ok := in.(*ssa.MapUpdate); ok && len(set.Params) == 3 {
					if stripConv(mu.Key) == ssa.Value(set.Params[1]) && mu.Value == ssa.Value(set.Params[2]) {
						okSet = true
					}
				}
			}
		}
		r.Check(okSet, RuleVersion, "(programMap).setUnlocked/p[uint32(pid)]=number", funcPos(p, set), "m.p[uint32(pid)] = number", "setUnlocked does not store number under the key pid")
		okPAT := 0
		fPMID, fPN := StructField(p, "PATProgram", "ProgramMapID"), StructField(p, "PATProgram", "ProgramNumber")
		for _, b := range toPAT.Blocks {
			for _, in := range b.Instrs {
				st, ok := in.(*ssa.Store)
				if !ok {
					continue
				}
				last := AddrPath(st.Addr).Last()
				ex, isEx := stripConv(st.Val).(*ssa.Extract)
				if !isEx {
					continue
				}
				if _, isNext := ex.Tuple.(*ssa.Next); !isNext {
					continue
				}
				if last == fPMID && fPMID != nil && ex.Index == 1 {
					okPAT++
				}
				if last == fPN && fPN != nil && ex.Index == 2 {
					okPAT++
				}
			}
		}
		r.Check(okPAT == 2, RuleVersion, "(programMap).toPATDataUnlocked/key->ProgramMapID,value->ProgramNumber", funcPos(p, toPAT),
			"each map entry (pid, number) becomes PATProgram{ProgramMapID: pid, ProgramNumber: number}", "toPATDataUnlocked does not map key to ProgramMapID and value to ProgramNumber")
	}
	// generatePMT: PID constant and TableIDExtension
	m := recv(gp)
	var pidOK, extOK bool
	var pidDesc, extDesc string
	for _, b := range gp.Blocks {
		for _, in := range b.Instrs {
			st, ok := in.(*ssa.Store)
			if !ok {
				continue
			}
			switch AddrPath(st.Addr).Last() {
			case a.fHdrPID:
				c, isC := ssau.ConstInt(st.Val)
				pidOK = isC && c == pmtPID
				pidDesc = Describe(st.Val)
			case a.fSynHdrTIDExt:
				extOK = isLoadOf(st.Val, m, a.fPmt, a.fPMTProgramNumber)
				extDesc = Describe(st.Val)
			}
		}
	}
	r.Check(pidOK, RuleVersion, "(*Muxer).generatePMT/packet-PID=pmtStartPID", funcPos(p, gp), fmt.Sprintf("the PMT packet's Header.PID is the constant %d = pmtStartPID, the PID the PAT announces", pmtPID), "the PMT packet's Header.PID is "+pidDesc+", the PAT announces pmtStartPID")
	r.Check(extOK, RuleVersion, "(*Muxer).generatePMT/TableIDExtension=ProgramNumber", funcPos(p, gp), "TableIDExtension = m.pmt.ProgramNumber", "TableIDExtension is "+extDesc+", not m.pmt.ProgramNumber")
	// ProgramNumber: initialised to programNumberStart in NewMuxer, written nowhere else
	var w []string
	initOK := false
	for _, s := range WhoWrites(p, "Muxer", "pmt.ProgramNumber") {
		if s.Fn == nm && s.Fresh {
			if st, ok := s.Instr.(*ssa.Store); ok {
				if c, isC := ssau.ConstInt(st.Val); isC && c == progNo {
					initOK = true
					continue
				}
			}
		}
		if s.Fresh {
			continue
		}
		w = append(w, load.FuncName(s.Fn))
	}
	r.Check(initOK && len(w) == 0, RuleVersion, "NewMuxer/pmt.ProgramNumber=programNumberStart", funcPos(p, nm),
		fmt.Sprintf("m.pmt.ProgramNumber is initialised to %d = programNumberStart and assigned nowhere else", progNo),
		fmt.Sprintf("m.pmt.ProgramNumber: initialised to programNumberStart: %v; other writers: %s", initOK, strings.Join(w, ", ")))
}

// ---------------------------------------------------------------------------------------------
// C17(f) / C01(c) automatic PIDs
// ---------------------------------------------------------------------------------------------

// AutoPID checks the automatic PID assignment of AddElementaryStream.
func AutoPID(p *load.Program, r *report.Report, rule string) {
	a := getAnchors(p)
	if !a.ok(r, rule) {
		return
	}
	f := p.Func("Muxer.AddElementaryStream")
	nm := p.Func("NewMuxer")
	if f == nil || nm == nil {
		r.Unknown(rule, "anchor/(*Muxer).AddElementaryStream", "-", "AddElementaryStream or NewMuxer not found")
		return
	}
	fname := load.FuncName(f)
	m := recv(f)
	// the stream being added: the value appended to the list
	var es ssa.Value
	var appendStore *ssa.Store
	for _, s := range WhoWrites(p, "Muxer", "pmt.ElementaryStreams") {
		st, ok := s.Instr.(*ssa.Store)
		if !ok || s.Fn != f {
			continue
		}
		if ap, isAppend := isBuiltinCall(asInstr(st.Val), "append"); isAppend {
			if elems, ok := ssau.VarargValues(ap.Call.Args[1]); ok && len(elems) == 1 {
				es, appendStore = elems[0], st
			}
		}
	}
	if es == nil {
		r.Unknown(rule, fname+"/auto-pid", funcPos(p, f), "cannot find the append of the new stream to m.pmt.ElementaryStreams")
		return
	}
	// auto stores: stores to es.ElementaryPID inside f
	var autos []*ssa.Store
	for _, b := range f.Blocks {
		for _, in := range b.Instrs {
			if st, ok := in.(*ssa.Store); ok && AddrPath(st.Addr).Is(es, a.fESPID) {
				autos = append(autos, st)
			}
		}
	}
	if !r.Floor(rule, "automatic assignments of es.ElementaryPID", len(autos), 1) {
		return
	}
	for _, st := range autos {
		src := false
		for _, l := range ssau.Leaves(st.Val) {
			if l != nil && (isLoadOf(l, m, a.fNextPID) || a.scanFromNext(l, m)) {
				src = true
			} else {
				src = false
				break
			}
		}
		if a.scanFromNext(st.Val, m) {
			src = true // counted up from m.nextPID in a register
		}
		r.Check(src, rule, fname+"/auto-pid-from-nextPID", instrPos(p, st), "es.ElementaryPID = m.nextPID in the automatic branch", "the automatic PID is "+Describe(st.Val)+", not m.nextPID")
	}
	// stores to nextPID
	lo, hi := int64(0x20), int64(0x1FFF)
	var inits []string
	if esc := AddressEscapes(p, a.fNextPID); len(esc) > 0 {
		r.Unknown(rule, "who-may-write/Muxer.nextPID", "-", "the address of nextPID is taken at "+strings.Join(esc, ", "))
	}
	for _, s := range WhoWrites(p, "Muxer", "nextPID") {
		st, ok := s.Instr.(*ssa.Store)
		if !ok {
			continue
		}
		sname := load.FuncName(s.Fn)
		pos := instrPos(p, st)
		key := "nextPID-store/" + sname
		if c, isC := ssau.ConstInt(st.Val); isC {
			if s.Fn == nm && s.Fresh {
				okRange := c >= lo && c < hi
				r.Check(okRange, rule, key+"/init-in-range", pos, fmt.Sprintf("nextPID initialised to %#x, inside [0x20, 0x1FFF)", c), fmt.Sprintf("nextPID initialised to %#x, outside [0x20, 0x1FFF): reserved for PSI/SI tables or the null PID", c))
				if okRange {
					dominatesAll := true
					for _, ret := range ssau.Returns(nm) {
						if !(st.Block() == ret.Block() || st.Block().Dominates(ret.Block())) {
							dominatesAll = false
						}
					}
					if dominatesAll {
						inits = append(inits, pos)
					}
				}
				continue
			}
			r.Bad(rule, key+"/constant-outside-constructor", pos, fmt.Sprintf("nextPID is reset to the constant %d outside NewMuxer: previously assigned PIDs can be handed out again", c))
			continue
		}
		if bo, ok := st.Val.(*ssa.BinOp); ok && bo.Op == token.ADD {
			c, isC := ssau.ConstInt(bo.Y)
			if isC && c >= 1 && isLoadOf(bo.X, AddrPath(st.Addr).Root, a.fNextPID) {
				r.OK(rule, key+"/increment", pos, fmt.Sprintf("nextPID advances by %d from its previous value", c))
				continue
			}
			if isC && c >= 1 && a.scanFromNext(bo.X, AddrPath(st.Addr).Root) {
				r.OK(rule, key+"/increment", pos, fmt.Sprintf("nextPID becomes the scanned value + %d; the scan starts at nextPID and only counts up, so nextPID advances", c))
				continue
			}
		}
		r.Bad(rule, key+"/other", pos, "nextPID is assigned "+Describe(st.Val)+": neither a constant initialisation in NewMuxer nor an increment")
	}
	detail := ""
	if n := ConstUses(p, "startPID"); n == 0 {
		if v, ok := PkgConstInt(p, "startPID"); ok {
			detail = fmt.Sprintf(" (the constant startPID = %#x is declared but never used)", v)
		}
	}
	r.Check(len(inits) > 0, rule, "auto-pid/nextPID-initialised", funcPos(p, nm),
		"NewMuxer initialises nextPID to a constant in [0x20, 0x1FFF) on every path ("+strings.Join(inits, ",")+")",
		"Muxer.nextPID is never initialised: the first automatically assigned PID is its zero value 0x0000 = PIDPAT, the next ones 0x0001 (CAT), 0x0002 (TSDT) … — all inside the range reserved for PSI/SI"+detail)

	// collision check: no path from the entry to the append avoids every duplicate check
	var checks []ssa.Instruction
	cand := func(v ssa.Value) bool {
		if a.scanFromNext(v, m) {
			return true
		}
		for _, l := range ssau.Leaves(stripConv(v)) {
			if l == nil {
				return false
			}
			if isLoadOf(l, es, a.fESPID) || isLoadOf(l, m, a.fNextPID) || a.scanFromNext(l, m) {
				continue
			}
			ok := false
			for _, st := range autos {
				if st.Val == l {
					ok = true
				}
			}
			if !ok {
				return false
			}
		}
		return true
	}
	for _, b := range f.Blocks {
		for _, in := range b.Instrs {
			switch x := in.(type) {
			case *ssa.BinOp:
				if x.Op != token.EQL && x.Op != token.NEQ {
					continue
				}
				for _, pair := range [][2]ssa.Value{{x.X, x.Y}, {x.Y, x.X}} {
					ld, _, ok := a.streamElemPID(pair[0], m)
					if !ok || !cand(pair[1]) {
						continue
					}
					checks = append(checks, ld) // entering the search over the list
				}
			case *ssa.Lookup:
				if isLoadOf(x.X, m, a.fESContexts) && cand(x.Index) {
					checks = append(checks, x)
				}
			}
		}
	}
	isCheck := func(in ssa.Instruction) bool {
		for _, c := range checks {
			if c == in {
				return true
			}
		}
		return false
	}
	key := "auto-pid/collision-checked"
	var unchecked []string
	for _, st := range autos {
		// paths through the automatic assignment: from the function entry to the assignment without a
		// check, then from the assignment to the append without a check
		pre := MustReach(f, nil, Flow{Stop: isCheck, Bad: func(in ssa.Instruction) string {
			if in == ssa.Instruction(st) {
				return "auto"
			}
			return ""
		}})
		if pre.OK() {
			continue // every path to the assignment passed a duplicate check of the candidate
		}
		post := MustReach(f, st, Flow{Stop: isCheck, Bad: func(in ssa.Instruction) string {
			if in == ssa.Instruction(appendStore) {
				return "append"
			}
			return ""
		}})
		for _, t := range post.Terminals {
			if t.Kind == "append" {
				unchecked = append(unchecked, fmt.Sprintf("assignment at %s reaches the append at %s: %s", instrPos(p, st), instrPos(p, appendStore), PathString(p, t.Path)))
			}
		}
	}
	r.Check(len(unchecked) == 0, rule, key, instrPos(p, autos[0]),
		fmt.Sprintf("every path through the automatic assignment passes a comparison of the candidate with the PIDs in use (%d check site(s)) before the stream is registered", len(checks)),
		"an automatically assigned PID is registered without being compared with the PIDs already in use (the explicit branch has such a loop): after AddElementaryStream({ElementaryPID: n}) with n equal to a later value of nextPID, the automatic stream gets the same PID, the second esContexts entry overwrites the first and the PMT lists the PID twice; "+strings.Join(unchecked, "; "))
	// proven unused at the point of assignment
	for _, st := range autos {
		a.provenUnused(r, rule, f, m, st)
	}
}

// memberTest is one membership test of a candidate PID against the PIDs in use.
type memberTest struct {
	at      ssa.Instruction // the Lookup in m.esContexts, or the comparison with a list element
	entry   *ssa.BasicBlock // block that (re)starts the test: the lookup's block / the block loading the list
	key     ssa.Value       // the tested value (a load of m.nextPID)
	inUse   []ssau.Edge     // conditional edges taken when the PID is in use
	form    string
	problem string
}

// memberTests finds the membership tests whose tested value is loaded from m.nextPID.
func (a *anchors) memberTests(f *ssa.Function, m ssa.Value) []memberTest {
	var out []memberTest
	isNext := func(v ssa.Value) bool { return isLoadOf(stripConv(v), m, a.fNextPID) }
	for _, b := range f.Blocks {
		for _, in := range b.Instrs {
			switch x := in.(type) {
			case *ssa.Lookup:
				if !isLoadOf(x.X, m, a.fESContexts) || !isNext(x.Index) {
					continue
				}
				t := memberTest{at: x, entry: b, key: stripConv(x.Index), form: "m.esContexts[uint32(m.nextPID)]"}
				// in-use edges: Ifs on the comma-ok result (or on `value != nil`)
				for _, bb := range f.Blocks {
					iff, ok := bb.Instrs[len(bb.Instrs)-1].(*ssa.If)
					if !ok {
						continue
					}
					cond, neg := iff.Cond, false
					for {
						u, ok := cond.(*ssa.UnOp)
						if !ok || u.Op != token.NOT {
							break
						}
						cond, neg = u.X, !neg
					}
					hit := false
					if ex, ok := cond.(*ssa.Extract); ok && ex.Tuple == ssa.Value(x) && ex.Index == 1 && x.CommaOk {
						hit = true
					} else if nc, ok := ssau.AsNilCompare(cond); ok {
						v := nc.X
						if ex, ok := v.(*ssa.Extract); ok && ex.Tuple == ssa.Value(x) && ex.Index == 0 {
							v = x
						}
						if v == ssa.Value(x) {
							hit = true
							if !nc.Ne {
								neg = !neg
							}
						}
					}
					if !hit {
						continue
					}
					succ := 0
					if neg {
						succ = 1
					}
					t.inUse = append(t.inUse, ssau.Edge{If: iff, Succ: succ})
				}
				if len(t.inUse) == 0 {
					t.problem = "the result of the lookup is not tested by a branch"
				}
				if kl, ok := t.key.(*ssa.UnOp); !ok || kl.Block() != b {
					t.problem = "the looked-up value is not read from m.nextPID in the block of the lookup (stale copy)"
				}
				out = append(out, t)
			case *ssa.BinOp:
				if x.Op != token.EQL && x.Op != token.NEQ {
					continue
				}
				for _, pair := range [][2]ssa.Value{{x.X, x.Y}, {x.Y, x.X}} {
					ld, _, ok := a.streamElemPID(pair[0], m)
					if !ok || !isNext(pair[1]) {
						continue
					}
					t := memberTest{at: x, entry: ld.Block(), key: stripConv(pair[1]), form: "search of m.pmt.ElementaryStreams for m.nextPID"}
					for _, bb := range f.Blocks {
						iff, ok := bb.Instrs[len(bb.Instrs)-1].(*ssa.If)
						if !ok || iff.Cond != ssa.Value(x) {
							continue
						}
						succ := 0
						if x.Op == token.NEQ {
							succ = 1
						}
						t.inUse = append(t.inUse, ssau.Edge{If: iff, Succ: succ})
					}
					if len(t.inUse) == 0 {
						t.problem = "the comparison is not tested by a branch"
					}
					if kl, ok := t.key.(*ssa.UnOp); !ok || !(kl.Block() == t.entry || t.entry.Dominates(kl.Block())) {
						t.problem = "the compared value is read from m.nextPID before the search starts (stale copy)"
					}
					out = append(out, t)
				}
			}
		}
	}
	return out
}

// scanFromNext: v is a loop-header phi that enters the loop with a value loaded from m.nextPID and is only incremented by positive
// constants on the back edges (`pid := m.nextPID; for ; ; pid++ {…}`): a candidate counted up from nextPID.
func (a *anchors) scanFromNext(v ssa.Value, m ssa.Value) bool {
	phi, ok := stripConv(v).(*ssa.Phi)
	if !ok {
		return false
	}
	h := phi.Block()
	entry, back := 0, 0
	for i, e := range phi.Edges {
		if h.Dominates(h.Preds[i]) {
			bo, isB := e.(*ssa.BinOp)
			if !isB || bo.Op != token.ADD || bo.X != ssa.Value(phi) {
				return false
			}
			if c, isC := ssau.ConstInt(bo.Y); !isC || c < 1 {
				return false
			}
			back++
			continue
		}
		if !isLoadOf(stripConv(e), m, a.fNextPID) {
			return false
		}
		entry++
	}
	return entry > 0 && back > 0
}

// valueUnused: the assigned candidate L (a register) was looked up in m.esContexts under uint32(L) and the assignment is dominated by
// the absent edge of that lookup, with no insertion into the map in between.
func (a *anchors) valueUnused(f *ssa.Function, m ssa.Value, L ssa.Value, assign *ssa.Store) bool {
	for _, b := range f.Blocks {
		for _, in := range b.Instrs {
			lk, ok := in.(*ssa.Lookup)
			if !ok || !lk.CommaOk || !isLoadOf(lk.X, m, a.fESContexts) || stripConv(lk.Index) != stripConv(L) {
				continue
			}
			for _, e := range ssau.DominatingEdges(assign.Block()) {
				cond, neg := e.If.Cond, false
				for {
					u, isN := cond.(*ssa.UnOp)
					if !isN || u.Op != token.NOT {
						break
					}
					cond, neg = u.X, !neg
				}
				ex, isEx := cond.(*ssa.Extract)
				if !isEx || ex.Tuple != ssa.Value(lk) || ex.Index != 1 {
					continue
				}
				absentSucc := 1 // ok == false
				if neg {
					absentSucc = 0
				}
				if e.Succ != absentSucc {
					continue
				}
				// no insertion between the lookup and the assignment
				clean := true
				for _, bb := range f.Blocks {
					for _, i2 := range bb.Instrs {
						if mu, isMU := i2.(*ssa.MapUpdate); isMU && isLoadOf(mu.Map, m, a.fESContexts) {
							if canPrecede(mu, assign) && canPrecede(lk, mu) {
								clean = false
							}
						}
					}
				}
				if clean {
					return true
				}
			}
		}
	}
	return false
}

// canPrecede: instruction x can execute before y on some path (same block earlier, or y's block reachable from x's).
func canPrecede(x, y ssa.Instruction) bool {
	if x.Block() == y.Block() {
		return ssau.IndexOf(x) < ssau.IndexOf(y)
	}
	return ssau.Reaches(x.Block(), y.Block())
}

// provenUnused: the value assigned to es.ElementaryPID in the automatic branch is proven unused at
// the point of assignment — some membership test T of the current m.nextPID (entry block E)
// dominates the load L feeding the assignment, L cannot be reached from T's in-use edge without
// re-entering E, and no store to m.nextPID can be followed by L without re-entering E.
func (a *anchors) provenUnused(r *report.Report, rule string, f *ssa.Function, m ssa.Value, assign *ssa.Store) {
	p := a.p
	key := "auto-pid/unused-at-assignment"
	pos := instrPos(p, assign)
	leaves := ssau.Leaves(assign.Val)
	// a candidate scanned upwards from nextPID in a register: the lookup of that very register decides
	allScan := a.scanFromNext(assign.Val, m) && a.valueUnused(f, m, assign.Val, assign)
	if allScan {
		r.OK(rule, key, pos, "the assigned candidate is counted up from m.nextPID in a register, and the assignment is dominated by the absent edge of m.esContexts[uint32(candidate)] with no insertion in between")
		return
	}
	var loads []*ssa.UnOp
	for _, l := range leaves {
		u, ok := l.(*ssa.UnOp)
		if l == nil || !ok || !isLoadOf(l, m, a.fNextPID) {
			r.Unknown(rule, key, pos, "the assigned value "+Describe(assign.Val)+" is not (only) a value loaded from m.nextPID")
			return
		}
		loads = append(loads, u)
	}
	// the PMT's own PID is never handed out: at each read of m.nextPID that is assigned, the current value has been compared
	// with pmtStartPID after the last store to it and found different (an ES on the PMT PID interleaves two independent
	// continuity counters on one PID)
	if pmtPID, ok := PkgConstInt(p, "pmtStartPID"); ok && len(loads) > 0 {
		allNot := true
		for _, L := range loads {
			if !a.flowNotConst(f, m, L, pmtPID) {
				allNot = false
			}
		}
		r.Check(allNot, rule, "auto-pid/not-the-pmt-pid-at-assignment", pos,
			fmt.Sprintf("forward must-analysis: at each of the %d reads of m.nextPID that are assigned, the current value has been compared with pmtStartPID (%d) after the last store to it and found different", len(loads), pmtPID),
			"the automatically assigned PID is not proven different from pmtStartPID at the point of assignment: the comparison is not repeated after m.nextPID is advanced, so the search can step onto the PMT PID and hand it out")
	}
	if len(loads) == 0 {
		r.Unknown(rule, key, pos, "the assigned value has no source")
		return
	}
	tests := a.memberTests(f, m)
	if len(tests) == 0 {
		r.Bad(rule, key, pos, "no membership test of m.nextPID (lookup in m.esContexts or search of m.pmt.ElementaryStreams) exists in "+load.FuncName(f)+": the automatic PID may already be in use")
		return
	}
	var stores []*ssa.Store
	for _, b := range f.Blocks {
		for _, in := range b.Instrs {
			if st, ok := in.(*ssa.Store); ok && AddrPath(st.Addr).Is(m, a.fNextPID) {
				stores = append(stores, st)
			}
		}
	}
	// reachable(from block, target instruction) with block E removed
	reachAvoid := func(from *ssa.BasicBlock, target ssa.Instruction, e *ssa.BasicBlock) bool {
		return from != e && target.Block() != e && reachesAvoiding(from, target.Block(), e)
	}
	afterAvoid := func(src, target ssa.Instruction, e *ssa.BasicBlock) bool {
		// can target execute after src without (re-)entering block e?
		if src.Block() == target.Block() && ssau.IndexOf(src) < ssau.IndexOf(target) {
			return true // straight line inside one block: nothing is re-entered
		}
		for _, s := range src.Block().Succs {
			if target.Block() == e {
				// the target is inside the test block: entering it runs the block from its top; a load
				// after the test instruction would have to be checked separately — be conservative
				continue
			}
			if reachAvoid(s, target, e) {
				return true
			}
		}
		return false
	}
	var why []string
	for _, t := range tests {
		if t.problem != "" {
			why = append(why, t.form+": "+t.problem)
			continue
		}
		bad := ""
		for _, L := range loads {
			sameValue := ssa.Value(L) == t.key
			target := ssa.Instruction(L)
			if sameValue {
				// the assigned value is the very value that was tested: what matters is where the
				// assignment executes
				target = assign
			}
			switch {
			case !(t.entry == target.Block() && ssau.IndexOf(t.at) < ssau.IndexOf(target)) && !(t.entry != target.Block() && t.entry.Dominates(target.Block())):
				bad = "the test does not dominate the assignment's read of m.nextPID at " + instrPos(p, L)
			case target.Block() == t.entry && !sameValue:
				bad = "m.nextPID is read again inside the test block"
			}
			if bad != "" {
				break
			}
			for _, iu := range t.inUse {
				if edgeReachesAvoiding(iu, target.Block(), t.entry) {
					bad = "the in-use outcome of the test can be followed by the assignment without the test being repeated (a single `if` instead of a loop): with two consecutive occupied PIDs the second one is handed out"
				}
			}
			if bad != "" {
				break
			}
			if !sameValue {
				for _, s := range stores {
					if afterAvoid(s, L, t.entry) {
						bad = fmt.Sprintf("m.nextPID is changed at %s and then read for the assignment at %s without the new value being tested", instrPos(p, s), instrPos(p, L))
					}
				}
			}
			if bad != "" {
				break
			}
		}
		if bad == "" {
			r.OK(rule, key, pos, fmt.Sprintf("the %s at %s dominates the read of m.nextPID that is assigned; from its in-use edge and from each of the %d stores to m.nextPID the assignment is only reachable through the test again: the assigned value was found unused", t.form, instrPos(p, t.at), len(stores)))
			return
		}
		why = append(why, t.form+" at "+instrPos(p, t.at)+": "+bad)
	}
	// second argument: forward must-analysis (any loop shape)
	all := true
	for _, L := range loads {
		if !a.flowUnused(f, m, L) {
			all = false
		}
	}
	if all {
		r.OK(rule, key, pos, fmt.Sprintf("forward must-analysis: at each of the %d reads of m.nextPID that are assigned, on every path the current value of m.nextPID has been looked up in m.esContexts after the last store to it and found absent", len(loads)))
		return
	}
	r.Bad(rule, key, pos, "the automatically assigned PID is not proven unused at the point of assignment — "+strings.Join(why, " | "))
}

// edgeReachesAvoiding reports whether block `to` can be reached after taking conditional edge e
// without entering block `avoid`. Boolean phis whose incoming value on the travelled edge is a
// constant are tracked, and a later branch on such a phi only follows the consistent successor
// (`found = true; break` … `if !found { break }`).
func edgeReachesAvoiding(e ssau.Edge, to, avoid *ssa.BasicBlock) bool {
	type state struct {
		b     *ssa.BasicBlock
		facts string
	}
	enter := func(pred, b *ssa.BasicBlock, facts map[*ssa.Phi]bool) map[*ssa.Phi]bool {
		out := map[*ssa.Phi]bool{}
		for k, v := range facts {
			out[k] = v
		}
		idx := -1
		for i, p := range b.Preds {
			if p == pred {
				idx = i
			}
		}
		for _, in := range b.Instrs {
			ph, ok := in.(*ssa.Phi)
			if !ok {
				break
			}
			delete(out, ph)
			if idx >= 0 && isBool(ph.Type()) {
				if v, isC := ssau.ConstBool(ph.Edges[idx]); isC {
					out[ph] = v
				} else if src, isPhi := ph.Edges[idx].(*ssa.Phi); isPhi {
					if v, known := facts[src]; known {
						out[ph] = v
					}
				}
			}
		}
		return out
	}
	render := func(f map[*ssa.Phi]bool) string {
		var ks []string
		for k, v := range f {
			ks = append(ks, fmt.Sprintf("%s=%v", k.Name(), v))
		}
		sort.Strings(ks)
		return strings.Join(ks, ",")
	}
	type item struct {
		b     *ssa.BasicBlock
		facts map[*ssa.Phi]bool
	}
	from := e.If.Block()
	first := from.Succs[e.Succ]
	if first == avoid {
		return false
	}
	start := item{first, enter(from, first, nil)}
	seen := map[state]bool{{start.b, render(start.facts)}: true}
	work := []item{start}
	for len(work) > 0 {
		it := work[len(work)-1]
		work = work[:len(work)-1]
		if it.b == to {
			return true
		}
		succs := it.b.Succs
		if iff, ok := it.b.Instrs[len(it.b.Instrs)-1].(*ssa.If); ok {
			cond, neg := iff.Cond, false
			for {
				u, ok := cond.(*ssa.UnOp)
				if !ok || u.Op != token.NOT {
					break
				}
				cond, neg = u.X, !neg
			}
			if ph, ok := cond.(*ssa.Phi); ok {
				if v, known := it.facts[ph]; known {
					if v != neg {
						succs = it.b.Succs[:1]
					} else {
						succs = it.b.Succs[1:2]
					}
				}
			}
		}
		for _, s := range succs {
			if s == avoid {
				continue
			}
			nf := enter(it.b, s, it.facts)
			st := state{s, render(nf)}
			if !seen[st] {
				seen[st] = true
				work = append(work, item{s, nf})
			}
		}
	}
	return false
}

var _ = report.Discharged
