package muxstate

import (
	"fmt"
	"go/token"
	"go/types"
	"sort"
	"strings"

	"astverif/load"
	"astverif/report"
	"astverif/ssau"

	"golang.org/x/tools/go/ssa"
)

// generators returns the Muxer methods that have S1 effects (inc on a Muxer counter field, clearing a
// Muxer flag) together with their summaries.
func (a *anchors) generators() (gens []*ssa.Function, sums map[*ssa.Function]Summary) {
	sums = map[*ssa.Function]Summary{}
	for _, f := range nonTestFuncs(a.p) {
		if recvNamed(f) != "Muxer" || f.Parent() != nil {
			continue
		}
		s := a.Summarize(f)
		if len(s.Effects) == 0 {
			continue
		}
		sums[f] = s
		gens = append(gens, f)
	}
	// A helper carved out of a generator — an unexported Muxer method with effects whose every use is a plain call from other Muxer
	// methods on their own receiver, none of which writes the helper's output buffer to m.w — is folded into its callers: its effects count as effects of the call instruction, its output
	// buffer as the caller's. The caller then answers for them (part 1 on its own failing exits, part 2 in ITS callers), which is
	// conservative: whatever the helper may have done before failing is taken to have happened.
	for round := 0; round < 3; round++ {
		changed := false
		for _, h := range append([]*ssa.Function{}, gens...) {
			if token.IsExported(h.Name()) {
				continue
			}
			type site struct {
				f *ssa.Function
				c *ssa.Call
			}
			var sites []site
			ok := true
			for _, f := range nonTestFuncs(a.p) {
				calls, other := callsTo(f, h)
				if len(other) > 0 {
					ok = false
				}
				for _, c := range calls {
					if f == h || recvNamed(f) != "Muxer" || f.Parent() != nil || recv(f) == nil || len(c.Call.Args) == 0 || c.Call.Args[0] != recv(f) {
						ok = false
					}
					// a caller that emits h's output buffer is the emitter the pairing rule is about, not a generator h is part of
					for _, fb := range f.Blocks {
						for _, fin := range fb.Instrs {
							if w, buf := a.isWriterWrite(fin, recv(f)); w && (buf == nil || buf == sums[h].OutBuf || sums[h].OutBuf == nil) {
								ok = false
							}
						}
					}
					sites = append(sites, site{f, c})
				}
				// used as a value?
				for _, b := range f.Blocks {
					for _, in := range b.Instrs {
						for _, op := range in.Operands(nil) {
							if op != nil && *op == ssa.Value(h) {
								if ci, isCall := in.(ssa.CallInstruction); !isCall || ci.Common().Value != ssa.Value(h) {
									ok = false
								}
							}
						}
					}
				}
			}
			if !ok || len(sites) == 0 {
				continue
			}
			hs := sums[h]
			for _, st := range sites {
				cs, had := sums[st.f]
				if !had {
					cs = a.Summarize(st.f)
					gens = append(gens, st.f)
				}
				for _, ef := range hs.Effects {
					ne := Effect{Name: ef.Name, Instr: st.c, Field: ef.Field}
					cs.Effects = append(cs.Effects, ne)
					for i := range cs.Exits {
						if ssau.Reaches(st.c.Block(), cs.Exits[i].Ret.Block()) {
							cs.Exits[i].May = append(cs.Exits[i].May, ne)
						}
					}
				}
				if cs.OutBuf == nil && hs.OutBuf != nil {
					cs.OutBuf, cs.OutNote = hs.OutBuf, ""
				}
				sums[st.f] = cs
			}
			delete(sums, h)
			for i, g := range gens {
				if g == h {
					gens = append(gens[:i], gens[i+1:]...)
					break
				}
			}
			changed = true
		}
		if !changed {
			break
		}
	}
	return
}

// undoCtx decides whether a store is a valid explicit undo (`m.F = saved`) of a generator effect.
type undoCtx struct {
	a    *anchors
	eff  map[*ssa.Function]map[*types.Var]bool // generator -> Muxer fields it changes
	gens []*ssa.Function
}

func (a *anchors) newUndoCtx(gens []*ssa.Function, sums map[*ssa.Function]Summary) *undoCtx {
	u := &undoCtx{a: a, eff: map[*ssa.Function]map[*types.Var]bool{}, gens: gens}
	for _, g := range gens {
		u.eff[g] = map[*types.Var]bool{}
		for _, e := range sums[g].Effects {
			u.eff[g][e.Field] = true
		}
	}
	return u
}

// mutates reports whether instruction in may change field f of the Muxer m: a store into m.f, a call
// that receives the address of (a part of) m.f, or a call of a generator that has an effect on f.
func (u *undoCtx) mutates(in ssa.Instruction, m ssa.Value, f *types.Var) bool {
	switch x := in.(type) {
	case *ssa.Store:
		ap := AddrPath(x.Addr)
		return ap.Root == m && len(ap.Fields) >= 1 && ap.Fields[0] == f
	case ssa.CallInstruction:
		c := x.Common()
		if g := c.StaticCallee(); g != nil && u.eff[g][f] && len(c.Args) > 0 && c.Args[0] == m {
			return true
		}
		for _, arg := range c.Args {
			if _, isPtr := arg.Type().Underlying().(*types.Pointer); !isPtr {
				continue
			}
			ap := AddrPath(arg)
			if ap.Root == m && len(ap.Fields) >= 1 && ap.Fields[0] == f {
				return true
			}
		}
	}
	return false
}

// validRestore decides whether st (a store to m.f) writes back a snapshot of the SAME field: every
// leaf of the stored value is a load of m.f that dominates `before` (the generator call, or the
// effect itself) and no instruction that may change m.f can execute between that load and `before`.
func (u *undoCtx) validRestore(st *ssa.Store, m ssa.Value, f *types.Var, before ssa.Instruction) (bool, string) {
	p := u.a.p
	if !AddrPath(st.Addr).Is(m, f) {
		return false, "not a store to m." + f.Name()
	}
	leaves := ssau.Leaves(st.Val)
	if len(leaves) == 0 {
		return false, "no value"
	}
	for _, l := range leaves {
		if l == nil {
			return false, "the saved variable may be unassigned (zero value)"
		}
		lp, ok := LoadPath(l)
		if !ok {
			return false, "the stored value " + Describe(l) + " is not a value loaded from the muxer"
		}
		if !lp.Is(m, f) {
			return false, fmt.Sprintf("the stored value was loaded from %s, not from m.%s: the rollback writes another field's snapshot into m.%s", lp.String(), f.Name(), f.Name())
		}
		ld, ok := l.(ssa.Instruction)
		if !ok || ld.Parent() != before.Parent() || !ssau.InstrBefore(ld, before) {
			return false, fmt.Sprintf("the snapshot of m.%s (at %s) is not taken before %s on every path", f.Name(), instrPos(p, ld), instrPos(p, before))
		}
		for _, b := range before.Parent().Blocks {
			for _, x := range b.Instrs {
				if x == before || x == ssa.Instruction(st) || !u.mutates(x, m, f) {
					continue
				}
				if reachesInstr(ld, x) && reachesInstr(x, before) {
					return false, fmt.Sprintf("m.%s can be modified at %s between the snapshot (%s) and %s: the saved value is stale", f.Name(), instrPos(p, x), instrPos(p, ld), instrPos(p, before))
				}
			}
		}
	}
	return true, ""
}

// isRestore is validRestore as a predicate on instructions (for must-reach queries).
func (u *undoCtx) isRestore(in ssa.Instruction, m ssa.Value, f *types.Var, before ssa.Instruction) bool {
	st, ok := in.(*ssa.Store)
	if !ok || !AddrPath(st.Addr).Is(m, f) {
		return false
	}
	ok, _ = u.validRestore(st, m, f, before)
	return ok
}

// UndoStores checks every non-constant store to a Muxer field that a table generator changes
// (continuity counters, version counters, dirty flags): outside construction such a store is only
// legitimate as the rollback of a generator call, and then it must write back the snapshot of the
// same field of the same receiver, taken before that call with no modification in between.
// One obligation per store: <rule>/<function>/undo[<field>].
func UndoStores(p *load.Program, r *report.Report, rule string, want func(f *types.Var) bool) {
	a := getAnchors(p)
	if !a.ok(r, rule) {
		return
	}
	gens, sums := a.generators()
	u := a.newUndoCtx(gens, sums)
	fieldSet := map[*types.Var]bool{}
	for _, g := range gens {
		for f := range u.eff[g] {
			if want == nil || want(f) {
				fieldSet[f] = true
			}
		}
	}
	var fields []*types.Var
	for f := range fieldSet {
		fields = append(fields, f)
	}
	sort.Slice(fields, func(i, j int) bool { return fields[i].Pos() < fields[j].Pos() })
	for _, f := range fields {
		for _, s := range WhoWrites(p, "Muxer", f.Name()) {
			st, ok := s.Instr.(*ssa.Store)
			if !ok || s.Fresh {
				continue
			}
			if _, isConst := st.Val.(*ssa.Const); isConst {
				continue // flag set / cleared with a constant: who-must-flag and the flag-clear rules
			}
			if c, isCall := st.Val.(*ssa.Call); isCall && c.Call.StaticCallee() == a.newWC {
				continue // construction: rule width
			}
			fname := load.FuncName(s.Fn)
			key := fmt.Sprintf("%s/undo[%s]", fname, f.Name())
			pos := instrPos(p, st)
			m := recv(s.Fn)
			if m == nil || !s.Path.Is(m, f) {
				r.Unknown(rule, key, pos, "m."+f.Name()+" is overwritten through "+s.Path.String()+", which is not the method receiver: cannot relate the store to a generator call")
				continue
			}
			// generator calls of this function that change f and can precede the store
			var calls []*ssa.Call
			for _, g := range gens {
				if !u.eff[g][f] {
					continue
				}
				cs, _ := callsTo(s.Fn, g)
				for _, c := range cs {
					if len(c.Call.Args) > 0 && c.Call.Args[0] == m && reachesInstr(c, st) {
						calls = append(calls, c)
					}
				}
			}
			if len(calls) == 0 {
				r.Bad(rule, key, pos, fmt.Sprintf("m.%s is assigned %s in %s, which is neither its construction nor the rollback of a generator call that changes it", f.Name(), Describe(st.Val), fname))
				continue
			}
			var problems []string
			for _, c := range calls {
				if ok, why := u.validRestore(st, m, f, c); !ok {
					problems = append(problems, why)
				}
			}
			if len(problems) > 0 {
				r.Bad(rule, key, pos, fmt.Sprintf("the rollback m.%s = %s does not restore the state before %s: %s", f.Name(), Describe(st.Val), shortCallee(&calls[0].Call), strings.Join(dedupStrings(problems), "; ")))
				continue
			}
			r.OK(rule, key, pos, fmt.Sprintf("m.%s is written back from the value loaded from m.%s itself before %s, with nothing that changes it in between", f.Name(), f.Name(), shortCallee(&calls[0].Call)))
			// a version number goes back together with the dirty flag its generator cleared: restoring the version alone
			// makes the next emission carry the changed content under the old version_number
			if counterClass(f) == "version" {
				for _, c := range calls {
					g := c.Call.StaticCallee()
					var flags []*types.Var
					for uf := range u.eff[g] {
						if b, ok := uf.Type().Underlying().(*types.Basic); ok && b.Kind() == types.Bool {
							flags = append(flags, uf)
						}
					}
					sort.Slice(flags, func(i, j int) bool { return flags[i].Pos() < flags[j].Pos() })
					for _, uf := range flags {
						found := false
						for _, b := range s.Fn.Blocks {
							for _, in := range b.Instrs {
								us, ok := in.(*ssa.Store)
								if !ok || !AddrPath(us.Addr).Is(m, uf) {
									continue
								}
								if ok, _ := u.validRestore(us, m, uf, c); !ok {
									continue
								}
								if us.Block() == st.Block() || us.Block().Dominates(st.Block()) {
									found = true
									continue
								}
								// every way out of the function from the version restore passes the flag restore
								post := true
								for _, ret := range ssau.Returns(s.Fn) {
									if reachesAvoiding(st.Block(), ret.Block(), us.Block()) {
										post = false
									}
								}
								if post {
									found = true
								}
							}
						}
						fkey := fmt.Sprintf("%s/undo[%s]/with-flag[%s]/after[%s]", fname, f.Name(), uf.Name(), shortCallee(&c.Call))
						r.Check(found, rule, fkey, pos, fmt.Sprintf("the rollback of m.%s after %s comes with the rollback of m.%s, which %s cleared", f.Name(), shortCallee(&c.Call), uf.Name(), shortCallee(&c.Call)),
							fmt.Sprintf("m.%s is rolled back after %s but the dirty flag m.%s that %s cleared is not: the next emission carries the changed table under the old version number", f.Name(), shortCallee(&c.Call), uf.Name(), shortCallee(&c.Call)))
					}
				}
			}
		}
	}
}

func dedupStrings(in []string) []string {
	seen := map[string]bool{}
	var out []string
	for _, s := range in {
		if !seen[s] {
			seen[s] = true
			out = append(out, s)
		}
	}
	return out
}
