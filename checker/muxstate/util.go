package muxstate

import (
	"fmt"
	"go/ast"
	"go/constant"
	"go/token"
	"go/types"
	"sort"
	"strings"

	"astverif/load"
	"astverif/ssau"

	"golang.org/x/tools/go/ssa"
)

// ---------------------------------------------------------------------------------------------
// anchors: types, fields, constants and functions are resolved through go/types objects
// ---------------------------------------------------------------------------------------------

// StructField returns the field object `field` of the package-level struct type typeName, or nil.
func StructField(p *load.Program, typeName, field string) *types.Var {
	obj := p.Types.Scope().Lookup(typeName)
	if obj == nil {
		return nil
	}
	st, ok := obj.Type().Underlying().(*types.Struct)
	if !ok {
		return nil
	}
	for i := 0; i < st.NumFields(); i++ {
		if st.Field(i).Name() == field {
			return st.Field(i)
		}
	}
	return nil
}

// FieldPath resolves "a.b.c" starting at struct type typeName to the list of field objects.
func FieldPath(p *load.Program, typeName, path string) []*types.Var {
	obj := p.Types.Scope().Lookup(typeName)
	if obj == nil {
		return nil
	}
	t := obj.Type()
	var out []*types.Var
	for _, name := range strings.Split(path, ".") {
		if pt, ok := t.Underlying().(*types.Pointer); ok {
			t = pt.Elem()
		}
		st, ok := t.Underlying().(*types.Struct)
		if !ok {
			return nil
		}
		var f *types.Var
		for i := 0; i < st.NumFields(); i++ {
			if st.Field(i).Name() == name {
				f = st.Field(i)
			}
		}
		if f == nil {
			return nil
		}
		out = append(out, f)
		t = f.Type()
	}
	return out
}

// PkgConstInt returns the value of a package-level integer constant.
func PkgConstInt(p *load.Program, name string) (int64, bool) {
	c, ok := p.Types.Scope().Lookup(name).(*types.Const)
	if !ok || c.Val().Kind() != constant.Int {
		return 0, false
	}
	v, exact := constant.Int64Val(c.Val())
	return v, exact
}

// ConstUses counts the uses of a package-level constant in non-test files.
func ConstUses(p *load.Program, name string) int {
	obj := p.Types.Scope().Lookup(name)
	if obj == nil {
		return 0
	}
	n := 0
	for id, o := range p.Info.Uses {
		if o == obj && !p.IsTestFile(id.Pos()) {
			n++
		}
	}
	return n
}

// fieldVar returns the field object addressed/selected by a FieldAddr or Field instruction.
func fieldVar(v ssa.Value) *types.Var {
	switch x := v.(type) {
	case *ssa.FieldAddr:
		pt, ok := x.X.Type().Underlying().(*types.Pointer)
		if !ok {
			return nil
		}
		st, ok := pt.Elem().Underlying().(*types.Struct)
		if !ok {
			return nil
		}
		return st.Field(x.Field)
	case *ssa.Field:
		st, ok := x.X.Type().Underlying().(*types.Struct)
		if !ok {
			return nil
		}
		return st.Field(x.Field)
	}
	return nil
}

// ownerName returns "T.f" for a field object by searching the package's named struct types.
func ownerName(p *load.Program, f *types.Var) string {
	if f == nil {
		return "?"
	}
	sc := p.Types.Scope()
	for _, n := range sc.Names() {
		tn, ok := sc.Lookup(n).(*types.TypeName)
		if !ok {
			continue
		}
		st, ok := tn.Type().Underlying().(*types.Struct)
		if !ok {
			continue
		}
		for i := 0; i < st.NumFields(); i++ {
			if st.Field(i) == f {
				return n + "." + f.Name()
			}
		}
	}
	return f.Name()
}

// ---------------------------------------------------------------------------------------------
// access paths: root value + sequence of field objects (nil = "element of")
// ---------------------------------------------------------------------------------------------

// Path is an access path: pointer dereferences are implicit, a nil entry means "element".
type Path struct {
	Root   ssa.Value
	Fields []*types.Var
}

// AddrPath decomposes an address (or a struct value) into its root and field sequence, looking
// through FieldAddr, Field, IndexAddr and pointer loads.
func AddrPath(v ssa.Value) Path {
	var rev []*types.Var
	for {
		switch x := v.(type) {
		case *ssa.FieldAddr:
			rev = append(rev, fieldVar(x))
			v = x.X
			continue
		case *ssa.Field:
			rev = append(rev, fieldVar(x))
			v = x.X
			continue
		case *ssa.IndexAddr:
			rev = append(rev, nil)
			v = x.X
			continue
		case *ssa.UnOp:
			if x.Op == token.MUL {
				v = x.X
				continue
			}
		}
		break
	}
	// a pointer variable captured by a closure lives in a cell: `c = new *T; *c = param; … *c`.
	// When the parameter is the only value ever stored, the cell stands for the parameter.
	if a, ok := v.(*ssa.Alloc); ok {
		if _, isPtr := a.Type().(*types.Pointer).Elem().Underlying().(*types.Pointer); isPtr {
			var vals []ssa.Value
			for _, ref := range *a.Referrers() {
				if st, ok := ref.(*ssa.Store); ok && st.Addr == ssa.Value(a) {
					vals = append(vals, st.Val)
				}
			}
			if len(vals) == 1 {
				if prm, ok := vals[0].(*ssa.Parameter); ok {
					v = prm
				}
			}
		}
	}
	out := Path{Root: v}
	for i := len(rev) - 1; i >= 0; i-- {
		out.Fields = append(out.Fields, rev[i])
	}
	return out
}

// LoadPath returns the access path of a loaded value (v = *addr).
func LoadPath(v ssa.Value) (Path, bool) {
	u, ok := v.(*ssa.UnOp)
	if !ok || u.Op != token.MUL {
		return Path{}, false
	}
	return AddrPath(u.X), true
}

// Is reports whether the path is exactly root.fields.
func (p Path) Is(root ssa.Value, fields ...*types.Var) bool {
	if p.Root != root || len(p.Fields) != len(fields) {
		return false
	}
	for i := range fields {
		if fields[i] == nil || p.Fields[i] != fields[i] {
			return false
		}
	}
	return true
}

// HasSuffix reports whether the path ends with the given fields.
func (p Path) HasSuffix(fields ...*types.Var) bool {
	if len(p.Fields) < len(fields) {
		return false
	}
	off := len(p.Fields) - len(fields)
	for i := range fields {
		if fields[i] == nil || p.Fields[off+i] != fields[i] {
			return false
		}
	}
	return true
}

// Last returns the last field of the path (nil if none).
func (p Path) Last() *types.Var {
	if len(p.Fields) == 0 {
		return nil
	}
	return p.Fields[len(p.Fields)-1]
}

func (p Path) String() string {
	s := Describe(p.Root)
	for _, f := range p.Fields {
		if f == nil {
			s += "[]"
		} else {
			s += "." + f.Name()
		}
	}
	return s
}

// samePath: same root and same fields.
func samePath(a, b Path) bool {
	if a.Root != b.Root || len(a.Fields) != len(b.Fields) {
		return false
	}
	for i := range a.Fields {
		if a.Fields[i] != b.Fields[i] {
			return false
		}
	}
	return true
}

// isLoadOf reports whether v loads root.fields.
func isLoadOf(v ssa.Value, root ssa.Value, fields ...*types.Var) bool {
	lp, ok := LoadPath(v)
	return ok && lp.Is(root, fields...)
}

// stripConv removes Convert / ChangeType wrappers.
func stripConv(v ssa.Value) ssa.Value {
	for {
		switch x := v.(type) {
		case *ssa.Convert:
			v = x.X
		case *ssa.ChangeType:
			v = x.X
		default:
			return v
		}
	}
}

// ---------------------------------------------------------------------------------------------
// describing values (for keys and reports: semantic text, never SSA register names)
// ---------------------------------------------------------------------------------------------

// Describe renders a value as source-like text built from parameters, locals' names, field names,
// constants and operators.
func Describe(v ssa.Value) string { return describe(v, 0) }

func describe(v ssa.Value, depth int) string {
	if v == nil {
		return "<zero>"
	}
	if depth > 12 {
		return "…"
	}
	d := func(x ssa.Value) string { return describe(x, depth+1) }
	switch x := v.(type) {
	case *ssa.Const:
		if x.Value == nil {
			return "nil"
		}
		return x.Value.ExactString()
	case *ssa.Parameter:
		return x.Name()
	case *ssa.FreeVar:
		return x.Name()
	case *ssa.Global:
		return x.Name()
	case *ssa.Function:
		return x.Name()
	case *ssa.Alloc:
		if x.Comment != "" && x.Comment != "complit" && x.Comment != "varargs" && x.Comment != "slicelit" {
			return x.Comment
		}
		return "new(" + ssau.ShortType(x.Type().(*types.Pointer).Elem()) + ")"
	case *ssa.FieldAddr:
		n, _ := ssau.FieldName(x)
		return d(x.X) + "." + n
	case *ssa.Field:
		n, _ := ssau.FieldName(x)
		return d(x.X) + "." + n
	case *ssa.IndexAddr:
		return d(x.X) + "[" + d(x.Index) + "]"
	case *ssa.Index:
		return d(x.X) + "[" + d(x.Index) + "]"
	case *ssa.Lookup:
		return d(x.X) + "[" + d(x.Index) + "]"
	case *ssa.UnOp:
		switch x.Op {
		case token.MUL:
			return d(x.X)
		case token.NOT:
			return "!" + d(x.X)
		default:
			return x.Op.String() + d(x.X)
		}
	case *ssa.BinOp:
		return d(x.X) + x.Op.String() + d(x.Y)
	case *ssa.Phi:
		if x.Comment != "" {
			return x.Comment
		}
		return "phi"
	case *ssa.Convert:
		return ssau.ShortType(x.Type()) + "(" + d(x.X) + ")"
	case *ssa.ChangeType:
		return d(x.X)
	case *ssa.MakeInterface:
		return d(x.X)
	case *ssa.ChangeInterface:
		return d(x.X)
	case *ssa.Extract:
		if lk, ok := x.Tuple.(*ssa.Lookup); ok {
			if x.Index == 1 {
				return d(lk) + ",ok"
			}
			return d(lk)
		}
		return d(x.Tuple) + "#" + fmt.Sprint(x.Index)
	case *ssa.Slice:
		lo, hi := "", ""
		if x.Low != nil {
			lo = d(x.Low)
		}
		if x.High != nil {
			hi = d(x.High)
		}
		return d(x.X) + "[" + lo + ":" + hi + "]"
	case *ssa.Call:
		var args []string
		for _, a := range x.Call.Args {
			args = append(args, d(a))
		}
		name := shortCallee(&x.Call)
		if _, isBuiltin := x.Call.Value.(*ssa.Builtin); !isBuiltin && depth > 0 {
			// nested calls are abbreviated: keys stay short and stable
			if f := x.Call.StaticCallee(); f != nil && f.Signature.Recv() != nil && len(args) > 0 {
				return args[0] + "." + f.Name() + "()"
			}
			return name + "(…)"
		}
		if x.Call.IsInvoke() {
			return d(x.Call.Value) + "." + x.Call.Method.Name() + "(" + strings.Join(args, ",") + ")"
		}
		if f := x.Call.StaticCallee(); f != nil && f.Signature.Recv() != nil && len(args) > 0 {
			return args[0] + "." + f.Name() + "(" + strings.Join(args[1:], ",") + ")"
		}
		return name + "(" + strings.Join(args, ",") + ")"
	}
	return "<" + strings.TrimPrefix(fmt.Sprintf("%T", v), "*ssa.") + ">"
}

// shortCallee returns a short name of the callee ("writePacket", "inc", "Write", "len").
func shortCallee(c *ssa.CallCommon) string {
	if c.IsInvoke() {
		return c.Method.Name()
	}
	switch v := c.Value.(type) {
	case *ssa.Builtin:
		return v.Name()
	case *ssa.Function:
		return v.Name()
	case *ssa.MakeClosure:
		if f, ok := v.Fn.(*ssa.Function); ok {
			return f.Name()
		}
	}
	return "<dynamic>"
}

// blockLabel renders a block for path reports.
func blockLabel(p *load.Program, b *ssa.BasicBlock) string {
	pos := token.NoPos
	for _, in := range b.Instrs {
		if in.Pos().IsValid() {
			pos = in.Pos()
			break
		}
	}
	s := fmt.Sprintf("b%d:%s", b.Index, b.Comment)
	if pos.IsValid() {
		s += "@" + p.Pos(pos)
	}
	return s
}

// PathString renders a block path.
func PathString(p *load.Program, bs []*ssa.BasicBlock) string {
	var parts []string
	for _, b := range bs {
		parts = append(parts, blockLabel(p, b))
	}
	return strings.Join(parts, " -> ")
}

// ---------------------------------------------------------------------------------------------
// small SSA predicates
// ---------------------------------------------------------------------------------------------

// callTo returns the call common part when instr is a (non-deferred) call of function fn.
func callTo(in ssa.Instruction, fn *ssa.Function) (*ssa.Call, bool) {
	c, ok := in.(*ssa.Call)
	if !ok || fn == nil {
		return nil, false
	}
	if c.Call.StaticCallee() != fn {
		return nil, false
	}
	return c, true
}

// callsTo lists the calls of fn inside f (block order). Deferred / go calls are returned in other.
func callsTo(f *ssa.Function, fn *ssa.Function) (calls []*ssa.Call, other []ssa.Instruction) {
	for _, b := range f.Blocks {
		for _, in := range b.Instrs {
			if c, ok := callTo(in, fn); ok {
				calls = append(calls, c)
				continue
			}
			if ci, ok := in.(ssa.CallInstruction); ok {
				if _, isCall := in.(*ssa.Call); !isCall && ci.Common().StaticCallee() == fn {
					other = append(other, in)
				}
			}
		}
	}
	return
}

// isBuiltinCall reports whether in is a call of the named builtin.
func isBuiltinCall(in ssa.Instruction, name string) (*ssa.Call, bool) {
	c, ok := in.(*ssa.Call)
	if !ok {
		return nil, false
	}
	b, ok := c.Call.Value.(*ssa.Builtin)
	if !ok || b.Name() != name {
		return nil, false
	}
	return c, true
}

// errResult returns the error result value of a return of f (nil when f has no error result).
func errResult(ret *ssa.Return) ssa.Value {
	f := ret.Parent()
	ei := ssau.ErrorResultIndex(f.Signature)
	if ei < 0 || ei >= len(ret.Results) {
		return nil
	}
	return ret.Results[ei]
}

// ExemptReturn reports whether a return carries a provably non-nil error.
func ExemptReturn(ret *ssa.Return) bool {
	v := errResult(ret)
	return v != nil && ssau.NonNilOnAllEdges(v, ret.Block())
}

// errSources describes where the error value of a return comes from: callee names for call
// results, variable names for sentinels. calls lists the call instructions the value derives from;
// pure is true when every leaf is such a call result.
func errSources(v ssa.Value) (names []string, calls []ssa.Value, pure bool) {
	pure = true
	seen := map[string]bool{}
	add := func(s string) {
		if !seen[s] {
			seen[s] = true
			names = append(names, s)
		}
	}
	for _, l := range ssau.Leaves(v) {
		if l == nil {
			add("zero")
			pure = false
			continue
		}
		switch x := l.(type) {
		case *ssa.Extract:
			if c, ok := x.Tuple.(*ssa.Call); ok {
				add(shortCallee(&c.Call))
				calls = append(calls, c)
				continue
			}
		case *ssa.Call:
			if ssau.IsErrorConstructor(x) {
				add(shortCallee(&x.Call))
				pure = false
				continue
			}
			add(shortCallee(&x.Call))
			calls = append(calls, x)
			continue
		case *ssa.Const:
			if x.Value == nil {
				add("nil")
				pure = false
				continue
			}
		}
		if g := ssau.GlobalOf(l); g != nil {
			add(g.Name())
			pure = false
			continue
		}
		add(Describe(l))
		pure = false
	}
	sort.Strings(names)
	return
}

// nilEdgeSucc: for an If whose condition compares x with nil, returns the successor index taken
// when x is nil (0/1) and x; ok=false for other conditions.
func nilEdgeSucc(iff *ssa.If) (x ssa.Value, nilSucc int, ok bool) {
	nc, ok := ssau.AsNilCompare(iff.Cond)
	if !ok {
		return nil, 0, false
	}
	if nc.Ne {
		return nc.X, 1, true
	}
	return nc.X, 0, true
}

// errorOf returns the error result value(s) of a call.
func errorOf(c *ssa.Call) []ssa.Value {
	ei := ssau.ErrorResultIndex(c.Call.Signature())
	if ei < 0 {
		return nil
	}
	return ssau.ResultValue(c, ei)
}

// failureSuccs lists the blocks entered when the error of call c is found non-nil (successors of
// Ifs testing one of c's error values), and checked=false when no such test exists.
func failureSuccs(c *ssa.Call) (succs []*ssa.BasicBlock, nilSuccs []*ssa.BasicBlock, checked bool) {
	evs := errorOf(c)
	f := c.Parent()
	for _, b := range f.Blocks {
		if len(b.Instrs) == 0 {
			continue
		}
		iff, ok := b.Instrs[len(b.Instrs)-1].(*ssa.If)
		if !ok {
			continue
		}
		x, nilSucc, ok := nilEdgeSucc(iff)
		if !ok {
			continue
		}
		for _, ev := range evs {
			if ssau.SameValue(x, ev) {
				checked = true
				succs = append(succs, b.Succs[1-nilSucc])
				nilSuccs = append(nilSuccs, b.Succs[nilSucc])
			}
		}
	}
	return
}

// onSuccessEdgeOf reports whether block b is only reachable through the nil edge of a test of
// call c's error result.
func onSuccessEdgeOf(b *ssa.BasicBlock, c *ssa.Call) bool {
	evs := errorOf(c)
	for _, e := range ssau.DominatingEdges(b) {
		x, nilSucc, ok := nilEdgeSucc(e.If)
		if !ok || e.Succ != nilSucc {
			continue
		}
		for _, ev := range evs {
			if ssau.SameValue(x, ev) {
				return true
			}
		}
	}
	return false
}

// reachesInstr reports whether instruction b can execute after instruction a.
func reachesInstr(a, b ssa.Instruction) bool {
	if a.Block() == b.Block() {
		if ssau.IndexOf(a) < ssau.IndexOf(b) {
			return true
		}
		// through a cycle
		for _, s := range a.Block().Succs {
			if ssau.Reaches(s, b.Block()) {
				return true
			}
		}
		return false
	}
	return ssau.Reaches(a.Block(), b.Block())
}

// reachesAvoiding reports whether `to` is reachable from `from` without entering block `avoid`.
func reachesAvoiding(from, to, avoid *ssa.BasicBlock) bool {
	seen := map[*ssa.BasicBlock]bool{}
	st := []*ssa.BasicBlock{from}
	for len(st) > 0 {
		b := st[len(st)-1]
		st = st[:len(st)-1]
		if b == avoid || seen[b] {
			continue
		}
		if b == to {
			return true
		}
		seen[b] = true
		st = append(st, b.Succs...)
	}
	return false
}

// onCycleAvoiding reports whether block b lies on a cycle that does not pass through `avoid`.
func onCycleAvoiding(b, avoid *ssa.BasicBlock) bool {
	for _, s := range b.Succs {
		if reachesAvoiding(s, b, avoid) {
			return true
		}
	}
	return false
}

// inFile reports whether f is declared in the named file of the repository.
func inFile(p *load.Program, f *ssa.Function, name string) bool {
	pos := f.Pos()
	if !pos.IsValid() && f.Parent() != nil {
		pos = f.Parent().Pos()
	}
	if !pos.IsValid() {
		return false
	}
	fn := p.Fset.Position(pos).Filename
	return strings.HasSuffix(fn, "/"+name)
}

// recvNamed returns the name of the receiver's named type ("" for plain functions).
func recvNamed(f *ssa.Function) string {
	for f.Parent() != nil {
		f = f.Parent()
	}
	r := f.Signature.Recv()
	if r == nil {
		return ""
	}
	t := r.Type()
	if pt, ok := t.(*types.Pointer); ok {
		t = pt.Elem()
	}
	if n, ok := t.(*types.Named); ok {
		return n.Obj().Name()
	}
	return ""
}

// nonTestFuncs lists the package's source functions outside _test.go files.
func nonTestFuncs(p *load.Program) []*ssa.Function {
	var out []*ssa.Function
	for _, f := range p.SrcFuncs() {
		pos := f.Pos()
		if !pos.IsValid() && f.Syntax() != nil {
			pos = f.Syntax().Pos()
		}
		if pos.IsValid() && p.IsTestFile(pos) {
			continue
		}
		out = append(out, f)
	}
	return out
}

// instrPos returns a usable position for an instruction (falls back to neighbours in the block).
func instrPos(p *load.Program, in ssa.Instruction) string {
	if in == nil {
		return "-"
	}
	if in.Pos().IsValid() {
		return p.Pos(in.Pos())
	}
	b := in.Block()
	idx := ssau.IndexOf(in)
	for d := 1; d < len(b.Instrs); d++ {
		for _, j := range []int{idx - d, idx + d} {
			if j >= 0 && j < len(b.Instrs) && b.Instrs[j].Pos().IsValid() {
				return p.Pos(b.Instrs[j].Pos())
			}
		}
	}
	if f := in.Parent(); f != nil && f.Pos().IsValid() {
		return p.Pos(f.Pos())
	}
	return "-"
}

// funcPos is the position of a function.
func funcPos(p *load.Program, f *ssa.Function) string {
	if f == nil {
		return "-"
	}
	if f.Pos().IsValid() {
		return p.Pos(f.Pos())
	}
	if s := f.Syntax(); s != nil {
		return p.Pos(s.Pos())
	}
	return "-"
}

var _ = ast.Inspect
