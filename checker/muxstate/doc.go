// Package muxstate is engine D (state, ownership and ordering rules) for the muxer.
package muxstate
