package muxstate

import (
	"go/token"

	"golang.org/x/tools/go/ssa"

	"astverif/ssau"
)

// Forward must-analysis for "the current value of m.nextPID was looked up in m.esContexts and found absent".
//
// State at a program point: V, the set of boolean SSA values that equal "the current m.nextPID is a key of m.esContexts" on every path
// to the point, and U, "on every path the current m.nextPID has been found absent". A comma-ok lookup m.esContexts[uint32(m.nextPID)]
// whose key and map are loaded after the last store adds its ok value to V; a store to m.nextPID or through m.esContexts, and any call
// that receives m, clear V and U; a phi is in V when each incoming value was in V at the end of its predecessor; the edge of a branch on
// v ∈ V (or its negation) on which v is false sets U. The loop forms `for { if _, ok := …; !ok {break}; next++ }` and
// `_, used := …; for used { next++; _, used = … }` both reach the assignment with U.
type pidFlow struct {
	top bool
	v   map[ssa.Value]bool // values equal to "the current nextPID is unusable" (in use / the PMT PID)
	nv  map[ssa.Value]bool // values equal to its negation
	u   bool
}

func (s pidFlow) clone() pidFlow {
	o := pidFlow{top: s.top, u: s.u, v: map[ssa.Value]bool{}, nv: map[ssa.Value]bool{}}
	for k := range s.v {
		o.v[k] = true
	}
	for k := range s.nv {
		o.nv[k] = true
	}
	return o
}

func meetFlow(a, b pidFlow) pidFlow {
	if a.top {
		return b.clone()
	}
	if b.top {
		return a.clone()
	}
	o := pidFlow{u: a.u && b.u, v: map[ssa.Value]bool{}, nv: map[ssa.Value]bool{}}
	for k := range a.v {
		if b.v[k] {
			o.v[k] = true
		}
	}
	for k := range a.nv {
		if b.nv[k] {
			o.nv[k] = true
		}
	}
	return o
}

func sameFlow(a, b pidFlow) bool {
	if a.top != b.top || a.u != b.u || len(a.v) != len(b.v) || len(a.nv) != len(b.nv) {
		return false
	}
	for k := range a.v {
		if !b.v[k] {
			return false
		}
	}
	for k := range a.nv {
		if !b.nv[k] {
			return false
		}
	}
	return true
}

// flowUnused reports whether U holds immediately before instruction at.
func (a *anchors) flowUnused(f *ssa.Function, m ssa.Value, at ssa.Instruction) bool {
	return a.flowPID(f, m, at, -1)
}

// flowNotConst: the same analysis for the fact "the current m.nextPID has been compared with the constant c after the last
// store to it and found different" (`m.nextPID != c` / `m.nextPID == c` in either polarity).
func (a *anchors) flowNotConst(f *ssa.Function, m ssa.Value, at ssa.Instruction, c int64) bool {
	return a.flowPID(f, m, at, c)
}

func (a *anchors) flowPID(f *ssa.Function, m ssa.Value, at ssa.Instruction, cmpConst int64) bool {
	isNext := func(v ssa.Value) bool { return isLoadOf(stripConv(v), m, a.fNextPID) }
	// step applies one instruction
	step := func(s *pidFlow, in ssa.Instruction) {
		switch x := in.(type) {
		case *ssa.Store:
			if AddrPath(x.Addr).Is(m, a.fNextPID) {
				s.v, s.nv, s.u = map[ssa.Value]bool{}, map[ssa.Value]bool{}, false
			}
		case *ssa.MapUpdate:
			if isLoadOf(x.Map, m, a.fESContexts) {
				s.v, s.nv, s.u = map[ssa.Value]bool{}, map[ssa.Value]bool{}, false
			}
		case *ssa.Call:
			for _, arg := range x.Call.Args {
				if arg == m {
					s.v, s.nv, s.u = map[ssa.Value]bool{}, map[ssa.Value]bool{}, false
				}
			}
			if x.Call.IsInvoke() && x.Call.Value == m {
				s.v, s.nv, s.u = map[ssa.Value]bool{}, map[ssa.Value]bool{}, false
			}
		case *ssa.BinOp:
			if cmpConst < 0 || (x.Op != token.EQL && x.Op != token.NEQ) {
				return
			}
			l, c := x.X, x.Y
			if _, isC := ssau.ConstInt(l); isC {
				l, c = c, l
			}
			if k, isC := ssau.ConstInt(c); !isC || k != cmpConst || !isNext(l) {
				return
			}
			kl, ok := stripConv(l).(*ssa.UnOp)
			if !ok || kl.Block() != x.Block() {
				return
			}
			for _, mid := range x.Block().Instrs[ssau.IndexOf(kl):ssau.IndexOf(x)] {
				if st, ok := mid.(*ssa.Store); ok && AddrPath(st.Addr).Is(m, a.fNextPID) {
					return
				}
				if c, ok := mid.(*ssa.Call); ok {
					for _, arg := range c.Call.Args {
						if arg == m {
							return
						}
					}
				}
			}
			if x.Op == token.EQL {
				s.v[x] = true
			} else {
				s.nv[x] = true
			}
		case *ssa.Extract:
			if cmpConst >= 0 {
				return
			}
			lk, ok := x.Tuple.(*ssa.Lookup)
			if !ok || !lk.CommaOk || x.Index != 1 || !isLoadOf(lk.X, m, a.fESContexts) || !isNext(lk.Index) {
				return
			}
			// the key is read in the lookup's block with no store to m.nextPID in between
			kl, ok := stripConv(lk.Index).(*ssa.UnOp)
			if !ok || kl.Block() != lk.Block() || x.Block() != lk.Block() {
				return
			}
			for _, mid := range lk.Block().Instrs[ssau.IndexOf(kl):ssau.IndexOf(x)] {
				if st, ok := mid.(*ssa.Store); ok && AddrPath(st.Addr).Is(m, a.fNextPID) {
					return
				}
				if c, ok := mid.(*ssa.Call); ok {
					for _, arg := range c.Call.Args {
						if arg == m {
							return
						}
					}
				}
			}
			s.v[x] = true
		}
	}
	in := map[*ssa.BasicBlock]pidFlow{}
	out := map[*ssa.BasicBlock]pidFlow{}
	for _, b := range f.Blocks {
		in[b] = pidFlow{top: true}
		out[b] = pidFlow{top: true}
	}
	edge := func(p, b *ssa.BasicBlock) pidFlow {
		s := out[p].clone()
		if s.top {
			return s
		}
		// branch refinement
		if iff, ok := p.Instrs[len(p.Instrs)-1].(*ssa.If); ok && p.Succs[0] != p.Succs[1] {
			cond, neg := iff.Cond, false
			for {
				u, ok := cond.(*ssa.UnOp)
				if !ok || u.Op != token.NOT {
					break
				}
				cond, neg = u.X, !neg
			}
			if s.v[cond] {
				// edge on which cond is false: succ 1 (or succ 0 when negated)
				falseSucc := 1
				if neg {
					falseSucc = 0
				}
				if p.Succs[falseSucc] == b {
					s.u = true
				}
			}
			if s.nv[cond] {
				trueSucc := 0
				if neg {
					trueSucc = 1
				}
				if p.Succs[trueSucc] == b {
					s.u = true
				}
			}
		}
		// phis of b
		idx := -1
		for i, q := range b.Preds {
			if q == p {
				idx = i
			}
		}
		add := []ssa.Value{}
		for _, ins := range b.Instrs {
			ph, ok := ins.(*ssa.Phi)
			if !ok {
				break
			}
			if idx >= 0 && s.v[ph.Edges[idx]] {
				add = append(add, ph)
			} else {
				delete(s.v, ph)
			}
			delete(s.nv, ph)
		}
		for _, v := range add {
			s.v[v] = true
		}
		return s
	}
	for changed, rounds := true, 0; changed && rounds < 4*len(f.Blocks)+8; rounds++ {
		changed = false
		for _, b := range f.Blocks {
			var s pidFlow
			if b == f.Blocks[0] {
				s = pidFlow{v: map[ssa.Value]bool{}, nv: map[ssa.Value]bool{}}
			} else {
				s = pidFlow{top: true}
				for _, p := range b.Preds {
					s = meetFlow(s, edge(p, b))
				}
			}
			if !sameFlow(s, in[b]) {
				in[b] = s.clone()
				changed = true
			}
			o := s.clone()
			if !o.top {
				for _, ins := range b.Instrs {
					step(&o, ins)
				}
			}
			if !sameFlow(o, out[b]) {
				out[b] = o
				changed = true
			}
		}
	}
	s := in[at.Block()].clone()
	if s.top {
		return false
	}
	for _, ins := range at.Block().Instrs {
		if ins == at {
			return s.u
		}
		step(&s, ins)
	}
	return false
}
