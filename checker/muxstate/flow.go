package muxstate

import (
	"fmt"
	"go/token"
	"go/types"
	"sort"

	"astverif/load"
	"astverif/ssau"

	"golang.org/x/tools/go/ssa"
)

// ---------------------------------------------------------------------------------------------
// must-reach (S1): forward search on the SSA control-flow graph
// ---------------------------------------------------------------------------------------------

// Flow parameterises a must-reach query: starting after Start (or at the function entry when
// Start is nil), every path must meet an instruction accepted by Stop before it meets an
// instruction for which Bad returns a non-empty kind. Re-executing Start itself (through a back
// edge) is always bad (kind "next-iteration").
type Flow struct {
	Stop func(ssa.Instruction) bool
	Bad  func(ssa.Instruction) string
	// Feasible (optional) prunes conditional edges that cannot be taken (see ConstFieldPruner).
	Feasible func(from *ssa.BasicBlock, succ int) bool
}

// Terminal is a bad end of a path.
type Terminal struct {
	Instr ssa.Instruction
	Kind  string
	Path  []*ssa.BasicBlock // from the start block to the terminal's block
}

// Escape is a conditional edge at which control leaves the region from which Stop is still
// reachable and enters a region where only bad terminals (or exempt exits) remain.
type Escape struct {
	From *ssa.BasicBlock
	Succ int
	Head []*ssa.BasicBlock // start block … From
	Tail []*ssa.BasicBlock // successor … block of Term
	Term Terminal
}

// Path is Head followed by Tail.
func (e Escape) Path() []*ssa.BasicBlock {
	return append(append([]*ssa.BasicBlock{}, e.Head...), e.Tail...)
}

// FlowResult is the outcome of a must-reach query.
type FlowResult struct {
	Terminals []Terminal
	Escapes   []Escape
	CanStop   bool                     // at least one path from the start meets Stop
	Open      map[*ssa.BasicBlock]bool // blocks that can be traversed from top to end with the obligation open
}

// OK reports whether the obligation holds (no bad terminal reachable before Stop).
func (r FlowResult) OK() bool { return len(r.Terminals) == 0 }

const (
	oThrough = iota
	oStop
	oBad
	oDead
)

type blockOutcome struct {
	kind  int
	instr ssa.Instruction
	bad   string
}

// MustReach runs the query on function f, starting after instruction start (function entry when nil).
func MustReach(f *ssa.Function, start ssa.Instruction, fl Flow) FlowResult {
	return mustReach(f, start, nil, fl)
}

// MustReachBlock runs the query starting at the top of block b.
func MustReachBlock(f *ssa.Function, b *ssa.BasicBlock, fl Flow) FlowResult {
	return mustReach(f, nil, b, fl)
}

func mustReach(f *ssa.Function, start ssa.Instruction, from *ssa.BasicBlock, fl Flow) FlowResult {
	scan := func(b *ssa.BasicBlock, from int) blockOutcome {
		for i := from; i < len(b.Instrs); i++ {
			in := b.Instrs[i]
			if start != nil && in == start {
				return blockOutcome{oBad, in, "next-iteration"}
			}
			if fl.Stop != nil && fl.Stop(in) {
				return blockOutcome{oStop, in, ""}
			}
			if fl.Bad != nil {
				if k := fl.Bad(in); k != "" {
					return blockOutcome{oBad, in, k}
				}
			}
		}
		if len(b.Succs) == 0 {
			return blockOutcome{kind: oDead}
		}
		return blockOutcome{kind: oThrough}
	}
	out := map[*ssa.BasicBlock]blockOutcome{}
	for _, b := range f.Blocks {
		out[b] = scan(b, 0)
	}
	// feasible successors (index preserved; infeasible ones are nil)
	succs := func(b *ssa.BasicBlock) []*ssa.BasicBlock {
		if fl.Feasible == nil {
			return b.Succs
		}
		o := make([]*ssa.BasicBlock, len(b.Succs))
		for i, s := range b.Succs {
			if fl.Feasible(b, i) {
				o[i] = s
			}
		}
		return o
	}
	var startBlock *ssa.BasicBlock
	var startOut blockOutcome
	if start != nil {
		startBlock = start.Block()
		startOut = scan(startBlock, ssau.IndexOf(start)+1)
	} else {
		startBlock = f.Blocks[0]
		if from != nil {
			startBlock = from
		}
		startOut = out[startBlock]
	}

	// fixpoint: can a block (entered at its top) still reach Stop / a bad terminal?
	cr := map[*ssa.BasicBlock]bool{}
	bd := map[*ssa.BasicBlock]bool{}
	for changed := true; changed; {
		changed = false
		for _, b := range f.Blocks {
			o := out[b]
			c, d := o.kind == oStop, o.kind == oBad
			if o.kind == oThrough {
				for _, s := range succs(b) {
					if s == nil {
						continue
					}
					c = c || cr[s]
					d = d || bd[s]
				}
			}
			if c != cr[b] || d != bd[b] {
				cr[b], bd[b] = c, d
				changed = true
			}
		}
	}
	res := FlowResult{Open: map[*ssa.BasicBlock]bool{}}
	for _, b := range f.Blocks {
		if out[b].kind == oThrough {
			res.Open[b] = true
		}
	}
	switch startOut.kind {
	case oStop:
		res.CanStop = true
	case oThrough:
		for _, s := range succs(startBlock) {
			res.CanStop = res.CanStop || (s != nil && cr[s])
		}
	}

	// open region: BFS with parents (blocks entered at their top while the obligation is open)
	type node struct {
		b      *ssa.BasicBlock
		parent *node
	}
	pathOf := func(n *node) []*ssa.BasicBlock {
		var rev []*ssa.BasicBlock
		for ; n != nil; n = n.parent {
			rev = append(rev, n.b)
		}
		for i, j := 0, len(rev)-1; i < j; i, j = i+1, j-1 {
			rev[i], rev[j] = rev[j], rev[i]
		}
		return rev
	}
	root := &node{b: startBlock}
	seenTerm := map[ssa.Instruction]bool{}
	addTerm := func(o blockOutcome, n *node) {
		if seenTerm[o.instr] {
			return
		}
		seenTerm[o.instr] = true
		res.Terminals = append(res.Terminals, Terminal{Instr: o.instr, Kind: o.bad, Path: pathOf(n)})
	}
	entered := map[*ssa.BasicBlock]*node{}
	var queue []*node
	var openEnds []*node // nodes whose block was traversed to its end with the obligation open
	if startOut.kind == oBad {
		addTerm(startOut, root)
	}
	if startOut.kind == oThrough {
		openEnds = append(openEnds, root)
		for _, s := range succs(startBlock) {
			if s != nil && entered[s] == nil {
				n := &node{b: s, parent: root}
				entered[s] = n
				queue = append(queue, n)
			}
		}
	}
	for len(queue) > 0 {
		n := queue[0]
		queue = queue[1:]
		o := out[n.b]
		switch o.kind {
		case oBad:
			addTerm(o, n)
		case oThrough:
			openEnds = append(openEnds, n)
			for _, s := range succs(n.b) {
				if s != nil && entered[s] == nil {
					c := &node{b: s, parent: n}
					entered[s] = c
					queue = append(queue, c)
				}
			}
		}
	}
	// escape edges
	for _, n := range openEnds {
		can := false
		for _, s := range succs(n.b) {
			can = can || (s != nil && cr[s])
		}
		if !can {
			continue
		}
		for i, s := range succs(n.b) {
			if s == nil || cr[s] || !bd[s] {
				continue
			}
			// nearest bad terminal from s inside the open region
			type q struct {
				b      *ssa.BasicBlock
				parent *q
			}
			seen := map[*ssa.BasicBlock]bool{s: true}
			work := []*q{{b: s}}
			var hit *q
			for len(work) > 0 && hit == nil {
				c := work[0]
				work = work[1:]
				o := out[c.b]
				if o.kind == oBad {
					hit = c
					break
				}
				if o.kind == oThrough {
					for _, t := range succs(c.b) {
						if t != nil && !seen[t] {
							seen[t] = true
							work = append(work, &q{b: t, parent: c})
						}
					}
				}
			}
			e := Escape{From: n.b, Succ: i, Head: pathOf(n)}
			if hit != nil {
				var rev []*ssa.BasicBlock
				for c := hit; c != nil; c = c.parent {
					rev = append(rev, c.b)
				}
				for k := len(rev) - 1; k >= 0; k-- {
					e.Tail = append(e.Tail, rev[k])
				}
				o := out[hit.b]
				e.Term = Terminal{Instr: o.instr, Kind: o.bad, Path: e.Path()}
			}
			res.Escapes = append(res.Escapes, e)
		}
	}
	return res
}

// DescribeEscape renders the condition of an escape edge as "<cond>=<true|false>".
func DescribeEscape(e Escape) string {
	if len(e.From.Instrs) == 0 {
		return fmt.Sprintf("succ#%d", e.Succ)
	}
	iff, ok := e.From.Instrs[len(e.From.Instrs)-1].(*ssa.If)
	if !ok {
		return fmt.Sprintf("succ#%d", e.Succ)
	}
	return fmt.Sprintf("%s=%v", Describe(iff.Cond), e.Succ == 0)
}

// ---------------------------------------------------------------------------------------------
// who-may-write (S2)
// ---------------------------------------------------------------------------------------------

// WriteSite is one instruction that writes a tracked field.
type WriteSite struct {
	Fn    *ssa.Function
	Instr ssa.Instruction // *ssa.Store, *ssa.MapUpdate or *ssa.Call (builtin delete)
	Kind  string          // store | mapupdate | delete
	Path  Path            // access path of the written location
	Exact bool            // the whole field path is visible (rooted at a value of the named type)
	Fresh bool            // the root is an allocation of the same function (object under construction)
}

// WhoWrites returns every instruction of the package (non-test code) that stores to the struct
// field typeName.fieldPath ("a.b" descends into nested struct fields). For map-typed fields,
// element updates and deletes through the loaded map are included. A store through a pointer to
// the inner struct whose origin is not visible is reported with Exact=false.
func WhoWrites(p *load.Program, typeName, fieldPath string) []WriteSite {
	vars := FieldPath(p, typeName, fieldPath)
	if len(vars) == 0 {
		return nil
	}
	match := func(ap Path) (ok, exact bool) {
		if len(ap.Fields) == 0 {
			return false, false
		}
		n := len(ap.Fields)
		k := len(vars)
		if n >= k {
			return ap.HasSuffix(vars...), true
		}
		// shorter path: the root points into the structure
		if ap.HasSuffix(vars[k-n:]...) {
			return true, false
		}
		return false, false
	}
	var out []WriteSite
	for _, f := range nonTestFuncs(p) {
		for _, b := range f.Blocks {
			for _, in := range b.Instrs {
				var ap Path
				kind := ""
				switch x := in.(type) {
				case *ssa.Store:
					if _, isFA := x.Addr.(*ssa.FieldAddr); !isFA {
						continue
					}
					ap, kind = AddrPath(x.Addr), "store"
				case *ssa.MapUpdate:
					lp, ok := LoadPath(x.Map)
					if !ok {
						continue
					}
					ap, kind = lp, "mapupdate"
				case *ssa.Call:
					if c, ok := isBuiltinCall(in, "delete"); ok {
						lp, ok := LoadPath(c.Call.Args[0])
						if !ok {
							continue
						}
						ap, kind = lp, "delete"
					} else {
						continue
					}
				default:
					continue
				}
				ok, exact := match(ap)
				if !ok {
					continue
				}
				fresh := false
				if a, isAlloc := ap.Root.(*ssa.Alloc); isAlloc && a.Parent() == f {
					fresh = true
				}
				out = append(out, WriteSite{Fn: f, Instr: in, Kind: kind, Path: ap, Exact: exact, Fresh: fresh})
			}
		}
	}
	return out
}

// WriterFuncs returns the sorted, deduplicated function names of a set of write sites.
func WriterFuncs(sites []WriteSite) []string {
	seen := map[string]bool{}
	var out []string
	for _, s := range sites {
		n := load.FuncName(s.Fn)
		if !seen[n] {
			seen[n] = true
			out = append(out, n)
		}
	}
	sort.Strings(out)
	return out
}

// AddressEscapes lists the places where the address of a scalar field is used other than as the
// operand of a load or a store (taken into a variable, passed to a call, captured).
func AddressEscapes(p *load.Program, fv *types.Var) []string {
	var out []string
	for _, f := range nonTestFuncs(p) {
		for _, b := range f.Blocks {
			for _, in := range b.Instrs {
				fa, ok := in.(*ssa.FieldAddr)
				if !ok || fieldVar(fa) != fv {
					continue
				}
				for _, ref := range *fa.Referrers() {
					switch x := ref.(type) {
					case *ssa.Store:
						if x.Addr == fa {
							continue
						}
					case *ssa.UnOp:
						if x.Op == token.MUL {
							continue
						}
					case *ssa.DebugRef:
						continue
					}
					out = append(out, load.FuncName(f)+"@"+instrPos(p, ref))
				}
			}
		}
	}
	return out
}

// ---------------------------------------------------------------------------------------------
// boolean structure of conditions: truth tables by simulating the CFG
// ---------------------------------------------------------------------------------------------

// Atomizer recognises an atomic boolean value: id names the atom, neg tells that v is its negation.
type Atomizer func(v ssa.Value) (id string, neg bool, ok bool)

type needAtom struct{ id string }

func (n needAtom) Error() string { return "need atom " + n.id }

// Sim evaluates boolean SSA values and walks the CFG under one valuation of the atoms.
type Sim struct {
	atom Atomizer
	val  map[string]bool
}

// Eval evaluates a boolean SSA value: constants, recognised atoms, negation, comparisons of
// booleans, and phis of short-circuit evaluation (by walking the blocks from the phi's immediate
// dominator). Any other value is an opaque atom named by its description.
func (s *Sim) Eval(v ssa.Value) (bool, error) { return s.eval(v, 0) }

func (s *Sim) eval(v ssa.Value, depth int) (bool, error) {
	if depth > 16 {
		return false, fmt.Errorf("condition nested too deeply")
	}
	if b, ok := ssau.ConstBool(v); ok {
		return b, nil
	}
	if s.atom != nil {
		if id, neg, ok := s.atom(v); ok {
			x, have := s.val[id]
			if !have {
				return false, needAtom{id}
			}
			return x != neg, nil
		}
	}
	switch x := v.(type) {
	case *ssa.UnOp:
		if x.Op == token.NOT {
			b, err := s.eval(x.X, depth+1)
			return !b, err
		}
	case *ssa.BinOp:
		if (x.Op == token.EQL || x.Op == token.NEQ) && isBool(x.X.Type()) && isBool(x.Y.Type()) {
			a, err := s.eval(x.X, depth+1)
			if err != nil {
				return false, err
			}
			b, err := s.eval(x.Y, depth+1)
			if err != nil {
				return false, err
			}
			return (a == b) == (x.Op == token.EQL), nil
		}
	case *ssa.Phi:
		d := x.Block().Idom()
		if d == nil {
			return false, fmt.Errorf("phi %s without dominator", Describe(x))
		}
		pred, err := s.walkTo(d, x.Block())
		if err != nil {
			return false, err
		}
		idx := -1
		for i, p := range x.Block().Preds {
			if p == pred {
				if idx >= 0 {
					return false, fmt.Errorf("phi %s: two edges from the same block", Describe(x))
				}
				idx = i
			}
		}
		if idx < 0 {
			return false, fmt.Errorf("phi %s: predecessor not found", Describe(x))
		}
		return s.eval(x.Edges[idx], depth+1)
	}
	if !isBool(v.Type()) {
		return false, fmt.Errorf("non-boolean value %s in a condition", Describe(v))
	}
	id := "?" + Describe(v)
	b, have := s.val[id]
	if !have {
		return false, needAtom{id}
	}
	return b, nil
}

func isBool(t types.Type) bool {
	b, ok := t.Underlying().(*types.Basic)
	return ok && b.Info()&types.IsBoolean != 0
}

// walkTo follows the CFG from block `from` until it enters block `to`; returns the predecessor
// through which `to` was entered.
func (s *Sim) walkTo(from, to *ssa.BasicBlock) (*ssa.BasicBlock, error) {
	cur := from
	for steps := 0; steps < 256; steps++ {
		next, err := s.step(cur)
		if err != nil {
			return nil, err
		}
		if next == nil {
			return nil, fmt.Errorf("walk from b%d ended before reaching b%d", from.Index, to.Index)
		}
		if next == to {
			return cur, nil
		}
		cur = next
	}
	return nil, fmt.Errorf("walk from b%d does not reach b%d (loop)", from.Index, to.Index)
}

// step returns the successor taken at the end of block b (nil at a return / panic).
func (s *Sim) step(b *ssa.BasicBlock) (*ssa.BasicBlock, error) {
	if len(b.Instrs) == 0 {
		return nil, fmt.Errorf("empty block")
	}
	switch t := b.Instrs[len(b.Instrs)-1].(type) {
	case *ssa.If:
		c, err := s.Eval(t.Cond)
		if err != nil {
			return nil, err
		}
		if c {
			return b.Succs[0], nil
		}
		return b.Succs[1], nil
	case *ssa.Jump:
		return b.Succs[0], nil
	}
	return nil, nil
}

// WalkUntil follows the CFG from block `from` until stop(b) holds for the current block (checked
// first for `from` itself) or control ends; returns that block (nil when control ended).
func (s *Sim) WalkUntil(from *ssa.BasicBlock, stop func(*ssa.BasicBlock) bool) (*ssa.BasicBlock, error) {
	cur := from
	for steps := 0; steps < 256; steps++ {
		if stop(cur) {
			return cur, nil
		}
		next, err := s.step(cur)
		if err != nil {
			return nil, err
		}
		if next == nil {
			return nil, nil
		}
		cur = next
	}
	return nil, fmt.Errorf("walk from b%d does not terminate (loop)", from.Index)
}

// Row is one line of a truth table.
type Row struct {
	Val map[string]bool
	Out string
}

// TruthTable enumerates all valuations of the atoms met while evaluating fn (atoms are discovered
// on demand; preset atoms are always included) and records fn's outcome for each.
func TruthTable(atomize Atomizer, preset []string, fn func(s *Sim) (string, error)) (rows []Row, atoms []string, err error) {
	atoms = append(atoms, preset...)
	for {
		if len(atoms) > 10 {
			return nil, atoms, fmt.Errorf("more than 10 atomic conditions")
		}
		rows = rows[:0]
		restart := false
		for mask := 0; mask < 1<<len(atoms) && !restart; mask++ {
			val := map[string]bool{}
			for i, a := range atoms {
				val[a] = mask&(1<<i) != 0
			}
			out, e := fn(&Sim{atom: atomize, val: val})
			if na, ok := e.(needAtom); ok {
				atoms = append(atoms, na.id)
				restart = true
				break
			}
			if e != nil {
				return nil, atoms, e
			}
			rows = append(rows, Row{Val: val, Out: out})
		}
		if !restart {
			return rows, atoms, nil
		}
	}
}

// valString renders a valuation in atom order.
func valString(atoms []string, val map[string]bool) string {
	s := ""
	for i, a := range atoms {
		if i > 0 {
			s += " "
		}
		s += fmt.Sprintf("%s=%v", a, val[a])
	}
	return s
}

// ---------------------------------------------------------------------------------------------
// constant propagation for boolean fields of local objects (edge feasibility, witnesses)
// ---------------------------------------------------------------------------------------------

const (
	vT = 1 << iota // the location holds true
	vF             // false
	vU             // unknown
)

// locTracker follows the constant value of one boolean location <alloc>.f1.f2 through a function.
type locTracker struct {
	ap   Path
	root *ssa.Alloc
}

// newLocTracker returns a tracker for the location loaded by cond (possibly negated); ok=false
// when cond is not such a load, or the allocation's address escapes other than as a call argument.
func newLocTracker(cond ssa.Value) (t *locTracker, neg bool, ok bool) {
	for {
		u, isU := cond.(*ssa.UnOp)
		if isU && u.Op == token.NOT {
			neg = !neg
			cond = u.X
			continue
		}
		break
	}
	lp, isLoad := LoadPath(cond)
	if !isLoad || len(lp.Fields) == 0 || !isBool(cond.Type()) {
		return nil, false, false
	}
	for _, f := range lp.Fields {
		if f == nil {
			return nil, false, false
		}
	}
	a, isAlloc := lp.Root.(*ssa.Alloc)
	if !isAlloc {
		return nil, false, false
	}
	// every pointer-typed field on the way would make the location something else's memory
	if u, _ := cond.(*ssa.UnOp); u != nil {
		for v := u.X; ; {
			fa, isFA := v.(*ssa.FieldAddr)
			if !isFA {
				if v != ssa.Value(a) {
					return nil, false, false
				}
				break
			}
			v = fa.X
		}
	}
	for _, ref := range *a.Referrers() {
		switch x := ref.(type) {
		case *ssa.FieldAddr, *ssa.DebugRef, ssa.CallInstruction:
		case *ssa.Store:
			if x.Addr != ssa.Value(a) {
				return nil, false, false // address stored somewhere
			}
		case *ssa.UnOp:
		default:
			return nil, false, false
		}
	}
	return &locTracker{ap: lp, root: a}, neg, true
}

// transfer returns the value set after instruction in (cur unchanged when in does not touch the location).
func (t *locTracker) transfer(in ssa.Instruction, cur uint8) uint8 {
	switch x := in.(type) {
	case *ssa.Alloc:
		if x == t.root {
			return vF
		}
	case *ssa.Store:
		ap := AddrPath(x.Addr)
		if ap.Root != ssa.Value(t.root) {
			return cur
		}
		if samePath(ap, t.ap) {
			if b, ok := ssau.ConstBool(x.Val); ok {
				if b {
					return vT
				}
				return vF
			}
			return vU
		}
		// a store to an enclosing struct overwrites the location
		if len(ap.Fields) < len(t.ap.Fields) {
			pre := true
			for i := range ap.Fields {
				if ap.Fields[i] != t.ap.Fields[i] {
					pre = false
				}
			}
			if pre {
				return vU
			}
		}
	case ssa.CallInstruction:
		for _, a := range x.Common().Args {
			if AddrPath(a).Root == ssa.Value(t.root) {
				return vU
			}
		}
	}
	return cur
}

// valuesAtEnd computes, by forward may-dataflow, the possible values of the location at the end
// of every block.
func (t *locTracker) valuesAtEnd(f *ssa.Function) map[*ssa.BasicBlock]uint8 {
	in := map[*ssa.BasicBlock]uint8{f.Blocks[0]: vU}
	outv := map[*ssa.BasicBlock]uint8{}
	work := []*ssa.BasicBlock{f.Blocks[0]}
	apply := func(b *ssa.BasicBlock, set uint8) uint8 {
		for _, ins := range b.Instrs {
			var next uint8
			for _, bit := range []uint8{vT, vF, vU} {
				if set&bit != 0 {
					next |= t.transfer(ins, bit)
				}
			}
			set = next
		}
		return set
	}
	for len(work) > 0 {
		b := work[len(work)-1]
		work = work[:len(work)-1]
		o := apply(b, in[b])
		outv[b] = o
		for _, s := range b.Succs {
			if in[s]|o != in[s] {
				in[s] |= o
				work = append(work, s)
			}
		}
	}
	return outv
}

// ConstFieldPruner returns an edge filter for f: an edge of `if <local>.f…` is infeasible when
// every store that can reach the test assigns the opposite constant.
func ConstFieldPruner(f *ssa.Function) func(from *ssa.BasicBlock, succ int) bool {
	infeasible := map[*ssa.BasicBlock]int{} // block -> succ index that cannot be taken (+1)
	for _, b := range f.Blocks {
		if len(b.Instrs) == 0 {
			continue
		}
		iff, ok := b.Instrs[len(b.Instrs)-1].(*ssa.If)
		if !ok {
			continue
		}
		t, neg, ok := newLocTracker(iff.Cond)
		if !ok {
			continue
		}
		// the value at the end of the block equals the value at the load unless the block stores
		// to the location after the load; the load must be in this block for the shortcut
		ld, _ := stripNot(iff.Cond).(*ssa.UnOp)
		if ld == nil || ld.Block() != b {
			continue
		}
		dirty := false
		for i := ssau.IndexOf(ld) + 1; i < len(b.Instrs); i++ {
			if t.transfer(b.Instrs[i], vT) != vT || t.transfer(b.Instrs[i], vF) != vF {
				dirty = true
			}
		}
		if dirty {
			continue
		}
		set := t.valuesAtEnd(f)[b]
		if set&vU != 0 {
			continue
		}
		canTrue, canFalse := set&vT != 0, set&vF != 0
		if neg {
			canTrue, canFalse = canFalse, canTrue
		}
		if !canTrue {
			infeasible[b] = 0 + 1
		} else if !canFalse {
			infeasible[b] = 1 + 1
		}
	}
	return func(from *ssa.BasicBlock, succ int) bool { return infeasible[from] != succ+1 }
}

func stripNot(v ssa.Value) ssa.Value {
	for {
		u, ok := v.(*ssa.UnOp)
		if !ok || u.Op != token.NOT {
			return v
		}
		v = u.X
	}
}

// ConsistentHead recomputes the head of an escape (start block … From) so that, when the escape
// condition tests a boolean field of a local object, the last constant stored to that field along
// the path agrees with the edge taken. open restricts the path to blocks traversed with the
// obligation open. Returns nil when no consistent path exists.
func ConsistentHead(f *ssa.Function, start ssa.Instruction, e Escape, open map[*ssa.BasicBlock]bool, feasible func(*ssa.BasicBlock, int) bool) []*ssa.BasicBlock {
	iff, ok := e.From.Instrs[len(e.From.Instrs)-1].(*ssa.If)
	if !ok {
		return nil
	}
	t, neg, ok := newLocTracker(iff.Cond)
	if !ok {
		return nil
	}
	want := uint8(vT)
	if (e.Succ == 1) != neg {
		want = vF
	}
	type state struct {
		b *ssa.BasicBlock
		v uint8
	}
	type node struct {
		s      state
		parent *node
	}
	run := func(b *ssa.BasicBlock, v uint8) uint8 {
		for _, ins := range b.Instrs {
			v = t.transfer(ins, v)
		}
		return v
	}
	sb := f.Blocks[0]
	if start != nil {
		sb = start.Block()
	}
	first := &node{s: state{sb, run(sb, vU)}}
	seen := map[state]bool{first.s: true}
	queue := []*node{first}
	for len(queue) > 0 {
		n := queue[0]
		queue = queue[1:]
		if n.s.b == e.From && (n != first || sb == e.From) && (n.s.v == want || n.s.v == vU) {
			var rev []*ssa.BasicBlock
			for c := n; c != nil; c = c.parent {
				rev = append(rev, c.s.b)
			}
			for i, j := 0, len(rev)-1; i < j; i, j = i+1, j-1 {
				rev[i], rev[j] = rev[j], rev[i]
			}
			return rev
		}
		if n != first && !open[n.s.b] {
			continue
		}
		for i, s := range n.s.b.Succs {
			if feasible != nil && !feasible(n.s.b, i) {
				continue
			}
			ns := state{s, run(s, n.s.v)}
			if !seen[ns] {
				seen[ns] = true
				queue = append(queue, &node{s: ns, parent: n})
			}
		}
	}
	return nil
}
