package muxstate

import (
	"go/token"
	"go/types"

	"golang.org/x/tools/go/ssa"

	"astverif/ssau"
)

// writeAllLoops recognises `for _, b := range [...]*bytes.Buffer{&m.X, &m.Y} { n, err := m.w.Write(b.Bytes()); … }`:
//
//   - the ranged value is the load of a local composite-literal array whose N elements are each stored exactly once, before the load,
//     as the address of a field of m, and the array has no other use;
//   - the loop is the range-index loop over that value: index phi starting at -1, incremented by one in the header, compared with the
//     constant N;
//   - the first block of the body, which every iteration executes, reads element [index], calls Bytes on it and hands the result to
//     m.w.Write — so when the loop is left through its condition, Write(m.F.Bytes()) has run for every field F of the literal
//     (leaving it any other way is an ordinary path of the caller's analysis).
//
// The result maps the first instruction of the block entered when the loop condition fails to the set of fields written by then.
func (a *anchors) writeAllLoops(f *ssa.Function, m ssa.Value) map[ssa.Instruction]map[*types.Var]bool {
	out := map[ssa.Instruction]map[*types.Var]bool{}
	for _, h := range f.Blocks {
		if len(h.Instrs) == 0 || len(h.Succs) != 2 {
			continue
		}
		iff, ok := h.Instrs[len(h.Instrs)-1].(*ssa.If)
		if !ok {
			continue
		}
		cmp, ok := iff.Cond.(*ssa.BinOp)
		if !ok || cmp.Op != token.LSS {
			continue
		}
		inc, ok := cmp.X.(*ssa.BinOp)
		if !ok || inc.Op != token.ADD || inc.Block() != h {
			continue
		}
		phi, ok := inc.X.(*ssa.Phi)
		if one, isC := ssau.ConstInt(inc.Y); !ok || !isC || one != 1 || phi.Block() != h {
			continue
		}
		n, isC := ssau.ConstInt(cmp.Y)
		if !isC || n < 1 {
			continue
		}
		good := true
		for i, e := range phi.Edges {
			if h.Dominates(h.Preds[i]) {
				if e != ssa.Value(inc) {
					good = false
				}
			} else if k, isC := ssau.ConstInt(e); !isC || k != -1 {
				good = false
			}
		}
		if !good {
			continue
		}
		body, done := h.Succs[0], h.Succs[1]
		if len(done.Instrs) == 0 || h.Dominates(done) && reachesBlock(done, h) {
			continue
		}
		// the body's first block: element read, Bytes, Write
		fields := map[*types.Var]bool{}
		var arr ssa.Value
		wrote := false
		for _, in := range body.Instrs {
			c, ok := in.(*ssa.Call)
			if !ok {
				continue
			}
			if w, _ := a.isWriterWrite(c, m); !w {
				continue
			}
			bc, ok := c.Call.Args[0].(*ssa.Call)
			if !ok || ssau.CalleeName(&bc.Call) != "(*bytes.Buffer).Bytes" || len(bc.Call.Args) != 1 {
				continue
			}
			ix, ok := bc.Call.Args[0].(*ssa.Index)
			if !ok || ix.Index != ssa.Value(inc) {
				continue
			}
			arr = ix.X
			wrote = true
		}
		if !wrote {
			continue
		}
		ld, ok := arr.(*ssa.UnOp)
		if !ok || ld.Op != token.MUL || !ld.Block().Dominates(h) {
			continue
		}
		al, ok := ld.X.(*ssa.Alloc)
		if !ok {
			continue
		}
		at, ok := al.Type().Underlying().(*types.Pointer).Elem().Underlying().(*types.Array)
		if !ok || at.Len() != n {
			continue
		}
		stored := map[int64]*types.Var{}
		for _, r := range *al.Referrers() {
			switch x := r.(type) {
			case *ssa.UnOp:
				if x != ld {
					good = false
				}
			case *ssa.IndexAddr:
				k, isC := ssau.ConstInt(x.Index)
				if !isC || x.Referrers() == nil || len(*x.Referrers()) != 1 {
					good = false
					continue
				}
				st, ok := (*x.Referrers())[0].(*ssa.Store)
				if !ok || st.Addr != ssa.Value(x) || st.Block() != ld.Block() || ssau.IndexOf(st) > ssau.IndexOf(ld) {
					good = false
					continue
				}
				ap := AddrPath(st.Val)
				if ap.Root != m || len(ap.Fields) != 1 {
					good = false
					continue
				}
				if _, dup := stored[k]; dup {
					good = false
				}
				stored[k] = ap.Fields[0]
			case *ssa.DebugRef:
			default:
				good = false
			}
		}
		if !good || int64(len(stored)) != n {
			continue
		}
		for _, fv := range stored {
			fields[fv] = true
		}
		out[done.Instrs[0]] = fields
	}
	return out
}

func reachesBlock(from, to *ssa.BasicBlock) bool {
	seen := map[*ssa.BasicBlock]bool{}
	st := []*ssa.BasicBlock{from}
	for len(st) > 0 {
		b := st[len(st)-1]
		st = st[:len(st)-1]
		if seen[b] {
			continue
		}
		seen[b] = true
		if b == to {
			return true
		}
		st = append(st, b.Succs...)
	}
	return false
}
