// Package errflow is engine B: error-discipline rules E1–E6 over go/ssa.
package errflow

import (
	"fmt"
	"go/constant"
	"go/token"
	"go/types"
	"sort"
	"strings"

	"astverif/load"
	"astverif/report"
	"astverif/ssau"

	"golang.org/x/tools/go/ssa"
)

const batchType = "BitsWriterBatch"

func isBatchPtr(t types.Type) bool {
	p, ok := t.(*types.Pointer)
	return ok && ssau.IsNamed(p.Elem(), load.AstikitPath, batchType)
}

// batchMethod returns the method name if call is a method call on a *BitsWriterBatch, and the receiver.
func batchMethod(c *ssa.CallCommon) (string, ssa.Value) {
	f := c.StaticCallee()
	if f == nil || f.Signature.Recv() == nil || len(c.Args) == 0 {
		return "", nil
	}
	if !isBatchPtr(f.Signature.Recv().Type()) {
		return "", nil
	}
	return f.Name(), c.Args[0]
}

// batchParamWritesOnly: parameter i of g (a *BitsWriterBatch) is used in g only as the receiver of Write/WriteN/WriteBytesN, or
// handed to another package function that does the same: g may set the latch, never reads or clears it, keeps no copy.
func batchParamWritesOnly(g *ssa.Function, i, depth int) bool {
	if i >= len(g.Params) || !isBatchPtr(g.Params[i].Type()) || depth > 3 {
		return false
	}
	prm := g.Params[i]
	for _, ref := range *prm.Referrers() {
		switch x := ref.(type) {
		case *ssa.DebugRef:
		case *ssa.Call:
			if m, recv := batchMethod(&x.Call); recv == ssa.Value(prm) {
				if m != "Write" && m != "WriteN" && m != "WriteBytesN" {
					return false
				}
				continue
			}
			h := x.Call.StaticCallee()
			if h == nil || h.Pkg != g.Pkg || len(h.Blocks) == 0 {
				return false
			}
			for j, arg := range x.Call.Args {
				if arg == ssa.Value(prm) && !batchParamWritesOnly(h, j, depth+1) {
					return false
				}
			}
		default:
			return false
		}
	}
	return true
}

// E1 — batch latch consumed: every path from a Write*/WriteN/WriteBytesN on a BitsWriterBatch to a
// return passes a call of Err() on the same batch, unless the return carries a provably non-nil error.
func E1(p *load.Program, r *report.Report) {
	nBatches := 0
	for _, f := range p.SrcFuncs() {
		// batches = allocs of type BitsWriterBatch
		var batches []*ssa.Alloc
		for _, b := range f.Blocks {
			for _, in := range b.Instrs {
				if a, ok := in.(*ssa.Alloc); ok && ssau.IsNamed(a.Type().(*types.Pointer).Elem(), load.AstikitPath, batchType) {
					batches = append(batches, a)
				}
			}
		}
		for bi, a := range batches {
			nBatches++
			key := fmt.Sprintf("%s/batch#%d", load.FuncName(f), bi)
			// any use of the batch other than method calls on it makes the analysis undecided
			escaped := false
			passed := map[ssa.Instruction]bool{} // calls that hand the batch to a package function which only writes through it
			for _, ref := range *a.Referrers() {
				switch x := ref.(type) {
				case *ssa.Store:
					if x.Addr != a {
						escaped = true
					}
				case ssa.CallInstruction:
					if m, recv := batchMethod(x.Common()); m == "" || recv != a {
						g := x.Common().StaticCallee()
						ok := g != nil && g.Pkg == f.Pkg && len(g.Blocks) > 0
						if _, isCall := x.(*ssa.Call); !isCall {
							ok = false
						}
						for i, arg := range x.Common().Args {
							if arg == ssa.Value(a) && ok && !batchParamWritesOnly(g, i, 0) {
								ok = false
							}
						}
						if ok {
							passed[x] = true
						} else {
							escaped = true
						}
					}
				case *ssa.DebugRef:
				default:
					escaped = true
				}
			}
			if escaped {
				r.Unknown("E1", key, p.Pos(a.Pos()), "BitsWriterBatch value is used other than through its methods (passed on, copied or captured): latch discipline cannot be decided")
				continue
			}
			// forward may-dataflow: dirty bit per block entry
			const clean, dirty = 1, 2
			in := map[*ssa.BasicBlock]int{f.Blocks[0]: clean}
			work := []*ssa.BasicBlock{f.Blocks[0]}
			type viol struct {
				ret *ssa.Return
			}
			var viols []*ssa.Return
			seenRet := map[*ssa.Return]bool{}
			nWrites := 0
			for len(work) > 0 {
				b := work[len(work)-1]
				work = work[:len(work)-1]
				st := in[b]
				for _, ins := range b.Instrs {
					switch x := ins.(type) {
					case ssa.CallInstruction:
						if passed[x] {
							st = dirty // the callee writes through the batch and leaves the latch to the owner
							nWrites++
							break
						}
						m, recv := batchMethod(x.Common())
						if recv != a {
							break
						}
						switch m {
						case "Write", "WriteN", "WriteBytesN":
							if _, isDefer := x.(*ssa.Defer); !isDefer {
								st = dirty
							}
						case "Err":
							st = clean
						}
					case *ssa.Return:
						if st&dirty != 0 && !seenRet[x] {
							seenRet[x] = true
							ei := ssau.ErrorResultIndex(f.Signature)
							if ei < 0 || !ssau.NonNilOnAllEdges(x.Results[ei], x.Block()) {
								viols = append(viols, x)
							}
						}
					}
				}
				for _, s := range b.Succs {
					if in[s]|st != in[s] {
						in[s] |= st
						work = append(work, s)
					}
				}
			}
			for _, b := range f.Blocks {
				for _, ins := range b.Instrs {
					if c, ok := ins.(ssa.CallInstruction); ok {
						if m, recv := batchMethod(c.Common()); recv == a && strings.HasPrefix(m, "Write") {
							nWrites++
						}
					}
				}
			}
			if len(viols) > 0 {
				var where []string
				for _, v := range viols {
					where = append(where, p.Pos(v.Pos()))
				}
				sort.Strings(where)
				r.Bad("E1", key, p.Pos(a.Pos()), fmt.Sprintf("batch %q: a return at %s is reachable from a Write on the batch without Err() being consulted and without a non-nil error — a writer failure latched in the batch is swallowed", a.Comment, strings.Join(where, ", ")))
			} else {
				r.OK("E1", key, p.Pos(a.Pos()), fmt.Sprintf("%d writes; every return reachable from a write passes Err() or returns a non-nil error", nWrites))
			}
		}
	}
	r.Count("batches", nBatches)
	r.Floor("E1", "BitsWriterBatch instances", nBatches, 20)
}

// IOSets computes which root-package functions can return an error originating from the
// underlying io.Reader / io.Writer (transitively through static calls).
type IOSets struct {
	Writer map[*ssa.Function]bool
	Reader map[*ssa.Function]bool
}

func isWriterPrimitive(c *ssa.CallCommon) bool {
	n := ssau.CalleeName(c)
	switch n {
	case "(*" + load.AstikitPath + ".BitsWriter).Write", "(*" + load.AstikitPath + ".BitsWriter).WriteN",
		"(*" + load.AstikitPath + ".BitsWriter).WriteBytesN", "(*" + load.AstikitPath + ".BitsWriterBatch).Err",
		"iface:(io.Writer).Write":
		return true
	}
	return false
}

func isReaderPrimitive(c *ssa.CallCommon) bool {
	n := ssau.CalleeName(c)
	switch n {
	case "io.ReadFull", "io.ReadAtLeast", "io.ReadAll", "iface:(io.Reader).Read", "(*bufio.Reader).Peek", "(*bufio.Reader).Read",
		"(*bufio.Reader).Discard", "iface:(io.Seeker).Seek", "iface:(io.ReadSeeker).Seek", "iface:(io.ReadSeeker).Read", "io.CopyN", "io.Copy":
		return true
	}
	return false
}

// ComputeIOSets builds the transitive sets.
func ComputeIOSets(p *load.Program) IOSets {
	s := IOSets{Writer: map[*ssa.Function]bool{}, Reader: map[*ssa.Function]bool{}}
	funcs := p.SrcFuncs()
	changed := true
	for changed {
		changed = false
		for _, f := range funcs {
			if ssau.ErrorResultIndex(f.Signature) < 0 {
				continue
			}
			for _, c := range ssau.Calls(f) {
				cc := c.Common()
				w, rd := isWriterPrimitive(cc), isReaderPrimitive(cc)
				if callee := cc.StaticCallee(); callee != nil {
					w = w || s.Writer[callee]
					rd = rd || s.Reader[callee]
				}
				if w && !s.Writer[f] {
					s.Writer[f] = true
					changed = true
				}
				if rd && !s.Reader[f] {
					s.Reader[f] = true
					changed = true
				}
			}
		}
	}
	return s
}

// ioTainted reports whether the error returned by call may originate from reader/writer.
func (s IOSets) ioTainted(c *ssa.CallCommon) (bool, string) {
	if isWriterPrimitive(c) {
		return true, "writer"
	}
	if isReaderPrimitive(c) {
		return true, "reader"
	}
	if f := c.StaticCallee(); f != nil {
		if s.Writer[f] {
			return true, "writer"
		}
		if s.Reader[f] {
			return true, "reader"
		}
	}
	return false, ""
}

// derivedSet computes the values derived from err inside f: through phi, spill slots, interface
// conversions and fmt.Errorf calls that receive a derived value among their arguments.
// wrapsOK[call] records whether a fmt.Errorf wrapping keeps the cause (constant format with %w).
func derivedSet(f *ssa.Function, err ssa.Value) (map[ssa.Value]bool, map[*ssa.Call]bool) {
	d := map[ssa.Value]bool{err: true}
	wraps := map[*ssa.Call]bool{}
	changed := true
	for changed {
		changed = false
		for _, b := range f.Blocks {
			for _, in := range b.Instrs {
				v, ok := in.(ssa.Value)
				if !ok || d[v] {
					continue
				}
				switch x := in.(type) {
				case *ssa.Phi:
					for _, e := range x.Edges {
						if d[e] {
							d[v] = true
						}
					}
				case *ssa.MakeInterface:
					if d[x.X] {
						d[v] = true
					}
				case *ssa.ChangeInterface:
					if d[x.X] {
						d[v] = true
					}
				case *ssa.UnOp:
					if x.Op == token.MUL {
						if a, ok := x.X.(*ssa.Alloc); ok && ssau.SpillSlot(a) {
							vals, _ := ssau.ReachingStores(a, x)
							for _, s := range vals {
								if d[s] {
									d[v] = true
								}
							}
						}
					}
				case *ssa.Call:
					if ssau.CalleeName(&x.Call) == "fmt.Errorf" && len(x.Call.Args) == 2 {
						vals, ok := ssau.VarargValues(x.Call.Args[1])
						if !ok {
							break
						}
						hit := false
						for _, a := range vals {
							if d[a] || d[ssau.StripIface(a)] {
								hit = true
							}
						}
						if hit {
							d[v] = true
							wraps[x] = errorfKeepsCause(x, vals, d)
						}
					}
				}
				if d[v] {
					changed = true
				}
			}
		}
	}
	return d, wraps
}

// errorfKeepsCause: constant format whose verb for the derived argument is %w.
func errorfKeepsCause(c *ssa.Call, vals []ssa.Value, d map[ssa.Value]bool) bool {
	fc, ok := c.Call.Args[0].(*ssa.Const)
	if !ok || fc.Value == nil || fc.Value.Kind() != constant.String {
		return false
	}
	format := constant.StringVal(fc.Value)
	// collect verbs in order
	var verbs []byte
	for i := 0; i < len(format); i++ {
		if format[i] != '%' {
			continue
		}
		j := i + 1
		for j < len(format) && strings.IndexByte("+-# 0123456789.[]*", format[j]) >= 0 {
			j++
		}
		if j < len(format) {
			if format[j] != '%' {
				verbs = append(verbs, format[j])
			}
			i = j
		}
	}
	// vararg values are collected in unspecified order: recover the index from the IndexAddr
	idx := -1
	sl := c.Call.Args[1].(*ssa.Slice)
	a := sl.X.(*ssa.Alloc)
	for _, r := range *a.Referrers() {
		ia, ok := r.(*ssa.IndexAddr)
		if !ok {
			continue
		}
		k, okk := ssau.ConstInt(ia.Index)
		if !okk {
			continue
		}
		for _, rr := range *ia.Referrers() {
			if st, ok := rr.(*ssa.Store); ok && st.Addr == ia && (d[st.Val] || d[ssau.StripIface(st.Val)]) {
				idx = int(k)
			}
		}
	}
	_ = vals
	return idx >= 0 && idx < len(verbs) && verbs[idx] == 'w'
}

// sentinelCompare recognises `x == G` / `x != G` where G is a package-level error variable,
// and errors.Is(x, G).
func sentinelCompare(cond ssa.Value) (x ssa.Value, g *ssa.Global, eq bool, ok bool) {
	switch c := cond.(type) {
	case *ssa.BinOp:
		if c.Op != token.EQL && c.Op != token.NEQ {
			return
		}
		if gg := ssau.GlobalOf(c.Y); gg != nil {
			return c.X, gg, c.Op == token.EQL, true
		}
		if gg := ssau.GlobalOf(c.X); gg != nil {
			return c.Y, gg, c.Op == token.EQL, true
		}
	case *ssa.Call:
		if ssau.CalleeName(&c.Call) == "errors.Is" && len(c.Call.Args) == 2 {
			if gg := ssau.GlobalOf(c.Call.Args[1]); gg != nil {
				return c.Call.Args[0], gg, true, true
			}
		}
	case *ssa.UnOp:
		if c.Op == token.NOT {
			if xx, gg, e, k := sentinelCompare(c.X); k {
				return xx, gg, !e, true
			}
		}
	}
	return
}

// underSentinelEq reports whether block b is only reachable through "v == sentinel" true edges
// (for any sentinel in the allowed set; a disjunction `a == S1 || a == S2` is accepted).
func underSentinelEq(b *ssa.BasicBlock, v ssa.Value, d map[ssa.Value]bool, allowed func(g *ssa.Global) bool) bool {
	seen := map[*ssa.BasicBlock]bool{}
	var rec func(b *ssa.BasicBlock) bool
	rec = func(b *ssa.BasicBlock) bool {
		if seen[b] {
			return true
		}
		seen[b] = true
		if len(b.Preds) == 0 {
			return false
		}
		for _, p := range b.Preds {
			last := p.Instrs[len(p.Instrs)-1]
			if iff, ok := last.(*ssa.If); ok && p.Succs[0] != p.Succs[1] {
				x, g, eq, ok := sentinelCompare(iff.Cond)
				if ok && (x == v || d[x]) && allowed(g) {
					trueSucc := p.Succs[0] == b
					if trueSucc == eq {
						continue // entered via the "equals sentinel" edge
					}
				}
			}
			// otherwise the predecessor itself must be under the guard
			if !rec(p) {
				return false
			}
		}
		return true
	}
	return rec(b)
}

// Exception is a named, reasoned exemption from E2.
type Exception struct {
	Func   string // load.FuncName of the caller
	Callee string // callee name suffix
	Reason string
}

// E2Options parametrise E2.
type E2Options struct {
	Exceptions []Exception
	// OnlyIO restricts the rule to call sites whose error may originate from the reader/writer.
	OnlyIO bool
}

// E2E3 — no dropped error (E2) and wrapping keeps the cause for reader/writer errors (E3).
// For every call returning an error: the error value is (a) returned directly, or (b) compared with nil
// and on the non-nil edge every reachable return carries a provably non-nil error; for errors that may
// originate from the io.Reader / io.Writer the returned error must additionally derive from the
// original (directly, or through fmt.Errorf with %w).
func E2E3(p *load.Program, r *report.Report, sets IOSets, opt E2Options) {
	nSites, nIO := 0, 0
	for _, f := range p.SrcFuncs() {
		ord := map[string]int{}
		for _, ci := range ssau.Calls(f) {
			cc := ci.Common()
			sig := cc.Signature()
			ei := ssau.ErrorResultIndex(sig)
			if ei < 0 {
				continue
			}
			name := ssau.CalleeName(cc)
			if name == "" {
				name = "dynamic:" + ssau.ShortType(cc.Value.Type())
			}
			short := shortCallee(name)
			ord[short]++
			key := fmt.Sprintf("%s/%s#%d", load.FuncName(f), short, ord[short])
			pos := p.Pos(ci.Pos())
			if name == "fmt.Errorf" || name == "errors.New" {
				continue // constructors: their result is the error being built
			}
			tainted, kind := sets.ioTainted(cc)
			if opt.OnlyIO && !tainted {
				continue
			}
			nSites++
			if tainted {
				nIO++
			}
			if exc := findException(opt.Exceptions, load.FuncName(f), short, ord[short]); exc != nil {
				r.Trivial("E2", key, pos, "audited exception: "+exc.Reason)
				continue
			}
			call, isCall := ci.(*ssa.Call)
			if !isCall {
				// defer/go of an error-returning function: result is unobservable
				if tainted {
					r.Bad("E2", key, pos, "error result of a deferred/spawned "+kind+" call is dropped")
				} else {
					r.Trivial("E2", key, pos, "deferred call, error not reader/writer-originated")
				}
				continue
			}
			errVals := ssau.ResultValue(call, ei)
			if len(errVals) == 0 {
				r.Bad("E2", key, pos, fmt.Sprintf("error result of %s is discarded", short))
				continue
			}
			errV := errVals[0]
			d, wraps := derivedSet(f, errV)
			// classify uses
			checked, returned := false, false
			var nilIfs []*ssa.If
			for v := range d {
				refs := v.Referrers()
				if refs == nil {
					continue
				}
				for _, ref := range *refs {
					switch x := ref.(type) {
					case *ssa.Return:
						returned = true
					case *ssa.BinOp:
						if nc, ok := ssau.AsNilCompare(x); ok && d[nc.X] {
							checked = true
							for _, rr := range *x.Referrers() {
								if iff, ok := rr.(*ssa.If); ok {
									nilIfs = append(nilIfs, iff)
								}
							}
						}
					case *ssa.Store:
						// store into a spill slot is followed through derivedSet; a store elsewhere is an escape
						if a, ok := x.Addr.(*ssa.Alloc); !(ok && ssau.SpillSlot(a)) {
							if !isVarargStore(x) {
								returned = true // stored into a field / heap object: handed to someone else
							}
						}
					}
				}
			}
			if !checked && !returned {
				r.Bad("E2", key, pos, fmt.Sprintf("error returned by %s is never checked nor returned", short))
				continue
			}
			// On the non-nil edge(s) every reachable return must carry a non-nil error; for io errors it must derive.
			bad := ""
			for _, iff := range nilIfs {
				nc, _ := ssau.AsNilCompare(iff.Cond)
				nonNil := iff.Block().Succs[1]
				if nc.Ne {
					nonNil = iff.Block().Succs[0]
				}
				if nonNil == iff.Block().Succs[0] && nonNil == iff.Block().Succs[1] {
					continue
				}
				for _, ret := range reachableReturns(nonNil, iff.Block()) {
					fei := ssau.ErrorResultIndex(f.Signature)
					if fei < 0 {
						if tainted {
							bad = fmt.Sprintf("function has no error result but %s can fail with a %s error", short, kind)
						}
						break
					}
					rv := ret.Results[fei]
					// paths under `err == sentinel` are governed by E4
					if underSentinelEq(ret.Block(), errV, d, func(*ssa.Global) bool { return true }) {
						continue
					}
					if !retDominatedBy(ret, nonNil) {
						// the return is also reachable without passing the non-nil edge (join point):
						// only the derived/non-nil property of the phi edges matters; handled below
					}
					if derivesOnEdge(rv, d, nonNil, ret, errV) || mergedBeforeTest(rv, d, nonNil, call) {
						if tainted {
							if w := lossyWrap(rv, d, wraps); w != nil {
								bad = fmt.Sprintf("%s error from %s is wrapped at %s without %%w: the cause is lost", kind, short, p.Pos(w.Pos()))
							}
						}
						continue
					}
					if tainted {
						bad = fmt.Sprintf("on the failure edge of %s (%s error) the return at %s does not return an error derived from it", short, kind, p.Pos(ret.Pos()))
						break
					}
					if !ssau.NonNilOnAllEdges(rv, ret.Block()) {
						bad = fmt.Sprintf("on the failure edge of %s the return at %s may return a nil error", short, p.Pos(ret.Pos()))
						break
					}
				}
				if bad != "" {
					break
				}
			}
			if bad == "" && tainted && len(nilIfs) > 0 {
				// E2d: between the call and the test of its error no return may leave with another (or no) error: a
				// return reached from the call without passing a block that tests the error must carry a value derived
				// from it (otherwise the reader/writer failure is masked by whatever is returned there)
				stop := map[*ssa.BasicBlock]bool{}
				for _, iff := range nilIfs {
					stop[iff.Block()] = true
				}
				fei := ssau.ErrorResultIndex(f.Signature)
				seen := map[*ssa.BasicBlock]bool{}
				var walk func(b *ssa.BasicBlock, from int)
				walk = func(b *ssa.BasicBlock, from int) {
					if bad != "" {
						return
					}
					if from == 0 {
						if seen[b] || stop[b] {
							return
						}
						seen[b] = true
					}
					for i := from; i < len(b.Instrs); i++ {
						if ret, ok := b.Instrs[i].(*ssa.Return); ok && fei >= 0 {
							rv := ret.Results[fei]
							if !d[rv] && !derivesOnEdge(rv, d, b, ret, errV) {
								bad = fmt.Sprintf("the return at %s is reached from the %s call before its error is tested and does not return that error: a %s failure is masked", p.Pos(ret.Pos()), short, kind)
							}
							return
						}
					}
					for _, s := range b.Succs {
						walk(s, 0)
					}
				}
				if !stop[call.Block()] || true {
					// the test may sit in the call's own block (after the call): then nothing can return in between
					inOwn := false
					for _, iff := range nilIfs {
						if iff.Block() == call.Block() {
							inOwn = true
						}
					}
					if !inOwn {
						walk(call.Block(), ssau.IndexOf(call)+1)
					}
				}
			}
			if bad == "" && tainted {
				// direct returns of a derived value through a lossy wrap
				for v := range d {
					if c, ok := v.(*ssa.Call); ok {
						if keep, isWrap := wraps[c]; isWrap && !keep {
							bad = fmt.Sprintf("%s error from %s is wrapped at %s without %%w: the cause is lost", kind, short, p.Pos(c.Pos()))
						}
					}
				}
			}
			if bad != "" {
				r.Bad("E2", key, pos, bad)
			} else {
				how := "checked against nil; failure edge returns a non-nil error"
				if !checked {
					how = "returned directly to the caller"
				}
				if tainted {
					how += " derived from the " + kind + " error (wraps use %w)"
				}
				r.OK("E2", key, pos, how)
			}
		}
	}
	r.Count("error_call_sites", nSites)
	r.Count("io_error_call_sites", nIO)
}

func isVarargStore(st *ssa.Store) bool {
	ia, ok := st.Addr.(*ssa.IndexAddr)
	if !ok {
		return false
	}
	_, ok = ia.X.(*ssa.Alloc)
	return ok
}

func shortCallee(n string) string {
	n = strings.ReplaceAll(n, load.RootPath+".", "")
	n = strings.ReplaceAll(n, load.AstikitPath+".", "astikit.")
	return n
}

func findException(ex []Exception, fn, callee string, ord int) *Exception {
	for i := range ex {
		if ex[i].Func == fn && ex[i].Callee == fmt.Sprintf("%s#%d", callee, ord) {
			return &ex[i]
		}
	}
	return nil
}

// reachableReturns lists returns reachable from block start without re-entering block stop.
func reachableReturns(start, stop *ssa.BasicBlock) []*ssa.Return {
	var out []*ssa.Return
	seen := map[*ssa.BasicBlock]bool{stop: true}
	st := []*ssa.BasicBlock{start}
	for len(st) > 0 {
		b := st[len(st)-1]
		st = st[:len(st)-1]
		if seen[b] {
			continue
		}
		seen[b] = true
		if ret, ok := b.Instrs[len(b.Instrs)-1].(*ssa.Return); ok {
			out = append(out, ret)
		}
		st = append(st, b.Succs...)
	}
	return out
}

func retDominatedBy(ret *ssa.Return, b *ssa.BasicBlock) bool {
	return len(b.Preds) == 1 && b.Dominates(ret.Block())
}

// derivesOnEdge: the returned value rv is derived from the error on every path that comes through
// the failure block `from`. For a phi at a join point only the edges whose predecessor is reachable
// from `from` are considered.
func derivesOnEdge(rv ssa.Value, d map[ssa.Value]bool, from *ssa.BasicBlock, ret *ssa.Return, errV ssa.Value) bool {
	anySentinel := func(*ssa.Global) bool { return true }
	seen := map[ssa.Value]bool{}
	var rec func(v ssa.Value) bool
	rec = func(v ssa.Value) bool {
		if seen[v] {
			return true
		}
		seen[v] = true
		if phi, ok := v.(*ssa.Phi); ok {
			any := false
			for i, e := range phi.Edges {
				pred := phi.Block().Preds[i]
				if phi.Block() == from {
					// the failure edge leads straight into the join: only the edge coming from the test counts
					if !isNilTestBlock(pred, errV, d) {
						continue
					}
				} else if !ssau.Reaches(from, pred) {
					continue
				}
				any = true
				// an edge that is only taken under `err == sentinel` is an error mapping governed by E4
				if underSentinelEq(pred, errV, d, anySentinel) {
					continue
				}
				if !rec(e) {
					return false
				}
			}
			return any
		}
		if u, ok := v.(*ssa.UnOp); ok && u.Op == token.MUL {
			if a, ok := u.X.(*ssa.Alloc); ok && ssau.SpillSlot(a) {
				vals, zero := ssau.ReachingStores(a, u)
				if zero || len(vals) == 0 {
					return false
				}
				ok := true
				for _, s := range vals {
					// only stores made on paths through `from` matter
					if !rec(s) {
						ok = false
					}
				}
				return ok
			}
		}
		return d[v]
	}
	return rec(rv)
}

// mergedBeforeTest: the returned value is a phi that was merged BEFORE the test (`switch … { case A: n, err = f() case B: n, err = g() };
// if err != nil { return 0, err }`): it is the tested value itself. It carries this call's error on every path that passes the call
// when each incoming edge whose predecessor is reachable from the call brings a value derived from that error (an edge from a sibling
// case cannot follow the call; an edge on which a later call overwrote the error can, and is refused).
func mergedBeforeTest(rv ssa.Value, d map[ssa.Value]bool, nonNil *ssa.BasicBlock, call *ssa.Call) bool {
	phi, ok := rv.(*ssa.Phi)
	if !ok || !d[rv] || !(phi.Block() == nonNil || phi.Block().Dominates(nonNil)) {
		return false
	}
	any := false
	for i, e := range phi.Edges {
		pred := phi.Block().Preds[i]
		if pred != call.Block() && !ssau.Reaches(call.Block(), pred) {
			continue
		}
		if !d[e] {
			return false
		}
		any = true
	}
	return any
}

// isNilTestBlock: the block ends in a branch on a nil comparison of the error.
func isNilTestBlock(b *ssa.BasicBlock, errV ssa.Value, d map[ssa.Value]bool) bool {
	if len(b.Instrs) == 0 {
		return false
	}
	iff, ok := b.Instrs[len(b.Instrs)-1].(*ssa.If)
	if !ok {
		return false
	}
	nc, ok := ssau.AsNilCompare(iff.Cond)
	return ok && (nc.X == errV || d[nc.X])
}

// lossyWrap returns a fmt.Errorf call on the derivation chain of rv that drops the cause.
func lossyWrap(rv ssa.Value, d map[ssa.Value]bool, wraps map[*ssa.Call]bool) *ssa.Call {
	for _, l := range ssau.Leaves(rv) {
		if c, ok := l.(*ssa.Call); ok {
			if keep, isWrap := wraps[c]; isWrap && !keep {
				return c
			}
		}
	}
	return nil
}

// E4 — EOF mapping: the end-of-stream sentinel may replace an error only under a comparison of a
// reader-originated error with io.EOF / io.ErrUnexpectedEOF.
func E4(p *load.Program, r *report.Report, sentinel string, sets IOSets) {
	n := 0
	for _, f := range p.SrcFuncs() {
		k := 0
		for _, b := range f.Blocks {
			for _, in := range b.Instrs {
				u, ok := in.(*ssa.UnOp)
				if !ok {
					continue
				}
				g := ssau.GlobalOf(u)
				if g == nil || g.Name() != sentinel || g.Pkg != p.SSAPkg {
					continue
				}
				// uses as a comparison operand are reads, not productions
				produces := false
				for _, ref := range *u.Referrers() {
					switch x := ref.(type) {
					case *ssa.BinOp:
						if x.Op == token.EQL || x.Op == token.NEQ {
							continue
						}
						produces = true
					case *ssa.DebugRef:
					case *ssa.Call:
						if ssau.CalleeName(&x.Call) == "errors.Is" {
							continue
						}
						produces = true
					default:
						produces = true
					}
				}
				if !produces {
					continue
				}
				k++
				n++
				key := fmt.Sprintf("%s/%s#%d", load.FuncName(f), sentinel, k)
				okGuard := underSentinelEq(b, nil, map[ssa.Value]bool{}, func(g *ssa.Global) bool { return false })
				_ = okGuard
				// guard: all paths into b come through `x == io.EOF` / `x == io.ErrUnexpectedEOF`
				// where x is the error result of a reader primitive
				guarded, what := eofGuarded(b, sets)
				if guarded {
					r.OK("E4", key, p.Pos(u.Pos()), "produced only under a comparison of a reader error with "+what)
				} else {
					r.Bad("E4", key, p.Pos(u.Pos()), sentinel+" is produced on a path that is not guarded by a comparison of the reader's error with io.EOF/io.ErrUnexpectedEOF: a real I/O failure or a parse failure could be reported as end of stream")
				}
			}
		}
	}
	r.Count("sentinel_productions", n)
	r.Floor("E4", "productions of "+sentinel, n, 1)
}

func eofGuarded(b *ssa.BasicBlock, sets IOSets) (bool, string) {
	names := map[string]bool{}
	seen := map[*ssa.BasicBlock]bool{}
	var rec func(b *ssa.BasicBlock) bool
	rec = func(b *ssa.BasicBlock) bool {
		if seen[b] {
			return true
		}
		seen[b] = true
		if len(b.Preds) == 0 {
			return false
		}
		for _, p := range b.Preds {
			if iff, ok := p.Instrs[len(p.Instrs)-1].(*ssa.If); ok && p.Succs[0] != p.Succs[1] {
				x, g, eq, ok := sentinelCompare(iff.Cond)
				if ok && g.Pkg.Pkg.Path() == "io" && (g.Name() == "EOF" || g.Name() == "ErrUnexpectedEOF") && isReaderErr(x, sets) {
					if (p.Succs[0] == b) == eq {
						names["io."+g.Name()] = true
						continue
					}
				}
			}
			if !rec(p) {
				return false
			}
		}
		return true
	}
	ok := rec(b)
	var ns []string
	for n := range names {
		ns = append(ns, n)
	}
	sort.Strings(ns)
	return ok && len(ns) > 0, strings.Join(ns, " / ")
}

func isReaderErr(v ssa.Value, sets IOSets) bool {
	for _, l := range ssau.Leaves(v) {
		if l == nil {
			return false
		}
		e, ok := l.(*ssa.Extract)
		var call *ssa.Call
		if ok {
			call, _ = e.Tuple.(*ssa.Call)
		} else {
			call, _ = l.(*ssa.Call)
		}
		if call == nil {
			return false
		}
		if isReaderPrimitive(&call.Call) {
			continue
		}
		if f := call.Call.StaticCallee(); f != nil && sets.Reader[f] {
			continue // error handed up unwrapped or wrapped by a function that reads from the reader
		}
		return false
	}
	return true
}

// E5 — count discipline for API-level functions returning (int, error): the returned count is a sum
// whose leaves are the constant 0 and counts returned by (int, error) callees; on success returns every
// such callee of the function contributes.
func E5(p *load.Program, r *report.Report, fnKeys []string) {
	for _, k := range fnKeys {
		f := p.Func(k)
		if f == nil {
			r.Unknown("E5", k, "", "anchor function not found")
			continue
		}
		sig := f.Signature
		if sig.Results().Len() != 2 || !ssau.IsErrorType(sig.Results().At(1).Type()) {
			r.Unknown("E5", k, p.Pos(f.Pos()), "anchor function no longer returns (int, error)")
			continue
		}
		// (int, error) callees
		var callees []*ssa.Call
		for _, ci := range ssau.Calls(f) {
			c, ok := ci.(*ssa.Call)
			if !ok {
				continue
			}
			s := c.Call.Signature()
			if s.Results().Len() == 2 && ssau.IsErrorType(s.Results().At(1).Type()) {
				if b, ok := s.Results().At(0).Type().Underlying().(*types.Basic); ok && b.Kind() == types.Int {
					callees = append(callees, c)
				}
			}
		}
		for ri, ret := range ssau.Returns(f) {
			key := fmt.Sprintf("%s/return#%d", load.FuncName(f), ri)
			leaves, okShape := sumLeaves(ret.Results[0])
			if !okShape {
				r.Bad("E5", key, p.Pos(ret.Pos()), "returned byte count is not a sum of callee counts (contains a term that is not backed by a write)")
				continue
			}
			isSuccess := ssau.IsNilConst(ret.Results[1])
			missing := ""
			if isSuccess {
				for _, c := range callees {
					// callee must be able to reach this return
					if !ssau.Reaches(c.Block(), ret.Block()) {
						continue
					}
					found := false
					for _, l := range leaves {
						if e, ok := l.(*ssa.Extract); ok && e.Tuple == ssa.Value(c) && e.Index == 0 {
							found = true
						}
					}
					if !found {
						missing = shortCallee(ssau.CalleeName(&c.Call))
					}
				}
			}
			if missing != "" {
				r.Bad("E5", key, p.Pos(ret.Pos()), "success return does not include the byte count of "+missing)
			} else {
				r.OK("E5", key, p.Pos(ret.Pos()), fmt.Sprintf("count = sum over %d leaves, each 0 or a callee count", len(leaves)))
			}
		}
	}
}

func sumLeaves(v ssa.Value) ([]ssa.Value, bool) {
	var out []ssa.Value
	seen := map[ssa.Value]bool{}
	ok := true
	var rec func(v ssa.Value)
	rec = func(v ssa.Value) {
		if seen[v] {
			return
		}
		seen[v] = true
		switch x := v.(type) {
		case *ssa.Phi:
			for _, e := range x.Edges {
				rec(e)
			}
		case *ssa.BinOp:
			if x.Op == token.ADD {
				rec(x.X)
				rec(x.Y)
			} else {
				ok = false
			}
		case *ssa.Const:
			if n, isInt := ssau.ConstInt(x); !isInt || n != 0 {
				ok = false
			}
		case *ssa.Extract:
			c, isCall := x.Tuple.(*ssa.Call)
			if !isCall || x.Index != 0 {
				ok = false
				return
			}
			s := c.Call.Signature()
			if s.Results().Len() != 2 || !ssau.IsErrorType(s.Results().At(1).Type()) {
				ok = false
			}
			out = append(out, x)
		case *ssa.UnOp:
			if x.Op == token.MUL {
				if a, isA := x.X.(*ssa.Alloc); isA && ssau.SpillSlot(a) {
					vals, _ := ssau.ReachingStores(a, x)
					for _, s := range vals {
						rec(s)
					}
					return
				}
			}
			ok = false
		default:
			ok = false
		}
	}
	rec(v)
	return out, ok
}

// E6 — short reads: every Read on an io.Reader must tolerate short reads: it is made through
// io.ReadFull / io.ReadAtLeast, or its byte-count result is used.
func E6(p *load.Program, r *report.Report) int {
	n := 0
	for _, f := range p.SrcFuncs() {
		k := 0
		for _, ci := range ssau.Calls(f) {
			cc := ci.Common()
			name := ssau.CalleeName(cc)
			if name != "iface:(io.Reader).Read" && name != "(*bufio.Reader).Read" && name != "iface:(io.ReadSeeker).Read" {
				continue
			}
			k++
			n++
			key := fmt.Sprintf("%s/Read#%d", load.FuncName(f), k)
			call, ok := ci.(*ssa.Call)
			used := false
			if ok {
				for _, v := range ssau.ResultValue(call, 0) {
					for _, ref := range *v.Referrers() {
						if _, isDbg := ref.(*ssa.DebugRef); !isDbg {
							used = true
						}
					}
				}
			}
			if used {
				r.OK("E6", key, p.Pos(ci.Pos()), "byte count of Read is consumed")
			} else {
				r.Bad("E6", key, p.Pos(ci.Pos()), "a single Read on the reader ignores the byte count: a short read (allowed by the io.Reader contract) leaves the buffer partly unfilled")
			}
		}
	}
	return n
}

// E5b — on the failure edge of a callee that returns (count, error), the count the caller returns must not
// include that callee's count: after a failed write the callee's count is not what reached the writer.
func E5b(p *load.Program, r *report.Report, accurate []string) {
	// callees whose own count is proven (rule E5) to be a sum of counts of successful writes: their count
	// is accurate even when they fail, and may be passed on
	exempt := map[*ssa.Function]bool{}
	for _, k := range accurate {
		if f := p.Func(k); f != nil {
			exempt[f] = true
		}
	}
	n := 0
	for _, f := range p.SrcFuncs() {
		sig := f.Signature
		if sig.Results().Len() < 2 || !ssau.IsErrorType(sig.Results().At(sig.Results().Len()-1).Type()) {
			continue
		}
		if b, ok := sig.Results().At(0).Type().Underlying().(*types.Basic); !ok || b.Kind() != types.Int {
			continue
		}
		ord := map[string]int{}
		for _, ci := range ssau.Calls(f) {
			c, ok := ci.(*ssa.Call)
			if !ok {
				continue
			}
			cs := c.Call.Signature()
			if cs.Results().Len() != 2 || !ssau.IsErrorType(cs.Results().At(1).Type()) {
				continue
			}
			if b, ok := cs.Results().At(0).Type().Underlying().(*types.Basic); !ok || b.Kind() != types.Int {
				continue
			}
			cnt := ssau.ResultValue(c, 0)
			errs := ssau.ResultValue(c, 1)
			if len(cnt) == 0 || len(errs) == 0 {
				continue
			}
			if cal := c.Call.StaticCallee(); cal != nil && exempt[cal] {
				continue
			}
			short := shortCallee(ssau.CalleeName(&c.Call))
			ord[short]++
			key := fmt.Sprintf("%s/%s#%d", load.FuncName(f), short, ord[short])
			n++
			d, _ := derivedSet(f, errs[0])
			bad := ""
			for v := range d {
				refs := v.Referrers()
				if refs == nil {
					continue
				}
				for _, ref := range *refs {
					bo, ok := ref.(*ssa.BinOp)
					if !ok {
						continue
					}
					nc, ok := ssau.AsNilCompare(bo)
					if !ok || !d[nc.X] {
						continue
					}
					for _, rr := range *bo.Referrers() {
						iff, ok := rr.(*ssa.If)
						if !ok {
							continue
						}
						nonNil := iff.Block().Succs[1]
						if nc.Ne {
							nonNil = iff.Block().Succs[0]
						}
						if len(nonNil.Preds) != 1 {
							continue // shared block: cannot attribute the return to the failure edge
						}
						for _, ret := range reachableReturns(nonNil, iff.Block()) {
							if !nonNil.Dominates(ret.Block()) {
								continue
							}
							if includesCount(ret.Results[0], cnt[0], nonNil) {
								bad = fmt.Sprintf("the return at %s on the failure edge of %s still adds that call's byte count", p.Pos(ret.Pos()), short)
							}
						}
					}
				}
			}
			if bad != "" {
				r.Bad("E5b", key, p.Pos(c.Pos()), bad+": the reported count can exceed what the writer accepted")
			} else {
				r.OK("E5b", key, p.Pos(c.Pos()), "the callee's count is not part of any count returned on its failure edge")
			}
		}
	}
	r.Count("count_error_call_sites", n)
}

// includesCount: the summands of v (through +, phi edges coming from blocks dominated by `from`, spill
// slots) include the value cnt.
func includesCount(v, cnt ssa.Value, from *ssa.BasicBlock) bool {
	seen := map[ssa.Value]bool{}
	var rec func(v ssa.Value) bool
	rec = func(v ssa.Value) bool {
		if v == cnt {
			return true
		}
		if seen[v] {
			return false
		}
		seen[v] = true
		switch x := v.(type) {
		case *ssa.BinOp:
			if x.Op == token.ADD {
				return rec(x.X) || rec(x.Y)
			}
		case *ssa.Phi:
			for i, e := range x.Edges {
				pred := x.Block().Preds[i]
				if x.Block() == from || from.Dominates(pred) || pred == from {
					if rec(e) {
						return true
					}
				}
			}
		case *ssa.UnOp:
			if x.Op == token.MUL {
				if a, ok := x.X.(*ssa.Alloc); ok && ssau.SpillSlot(a) {
					vals, _ := ssau.ReachingStores(a, x)
					for _, s := range vals {
						if rec(s) {
							return true
						}
					}
				}
			}
		}
		return false
	}
	return rec(v)
}

// E4b — end of input is never turned into success: on the true edge of a comparison of an error with io.EOF the error
// may be replaced by the end-of-stream sentinel or propagated, but not by nil. (io.ErrUnexpectedEOF is different: a
// partial read did deliver bytes; dropping it is the documented way to accept a short last read.) Swallowing io.EOF
// makes an exhausted reader look like a successful read of nothing: the caller then fails on stale/zero bytes for
// ever and never reports the end of the stream.
func E4b(p *load.Program, r *report.Report) {
	n := 0
	for _, f := range p.SrcFuncs() {
		k := 0
		for _, b := range f.Blocks {
			if len(b.Instrs) == 0 {
				continue
			}
			iff, ok := b.Instrs[len(b.Instrs)-1].(*ssa.If)
			if !ok {
				continue
			}
			cmp, ok := iff.Cond.(*ssa.BinOp)
			if !ok || (cmp.Op != token.EQL && cmp.Op != token.NEQ) {
				continue
			}
			isEOF := func(v ssa.Value) bool {
				u, ok := v.(*ssa.UnOp)
				if !ok {
					return false
				}
				g := ssau.GlobalOf(u)
				return g != nil && g.Name() == "EOF" && g.Pkg != nil && g.Pkg.Pkg.Path() == "io"
			}
			var errVal ssa.Value
			switch {
			case isEOF(cmp.Y):
				errVal = cmp.X
			case isEOF(cmp.X):
				errVal = cmp.Y
			default:
				continue
			}
			_ = errVal
			k++
			n++
			edge := 0
			if cmp.Op == token.NEQ {
				edge = 1
			}
			t := b.Succs[edge]
			key := fmt.Sprintf("%s/io.EOF-test#%d", load.FuncName(f), k)
			bad := ""
			// the block reached when the error IS io.EOF, up to its unconditional continuation
			cur, from := t, b
			for steps := 0; steps < 4 && bad == ""; steps++ {
				idx := -1
				for i, pr := range cur.Preds {
					if pr == from {
						idx = i
					}
				}
				for _, in := range cur.Instrs {
					switch x := in.(type) {
					case *ssa.Phi:
						if idx >= 0 && ssau.IsErrorType(x.Type()) {
							if c, isC := x.Edges[idx].(*ssa.Const); isC && c.Value == nil && len(cur.Preds) > 1 && from != b {
								bad = "the error is replaced by nil"
							}
							if c, isC := x.Edges[idx].(*ssa.Const); isC && c.Value == nil && from == b {
								bad = "the error is replaced by nil"
							}
						}
					case *ssa.Store:
						if c, isC := x.Val.(*ssa.Const); isC && c.Value == nil && ssau.IsErrorType(x.Val.Type()) {
							bad = "nil is stored into the error variable"
						}
					}
				}
				if len(cur.Succs) != 1 {
					break
				}
				from, cur = cur, cur.Succs[0]
			}
			if bad == "" {
				r.OK("E4b", key, p.Pos(cmp.Pos()), "on the io.EOF edge the error is mapped to a non-nil error or propagated, never to nil")
			} else {
				r.Bad("E4b", key, p.Pos(cmp.Pos()), "io.EOF is turned into success: "+bad+" on the edge where the reader reported io.EOF (an exhausted reader then looks like a successful read of nothing and the end of the stream is never reported)")
			}
		}
	}
	r.Floor("E4b", "comparisons of an error with io.EOF", n, 2)
}

// E2c — an I/O error is cleared only by looking at it: where an error that may come from the reader/writer is merged
// with a nil constant (phi) on a path on which the producing call has executed, the branch that selects nil must test
// that very error (against nil, a sentinel, or through errors.Is). Clearing it under any other condition ("some bytes
// were read", "the buffer is not empty") swallows real failures.
func E2c(p *load.Program, r *report.Report, sets IOSets) {
	n := 0
	for _, f := range p.SrcFuncs() {
		k := 0
		for _, b := range f.Blocks {
			for _, in := range b.Instrs {
				phi, ok := in.(*ssa.Phi)
				if !ok {
					break
				}
				if !ssau.IsErrorType(phi.Type()) {
					continue
				}
				for i, e := range phi.Edges {
					c, isC := e.(*ssa.Const)
					if !isC || c.Value != nil {
						continue
					}
					pred := b.Preds[i]
					// the error values merged with this nil
					for j, o := range phi.Edges {
						if j == i {
							continue
						}
						call := ioErrCall(o, sets)
						if call == nil || !call.Block().Dominates(pred) {
							continue
						}
						k++
						n++
						key := fmt.Sprintf("%s/cleared-error#%d", load.FuncName(f), k)
						cond := controllingCond(pred, call.Block())
						if cond == nil {
							r.Unknown("E2c", key, p.Pos(phi.Pos()), "the condition under which the I/O error is replaced by nil could not be located")
							continue
						}
						if condTestsError(cond, o) {
							r.OK("E2c", key, p.Pos(phi.Pos()), "the I/O error is replaced by nil only under a test of that error")
						} else if outer := identifiedAs(pred, call.Block(), o); outer != nil {
							r.OK("E2c", key, p.Pos(phi.Pos()), "the I/O error is replaced by nil only inside the branch on which it has been identified as a specific value ("+outer.String()+")")
						} else {
							r.Bad("E2c", key, p.Pos(phi.Pos()), "an error that may come from the reader/writer is replaced by nil under a condition that does not look at it ("+cond.String()+"): a real failure is swallowed")
						}
					}
				}
			}
		}
	}
	r.Count("cleared_io_errors", n)
}

// ioErrCall: v is (an extract of) the error result of a call that may fail because of the reader/writer.
func ioErrCall(v ssa.Value, sets IOSets) *ssa.Call {
	var call *ssa.Call
	switch x := v.(type) {
	case *ssa.Extract:
		call, _ = x.Tuple.(*ssa.Call)
	case *ssa.Call:
		call = x
	}
	if call == nil {
		return nil
	}
	if t, _ := sets.ioTainted(&call.Call); !t {
		return nil
	}
	return call
}

// controllingCond: the condition of the nearest branch (walking up the dominator tree from b, not beyond stop) one of
// whose successors leads to b exclusively.
func controllingCond(b, stop *ssa.BasicBlock) ssa.Value {
	for cur := b; cur != nil; cur = cur.Idom() {
		d := cur.Idom()
		if d == nil {
			return nil
		}
		if iff, ok := d.Instrs[len(d.Instrs)-1].(*ssa.If); ok {
			// cur is reached through exactly one successor of d
			viaT := d.Succs[0] == cur || d.Succs[0].Dominates(cur)
			viaF := d.Succs[1] == cur || d.Succs[1].Dominates(cur)
			if viaT != viaF {
				return iff.Cond
			}
		}
		if d == stop {
			return nil
		}
	}
	return nil
}

// identifiedAs: some branch between stop and b (dominator chain) is taken on the edge on which err equals a specific non-nil value
// (err == Sentinel, !(err != Sentinel), errors.Is(err, Sentinel)): everything below it only runs for that one error. A comparison
// with nil does not count here — `if err != nil { if n > 0 { err = nil } }` looks at the error and still swallows every failure.
func identifiedAs(b, stop *ssa.BasicBlock, err ssa.Value) ssa.Value {
	same := func(v ssa.Value) bool {
		if v == err {
			return true
		}
		for _, l := range ssau.Leaves(v) {
			if l == err {
				return true
			}
		}
		return false
	}
	isNil := func(v ssa.Value) bool { c, ok := v.(*ssa.Const); return ok && c.Value == nil }
	for cur := b; cur != nil; cur = cur.Idom() {
		d := cur.Idom()
		if d == nil {
			return nil
		}
		if iff, ok := d.Instrs[len(d.Instrs)-1].(*ssa.If); ok {
			viaT := d.Succs[0] == cur || d.Succs[0].Dominates(cur)
			viaF := d.Succs[1] == cur || d.Succs[1].Dominates(cur)
			if viaT != viaF {
				cond, want := iff.Cond, viaT
				for {
					u, ok := cond.(*ssa.UnOp)
					if !ok || u.Op != token.NOT {
						break
					}
					cond, want = u.X, !want
				}
				switch c := cond.(type) {
				case *ssa.BinOp:
					if (c.Op == token.EQL && want) || (c.Op == token.NEQ && !want) {
						if (same(c.X) && !isNil(c.Y)) || (same(c.Y) && !isNil(c.X)) {
							return iff.Cond
						}
					}
				case *ssa.Call:
					if n := ssau.CalleeName(&c.Call); n == "errors.Is" && want && len(c.Call.Args) == 2 && same(c.Call.Args[0]) && !isNil(c.Call.Args[1]) {
						return iff.Cond
					}
				}
			}
		}
		if d == stop {
			return nil
		}
	}
	return nil
}

// condTestsError: the condition compares err (or a value it flows to/from) or passes it to errors.Is/As.
func condTestsError(cond ssa.Value, err ssa.Value) bool {
	same := func(v ssa.Value) bool {
		if v == err {
			return true
		}
		for _, l := range ssau.Leaves(v) {
			if l == err {
				return true
			}
		}
		return false
	}
	switch c := cond.(type) {
	case *ssa.BinOp:
		if c.Op == token.EQL || c.Op == token.NEQ {
			return same(c.X) || same(c.Y)
		}
	case *ssa.Call:
		n := ssau.CalleeName(&c.Call)
		if n == "errors.Is" || n == "errors.As" {
			for _, a := range c.Call.Args {
				if same(a) {
					return true
				}
			}
		}
	case *ssa.UnOp:
		if c.Op == token.NOT {
			return condTestsError(c.X, err)
		}
	}
	return false
}

// E4c — the end-of-stream sentinel travels bare. Callers recognise the end of the stream by comparing with the sentinel
// itself (NextData does, and so does the documented read loop), so on the paths of the demuxer the sentinel must never be
// wrapped: every fmt.Errorf that wraps an error which may be the bare sentinel (it comes, through phis, from a call of a
// function that can return the bare sentinel) is dominated by the edge of a comparison of that error with the sentinel on
// which they differ. A wrap by an errors.Is-guard counts only if the guard is the != / ! form on that very value.
func E4c(p *load.Program, r *report.Report, sentinel string) {
	var sg *ssa.Global
	if m, ok := p.SSAPkg.Members[sentinel].(*ssa.Global); ok {
		sg = m
	}
	if sg == nil {
		r.Unknown("E4c", "anchor/"+sentinel, "", "sentinel not found")
		return
	}
	funcs := p.SrcFuncs()
	may := map[*ssa.Function]bool{}
	isSentinelLoad := func(v ssa.Value) bool { return ssau.GlobalOf(v) == sg }
	for changed := true; changed; {
		changed = false
		for _, f := range funcs {
			if may[f] {
				continue
			}
			ei := ssau.ErrorResultIndex(f.Signature)
			if ei < 0 {
				continue
			}
			for _, ret := range ssau.Returns(f) {
				if len(ret.Results) <= ei {
					continue
				}
				for _, l := range ssau.Leaves(ret.Results[ei]) {
					if isSentinelLoad(l) {
						may[f] = true
					}
					if c := callOfValue(l); c != nil {
						if cal := c.Call.StaticCallee(); cal != nil && may[cal] {
							may[f] = true
						}
					}
				}
			}
			if may[f] {
				changed = true
			}
		}
	}
	n := 0
	for _, f := range funcs {
		k := 0
		for _, ci := range ssau.Calls(f) {
			call, ok := ci.(*ssa.Call)
			if !ok || ssau.CalleeName(call.Common()) != "fmt.Errorf" {
				continue
			}
			vals, okv := ssau.VarargValues(call.Call.Args[len(call.Call.Args)-1])
			if !okv {
				continue
			}
			for _, a := range vals {
				a = ssau.StripIface(a)
				if !ssau.IsErrorType(a.Type()) {
					continue
				}
				canBe := false
				for _, l := range ssau.Leaves(a) {
					if isSentinelLoad(l) {
						canBe = true
					}
					if c := callOfValue(l); c != nil {
						if cal := c.Call.StaticCallee(); cal != nil && may[cal] {
							canBe = true
						}
					}
				}
				if !canBe {
					continue
				}
				n++
				k++
				key := fmt.Sprintf("%s/wrap#%d", load.FuncName(f), k)
				guarded := false
				for _, e := range ssau.DominatingEdges(call.Block()) {
					x, g, eq, ok := sentinelCompare(e.If.Cond)
					if !ok || g != sg || !ssau.SameValue(x, a) {
						continue
					}
					if _, viaIs := e.If.Cond.(*ssa.Call); viaIs {
						// errors.Is(err, S) false edge: err is neither S nor wraps S
						if e.Succ == 1 {
							guarded = true
						}
						continue
					}
					onTrue := e.Succ == 0
					if onTrue != eq {
						guarded = true
					}
				}
				if guarded {
					r.OK("E4c", key, p.Pos(call.Pos()), "the wrapped error is known to differ from "+sentinel+" here")
				} else {
					r.Bad("E4c", key, p.Pos(call.Pos()), "an error that can be the bare "+sentinel+" is wrapped: callers that compare with == (NextData, the documented read loop) no longer see the end of the stream")
				}
			}
		}
	}
	r.Floor("E4c", "wraps of errors that may be the end-of-stream sentinel", n, 2)
}

func callOfValue(v ssa.Value) *ssa.Call {
	switch x := v.(type) {
	case *ssa.Call:
		return x
	case *ssa.Extract:
		if c, ok := x.Tuple.(*ssa.Call); ok {
			return c
		}
	}
	return nil
}
